#!/usr/bin/env python3
"""usage: python3 replay.py C12|C13 schedule.ndjson [repo]  -- replays schedules with the real driver, judges with LockRec12/13, prints rejected"""
import sys, os, json
sys.path.insert(0, '/verif/lib'); sys.path.insert(0, '/verif')
os.environ["VERIF_WORK_SUFFIX"] = "-Lreplay"
if len(sys.argv) > 3:
    os.environ["VERIF_REPO"] = sys.argv[3]
import importlib
import verif
importlib.reload(verif)
from props import lock_common as lc
pid = sys.argv[1]
ctx = verif.Ctx(pid, "quick", 1)
out = ctx.go_test("internal/repository", "^TestVerif_%s$" % pid, tags=lc.TAGS, env={"VERIF_VECTORS": os.path.abspath(sys.argv[2])}, timeout=900)
mod = "LockRec12" if pid == "C12" else "LockRec13"
n, bad, lines = ctx.check_records(mod, os.path.join(out, "recs.ndjson"))
print("records", n, "rejected", bad)
for l in lines:
    r = json.loads(l)
    print(r["id"], r["sched"]); print(" out", r["out"], "probe", r["probe"], "autos", r["autos"], "noops", r["noops"], "mods", r.get("mods"))
    last = None
    for o in r["obs"]:
        key = (json.dumps(o["f"]), json.dumps([p[:4] for p in o["p"]]))
        if key != last:
            print("  i=%d ev=%d now=%d f=%s p=%s" % (o["i"], o["ev"], o["now"], o["f"], o["p"][:r["n"] + 1]))
            last = key
for l in open(os.path.join(out, "diag.ndjson")):
    d = json.loads(l); print("trace", d["trace"][-40:]); print("logs", d["logs"])
