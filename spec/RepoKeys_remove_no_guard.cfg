SPECIFICATION Spec
CONSTANTS
  Pw = {"a", "b"}
  MaxKeys = 4
  Atomic = TRUE
  Variant = "remove_no_guard"
INVARIANTS
  SomeKeyWorks
  ConfigPresentAtomic

PROPERTIES
  KeyInUseKept
CHECK_DEADLOCK FALSE
