SPECIFICATION Spec
