----------------------------- MODULE RetryProps -----------------------------
(***************************************************************************)
(* C35: what the retrying backend (internal/backend/retry) must deliver    *)
(* under a script of backend faults, as predicates over the record of one  *)
(* operation; used as the invariant of the design model Retry.tla and by   *)
(* RecOK on records of the real retry.Backend.                             *)
(* Statement: "Under any sequence of transient backend errors, a retried   *)
(* operation either completes with the same result an error-free backend   *)
(* gives or reports an error; listing reports each file at most once, a    *)
(* failed save never leaves a partial file under its final name, and       *)
(* permanent errors are not retried."                                      *)
(*                                                                         *)
(*  r.op      "save" | "load" | "stat" | "remove" | "list"                 *)
(*  r.flag    feature backend-error-redesign enabled (the default)         *)
(*  r.atomic  wrapped backend has atomic replace                           *)
(*  r.faults  fault the wrapped backend applied at each attempt, in order: *)
(*            "ok" | "before" (fails, no effect) | "partial" (fails after  *)
(*            partial data) | "after" (fails after the full effect) |      *)
(*            "perm" (permanent error) | "ppartial" (permanent error after *)
(*            partial data) | "notexist" | "mid0".."mid2" (listing fails   *)
(*            after j entries)                                             *)
(*  r.vary    list: how the wrapped backend's listing differs between      *)
(*            attempts: "same" | "size" | "order" | "both"                 *)
(*  r.ok      the operation returned nil                                   *)
(*  r.final   save/remove: file under the final name at the end: "absent", *)
(*            "full", "partial"; load: what the last consumer call read:   *)
(*            "full", "partial", "none"; stat: "right", "wrong", "none"    *)
(*  r.reported, r.names   list: names passed to fn in order / existing     *)
(*  r.second, r.third     load: outcome of a second / later Load of the    *)
(*            same file on a now error-free backend: "ok-full", "error",   *)
(*            "ok-wrong", "n/a"                                            *)
(***************************************************************************)
EXTENDS Naturals, Sequences, FiniteSets

Range(s) == {s[i] : i \in DOMAIN s}

\* a successful operation has the result an error-free backend gives
SameResult(r) ==
  r.ok => CASE r.op = "save"   -> r.final = "full"
            [] r.op = "load"   -> r.final = "full"
            [] r.op = "stat"   -> r.final = "right"
            [] r.op = "remove" -> r.final = "absent"
            [] r.op = "list"   -> Range(r.reported) = Range(r.names)

\* listing reports each file at most once (also when it fails in the end)
ListOnce(r) == \A i, j \in DOMAIN r.reported : i # j => r.reported[i] # r.reported[j]

\* a failed save never leaves a partial file under its final name
NoPartial(r) == (r.op = "save" /\ ~r.ok) => r.final # "partial"

\* errors that are permanent for the operation in the given configuration: the deprecated behaviour
\* (flag off) retries everything except a Stat of a missing file
Permanent(r, f) == \/ f \in {"perm", "ppartial"} /\ r.flag
                   \/ f = "notexist" /\ (r.flag \/ r.op = "stat")
\* permanent errors are not retried: no attempt follows one
PermNotRetried(r) == \A i \in DOMAIN r.faults : Permanent(r, r.faults[i]) => i = Len(r.faults)

\* later loads of the same file (circuit breaker): correct data or an error, never wrong data
LaterLoads(r) == r.second # "ok-wrong" /\ r.third # "ok-wrong"

RecOK(r) == SameResult(r) /\ ListOnce(r) /\ NoPartial(r) /\ PermNotRetried(r) /\ LaterLoads(r)
=============================================================================
