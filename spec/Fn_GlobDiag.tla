---------------------------- MODULE Fn_GlobDiag ----------------------------
(* C28 violation reports: writes, for the records Fn_GlobRec!RecOK rejected, what the model expects *)
EXTENDS Fn_GlobRec, Json
DRecs == ndJsonDeserialize("bad.ndjson")
ASSUME ndJsonSerialize("exp.ndjson",
          [k \in 1..Len(DRecs) |-> [l |-> SetToSeq(ExpectedL(DRecs[k])), need |-> SetToSeq(ExpectedNeed(DRecs[k])),
                                    bad |-> RecBad(DRecs[k])]])
VARIABLE diagDummy
Init == diagDummy = 0
Next == diagDummy' = diagDummy
Spec == Init /\ [][Next]_diagDummy
=============================================================================
