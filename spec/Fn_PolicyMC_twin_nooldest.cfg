SPECIFICATION Spec
CONSTANTS
 MaxLen = 2
 MonoLen = 1
 Twin = "nooldest"
INVARIANTS Conforms
CHECK_DEADLOCK FALSE
