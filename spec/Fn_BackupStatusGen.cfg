SPECIFICATION Spec
