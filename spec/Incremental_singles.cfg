SPECIFICATION Spec
CONSTANTS
  Paths = {"a"}
  EditPlan <- Plan01
  Twin = FALSE
  Modes = {"inc"}
  Emit = TRUE
INVARIANT IncEqualsFull
CHECK_DEADLOCK FALSE
