SPECIFICATION Spec
CONSTANTS
  Paths = {"a"}
  EditPlan <- Plan01
  Twin = FALSE
  Modes = {"inc"}
  FlagSet = {"none", "ignore-ctime", "ignore-inode"}
  Targets = {"dir"}
  Bigs = {FALSE}
  FaultKinds = {}
  MaxVictim = 0
  Emit = TRUE
INVARIANT IncEqualsFull
CHECK_DEADLOCK FALSE
