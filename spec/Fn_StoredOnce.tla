---------------------------- MODULE Fn_StoredOnce ----------------------------
(***************************************************************************)
(* C16: identical content is stored once.  One record describes one upload *)
(* session (one WithBlobUploader run = one backup) of the real             *)
(* SaveBlob -> packer manager -> uploader -> master index code:            *)
(*   r.old       blobs (tokens) listed by the headers of the packs that    *)
(*               existed when the session began = what the loaded index    *)
(*               knows or earlier sessions of the same process saved       *)
(*   r.stored    header entries of all packs uploaded during the session,  *)
(*               in upload order, WITH multiplicity (a blob listed twice   *)
(*               by one header occurs twice)                               *)
(*   r.accepted  blobs SaveBlob accepted without error (a set, as list)    *)
(*   r.fresh     one entry per SaveBlob call that reported the blob as     *)
(*               new (known = FALSE), with multiplicity                    *)
(* The sessions never ask for duplicates (storeDuplicate = FALSE).         *)
(*                                                                         *)
(* The statement: a blob that is already in the loaded index or was        *)
(* already saved earlier in the same run is not stored again, however      *)
(* often and from however many goroutines it is handed in.                 *)
(***************************************************************************)
EXTENDS Naturals, Sequences, FiniteSets

Elems(s) == {s[k] : k \in DOMAIN s}
Injective(s) == Cardinality(Elems(s)) = Len(s)

StoredOnceOK(old, stored, accepted, fresh) ==
  /\ Injective(stored)                        \* nothing stored twice within the run (not even in one pack)
  /\ Elems(stored) \cap Elems(old) = {}       \* nothing stored that was known before the run
  /\ Elems(accepted) \subseteq Elems(old) \cup Elems(stored)   \* accepted content is in the repository
  /\ Injective(fresh)                         \* a blob is reported as new at most once ...
  /\ Elems(fresh) = Elems(stored)             \* ... namely exactly when this run stored it

RecOK(r) == StoredOnceOK(r.old, r.stored, r.accepted, r.fresh)

\* vacuity control: the judge accepts a plain session and rejects each kind of repetition
ASSUME StoredOnceOK(<<"b1">>, <<"b2", "b3">>, <<"b1", "b2", "b3">>, <<"b3", "b2">>)
ASSUME ~StoredOnceOK(<<"b1">>, <<"b2", "b2">>, <<"b2">>, <<"b2">>)
ASSUME ~StoredOnceOK(<<"b1">>, <<"b1", "b2">>, <<"b1", "b2">>, <<"b1", "b2">>)
ASSUME ~StoredOnceOK(<<"b1">>, <<"b2">>, <<"b2">>, <<"b2", "b2">>)
ASSUME ~StoredOnceOK(<<>>, <<"b2">>, <<"b2", "b3">>, <<"b2">>)
=============================================================================
