SPECIFICATION Spec
CONSTANTS
 MaxLen = 3
 MonoLen = 2
 Twin = "ge"
INVARIANTS Conforms
CHECK_DEADLOCK FALSE
