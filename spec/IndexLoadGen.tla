---------------------------- MODULE IndexLoadGen ----------------------------
(* C08 vector generation: every valid history (add an absent file / remove a present file / reload) over the files
   GenFiles with at most GenMax steps that ends with a reload, written to hist.ndjson for replay into the real code. *)
EXTENDS Fn_IndexLoad, TLC, Json, SequencesExt
INSTANCE VerifParams      \* GenFiles, GenMax

RECURSIVE Hist(_, _)
Hist(P, k) == IF k = 0 THEN {<<>>}
              ELSE UNION { {<<o>> \o h : h \in Hist(After(P, o), k - 1)} : o \in Enabled(GenFiles, P) }

\* histories never contain two reloads in a row (the second sees nothing new) except at the very start
Useful(h) == /\ h[Len(h)].op = "reload"
             /\ \A i \in 2..Len(h) : ~(h[i].op = "reload" /\ h[i-1].op = "reload")
All == UNION { {h \in Hist({}, k) : Useful(h)} : k \in 1..GenMax }

ASSUME PrintT(<<"histories", Cardinality(All)>>)
ASSUME ndJsonSerialize("hist.ndjson", SetToSeq({[h |-> h] : h \in All}))

VARIABLE x
Init == x = 0
Next == x' = x
Spec == Init /\ [][Next]_x
=============================================================================
