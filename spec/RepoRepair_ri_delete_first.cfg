SPECIFICATION Spec
CONSTANTS
  MaxDamage = 1
  Variant = "ri_delete_first"
CONSTRAINT Bound
INVARIANTS
  NoNewLoss
  RepairIndexPost
PROPERTIES
  SalvageRule
CHECK_DEADLOCK FALSE
