--------------------------- MODULE Fn_PackFormat ---------------------------
(***************************************************************************)
(* C06: pack files list back exactly the blobs written into them.          *)
(*                                                                         *)
(* Reference model of the pack file format as documented in               *)
(* doc/design.rst ("Pack Format"):                                         *)
(*                                                                         *)
(*   EncryptedBlob1 || ... || EncryptedBlobN || EncryptedHeader || Len32   *)
(*   EncryptedHeader = IV(16) || Enc(entries) || MAC(16)                   *)
(*   entry = type(1) || len32 [|| ulen32 if type in {2,3}] || id(32)       *)
(*                                                                         *)
(* Everything is arithmetic in units of bytes.  Byte contents are          *)
(* abstracted by the Go driver:                                            *)
(*   * the encrypted header is an ideal AEAD message: `auth` says whether  *)
(*     the Len32 bytes in front of the length field are byte-identical to  *)
(*     a message sealed under the repository key (the driver keeps every   *)
(*     sealed message it made or the Packer made); if so `items` is the    *)
(*     plaintext of that message in the abstract form below (decoded by    *)
(*     the driver's own decoder, not by restic);                           *)
(*   * blob ids are tokens: position of the id in the sequence of blobs    *)
(*     of the case, 0 = an id the driver does not know;                    *)
(*   * the value of the length field is clamped to 2^30 (all thresholds    *)
(*     are far below).                                                     *)
(*                                                                         *)
(* item  = [tb, len, ulen, id, n]   tb  type byte 0..255                   *)
(*                                  n   number of bytes of this item that  *)
(*                                      are present (a trailing fragment   *)
(*                                      has n < FullSize(tb))              *)
(***************************************************************************)
EXTENDS Naturals, Sequences, FiniteSets

IvSize    == 16
MacSize   == 16
LenField  == 4
IdSize    == 32
Overhead  == IvSize + MacSize
\* reader side limit of restic (pack.MaxHeaderSize): headers above it MAY be rejected
MaxHeaderSize == 16 * 1024 * 1024 + LenField

EntrySize(compressed) == 1 + 4 + (IF compressed THEN 4 ELSE 0) + IdSize
FullSize(tb) == IF tb \in {2, 3} THEN EntrySize(TRUE) ELSE EntrySize(FALSE)
TypeByte(t, compressed) == (IF t = "tree" THEN 1 ELSE 0) + (IF compressed THEN 2 ELSE 0)
TypeOf(tb) == IF tb \in {1, 3} THEN "tree" ELSE "data"

RECURSIVE SumLen(_, _), SumN(_, _)
\* sum of s[j].len (resp. s[j].n) for j in 1..k
SumLen(s, k) == IF k = 0 THEN 0 ELSE SumLen(s, k - 1) + s[k].len
SumN(s, k)   == IF k = 0 THEN 0 ELSE SumN(s, k - 1) + s[k].n

\* ---------------------------------------------------------------- reading --
WellFormed(items) == \A i \in DOMAIN items : items[i].tb \in 0..3 /\ items[i].n = FullSize(items[i].tb)

\* the listing the documentation defines for a well-formed header: offsets are prefix sums
Listing(items) ==
  [i \in DOMAIN items |->
     [t    |-> TypeOf(items[i].tb),
      off  |-> SumLen(items, i - 1),
      len  |-> items[i].len,
      ulen |-> IF items[i].tb \in {2, 3} THEN items[i].ulen ELSE 0,
      id   |-> items[i].id]]

\* f = [size, lenfield, auth, items]: a file is a readable pack iff the length field points at an
\* authentic sealed message inside the file and that message is a well-formed entry list
Valid(f) ==
  /\ f.lenfield >= Overhead
  /\ f.lenfield + LenField <= f.size
  /\ f.auth
  /\ WellFormed(f.items)

\* restic must list it (the statement leaves open: packs without any entry, headers above the reader
\* limit, headers whose lengths do not add up to the blob area)
MustAccept(f) ==
  /\ Valid(f)
  /\ Len(f.items) >= 1
  /\ f.lenfield + LenField <= MaxHeaderSize
  /\ SumLen(f.items, Len(f.items)) + f.lenfield + LenField = f.size

\* o = [err, panic, listed, hdr_size]
ListOK(f, o) ==
  /\ ~o.panic
  /\ o.err => ~MustAccept(f)
  /\ ~o.err => /\ Valid(f)
               /\ o.listed = Listing(f.items)
               /\ o.hdr_size = f.lenfield + LenField

\* ---------------------------------------------------------------- writing --
\* blob = [t, len, ulen]  (ulen = 0: stored uncompressed)
Encode(blobs) ==
  [i \in DOMAIN blobs |->
     [tb   |-> TypeByte(blobs[i].t, blobs[i].ulen # 0),
      len  |-> blobs[i].len,
      ulen |-> blobs[i].ulen,
      id   |-> i,
      n    |-> EntrySize(blobs[i].ulen # 0)]]

HeaderSize(blobs) == Overhead + LenField + SumN(Encode(blobs), Len(blobs))

ExpectedListing(blobs) ==
  [i \in DOMAIN blobs |->
     [t |-> blobs[i].t, off |-> SumLen(blobs, i - 1), len |-> blobs[i].len, ulen |-> blobs[i].ulen, id |-> i]]

\* r: blobs added through Packer.Add, Finalize, then List of the written file
WriteOK(r) ==
  IF Len(r.blobs) = 0
  THEN r.fin_err \/ (r.f.auth /\ r.f.items = <<>>)        \* a pack without blobs may be refused
  ELSE /\ ~r.fin_err
       /\ r.f.auth
       /\ r.f.items = Encode(r.blobs)                                  \* documented layout, decoded independently
       /\ r.f.lenfield = HeaderSize(r.blobs) - LenField
       /\ r.f.size = SumLen(r.blobs, Len(r.blobs)) + HeaderSize(r.blobs)
       /\ r.psize = r.f.size                                            \* Packer.Size()
       /\ r.add_ret = [i \in DOMAIN r.blobs |-> r.blobs[i].len + EntrySize(r.blobs[i].ulen # 0)]
       /\ ~r.out.err
       /\ r.out.listed = ExpectedListing(r.blobs)
       /\ r.out.hdr_size = HeaderSize(r.blobs)
       /\ r.calc_hdr = HeaderSize(r.blobs)                              \* pack.CalculateHeaderSize(listed)
       /\ r.pblobs_ok                                                   \* Packer.Blobs() = listed

\* ------------------------------------------------------- entry-limit packs --
\* r: n_plain uncompressed entries followed by n_comp compressed ones, zero-length payloads; r.full is the
\* sequence of [k, full] observations of Packer.HeaderFull() with k blobs added
HdrBytes(a, b) == Overhead + LenField + a * EntrySize(FALSE) + b * EntrySize(TRUE)
Fits(a, b) == HdrBytes(a, b) <= MaxHeaderSize

BoundOK(r) ==
  /\ ~r.panic
  /\ (Fits(r.n_plain, r.n_comp) /\ r.n_plain + r.n_comp >= 1) =>
        /\ ~r.fin_err /\ ~r.list_err /\ r.equal
        /\ r.hdr_size = HdrBytes(r.n_plain, r.n_comp)
        /\ r.size = r.hdr_size
  /\ (~r.fin_err /\ ~r.list_err) => r.equal                \* never a wrong listing
  \* HeaderFull() = FALSE promises that one more entry of any kind still fits
  /\ \A i \in DOMAIN r.full :
        ~r.full[i].full => IF r.full[i].k < r.n_plain THEN Fits(r.full[i].k, 1) ELSE Fits(r.n_plain, r.full[i].k - r.n_plain + 1)
  \* the advertised limit (pack.MaxHeaderEntries) is usable with entries of any kind
  /\ Fits(0, r.max_entries)

RecOK(r) ==
  CASE r.kind = "rt"    -> ListOK(r.f, r.out) /\ WriteOK(r)
    [] r.kind = "bound" -> BoundOK(r)
    [] OTHER            -> ListOK(r.f, r.out)
=============================================================================
