SPECIFICATION Spec
CONSTANTS
  N = 2
  MaxTime = 10
  MaxSkew = 3
  Budget = 0
  Variant = "f2ignore"
  Faults <- SaveFault
  MaxToggle = 1
  Removal = FALSE
  Remotes <- RemotesNone
  MaxWaits = 99
  HistMax = 0
  Emit = FALSE
  MaxAtt = 1
  Crashes = FALSE
  StartBy = 10
  StartFrom = 9
  HealOdds = 3
  ListLag = FALSE
  FixSkew = TRUE
  MaxMods = 0
  Edge = TRUE
VIEW View
INVARIANTS TypeOK InvExclusionMargin
CHECK_DEADLOCK FALSE
