SPECIFICATION Spec
CONSTANTS
  Pw = {"a", "b"}
  MaxKeys = 4
  Atomic = TRUE
  Variant = "ok"
INVARIANTS
  SomeKeyWorks
  ConfigPresentAtomic

PROPERTIES
  KeyInUseKept
CHECK_DEADLOCK FALSE
