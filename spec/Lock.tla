-------------------------------- MODULE Lock --------------------------------
(***************************************************************************)
(* C12 / C13: design model of restic's repository locking                  *)
(* (internal/repository/lock.go, lock_file.go), one action per backend     *)
(* operation (List / Load / Save / Remove on lock files) of a process.     *)
(*                                                                         *)
(* Time unit 2.5 min: refresh interval 2, refreshability timeout 9, stale  *)
(* after 12.  The processes define the reference clock; the third party    *)
(* running `unlock` (StaleRm) and any other judge of staleness is off by   *)
(* skewU, |skewU| <= MaxSkew (only differences matter).  The environment may *)
(* stall a process inside backend operations for at most Budget units in   *)
(* total (premise of C12) and may make backend operations of a process     *)
(* fail (Faults).  Timers (200 ms sleeps, retry delays, refresh ticker,    *)
(* 1 s polling of the expiry monitor) are much finer than the unit: they   *)
(* fire in the action Wait, which does not advance the coarse clock, and   *)
(* Tick is disabled while a timer is due.                                  *)
(*                                                                         *)
(* Variant "code"/"design"  the protocol as implemented: when the expiry    *)
(*                         monitor wants to hand over a forced refresh     *)
(*                         while the refresher reports a (slow) successful *)
(*                         regular refresh, the notification is accepted   *)
(*                         and ignored, then the forced refresh runs       *)
(*         "blockinghandover" negative twin (restic before 0bbee0d26): the *)
(*                         two unbuffered channel sends block each other,  *)
(*                         no refresh and no cancellation ever after       *)
(*         "norecheck"   negative twin: no second check after creating     *)
(*         "removefirst" negative twin: refresh removes the old lock file  *)
(*                         before it creates the replacement               *)
(*         "sleepfirst"  negative twin: check - wait - create - check again *)
(*                         (only wrong under listing delay, ListLag)       *)
(*         "f2ignore"    negative twin: the forced refresh reports success  *)
(*                         although its second existence check found the   *)
(*                         old lock file missing                           *)
(*                                                                         *)
(* Listing delay (ListLag = TRUE): a lock file is invisible to every       *)
(* LISTING of the lock directory (ListOp of the two checks, the existence  *)
(* checks F1 / F2 of the forced refresh, which list the directory) from    *)
(* its creation until time passes (the next Wait or Tick: the delay is     *)
(* shorter than every sleep of the protocol); Load / Remove by name are    *)
(* not affected, removals are visible at once.  `fresh` is the set of      *)
(* such files.                                                             *)
(*                                                                         *)
(* Modifications (MaxMods > 0): a worker of the lock holder issues non-lock *)
(* modifications through the connection limiting backend (sema), which the *)
(* forced refresh FREEZES (tryRefreshStaleLock: Freeze - refreshStaleLock -  *)
(* cancel on failure - Unfreeze).  A modification issued while frozen waits *)
(* at the freeze gate and looks at the context only afterwards, so it does  *)
(* not reach the storage when the forced refresh failed (wac = "write after *)
(* cancel" never becomes TRUE).  Twin "ctxcheckfirst": the context is        *)
(* looked at before the gate.  Binding limits: a modification is issued      *)
(* while frozen only where no virtual time has to pass before Unfreeze       *)
(* (SafeGate), and no Wait / Tick happens while one waits at the gate.       *)
(*                                                                         *)
(* A third party whose clock is ahead by up to the documented margin       *)
(* (MaxSkew = 3 units = 7.5 min) can remove the lock file of a LIVE holder *)
(* (older than 22.5 min) while the holder's expiry monitor is just forcing *)
(* a refresh (the monitor's time stamp lags the lock file's by the         *)
(* duration of the last refresh).  robbedAt records when that happened;    *)
(* the holder must stop within the time it is stalled (ExclusionMargin in  *)
(* LockObs.tla).                                                           *)
(* The premise of C12 is read jointly (clock difference + total stall of a *)
(* holder <= the margin of 3 units): ExclusionMargin holds for MaxSkew = 3  *)
(* with Budget = 1 (Lock_skew2.cfg) and, with the edge clock (Edge), with   *)
(* Budget = 0 (Lock_skew2e.cfg, Lock_q_skew2_goals.cfg); with Edge and      *)
(* Budget = 1 it is violated (Lock_skew2e_budget1.cfg, the "premise twin"): *)
(* a regular refresh, which does not check that the old lock file still     *)
(* exists, re-creates the lock of a robbed holder after a newcomer acquired *)
(* (see /verif/findings/C12-boundary-skew-plus-stall/).                     *)
(*                                                                         *)
(* hist records the schedule (who moved) that the harness replays into the *)
(* real lockers; it is hidden by the VIEW in exhaustive runs.              *)
(***************************************************************************)
EXTENDS Integers, Sequences, FiniteSets, TLC, Json, SequencesExt, LockObs

CONSTANTS N, MaxTime, MaxSkew, Budget, Variant, Faults, MaxToggle, Removal, Remotes, MaxWaits, HistMax, Emit,
          MaxAtt,    \* attempts of newLock per Lock() call that the model follows (>= 2)
          Crashes,   \* BOOLEAN: processes may die at any point
          StartBy,   \* processes start (in order 1, 2, ...) at times <= StartBy
          StartFrom, \* ... and the processes 2, 3, ... not before StartFrom (newcomers)
          HealOdds,  \* schedule generation: a fault ends with probability 1/HealOdds per step
          ListLag,   \* BOOLEAN: listings show a new lock file only after time has passed (next Wait / Tick)
          FixSkew,   \* BOOLEAN: the third party's clock is ahead by exactly MaxSkew (else any value in -MaxSkew..MaxSkew)
          MaxMods,   \* number of non-lock modifications the worker of a lock holder issues (0: none)
          Edge       \* BOOLEAN: the third party judges a lock file stale at age >= STALE (not only > STALE): all sleeps and
                     \* polls take no time here, in reality the expiry monitor forces the refresh when the lock file is
                     \* 22.5 min + 200 ms (+ <= 1 s) old, so that a clock ahead by exactly 7.5 min already sees it stale

VARIABLES now, files, pr, skewU, toggles, waits, hist, emitted, fresh
vars == <<now, files, pr, skewU, toggles, waits, hist, emitted, fresh>>
View == <<now, files, pr, skewU, toggles, emitted, fresh>>

Procs     == 1..N
RefreshIv == 2
RTO       == 9
STALE     == 12
MaxTries  == 4
UnitMs    == 150000

NoFile == [o |-> -1, t |-> 0, x |-> FALSE, g |-> 0]      \* g: files are distinct even with equal time stamps
OpStates   == {"list", "load", "create", "rmown", "rsave", "rrm", "f1", "fsave", "f2", "frm", "fclean", "fcleanok", "unl"}
HoldStates == {"hold", "rsave", "rrm", "f1", "fsave", "fsleep", "f2", "frm", "fclean", "fcleanok", "stuck"}
FStates    == {"f1", "fsave", "fsleep", "f2", "frm", "fclean", "fcleanok"}
Terminal   == {"failed", "released", "dead"}

Local(p) == now + pr[p].skew
Visible  == files \ fresh       \* what a listing of the lock directory shows

InitProc(s) == [pc |-> "idle", x |-> FALSE, mine |-> NoFile, repl |-> NoFile, listed |-> {}, checked |-> {},
                tries |-> 0, att |-> 0, phase |-> 1, ctx |-> FALSE, lastRef |-> 0, monRef |-> 0, nextRef |-> 0,
                forcing |-> FALSE, skew |-> s, down |-> {}, since |-> 0, used |-> 0, robbed |-> FALSE, robbedAt |-> 0, ts |-> 0, newest |-> 0, gen |-> 0,
                mod |-> "none", passed |-> FALSE, nmods |-> 0, wac |-> FALSE]

Init ==
  /\ now = 0
  /\ \E R \in Remotes : files = R          \* lock files of holders on other hosts: [o |-> 0, t, x, g]
  /\ pr = [p \in Procs |-> InitProc(0)]       \* only clock differences matter: the processes define the reference,
  /\ skewU \in (IF FixSkew THEN {MaxSkew} ELSE (0 - MaxSkew)..MaxSkew)   \* the observer (third party, remote judge) is off by skewU
  /\ fresh = {}
  /\ toggles = 0
  /\ waits = 0
  /\ hist = IF Emit THEN [k \in 1..Cardinality(files) |-> [op |-> "remote", p |-> 0, x |-> (CHOOSE f \in files : TRUE).x, k |-> ""]] ELSE <<>>
  /\ emitted = FALSE

\* forget what cannot matter any more (keeps the state space small)
Norm(r) ==
  IF r.pc \in Terminal THEN [InitProc(0) EXCEPT !.pc = r.pc, !.wac = r.wac]
  ELSE LET r1 == IF r.pc \in OpStates THEN r ELSE [r EXCEPT !.since = 0]
       IN  IF r1.pc \in HoldStates \cup {"unl"}
           THEN [r1 EXCEPT !.tries = 0, !.att = 0, !.phase = 1, !.checked = {}, !.listed = {}]
           ELSE [r1 EXCEPT !.lastRef = 0, !.monRef = 0, !.nextRef = 0]

\* schedule generation (simulation mode): environment actions are taken less often than protocol steps
Sim == Emit /\ TLCGet("config").mode # "bfs"
Rare(n) == ~Sim \/ RandomElement(1..n) = 1

H(op, p, x, k) == [op |-> op, p |-> p, x |-> x, k |-> k]
Rec(h) == hist' = IF Emit THEN Append(hist, h) ELSE hist

\* process p moves to record r (a backend operation ends a stall) and the schedule gets one more entry
\* Unfreeze: the modification waiting at the freeze gate goes on; it reaches the storage iff the context is alive
\* when it is looked at - after the gate (code) or before it (twin "ctxcheckfirst")
Resolve(old, r) ==
  IF old.mod = "blocked" /\ r.pc \notin FStates
  THEN LET applied == IF Variant = "ctxcheckfirst" THEN old.passed ELSE r.ctx IN
       [r EXCEPT !.mod = "none", !.passed = FALSE, !.wac = @ \/ (applied /\ ~r.ctx)]
  ELSE r

Move(p, r, h) ==
  /\ pr' = [pr EXCEPT ![p] = Norm(Resolve(pr[p], [r EXCEPT !.since = now,
                                            !.used = IF pr[p].pc \in OpStates THEN @ + (now - pr[p].since) ELSE @]))]
  /\ Rec(h)
  /\ UNCHANGED <<now, skewU, toggles, waits, emitted>>

StepH(p) == H("step", p, FALSE, "")

\* where the refresher goroutine goes when it is back in its select loop
Ret(r) == IF ~r.ctx THEN "unl" ELSE IF r.forcing THEN "f1" ELSE "hold"

---------------------------------------------------------------------------
(* acquiring: check - create - wait - check again *)

NewFile(p) == [o |-> p, t |-> pr[p].ts, x |-> pr[p].x, g |-> pr[p].gen + 1]

Start(p, x) ==
  /\ pr[p].pc = "idle" /\ now <= StartBy
  /\ p > 1 => (pr[p - 1].pc # "idle" /\ now >= StartFrom)     \* symmetry breaking: processes are interchangeable
  /\ Move(p, [pr[p] EXCEPT !.pc = "list", !.phase = 1, !.x = x, !.ts = Local(p), !.tries = 0, !.att = 1, !.checked = {}],
          H("start", p, x, ""))
  /\ UNCHANGED files

\* the check failed with a lock conflict or for good: newLock returns an error;
\* Lock() (retryLock = 0) makes one more attempt, or more (both timer channels are ready)
Conflicted(r, lp) ==
  LET nxt == IF r.phase = 1 THEN "again" ELSE "rmown" IN [r EXCEPT !.pc = nxt, !.listed = {}]
GaveUp(r) == [r EXCEPT !.pc = IF r.phase = 1 THEN "failed" ELSE "rmownf", !.listed = {}]

\* a Load/List error: retry after a delay, at most MaxTries tries
Errored(r) ==
  IF r.tries + 1 >= MaxTries THEN GaveUp(r) ELSE [r EXCEPT !.tries = @ + 1, !.pc = "retry", !.listed = {}]

Holding(r, lp) == [r EXCEPT !.pc = "hold", !.ctx = TRUE, !.lastRef = r.ts, !.monRef = lp, !.nextRef = now + RefreshIv,
                            !.listed = {}, !.checked = {}]
PhaseDone(r, lp) == IF r.phase = 1 THEN [r EXCEPT !.pc = IF Variant = "sleepfirst" THEN "sleep1" ELSE "create", !.listed = {}]
                    ELSE Holding(r, lp)

ListOp(p) ==
  LET r == pr[p] IN
  /\ r.pc = "list"
  /\ IF "List" \in r.down THEN Move(p, Errored(r), StepH(p))
     ELSE LET L == {f \in Visible : f \notin r.checked /\ f # r.mine} IN
          IF L = {} THEN Move(p, PhaseDone(r, Local(p)), StepH(p))
          ELSE Move(p, [r EXCEPT !.pc = "load", !.listed = L], StepH(p))
  /\ UNCHANGED files

LoadOp(p, f) ==
  LET r == pr[p] IN
  /\ r.pc = "load" /\ f \in r.listed
  /\ IF "Load" \in r.down \/ f \notin files THEN Move(p, Errored(r), StepH(p))
     ELSE IF r.x \/ f.x THEN Move(p, Conflicted(r, Local(p)), StepH(p))
     ELSE LET r2 == [r EXCEPT !.checked = @ \cup {f}, !.listed = @ \ {f}] IN
          IF r2.listed = {} THEN Move(p, PhaseDone(r2, Local(p)), StepH(p)) ELSE Move(p, r2, StepH(p))
  /\ UNCHANGED files

Create(p) ==
  LET r == pr[p] IN
  /\ r.pc = "create"
  /\ IF "Save" \in r.down THEN Move(p, [r EXCEPT !.pc = "failed"], StepH(p)) /\ UNCHANGED files
     ELSE IF "SaveAfter" \in r.down      \* the file is stored, but the operation reports an error: an orphan is left behind
          THEN files' = files \cup {NewFile(p)} /\ Move(p, [r EXCEPT !.pc = "failed"], StepH(p))
     ELSE LET f == NewFile(p) IN
          /\ files' = files \cup {f}
          /\ IF Variant = "sleepfirst"      \* the wait came before: the second check follows at once
             THEN Move(p, [r EXCEPT !.pc = "list", !.phase = 2, !.tries = 0, !.checked = {}, !.mine = f, !.newest = r.ts, !.gen = @ + 1], StepH(p))
             ELSE Move(p, [r EXCEPT !.pc = "sleep", !.mine = f, !.newest = r.ts, !.gen = @ + 1], StepH(p))

\* conflict in the second check: remove the own lock file, then (maybe) try again
RmOwn(p) ==
  LET r == pr[p] IN
  /\ r.pc \in {"rmown", "rmownf"}
  /\ files' = IF "Remove" \in r.down THEN files ELSE files \ {r.mine}
  /\ Move(p, [r EXCEPT !.pc = IF r.pc = "rmown" THEN "again" ELSE "failed", !.mine = NoFile], StepH(p))

\* Lock(): after an "already locked" error one more attempt is made (or several)
Again(p) ==
  LET r == pr[p] IN
  /\ r.pc = "again"
  /\ UNCHANGED files
  /\ \/ /\ r.att < MaxAtt
        /\ pr' = [pr EXCEPT ![p] = [r EXCEPT !.pc = "list", !.phase = 1, !.ts = Local(p), !.tries = 0, !.att = @ + 1,
                                             !.checked = {}, !.since = now]]
     \/ /\ (r.att >= 2 \/ r.att >= MaxAtt)
        /\ pr' = [pr EXCEPT ![p] = Norm([r EXCEPT !.pc = "failed"])]
  /\ UNCHANGED <<now, skewU, toggles, waits, hist, emitted>>

---------------------------------------------------------------------------
(* holding: regular refresh = create the replacement, then remove the old file *)


RSave(p) ==
  LET r == pr[p] IN
  /\ r.pc = "rsave"
  /\ IF Variant = "removefirst"
     THEN \* the old file is already gone
          IF "Save" \in r.down THEN Move(p, [r EXCEPT !.pc = Ret(r)], StepH(p)) /\ UNCHANGED files
          ELSE /\ files' = files \cup {NewFile(p)}
               /\ Move(p, [r EXCEPT !.mine = NewFile(p), !.gen = @ + 1, !.newest = r.ts, !.lastRef = r.ts, !.monRef = Local(p), !.pc = Ret(r)], StepH(p))
     ELSE IF "Save" \in r.down THEN Move(p, [r EXCEPT !.pc = Ret(r)], StepH(p)) /\ UNCHANGED files
          ELSE IF "SaveAfter" \in r.down
               THEN files' = files \cup {NewFile(p)} /\ Move(p, [r EXCEPT !.gen = @ + 1, !.newest = r.ts, !.pc = Ret(r)], StepH(p))
          ELSE /\ files' = files \cup {NewFile(p)}
               /\ Move(p, [r EXCEPT !.repl = NewFile(p), !.gen = @ + 1, !.newest = r.ts, !.pc = "rrm"], StepH(p))

RRm(p) ==
  LET r == pr[p] IN
  /\ r.pc = "rrm"
  /\ IF Variant = "removefirst"
     THEN IF "Remove" \in r.down \/ r.mine \notin files
          THEN Move(p, [r EXCEPT !.pc = Ret(r)], StepH(p)) /\ UNCHANGED files
          ELSE files' = files \ {r.mine} /\ Move(p, [r EXCEPT !.pc = "rsave"], StepH(p))
     ELSE LET r1 == [r EXCEPT !.mine = r.repl, !.repl = NoFile] IN   \* the replacement is adopted first
          IF "Remove" \in r.down \/ r.mine \notin files
          THEN Move(p, [r1 EXCEPT !.pc = Ret(r1)], StepH(p)) /\ UNCHANGED files      \* refresh reported as failed
          ELSE /\ files' = files \ {r.mine}
               /\ IF r.forcing /\ r.ctx
                  THEN \* the monitor is waiting to hand over a forced refresh while the refresher wants to report success
                       IF Variant = "blockinghandover" THEN Move(p, [r1 EXCEPT !.lastRef = r.ts, !.pc = "stuck"], StepH(p))
                       ELSE Move(p, [r1 EXCEPT !.lastRef = r.ts, !.pc = "f1"], StepH(p))   \* notification ignored, forced refresh follows
                  ELSE Move(p, [r1 EXCEPT !.lastRef = r.ts, !.monRef = Local(p), !.pc = Ret(r1)], StepH(p))

---------------------------------------------------------------------------
(* forced refresh by the expiry monitor: exists? - create - wait - exists? - adopt; else cancel the context *)

FFail(r) == [r EXCEPT !.ctx = FALSE, !.forcing = FALSE, !.pc = "unl"]

F1(p) ==
  LET r == pr[p] IN
  /\ r.pc = "f1" /\ UNCHANGED files
  /\ IF ~r.ctx \/ "List" \in r.down \/ r.mine \notin Visible THEN Move(p, FFail(r), StepH(p))
     ELSE Move(p, [r EXCEPT !.ts = Local(p), !.pc = "fsave"], StepH(p))

FSave(p) ==
  LET r == pr[p] IN
  /\ r.pc = "fsave"
  /\ IF ~r.ctx \/ "Save" \in r.down THEN Move(p, FFail(r), StepH(p)) /\ UNCHANGED files
     ELSE IF "SaveAfter" \in r.down
          THEN files' = files \cup {NewFile(p)} /\ Move(p, FFail([r EXCEPT !.gen = @ + 1, !.newest = r.ts]), StepH(p))
     ELSE /\ files' = files \cup {NewFile(p)}
          /\ Move(p, [r EXCEPT !.repl = NewFile(p), !.gen = @ + 1, !.newest = r.ts, !.pc = "fsleep"], StepH(p))

F2(p) ==
  LET r == pr[p] IN
  /\ r.pc = "f2" /\ UNCHANGED files
  /\ IF ~r.ctx \/ "List" \in r.down THEN Move(p, [r EXCEPT !.pc = "fclean"], StepH(p))
     ELSE IF r.mine \notin Visible
          THEN Move(p, [r EXCEPT !.pc = IF Variant = "f2ignore" THEN "fcleanok" ELSE "fclean"], StepH(p))
     ELSE Move(p, [r EXCEPT !.pc = "frm"], StepH(p))

FClean(p) ==
  LET r == pr[p] IN
  /\ r.pc \in {"fclean", "fcleanok"}
  /\ files' = IF "Remove" \in r.down THEN files ELSE files \ {r.repl}
  /\ IF r.pc = "fcleanok"        \* twin "f2ignore": the replacement is cleaned up, but the refresh reports success
     THEN Move(p, [r EXCEPT !.repl = NoFile, !.lastRef = r.ts, !.monRef = Local(p), !.forcing = FALSE,
                            !.pc = Ret([r EXCEPT !.forcing = FALSE])], StepH(p))
     ELSE Move(p, FFail([r EXCEPT !.repl = NoFile]), StepH(p))

FRm(p) ==
  LET r  == pr[p]
      r1 == [r EXCEPT !.mine = r.repl, !.repl = NoFile] IN
  /\ r.pc = "frm"
  /\ IF "Remove" \in r.down \/ r.mine \notin files THEN Move(p, FFail(r1), StepH(p)) /\ UNCHANGED files
     ELSE /\ files' = files \ {r.mine}
          /\ Move(p, [r1 EXCEPT !.lastRef = r.ts, !.monRef = Local(p), !.forcing = FALSE, !.pc = Ret([r1 EXCEPT !.forcing = FALSE])], StepH(p))

---------------------------------------------------------------------------
(* the worker of the lock holder issues a non-lock modification (through the freezable backend) *)

Frozen(r)   == r.pc \in FStates
SafeGate(r) == \/ r.pc \in {"f2", "frm", "fclean", "fcleanok"}
               \/ r.pc = "f1" /\ "List" \in r.down
               \/ r.pc = "fsave" /\ r.down \cap {"Save", "SaveAfter"} # {}
ModBlocked  == \E p \in Procs : pr[p].mod = "blocked"

Issue(p) ==
  LET r == pr[p] IN
  /\ r.nmods < MaxMods /\ r.mod = "none" /\ r.pc \in HoldStates
  /\ Frozen(r) => SafeGate(r)
  /\ pr' = [pr EXCEPT ![p] = IF Frozen(r) THEN [r EXCEPT !.mod = "blocked", !.passed = r.ctx, !.nmods = @ + 1]
                             ELSE [r EXCEPT !.nmods = @ + 1]]     \* not frozen: done at once, iff the context is alive
  /\ Rec(H("mod", p, FALSE, ""))
  /\ UNCHANGED <<now, files, skewU, toggles, waits, emitted>>

---------------------------------------------------------------------------
(* release, crash *)

Unl(p) ==
  LET r == pr[p] IN
  /\ r.pc = "unl"
  /\ files' = IF "Remove" \in r.down THEN files ELSE files \ {r.mine}
  /\ Move(p, [r EXCEPT !.pc = "released", !.mine = NoFile], StepH(p))

Unlock(p) ==
  LET r == pr[p] IN
  /\ r.pc \in {"hold", "stuck", "rrm"} /\ r.ctx /\ Rare(8)
  /\ UNCHANGED files
  /\ Move(p, [r EXCEPT !.ctx = FALSE, !.forcing = FALSE, !.pc = IF r.pc \in {"hold", "stuck"} THEN "unl" ELSE r.pc],
          H("unlock", p, FALSE, ""))

Crash(p) ==
  /\ Crashes /\ Rare(16)
  /\ pr[p].pc \in {"sleep", "hold", "rrm", "list"}     \* with 0, 1 or 2 lock files left behind
  /\ UNCHANGED files
  /\ Move(p, [pr[p] EXCEPT !.pc = "dead", !.ctx = FALSE], H("crash", p, FALSE, ""))

---------------------------------------------------------------------------
(* environment *)

Fail(p, k) ==
  /\ toggles < MaxToggle /\ k \in Faults /\ pr[p].down = {} /\ pr[p].pc \notin Terminal /\ Rare(8)
  /\ pr' = [pr EXCEPT ![p].down = {k}]
  /\ toggles' = toggles + 1
  /\ Rec(H("fail", p, FALSE, k))
  /\ UNCHANGED <<now, files, skewU, waits, emitted>>

Heal(p) ==
  /\ pr[p].down # {} /\ Rare(HealOdds)
  /\ pr' = [pr EXCEPT ![p].down = {}]
  /\ Rec(H("heal", p, FALSE, ""))
  /\ UNCHANGED <<now, files, skewU, toggles, waits, emitted>>

\* `restic unlock` by a third party: removes the lock files that are stale by ITS clock
StaleByU(f) == IF Edge THEN (now + skewU) - f.t >= STALE ELSE (now + skewU) - f.t > STALE
StaleRm ==
  /\ (\E f \in files : StaleByU(f)) \/ (Sim /\ files # {} /\ RandomElement(1..6) = 1)   \* `unlock` may run at any time
  /\ files' = {f \in files : ~StaleByU(f)}
  /\ pr' = [p \in Procs |-> IF \E f \in files : f.o = p /\ StaleByU(f) THEN [pr[p] EXCEPT !.robbed = TRUE, !.robbedAt = now] ELSE pr[p]]
  /\ Rec(H("stale", 0, FALSE, ToString(skewU)))     \* k: how far the third party's clock is ahead (units)
  /\ UNCHANGED <<now, skewU, toggles, waits, emitted>>

\* somebody removes the lock files of a live holder (unlock --remove-all, rm on the storage): outside C12's premise
Del(p) ==
  /\ Removal /\ toggles < MaxToggle /\ Rare(10)
  /\ pr[p].pc \in HoldStates /\ \E f \in files : f.o = p
  /\ files' = {f \in files : f.o # p}
  /\ pr' = [pr EXCEPT ![p].robbed = TRUE, ![p].robbedAt = now]
  /\ toggles' = toggles + 1
  /\ Rec(H("del", p, FALSE, ""))
  /\ UNCHANGED <<now, skewU, waits, emitted>>

\* fine-grained timers of one process fire (sleeps end, refresh ticker, monitor poll)
Sleeping(r) == r.pc \in {"sleep", "sleep1", "fsleep", "retry"}
RefreshDue(r, lp) == r.pc = "hold" /\ r.ctx /\ now >= r.nextRef
MonitorDue(r, lp) == r.pc \in HoldStates /\ r.ctx /\ ~r.forcing /\ lp - r.monRef >= RTO
TimerDue(r, lp) == Sleeping(r) \/ RefreshDue(r, lp) \/ MonitorDue(r, lp)

Fire(r, lp, tn) ==
  LET r1 == IF MonitorDue(r, lp) THEN [r EXCEPT !.forcing = TRUE] ELSE r IN
  IF r1.pc = "sleep" THEN
       IF Variant = "norecheck" THEN [Holding(r1, lp) EXCEPT !.since = tn]
       ELSE [r1 EXCEPT !.pc = "list", !.phase = 2, !.tries = 0, !.checked = {}, !.since = tn]
  ELSE IF r1.pc = "sleep1" THEN [r1 EXCEPT !.pc = "create", !.since = tn]
  ELSE IF r1.pc = "fsleep" THEN [r1 EXCEPT !.pc = "f2", !.since = tn]
  ELSE IF r1.pc = "retry" THEN [r1 EXCEPT !.pc = "list", !.since = tn]
  ELSE IF r1.pc = "hold" /\ r1.ctx /\ r1.forcing THEN [r1 EXCEPT !.pc = "f1", !.since = tn]
  ELSE IF RefreshDue(r1, lp) THEN
       IF lp - r1.lastRef > RTO THEN [r1 EXCEPT !.nextRef = @ + RefreshIv]      \* too old: wait for the monitor
       ELSE [r1 EXCEPT !.nextRef = @ + RefreshIv, !.ts = lp, !.since = tn,
                       !.pc = IF Variant = "removefirst" THEN "rrm" ELSE "rsave"]
  ELSE r1

Wait ==
  /\ waits < MaxWaits /\ ~ModBlocked
  /\ \E p \in Procs : TimerDue(pr[p], Local(p))
  /\ pr' = [p \in Procs |-> Norm(Fire(pr[p], Local(p), now))]
  /\ waits' = waits + 1
  /\ Rec(H("wait", 0, FALSE, ""))
  /\ UNCHANGED <<now, files, skewU, toggles, emitted>>

StallOk(r) == r.pc \in OpStates => r.used + (now + 1 - r.since) <= Budget

Tick ==
  /\ now < MaxTime /\ ~ModBlocked
  /\ \A p \in Procs : StallOk(pr[p]) /\ ~TimerDue(pr[p], Local(p))    \* sleeps and retry delays are short
  /\ now' = now + 1
  /\ waits' = 0
  /\ Rec(H("tick", 0, FALSE, ""))
  /\ UNCHANGED <<files, pr, skewU, toggles, emitted>>

ProcStep(p) ==
  \/ \E x \in BOOLEAN : Start(p, x)
  \/ ListOp(p) \/ (\E f \in pr[p].listed : LoadOp(p, f)) \/ Create(p) \/ RmOwn(p) \/ Again(p)
  \/ RSave(p) \/ RRm(p) \/ F1(p) \/ FSave(p) \/ F2(p) \/ FClean(p) \/ FRm(p)
  \/ Unl(p) \/ Unlock(p) \/ Crash(p)
  \/ (\E k \in Faults : Fail(p, k)) \/ Heal(p) \/ Del(p) \/ Issue(p)

Busy == (~Sim \/ Len(hist) < HistMax) /\ ~emitted

\* schedule generation: print the schedule when it is long enough or nothing else can happen
Done ==
  /\ Emit /\ ~emitted
  /\ emitted' = TRUE
  /\ PrintT(<<"SCHED", ToJson(hist)>>)
  /\ UNCHANGED <<now, files, pr, skewU, toggles, waits, hist, fresh>>

\* listing delay: files created since time last passed are not listed yet
FreshUpd ==
  fresh' = IF ~ListLag \/ now' # now \/ waits' # waits THEN {} ELSE (fresh \cup (files' \ files)) \cap files'

Act == (\E p \in Procs : ProcStep(p)) \/ StaleRm \/ Wait \/ Tick
Next ==
  \/ Busy /\ Act /\ FreshUpd
  \/ Sim /\ (Len(hist) >= HistMax \/ now >= MaxTime \/ \A p \in Procs : pr[p].pc \in Terminal) /\ Done

Spec == Init /\ [][Next]_vars

---------------------------------------------------------------------------
(* the properties, as the observation predicates of LockObs over the model state *)

B2I(b) == IF b THEN 1 ELSE 0
SetToSeq0(S) == SetToSeq(S)

Believes(p) == pr[p].pc \in HoldStates
\* newest lock file of p that p did not remove itself: one that is still there, or the one its handle points to
KeptOf(p) == LET T == {f.t : f \in {g \in files : g.o = p}} \cup {pr[p].mine.t} IN CHOOSE t \in T : \A u \in T : u <= t
\* times are reported on the reference clock (a lock file carries its owner's clock)
ObsOf ==
  [now |-> now * UnitMs,
   f   |-> SetToSeq0({<<f.o, (f.t - pr[f.o].skew) * UnitMs, B2I(f.x)>> : f \in {g \in files : g.o \in Procs}}),
   p   |-> [p \in Procs |-> <<B2I(Believes(p)), B2I(pr[p].ctx), B2I(pr[p].x), B2I(pr[p].robbed),
                              (pr[p].used + (IF pr[p].pc \in OpStates THEN now - pr[p].since ELSE 0)) * UnitMs, 0, 0,
                              pr[p].newest * UnitMs, pr[p].robbedAt * UnitMs, KeptOf(p) * UnitMs>>],
   r   |-> SetToSeq0({<<f.t * UnitMs, B2I(f.x)>> : f \in {g \in files : g.o = 0}})]

InvExclusion     == Exclusion(ObsOf)
\* with a third party whose clock is ahead (MaxSkew up to the margin): conflicting beliefs only while a robbed
\* holder is stalled on its way to the existence check of its forced refresh (times are whole units here)
InvExclusionMargin == ExclusionMargin(ObsOf, 0)
InvHolderHasFile == HolderHasFile(ObsOf)
InvFresh         == FreshWithin(ObsOf, UnitMs)     \* one unit: times are rounded to units in this model

\* nobody whose clock agrees within MaxSkew can judge the lock of an active holder stale
InvNotStale ==
  \A p \in Procs : (Believes(p) /\ pr[p].ctx /\ ~pr[p].robbed) =>
      \E f \in files : f.o = p /\ \A s \in (0 - MaxSkew)..MaxSkew : (now + s) - f.t <= STALE

\* for the "code" variant: TLC's counterexample is printed as a schedule, which the harness replays into the real code
\* C13: no modification reaches the storage after the forced refresh failed and cancelled the context
InvNoWriteAfterCancel == \A p \in Procs : ~pr[p].wac

InvNotStaleEmit == InvNotStale \/ ~PrintT(<<"SCHED", ToJson(hist)>>)

---------------------------------------------------------------------------
(* targeted schedules: in BFS mode (Emit = TRUE) TLC prints the schedule of the first (shortest, with one worker)  *)
(* behaviour that reaches a goal state, i.e. a rarely reached branch of the protocol; the harness replays it      *)
(* (followed by some steps / waits / ticks) into the real code like the simulated schedules.  The "invariants"    *)
(* below are never violated: they print once per goal (register k of TLCGet/TLCSet).                               *)
GoalNames == <<"robbed-before-fsave-newcomer-holds", "robbed-before-f2", "forced-refresh-remove-fault", "forced-refresh-cleanup",
               "conflict-in-second-check", "handover-during-refresh", "both-in-second-check", "second-attempt-holds",
               "forced-refresh-succeeded", "robbed-before-f1-newcomer-holds",
               "refresh-remove-finds-file-missing", "modification-waits-while-forced-refresh-fails",
               "modification-waits-while-forced-refresh-succeeds">>
ASSUME \A k \in 1..Len(GoalNames) : TLCSet(k, 0)
Goal(k, G) == ~G \/ TLCGet(k) = 1 \/ (TLCSet(k, 1) /\ PrintT(<<"GOAL", GoalNames[k], ToJson(hist)>>))
HoldsNow(p) == pr[p].pc = "hold" /\ pr[p].ctx
\* 1: the m1 window - process 1 passed the first existence check of its forced refresh, a third party (clock ahead)
\*    removed its lock file, a newcomer acquired a lock (at least one of the two exclusive); 2: removed before F2
InvGoal1  == Goal(1, N >= 2 /\ pr[1].pc = "fsave" /\ pr[1].ctx /\ pr[1].down = {} /\ pr[1].mine \notin files /\ HoldsNow(2) /\ (pr[1].x \/ pr[2].x))
InvGoal2  == Goal(2, pr[1].pc = "f2" /\ pr[1].ctx /\ pr[1].down = {} /\ pr[1].mine \notin files)
InvGoal3  == Goal(3, pr[1].pc = "frm" /\ "Remove" \in pr[1].down)
InvGoal4  == Goal(4, pr[1].pc = "fclean" /\ pr[1].ctx)
InvGoal5  == Goal(5, \E p \in Procs : pr[p].pc = "rmown")
InvGoal6  == Goal(6, pr[1].pc = "rrm" /\ pr[1].forcing /\ pr[1].ctx)
InvGoal7  == Goal(7, N >= 2 /\ pr[1].pc = "load" /\ pr[1].phase = 2 /\ pr[2].pc = "load" /\ pr[2].phase = 2 /\ (pr[1].x \/ pr[2].x))
InvGoal8  == Goal(8, \E p \in Procs : pr[p].pc = "sleep" /\ pr[p].att = 2)
InvGoal9  == Goal(9, pr[1].pc = "frm" /\ pr[1].ctx /\ pr[1].mine \in files /\ pr[1].down = {})
InvGoal10 == Goal(10, N >= 2 /\ pr[1].pc \in {"hold", "f1"} /\ pr[1].ctx /\ pr[1].mine \notin files /\ HoldsNow(2) /\ (pr[1].x \/ pr[2].x))
InvGoal11 == Goal(11, pr[1].pc = "rrm" /\ pr[1].ctx /\ pr[1].mine \notin files)
InvGoal12 == Goal(12, pr[1].mod = "blocked" /\ pr[1].ctx /\ (pr[1].pc = "fclean" \/ (pr[1].pc = "fsave" /\ "Save" \in pr[1].down)))
InvGoal13 == Goal(13, pr[1].mod = "blocked" /\ pr[1].ctx /\ pr[1].pc = "frm" /\ pr[1].down = {} /\ pr[1].mine \in files)

TypeOK == now \in 0..MaxTime /\ \A p \in Procs : pr[p].used <= Budget
=============================================================================
