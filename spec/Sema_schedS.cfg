SPECIFICATION SpecQS
CONSTANTS
  K = 6
  N = 2
  MaxFreeze = 2
  MaxCancel = 1
  Twin = "none"
  Record = TRUE
INVARIANTS
  Limit
  FrozenNoStart
  LockNeverBlocked
  TokensOK
  EmitSched
