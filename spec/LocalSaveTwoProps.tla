-------------------------- MODULE LocalSaveTwoProps --------------------------
(***************************************************************************)
(* C36, overlapping saves: the statement as pure operators, used as        *)
(* invariants of the design model LocalSaveTwo.tla and by RecOK on runs    *)
(* recorded from the real local.Save.                                      *)
(* Statement: "a file under its final name either does not exist or has    *)
(* its complete, final content; temporary files never appear in listings   *)
(* as repository files."                                                   *)
(***************************************************************************)
EXTENDS Naturals, Sequences

\* what is visible under the final name: "absent" | "complete" | "partial"
FinalOK(final) == final \in {"absent", "complete"}

\* number of listed repository files (well-formed names) other than the final name
ListingOK(others) == others = 0

(***************************************************************************)
(* One recorded run: two goroutines save the same handle (same content)    *)
(* through the real backend; the interleaving r.sched was chosen by TLC    *)
(* (LocalSaveTwo.tla) and is enforced with blocking readers.  r.obs[i] =   *)
(* what the directory shows after the i-th step has completed:             *)
(*   final  = "absent" | "complete" | "partial" (bytes under the final     *)
(*            name compared with the payload)                              *)
(*   others = listed well-formed repository files besides the final name   *)
(***************************************************************************)
RecOK(r) == \A i \in DOMAIN r.obs : FinalOK(r.obs[i].final) /\ ListingOK(r.obs[i].others)
=============================================================================
