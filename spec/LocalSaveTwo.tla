---------------------------- MODULE LocalSaveTwo ----------------------------
(***************************************************************************)
(* C36: two overlapping local.Save calls of the SAME handle (hence the     *)
(* same content), no crash.  Extension of the single-save procedure of     *)
(* LocalSaveProc.tla to two savers; only the steps that touch names are    *)
(* modelled (sync/close/fsyncDir/chmod do not change what a reader of the  *)
(* live directory sees):                                                   *)
(*   Open(s)    create the temporary file.  TempNames = "unique": a fresh  *)
(*              name per call (os.CreateTemp: O_EXCL + random suffix);     *)
(*              "shared" (negative twin): one name per final name, opened  *)
(*              with O_CREAT|O_TRUNC -- both savers get the same inode and *)
(*              the second open truncates it.                              *)
(*   Write(s)   write the next chunk through the saver's own descriptor    *)
(*              (own offset) into its inode                                *)
(*   Finish(s)  all chunks written: rename temp -> final (fails, and the   *)
(*              cleanup runs, when the temporary name has vanished)        *)
(*   Abort(s)   the reader fails: close, remove the temporary name         *)
(* A file's content is the set of chunk positions that hold the right      *)
(* bytes; complete = all of them.                                          *)
(* sched records the steps (10 * saver + 0 open | 1 write | 2 finish |     *)
(* 3 abort); complete schedules are printed for the replay into the real   *)
(* backend.                                                                *)
(***************************************************************************)
EXTENDS LocalSaveTwoProps, FiniteSets, TLC

CONSTANTS Chunks,     \* chunks per payload
          TempNames,  \* "unique" | "shared"
          Record

Savers == {1, 2}
All    == 1..Chunks
TmpOf(s) == IF TempNames = "shared" THEN "tmp" ELSE IF s = 1 THEN "tmp1" ELSE "tmp2"
Names  == {"final", "tmp", "tmp1", "tmp2"}

VARIABLES pc,     \* saver -> "idle" | "w" | "ok" | "failed"
          wrote,  \* saver -> chunks written so far
          fd,     \* saver -> inode of its descriptor (0 = none)
          dir,    \* name -> inode (0 = no such name)
          data,   \* inode -> set of correct chunk positions
          sched
vars == <<pc, wrote, fd, dir, data, sched>>

Inodes == 1..2

Init == /\ pc = [s \in Savers |-> "idle"] /\ wrote = [s \in Savers |-> 0] /\ fd = [s \in Savers |-> 0]
        /\ dir = [n \in Names |-> 0] /\ data = [i \in Inodes |-> {}] /\ sched = <<>>

Log(s, step) == sched' = IF Record THEN Append(sched, 10 * s + step) ELSE sched

Open(s) ==
  /\ pc[s] = "idle"
  /\ LET n == TmpOf(s) IN
     IF dir[n] = 0
     THEN /\ dir' = [dir EXCEPT ![n] = s]              \* fresh inode (number = saver)
          /\ data' = [data EXCEPT ![s] = {}]
          /\ fd' = [fd EXCEPT ![s] = s]
     ELSE /\ data' = [data EXCEPT ![dir[n]] = {}]      \* O_TRUNC on the existing file
          /\ fd' = [fd EXCEPT ![s] = dir[n]]
          /\ UNCHANGED dir
  /\ pc' = [pc EXCEPT ![s] = "w"] /\ Log(s, 0) /\ UNCHANGED wrote

Write(s) ==
  /\ pc[s] = "w" /\ wrote[s] < Chunks
  /\ data' = [data EXCEPT ![fd[s]] = @ \cup {wrote[s] + 1}]
  /\ wrote' = [wrote EXCEPT ![s] = @ + 1]
  /\ Log(s, 1) /\ UNCHANGED <<pc, fd, dir>>

Finish(s) ==
  /\ pc[s] = "w" /\ wrote[s] = Chunks
  /\ LET n == TmpOf(s) IN
     IF dir[n] # 0
     THEN /\ dir' = [dir EXCEPT !["final"] = dir[n], ![n] = 0]
          /\ pc' = [pc EXCEPT ![s] = "ok"]
     ELSE /\ UNCHANGED dir                              \* rename: ENOENT; cleanup removes nothing
          /\ pc' = [pc EXCEPT ![s] = "failed"]
  /\ Log(s, 2) /\ UNCHANGED <<wrote, fd, data>>

Abort(s) ==
  /\ pc[s] = "w"
  /\ dir' = [dir EXCEPT ![TmpOf(s)] = 0]
  /\ pc' = [pc EXCEPT ![s] = "failed"]
  /\ Log(s, 3) /\ UNCHANGED <<wrote, fd, data>>

AllDone == \A s \in Savers : pc[s] \in {"ok", "failed"}
Next == (\E s \in Savers : Open(s) \/ Write(s) \/ Finish(s) \/ Abort(s)) \/ (AllDone /\ UNCHANGED vars)
Spec == Init /\ [][Next]_vars

---------------------------------------------------------------------------
FinalState == IF dir["final"] = 0 THEN "absent"
              ELSE IF data[dir["final"]] = All THEN "complete" ELSE "partial"

NoPartialFinal == FinalOK(FinalState)
\* a save that reported success has put the file there (nobody removes or damages it afterwards)
SuccessStored  == (\E s \in Savers : pc[s] = "ok") => FinalState = "complete"
EmitSched == (Record /\ AllDone) => PrintT(<<"SCHED2", sched>>)
=============================================================================
