SPECIFICATION Spec
CONSTANTS
  N = 2
  MaxTime = 12
  MaxSkew = 3
  Budget = 1
  Variant = "design"
  Faults <- SaveFault
  MaxToggle = 1
  Removal = FALSE
  Remotes <- RemotesNone
  MaxWaits = 99
  HistMax = 0
  Emit = FALSE
  MaxAtt = 1
  Crashes = FALSE
  StartBy = 12
  StartFrom = 8
  HealOdds = 3
  ListLag = FALSE
  FixSkew = TRUE
  MaxMods = 0
  Edge = FALSE
VIEW View
INVARIANTS TypeOK InvExclusionMargin
CHECK_DEADLOCK FALSE
