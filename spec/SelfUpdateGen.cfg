SPECIFICATION Spec
CONSTANT Twin = "none"
CHECK_DEADLOCK FALSE
