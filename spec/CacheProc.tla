----------------------------- MODULE CacheProc -----------------------------
(***************************************************************************)
(* Design model for C38: one file of the repository, its copy in the local *)
(* cache directory, and the read path of restic:                           *)
(*                                                                         *)
(*   cacheBackend.Load   wait for an in-progress download of the handle,   *)
(*                       try the cached file, otherwise register in the    *)
(*                       in-progress map (or wait for whoever is           *)
(*                       registered), re-check Has, download, save to a    *)
(*                       temporary file and rename, unregister, read the   *)
(*                       cached file, fall back to the backend;            *)
(*   Repository.LoadRaw  verify the hash, on mismatch Forget the cached    *)
(*                       file (at most once per process: circuit breaker)  *)
(*                       and retry once.                                   *)
(*                                                                         *)
(* Verified loaders (process A, shared in-progress map and circuit         *)
(* breaker), raw unverified readers (process B, shares only the cache      *)
(* directory), a third party that deletes or corrupts the cached file      *)
(* between any two steps, failing downloads.  One action per critical      *)
(* section of the code.  Variant # "ok" are broken designs (negative       *)
(* twins) that TLC must refute.                                            *)
(***************************************************************************)
EXTENDS Naturals, FiniteSets, TLC

CONSTANTS Loaders,     \* verified loaders in process A
          RawReaders,  \* unverified readers in process B
          Inits,       \* initial states of the cached file
          ExtBudget,   \* number of third-party actions
          Variant      \* "ok" | "noverify" | "noforget" | "direct" | "keeppartial" |
                       \* "armfirst" (the circuit breaker is tripped by the Forget call itself, before and whether
                       \* or not a file is removed, instead of by a removal that happened)

VARIABLES cfile,      \* "absent" | "good" | "bad" (corrupt or cut short) | "partial" (being written in place)
          inprog,     \* process |-> registered downloader or "none"
          forgotten,  \* process |-> circuit breaker tripped for the file
          pc, buf, attempt, waitfor, result, dlerr,
          ext, extflip, faults, init0

vars == <<cfile, inprog, forgotten, pc, buf, attempt, waitfor, result, dlerr, ext, extflip, faults, init0>>

Procs == Loaders \cup RawReaders
ProcOf(p) == IF p \in Loaders THEN "A" ELSE "B"

Init ==
  /\ cfile \in Inits /\ init0 = cfile
  /\ inprog = [q \in {"A", "B"} |-> "none"]
  /\ forgotten = [q \in {"A", "B"} |-> FALSE]
  /\ pc = [p \in Procs |-> "start"]
  /\ buf = [p \in Procs |-> "none"]
  /\ attempt = [p \in Procs |-> 1]
  /\ waitfor = [p \in Procs |-> "none"]
  /\ result = [p \in Procs |-> "none"]
  /\ dlerr = [p \in Procs |-> FALSE]
  /\ ext = ExtBudget /\ extflip = FALSE /\ faults = FALSE

Set(f, p, v) == [f EXCEPT ![p] = v]
Readable == IF cfile = "partial" THEN "bad" ELSE cfile   \* what a reader of the final name gets

\* Load: look at the in-progress map
Start(p) ==
  /\ pc[p] = "start"
  /\ IF inprog[ProcOf(p)] = "none"
     THEN pc' = Set(pc, p, "read1") /\ UNCHANGED waitfor
     ELSE pc' = Set(pc, p, "wait1") /\ waitfor' = Set(waitfor, p, inprog[ProcOf(p)])
  /\ UNCHANGED <<cfile, inprog, forgotten, buf, attempt, result, dlerr, ext, extflip, faults, init0>>

\* the download waited for has finished (its channel is closed)
Wait(p, from, to) ==
  /\ pc[p] = from
  /\ inprog[ProcOf(p)] # waitfor[p]
  /\ pc' = Set(pc, p, to)
  /\ UNCHANGED <<cfile, inprog, forgotten, buf, attempt, waitfor, result, dlerr, ext, extflip, faults, init0>>

\* loadFromCache
Read(p, from, miss) ==
  /\ pc[p] = from
  /\ IF cfile # "absent"
     THEN buf' = Set(buf, p, Readable) /\ pc' = Set(pc, p, "verify")
     ELSE buf' = buf /\ pc' = Set(pc, p, miss)
  /\ UNCHANGED <<cfile, inprog, forgotten, attempt, waitfor, result, dlerr, ext, extflip, faults, init0>>

\* cacheFile: register as the downloader or delegate to the registered one
Register(p) ==
  /\ pc[p] = "register"
  /\ IF inprog[ProcOf(p)] = "none"
     THEN inprog' = Set(inprog, ProcOf(p), p) /\ pc' = Set(pc, p, "has") /\ UNCHANGED waitfor
     ELSE inprog' = inprog /\ pc' = Set(pc, p, "wait2") /\ waitfor' = Set(waitfor, p, inprog[ProcOf(p)])
  /\ UNCHANGED <<cfile, forgotten, buf, attempt, result, dlerr, ext, extflip, faults, init0>>

Has(p) ==
  /\ pc[p] = "has"
  /\ pc' = Set(pc, p, IF cfile # "absent" THEN "unreg" ELSE "download")
  /\ UNCHANGED <<cfile, inprog, forgotten, buf, attempt, waitfor, result, dlerr, ext, extflip, faults, init0>>

\* Backend.Load + Cache.save: temporary file, then rename (atomic); or the download fails and the
\* temporary file is removed
Download(p) ==
  /\ pc[p] = "download"
  /\ \/ /\ Variant \notin {"direct"}
        /\ cfile' = "good" /\ pc' = Set(pc, p, "unreg") /\ UNCHANGED <<dlerr, faults>>
     \/ /\ Variant = "direct"            \* twin: writes in place under the final name
        /\ cfile' = "partial" /\ pc' = Set(pc, p, "download2") /\ UNCHANGED <<dlerr, faults>>
     \/ /\ cfile' = (IF Variant = "keeppartial" THEN "bad" ELSE cfile)   \* twin: failed download renamed anyway
        /\ dlerr' = Set(dlerr, p, TRUE) /\ faults' = TRUE /\ pc' = Set(pc, p, "unreg")
  /\ UNCHANGED <<inprog, forgotten, buf, attempt, waitfor, result, ext, extflip, init0>>

Download2(p) ==
  /\ pc[p] = "download2"
  /\ cfile' = "good" /\ pc' = Set(pc, p, "unreg")
  /\ UNCHANGED <<inprog, forgotten, buf, attempt, waitfor, result, dlerr, ext, extflip, faults, init0>>

Unreg(p) ==
  /\ pc[p] = "unreg"
  /\ inprog' = Set(inprog, ProcOf(p), "none")
  /\ IF dlerr[p]
     THEN /\ dlerr' = Set(dlerr, p, FALSE) /\ buf' = Set(buf, p, "err") /\ pc' = Set(pc, p, "verify")
     ELSE /\ pc' = Set(pc, p, "read2") /\ UNCHANGED <<dlerr, buf>>
  /\ UNCHANGED <<cfile, forgotten, attempt, waitfor, result, ext, extflip, faults, init0>>

\* not cached after all: read from the backend directly
Fallback(p) ==
  /\ pc[p] = "fallback"
  /\ buf' = Set(buf, p, "good") /\ pc' = Set(pc, p, "verify")
  /\ UNCHANGED <<cfile, inprog, forgotten, attempt, waitfor, result, dlerr, ext, extflip, faults, init0>>

\* LoadRaw: hash check; raw readers hand out whatever they read
Verify(p) ==
  /\ pc[p] = "verify"
  /\ IF p \in RawReaders \/ Variant = "noverify" \/ buf[p] = "good"
     THEN /\ result' = Set(result, p, buf[p]) /\ pc' = Set(pc, p, "done") /\ UNCHANGED attempt
     ELSE IF attempt[p] = 1
     THEN /\ attempt' = Set(attempt, p, 2) /\ UNCHANGED result
          /\ pc' = Set(pc, p, IF Variant = "noforget" THEN "start" ELSE "forget")
     ELSE /\ result' = Set(result, p, "err") /\ pc' = Set(pc, p, "done") /\ UNCHANGED attempt
  /\ UNCHANGED <<cfile, inprog, forgotten, buf, waitfor, dlerr, ext, extflip, faults, init0>>

\* Cache.Forget: circuit breaker check, then remove, then remember
Forget(p) ==
  /\ pc[p] = "forget"
  /\ pc' = Set(pc, p, IF forgotten[ProcOf(p)] THEN "start" ELSE "remove")
  /\ forgotten' = IF Variant = "armfirst" THEN Set(forgotten, ProcOf(p), TRUE) ELSE forgotten
  /\ UNCHANGED <<cfile, inprog, buf, attempt, waitfor, result, dlerr, ext, extflip, faults, init0>>

Remove(p) ==
  /\ pc[p] = "remove"
  /\ IF cfile # "absent"
     THEN cfile' = "absent" /\ forgotten' = Set(forgotten, ProcOf(p), TRUE)
     ELSE UNCHANGED <<cfile, forgotten>>
  /\ pc' = Set(pc, p, "start")
  /\ UNCHANGED <<inprog, buf, attempt, waitfor, result, dlerr, ext, extflip, faults, init0>>

\* third party
ExtRm ==
  /\ ext > 0 /\ ext' = ext - 1
  /\ cfile' = "absent"
  /\ UNCHANGED <<inprog, forgotten, pc, buf, attempt, waitfor, result, dlerr, extflip, faults, init0>>
ExtFlip ==
  /\ ext > 0 /\ ext' = ext - 1
  /\ cfile \in {"good", "bad"} /\ cfile' = "bad" /\ extflip' = TRUE
  /\ UNCHANGED <<inprog, forgotten, pc, buf, attempt, waitfor, result, dlerr, faults, init0>>

Next ==
  \/ \E p \in Procs :
        \/ Start(p) \/ Wait(p, "wait1", "read1") \/ Read(p, "read1", "register") \/ Register(p)
        \/ Wait(p, "wait2", "read2") \/ Has(p) \/ Download(p) \/ Download2(p) \/ Unreg(p)
        \/ Read(p, "read2", "fallback") \/ Fallback(p) \/ Verify(p) \/ Forget(p) \/ Remove(p)
  \/ ExtRm \/ ExtFlip

Spec == Init /\ [][Next]_vars /\ WF_vars(Next)

AllDone == \A p \in Procs : pc[p] = "done"
Damaged == init0 = "bad" \/ extflip

\* every verified load returns the repository's bytes or fails
ResultOK == \A p \in Loaders : result[p] \in {"none", "good", "err"}
\* unverified reads are right as long as nobody corrupted the cache (temp + rename)
RawOK    == ~Damaged => \A p \in RawReaders : result[p] \in {"none", "good", "err"}
\* restic leaves no partial file, and a copy corrupt at the start does not survive verified loaders
NoBadLeft == (AllDone /\ ~extflip /\ (init0 = "bad" => Loaders # {})) => cfile \in {"absent", "good"}
\* a corrupted cached file is detected and replaced: undisturbed, every verified loader gets the
\* bytes and a good copy is cached again
Replaced == (AllDone /\ init0 = "bad" /\ ext = ExtBudget /\ ~faults /\ Loaders # {})
               => (cfile = "good" /\ \A p \in Loaders : result[p] = "good")
\* everybody finishes (no loader waits forever for a download that is over)
Terminates == <>AllDone
=============================================================================
