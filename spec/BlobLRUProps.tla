---------------------------- MODULE BlobLRUProps ----------------------------
(***************************************************************************)
(* C47: the properties of the in-memory blob cache, as pure operators.     *)
(* They are used twice:                                                    *)
(*   - as invariants of the design model BlobLRU.tla (model checking),     *)
(*   - by RecOK on records of what the real bloblru.Cache did when a       *)
(*     TLC-generated schedule was replayed into it (conformance).          *)
(* Statement: "The blob cache never holds more bytes than its configured   *)
(* size, and a lookup always returns the value computed for that blob ID,  *)
(* under any interleaving of concurrent lookups, computations, failures    *)
(* and evictions."                                                         *)
(***************************************************************************)
EXTENDS Naturals, Integers, Sequences, FiniteSets

RECURSIVE SumSeq(_)
SumSeq(s) == IF s = <<>> THEN 0 ELSE Head(s) + SumSeq(Tail(s))

\* costs: the sequence of the byte costs of the entries the cache holds
BudgetOK(costs, size) == SumSeq(costs) <= size

\* free is the cache's own counter of unused capacity
AccountingOK(costs, free, size) == free >= 0 /\ free + SumSeq(costs) = size

\* keys: sequence of the ids held; no id twice
NoDupOK(keys) == \A i, j \in DOMAIN keys : i # j => keys[i] # keys[j]

\* a successful lookup of id returned value v: v must be a value some computation
\* *for that id* produced (computed = set of <<id, value>> pairs produced so far)
ValueOK(id, v, computed) == <<id, v>> \in computed

\* a lookup that reports an error must report the error of a failed computation for that id
ErrorOK(id, e, failed) == <<id, e>> \in failed

(***************************************************************************)
(* Conformance of one recorded run of the real cache.                      *)
(*  r.size, r.ov         configured size, per-entry overhead constant      *)
(*  r.steps[i]           observation after step i (all goroutines parked): *)
(*     .ents  sequence of [id, cap] (oldest first), .free                  *)
(*  r.computes           sequence of [seq, id, ok, t]  (computation `seq`  *)
(*                       for `id` finished at logical time t)              *)
(*  r.rets               sequence of [id, ok, v, t]: a lookup of `id`      *)
(*                       returned at time t; v = seq of the computation    *)
(*                       whose bytes (ok) / whose error (~ok) it returned, *)
(*                       -1 if the bytes/error match no computation        *)
(*  r.stuck              lookups that never returned although every        *)
(*                       computation was allowed to finish                 *)
(***************************************************************************)
Costs(st, ov) == [i \in DOMAIN st.ents |-> st.ents[i].cap + ov]
Keys(st)      == [i \in DOMAIN st.ents |-> st.ents[i].id]

StepBudgetOK(r, st)     == BudgetOK(Costs(st, r.ov), r.size)
StepAccountingOK(r, st) == AccountingOK(Costs(st, r.ov), st.free, r.size)
StepNoDupOK(st)         == NoDupOK(Keys(st))

ComputedBefore(r, t) == {<<r.computes[k].id, r.computes[k].seq>> :
                           k \in {k \in DOMAIN r.computes : r.computes[k].ok /\ r.computes[k].t < t}}
FailedBefore(r, t)   == {<<r.computes[k].id, r.computes[k].seq>> :
                           k \in {k \in DOMAIN r.computes : ~r.computes[k].ok /\ r.computes[k].t < t}}

RetOK(r, x) == IF x.ok THEN ValueOK(x.id, x.v, ComputedBefore(r, x.t))
                       ELSE ErrorOK(x.id, x.v, FailedBefore(r, x.t))

\* cached bytes are the bytes computed for that id
EntOK(r, e) == \E k \in DOMAIN r.computes : r.computes[k].ok /\ r.computes[k].id = e.id /\ r.computes[k].seq = e.v

RecBudget(r)     == \A i \in DOMAIN r.steps : StepBudgetOK(r, r.steps[i])
RecAccounting(r) == \A i \in DOMAIN r.steps : StepAccountingOK(r, r.steps[i]) /\ StepNoDupOK(r.steps[i])
RecResults(r)    == \A i \in DOMAIN r.rets : RetOK(r, r.rets[i])
RecEntries(r)    == \A i \in DOMAIN r.steps : \A j \in DOMAIN r.steps[i].ents : EntOK(r, r.steps[i].ents[j])
RecReturns(r)    == r.stuck = <<>>

RecOK(r) == RecBudget(r) /\ RecAccounting(r) /\ RecResults(r) /\ RecEntries(r) /\ RecReturns(r)
=============================================================================
