SPECIFICATION Spec
CONSTANT Twin = "none"
INVARIANTS Safe Predicted
CHECK_DEADLOCK FALSE
