--------------------------- MODULE Fn_Incremental ---------------------------
(***************************************************************************)
(* C40: incremental (parent based) backups store the same tree as full     *)
(* backups.  Declarative part, taken from the statement and from           *)
(* doc/040_backup.rst "File change detection" / "Skipping snapshots".      *)
(*                                                                         *)
(* A node is a record [kind, content, size, mtime, ctime, inode, perm];    *)
(* content, mtime, ctime, inode are abstract tokens (equal / different is  *)
(* all that matters).                                                      *)
(***************************************************************************)
EXTENDS Naturals, Sequences, FiniteSets

Flags == {"none", "ignore-ctime", "ignore-inode"}
CtimeChecked(f) == f = "none"
InodeChecked(f) == f # "ignore-inode"      \* --ignore-inode implies --ignore-ctime

\* n: a regular file of the source now; o: the regular file at the same path in the parent snapshot
Detectable(n, o, f) ==
  \/ n.size # o.size
  \/ n.mtime # o.mtime
  \/ CtimeChecked(f) /\ n.ctime # o.ctime
  \/ InodeChecked(f) /\ n.inode # o.inode

\* premise of the statement: files whose content changed also changed size, mtime, ctime or inode
Premise(src, par, f) ==
  \A p \in DOMAIN src :
     (src[p].kind = "file" /\ par[p].kind = "file" /\ src[p].content # par[p].content) => Detectable(src[p], par[p], f)

\* documented change detection: content is presumed unchanged (and taken from the parent) iff nothing is detectable
IncNode(n, o, f) == IF n.kind = "file" /\ o.kind = "file" /\ ~Detectable(n, o, f) THEN [n EXCEPT !.content = o.content] ELSE n
IncTree(src, par, f) == [p \in DOMAIN src |-> IncNode(src[p], par[p], f)]

SetOf(s) == {s[k] : k \in DOMAIN s}

(* One recorded backup point of a replayed history (real code):             *)
(*  r.premise      the premise measured on the real metadata / content      *)
(*  r.skip         --skip-if-unchanged given;  r.has_parent  an earlier      *)
(*                 snapshot of the same host and paths exists                *)
(*  r.parent_tree  tree id of that snapshot ("" if none)                     *)
(*  r.full_tree    tree id of a backup of the same source state without      *)
(*                 parent (--force, other host)                              *)
(*  r.omitted      no snapshot was written;  r.inc_tree its tree id          *)
(*  r.inc_abs / r.model_tree  contents of the new snapshot in model tokens   *)
(*                 / the source state predicted by the model (Incremental)   *)
(*  r.model_omitted  omission predicted by the model                         *)
(*  r.loadable     every blob of the new snapshot can be loaded              *)
(*  r.fault        "none" | "treeloss" / "dataloss" (a tree blob / the data   *)
(*                 blobs of the parent snapshot were lost before this backup; *)
(*                 r.damaged) | "readerr" (this backup itself met a read      *)
(*                 error in a source file: it is no backup "of the same       *)
(*                 source" as the reference and is not judged here; its       *)
(*                 snapshot is the parent of later, judged backups)           *)
(*  r.failed       the backup command failed without writing a snapshot and   *)
(*                 without omitting it (the parentless one succeeded)         *)
RecOK(r) ==
  (r.premise /\ r.fault # "readerr") =>
    /\ ~r.failed
    /\ r.omitted = (r.skip /\ r.has_parent /\ r.parent_tree = r.full_tree)
    \* the model works on the abstract tree (no directory time stamps): when restic omits the snapshot the model
    \* must agree that nothing changed; the converse is decided exactly by the clause above on the real tree ids
    \* (a deleted entry changes its directory's mtime, so an abstractly equal tree may still differ from the parent's)
    /\ ((~r.damaged /\ r.omitted) => r.model_omitted)
    /\ ~r.omitted => /\ r.inc_tree = r.full_tree
                     /\ r.loadable
                     /\ SetOf(r.inc_abs) = SetOf(r.model_tree)

\* binding control: the replay put the source into the state the model describes (judged on the reference backup)
ReplayOK(r) == SetOf(r.full_abs) = SetOf(r.model_tree)
=============================================================================
