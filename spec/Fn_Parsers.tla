----------------------------- MODULE Fn_Parsers -----------------------------
(***************************************************************************)
(* C49: grammars and denotations of the user-supplied values restic        *)
(* parses: durations (keep-within options), byte sizes, policy counts,    *)
(* extended options (-o key=value) and check subsets (--read-data-subset). *)
(*                                                                         *)
(* Numbers are digit strings (TLC integers are 32 bit): the model returns  *)
(* normalised digit strings and decides ranges by digit-string comparison  *)
(* against the 64/32-bit bounds.  The driver reports what the real parser  *)
(* returned as decimal strings; products with units are checked through    *)
(* the quotients result / 2^k the driver computes with math/big.           *)
(*                                                                         *)
(* Every grammar function returns [v |-> "ok" | "reject" | "open", ...]:   *)
(*   ok      the string denotes a value: it must be accepted with exactly  *)
(*           that value                                                    *)
(*   reject  the string denotes nothing restic can represent: it must be   *)
(*           rejected with an error                                        *)
(*   open    the documentation does not settle the string (explicit '+',   *)
(*           "-0", repeated duration units, ...): rejection or the stated  *)
(*           candidate value are both fine, anything else is not           *)
(* A panic is never acceptable.                                            *)
(* (TLC evaluates Len, SubSeq and \o on strings.)                          *)
(***************************************************************************)
EXTENDS Integers, Sequences, FiniteSets

Ch(s, i)   == SubSeq(s, i, i)
From(s, i) == SubSeq(s, i, Len(s))
Upto(s, i) == SubSeq(s, 1, i)
Last(s)    == Ch(s, Len(s))

Digit == {"0", "1", "2", "3", "4", "5", "6", "7", "8", "9"}
DV(c) == CASE c = "0" -> 0 [] c = "1" -> 1 [] c = "2" -> 2 [] c = "3" -> 3 [] c = "4" -> 4
           [] c = "5" -> 5 [] c = "6" -> 6 [] c = "7" -> 7 [] c = "8" -> 8 [] c = "9" -> 9
IsNum(s) == Len(s) > 0 /\ \A i \in 1..Len(s) : Ch(s, i) \in Digit

\* strip leading zeros ("000" -> "0")
RECURSIVE Norm(_)
Norm(s) == IF Len(s) > 1 /\ Ch(s, 1) = "0" THEN Norm(From(s, 2)) ELSE s
IsZero(s) == Norm(s) = "0"

\* a <= b for normalised digit strings
LexLE(a, b) == a = b \/ \E i \in 1..Len(a) : /\ DV(Ch(a, i)) < DV(Ch(b, i))
                                              /\ \A j \in 1..(i - 1) : Ch(a, j) = Ch(b, j)
NumLE(a, b) == Len(a) < Len(b) \/ (Len(a) = Len(b) /\ LexLE(a, b))

MaxI64 == "9223372036854775807"
MinI64Abs == "9223372036854775808"
MaxI32 == "2147483647"
MinI32Abs == "2147483648"
MaxU32 == "4294967295"
MaxU64 == "18446744073709551615"
\* floor((2^63 - 1) / 2^k)
MaxForExp(k) == CASE k = 0 -> MaxI64 [] k = 10 -> "9007199254740991" [] k = 20 -> "8796093022207"
                  [] k = 30 -> "8589934591" [] k = 40 -> "8388607"

\* value of a short digit string as a TLC integer (only used for strings of <= 6 digits)
RECURSIVE ToInt(_)
ToInt(s) == IF s = "" THEN 0 ELSE 10 * ToInt(Upto(s, Len(s) - 1)) + DV(Last(s))

RECURSIVE TrimL(_), TrimR(_)
TrimL(s) == IF Len(s) > 0 /\ Ch(s, 1) = " " THEN TrimL(From(s, 2)) ELSE s
TrimR(s) == IF Len(s) > 0 /\ Last(s) = " " THEN TrimR(Upto(s, Len(s) - 1)) ELSE s
Trim(s)  == TrimR(TrimL(s))

\* number of leading digits
LeadDigits(s) == Cardinality({i \in 1..Len(s) : \A j \in 1..i : Ch(s, j) \in Digit})

\* an optionally signed decimal integer: [ok, sign \in {"", "+", "-"}, mag (normalised)]
Signed(s) ==
  LET sg   == IF Len(s) > 0 /\ Ch(s, 1) \in {"+", "-"} THEN Ch(s, 1) ELSE ""
      body == IF sg = "" THEN s ELSE From(s, 2)
  IN IF IsNum(body) THEN [ok |-> TRUE, sign |-> sg, mag |-> Norm(body)] ELSE [ok |-> FALSE, sign |-> "", mag |-> ""]
\* decimal rendering of a signed value
Dec(sign, mag) == IF mag = "0" THEN "0" ELSE (IF sign = "-" THEN "-" ELSE "") \o mag

Reject == [v |-> "reject"]

(* ----------------------------------------------------------------------- *)
(* 1. durations: data.ParseDuration, format 6y5m234d37h                     *)
(*    (items of an optional '-', digits, a unit y|m|d|h; blanks around)    *)
(* ----------------------------------------------------------------------- *)
Units == {"y", "m", "d", "h"}
RECURSIVE DurItems(_)
\* [ok, items]: items = sequence of [neg, mag, unit]; ok = FALSE if s is not a sequence of items
DurItems(s) ==
  IF s = "" THEN [ok |-> TRUE, items |-> <<>>]
  ELSE LET neg  == Ch(s, 1) = "-"
           body == IF neg THEN From(s, 2) ELSE s
           k    == LeadDigits(body)
       IN IF k = 0 \/ k = Len(body) \/ Ch(body, k + 1) \notin Units THEN [ok |-> FALSE, items |-> <<>>]
          ELSE LET rest == DurItems(From(body, k + 2))
               IN [ok |-> rest.ok,
                   items |-> <<[neg |-> neg, mag |-> Norm(Upto(body, k)), unit |-> Ch(body, k + 1)]>> \o rest.items]

DurField(items, u) ==
  IF \E i \in DOMAIN items : items[i].unit = u
  THEN LET it == items[CHOOSE i \in DOMAIN items : items[i].unit = u]
       IN Dec(IF it.neg THEN "-" ELSE "", it.mag)
  ELSE "0"

DurExpect(s) ==
  LET P == DurItems(Trim(s))
      items == P.items
  IN
  IF ~P.ok THEN Reject
  ELSE IF \E i \in DOMAIN items : ~NumLE(items[i].mag, MaxI64) /\ ~(items[i].neg /\ items[i].mag = MinI64Abs) THEN Reject
  ELSE IF (\E i \in DOMAIN items : items[i].neg /\ items[i].mag = MinI64Abs)
          \/ (\E i \in DOMAIN items : \E j \in DOMAIN items : i # j /\ items[i].unit = items[j].unit)
       THEN [v |-> "open"]                         \* -2^63, or a unit given twice: any value or rejection
  ELSE [v |-> "ok", y |-> DurField(items, "y"), m |-> DurField(items, "m"), d |-> DurField(items, "d"), h |-> DurField(items, "h")]

DurRecOK(r) ==
  LET e == DurExpect(r.s) IN
  CASE e.v = "reject" -> r.out = "reject"
    [] e.v = "open"   -> r.out \in {"reject", "ok"}
    [] e.v = "ok"     -> r.out = "ok" /\ r.y = e.y /\ r.m = e.m /\ r.d = e.d /\ r.h = e.h

\* Duration.String() prints a form that parses back to the same value: r.d4 = <<y, m, d, h>> (decimal strings),
\* r.s the printed form, r.out / r.y.. the result of parsing it again
RoundRecOK(r) ==
  /\ r.out = "ok" /\ <<r.y, r.m, r.d, r.h>> = r.d4
  /\ LET e == DurExpect(r.s) IN e.v = "ok" /\ <<e.y, e.m, e.d, e.h>> = r.d4     \* the printed form is in the grammar

(* ----------------------------------------------------------------------- *)
(* 2. byte sizes: ui.ParseBytes: digits and an optional suffix              *)
(*    b|B (1), k|K (2^10), m|M (2^20), g|G (2^30), t|T (2^40)              *)
(*    r.q = <<result/2^0, /2^10, /2^20, /2^30, /2^40>> ("" if not divisible)*)
(* ----------------------------------------------------------------------- *)
UnitExp(c) == CASE c \in {"b", "B"} -> 0 [] c \in {"k", "K"} -> 10 [] c \in {"m", "M"} -> 20
                [] c \in {"g", "G"} -> 30 [] c \in {"t", "T"} -> 40 [] OTHER -> -1

BytesExpect(s) ==
  IF s = "" THEN Reject
  ELSE LET k0  == UnitExp(Last(s))
           k   == IF k0 = -1 THEN 0 ELSE k0
           num == IF k0 = -1 THEN s ELSE Upto(s, Len(s) - 1)
           sg  == Signed(num)
       IN IF ~sg.ok THEN Reject
          ELSE IF sg.sign = "-" /\ sg.mag # "0" THEN Reject                        \* negative sizes
          ELSE IF ~NumLE(sg.mag, MaxForExp(k)) THEN Reject                         \* beyond 2^63 - 1 bytes
          ELSE [v |-> IF sg.sign = "" THEN "ok" ELSE "open", mag |-> sg.mag, exp |-> k]

BytesValOK(e, q) == q[(e.exp \div 10) + 1] = e.mag
BytesRecOK(r) ==
  LET e == BytesExpect(r.s) IN
  CASE e.v = "reject" -> r.out = "reject"
    [] e.v = "open"   -> r.out = "reject" \/ (r.out = "ok" /\ BytesValOK(e, r.q))
    [] e.v = "ok"     -> r.out = "ok" /\ BytesValOK(e, r.q)

(* ----------------------------------------------------------------------- *)
(* 3. policy counts: ForgetPolicyCount.Set: a non-negative decimal number   *)
(*    or "unlimited" (= -1, keep all)                                      *)
(* ----------------------------------------------------------------------- *)
CountExpect(s) ==
  IF s = "unlimited" THEN [v |-> "ok", val |-> "-1"]
  ELSE LET sg == Signed(s) IN
       IF ~sg.ok THEN Reject
       ELSE IF sg.sign = "-" /\ sg.mag # "0" THEN Reject
       ELSE IF ~NumLE(sg.mag, MaxI64) THEN Reject
       ELSE [v |-> IF sg.sign = "" THEN "ok" ELSE "open", val |-> sg.mag]

ValRecOK(e, r) ==
  CASE e.v = "reject" -> r.out = "reject"
    [] e.v = "open"   -> r.out = "reject" \/ (r.out = "ok" /\ r.val = e.val)
    [] e.v = "ok"     -> r.out = "ok" /\ r.val = e.val

(* ----------------------------------------------------------------------- *)
(* 4. extended options                                                      *)
(*  4a. options.Parse: key=value pairs, split at the first '=', keys lower- *)
(*      cased; empty key, or a key given twice with different values: error *)
(* ----------------------------------------------------------------------- *)
UpperAZ == "ABCDEFGHIJKLMNOPQRSTUVWXYZ"
LowerAZ == "abcdefghijklmnopqrstuvwxyz"
LowerCh(c) == IF \E i \in 1..26 : Ch(UpperAZ, i) = c THEN Ch(LowerAZ, CHOOSE i \in 1..26 : Ch(UpperAZ, i) = c) ELSE c
RECURSIVE LowerS(_)
LowerS(s) == IF s = "" THEN "" ELSE LowerCh(Ch(s, 1)) \o LowerS(From(s, 2))

EqPos(s) == IF \E i \in 1..Len(s) : Ch(s, i) = "=" THEN CHOOSE i \in 1..Len(s) : Ch(s, i) = "=" /\ \A j \in 1..(i - 1) : Ch(s, j) # "=" ELSE 0
KeyOf(s) == LowerS(Trim(IF EqPos(s) = 0 THEN s ELSE Upto(s, EqPos(s) - 1)))
ValOf(s) == Trim(IF EqPos(s) = 0 THEN "" ELSE From(s, EqPos(s) + 1))

OptParseRecOK(r) ==
  LET want == {<<KeyOf(r.inp[i]), ValOf(r.inp[i])>> : i \in DOMAIN r.inp}
      bad  == (\E i \in DOMAIN r.inp : KeyOf(r.inp[i]) = "")
              \/ (\E p \in want : \E q \in want : p[1] = q[1] /\ p[2] # q[2])
  IN IF bad THEN r.out = "reject"
     ELSE r.out = "ok" /\ {<<r.pairs[i][1], r.pairs[i][2]>> : i \in DOMAIN r.pairs} = want /\ Len(r.pairs) = Cardinality(want)

(*  4b. Options.Apply onto a configuration with the fields                  *)
(*      name:string retries:int connections:uint flag:bool timeout:Duration *)
(*      r.key, r.value; r.out; r.field = the field that changed ("" none),  *)
(*      r.val = its new value as text (Duration in whole milliseconds)      *)
Field(k) == CASE k = "name" -> "string" [] k = "retries" -> "int" [] k = "connections" -> "uint"
              [] k = "flag" -> "bool" [] k = "timeout" -> "duration" [] OTHER -> "unknown"
\* decimal literals without leading zeros / prefixes / underscores; other Go integer literal forms are left open
PlainDec(mag, body) == body = mag
BoolTrue  == {"1", "t", "T", "TRUE", "true", "True"}
BoolFalse == {"0", "f", "F", "FALSE", "false", "False"}
\* a few Go duration literals with their value in milliseconds; anything else that is not plainly malformed is left open
DurLits == {<<"5m", "300000">>, <<"1h", "3600000">>, <<"90s", "90000">>, <<"1h30m", "5400000">>, <<"300ms", "300">>,
            <<"0", "0">>, <<"-5m", "-300000">>, <<"1.5s", "1500">>, <<"0s", "0">>}
DurBad  == {"", "5", "m5", "5x", "h", "1h 30m", "abc", "--5m", "5m-", "1d"}

OptApplyExpect(key, value) ==
  LET ft == Field(key) IN
  CASE ft = "unknown" -> Reject
    [] ft = "string"  -> [v |-> "ok", val |-> value]
    [] ft = "bool"    -> IF value \in BoolTrue THEN [v |-> "ok", val |-> "true"]
                         ELSE IF value \in BoolFalse THEN [v |-> "ok", val |-> "false"] ELSE Reject
    [] ft = "int"     -> LET sg == Signed(value) IN
                         IF ~sg.ok THEN (IF value = "" \/ \A i \in 1..Len(value) : Ch(value, i) \in {" ", "-", "+", ".", "/", "%"} THEN Reject ELSE [v |-> "open", val |-> "?"])
                         ELSE IF ~(IF sg.sign = "-" THEN NumLE(sg.mag, MinI64Abs) ELSE NumLE(sg.mag, MaxI64)) THEN Reject
                         ELSE IF sg.sign = "+" \/ ~PlainDec(sg.mag, IF sg.sign = "" THEN value ELSE From(value, 2)) THEN [v |-> "open", val |-> "?"]
                         \* the option is documented as an int: 32 bits are guaranteed, wider values may be refused
                         ELSE IF ~(IF sg.sign = "-" THEN NumLE(sg.mag, MinI32Abs) ELSE NumLE(sg.mag, MaxI32)) THEN [v |-> "open", val |-> Dec(sg.sign, sg.mag)]
                         ELSE [v |-> "ok", val |-> Dec(sg.sign, sg.mag)]
    [] ft = "uint"    -> LET sg == Signed(value) IN
                         IF ~sg.ok THEN (IF value = "" \/ \A i \in 1..Len(value) : Ch(value, i) \in {" ", "-", "+", ".", "/", "%"} THEN Reject ELSE [v |-> "open", val |-> "?"])
                         ELSE IF sg.sign = "-" /\ sg.mag # "0" THEN Reject
                         ELSE IF ~NumLE(sg.mag, MaxU64) THEN Reject
                         ELSE IF sg.sign # "" \/ ~PlainDec(sg.mag, value) THEN [v |-> "open", val |-> "?"]
                         ELSE IF ~NumLE(sg.mag, MaxU32) THEN [v |-> "open", val |-> sg.mag]
                         ELSE [v |-> "ok", val |-> sg.mag]
    [] ft = "duration" -> IF \E p \in DurLits : p[1] = value THEN [v |-> "ok", val |-> (CHOOSE p \in DurLits : p[1] = value)[2]]
                          ELSE IF value \in DurBad THEN Reject ELSE [v |-> "open", val |-> "?"]

OptApplyRecOK(r) ==
  LET e == OptApplyExpect(r.key, r.value) IN
  CASE e.v = "reject" -> r.out = "reject" /\ r.field = ""
    [] e.v = "open"   -> \/ r.out = "reject" /\ r.field = ""
                         \/ r.out = "ok" /\ r.field \in {"", r.key} /\ (e.val = "?" \/ (r.field = r.key /\ r.val = e.val))
    [] e.v = "ok"     -> r.out = "ok" /\ r.field = r.key /\ r.val = e.val

(* ----------------------------------------------------------------------- *)
(* 5. check --read-data-subset: n/t (1 <= n <= t <= 256), x% (0 < x <= 100) *)
(*    or a size nS with S in K M G T (b/B as for byte sizes), n > 0.        *)
(*    r.out = verdict of checkFlags; r.nt = <<ok, n, t>> from the n/t       *)
(*    parser, r.pct = <<ok, value>> from the percentage parser (shortest    *)
(*    decimal text), r.size = <<ok, q>> from ParseBytes                     *)
(* ----------------------------------------------------------------------- *)
SlashPos(s) == {i \in 1..Len(s) : Ch(s, i) = "/"}

\* decimal "digits[.digits]" or ".digits": [ok, ip, fp] normalised (no leading zeros in ip, no trailing zeros in fp)
RECURSIVE StripTrailZeros(_)
StripTrailZeros(s) == IF Len(s) > 0 /\ Last(s) = "0" THEN StripTrailZeros(Upto(s, Len(s) - 1)) ELSE s
Decimal(s) ==
  LET dots == {i \in 1..Len(s) : Ch(s, i) = "."} IN
  IF Cardinality(dots) > 1 THEN [ok |-> FALSE]
  ELSE IF dots = {} THEN (IF IsNum(s) THEN [ok |-> TRUE, ip |-> Norm(s), fp |-> ""] ELSE [ok |-> FALSE])
  ELSE LET p  == CHOOSE i \in dots : TRUE
           a  == Upto(s, p - 1)
           b  == From(s, p + 1)
       IN IF (a = "" /\ b = "") \/ (a # "" /\ ~IsNum(a)) \/ (b # "" /\ ~IsNum(b)) THEN [ok |-> FALSE]
          ELSE [ok |-> TRUE, ip |-> IF a = "" THEN "0" ELSE Norm(a), fp |-> StripTrailZeros(b)]
DecText(d) == IF d.fp = "" THEN d.ip ELSE d.ip \o "." \o d.fp

SubsetExpect(s) ==
  IF s = "" THEN [v |-> "open", form |-> "none"]                   \* the empty string means "option not given"
  ELSE IF SlashPos(s) # {} THEN
    IF Cardinality(SlashPos(s)) # 1 THEN Reject
    ELSE LET p == CHOOSE i \in SlashPos(s) : TRUE
             a == Upto(s, p - 1)
             b == From(s, p + 1)
         IN IF ~IsNum(a) \/ ~IsNum(b) THEN Reject
            ELSE LET n == Norm(a)  t == Norm(b) IN
                 IF Len(n) > 3 \/ Len(t) > 3 THEN Reject
                 ELSE IF ToInt(n) >= 1 /\ ToInt(n) <= ToInt(t) /\ ToInt(t) <= 256
                      THEN [v |-> "ok", form |-> "nt", n |-> n, t |-> t] ELSE Reject
  ELSE IF Last(s) = "%" THEN
    LET body == Upto(s, Len(s) - 1)
        sg   == IF Len(body) > 0 /\ Ch(body, 1) \in {"+", "-"} THEN Ch(body, 1) ELSE ""
        d    == Decimal(IF sg = "" THEN body ELSE From(body, 2))
    IN IF ~d.ok THEN Reject
       ELSE IF sg = "-" THEN Reject                                \* negative or minus zero: not above 0
       ELSE IF d.ip = "0" /\ d.fp = "" THEN Reject                 \* 0%
       ELSE IF ~(NumLE(d.ip, "99") \/ (d.ip = "100" /\ d.fp = "")) THEN Reject   \* above 100%
       ELSE [v |-> IF sg = "" THEN "ok" ELSE "open", form |-> "pct", val |-> DecText(d)]
  ELSE LET e == BytesExpect(s) IN
    IF e.v = "reject" THEN Reject
    ELSE IF e.mag = "0" THEN Reject                                \* a size must be above 0
    ELSE IF UnitExp(Last(s)) \in {-1, 0} THEN [v |-> "open", form |-> "size", mag |-> e.mag, exp |-> e.exp]   \* no unit / b: manual asks for nS, S in K M G T
    ELSE [v |-> e.v, form |-> "size", mag |-> e.mag, exp |-> e.exp]

SubsetValOK(e, r) ==
  CASE e.form = "nt"   -> r.nt[1] = "ok" /\ r.nt[2] = e.n /\ r.nt[3] = e.t
    [] e.form = "pct"  -> r.pct[1] = "ok" /\ r.pct[2] = e.val
    [] e.form = "size" -> r.size[1] = "ok" /\ BytesValOK(e, r.size[2])
    [] OTHER -> TRUE
SubsetRecOK(r) ==
  LET e == SubsetExpect(r.s) IN
  CASE e.v = "reject" -> r.out = "reject"
    [] e.v = "open"   -> r.out = "reject" \/ (r.out = "ok" /\ SubsetValOK(e, r))
    [] e.v = "ok"     -> r.out = "ok" /\ SubsetValOK(e, r)

(* ----------------------------------------------------------------------- *)
(* 6. backend.SplitShellStrings (extended option values holding commands):  *)
(*    blank-separated words; a word may be written in single or double      *)
(*    quotes to contain blanks.  Only strings whose reading is beyond doubt *)
(*    are judged exactly (plain words and whole quoted words separated by   *)
(*    blanks, no backslashes); an unterminated quote or an empty command    *)
(*    must be rejected; everything else ("unclear"): no panic.              *)
(* ----------------------------------------------------------------------- *)
Quotes == {"'", "\""}
HasCh(s, C) == \E i \in 1..Len(s) : Ch(s, i) \in C
FirstPos(s, C) == IF HasCh(s, C) THEN CHOOSE i \in 1..Len(s) : Ch(s, i) \in C /\ \A j \in 1..(i - 1) : Ch(s, j) \notin C ELSE 0
ShellCombine(w, sub) == IF sub.class = "plain" THEN [class |-> "plain", words |-> <<w>> \o sub.words] ELSE sub
RECURSIVE ShellParse(_)
ShellParse(s0) ==
  LET s == TrimL(s0) IN
  IF s = "" THEN [class |-> "plain", words |-> <<>>]
  ELSE IF Ch(s, 1) \in Quotes THEN
    LET rest == From(s, 2)
        e    == FirstPos(rest, {Ch(s, 1)})
    IN IF e = 0 THEN (IF HasCh(rest, {"\\"}) THEN [class |-> "unclear", words |-> <<>>] ELSE [class |-> "bad", words |-> <<>>])
       ELSE IF e = 1 \/ HasCh(Upto(rest, e - 1), {"\\"}) \/ (e < Len(rest) /\ Ch(rest, e + 1) # " ")
            THEN [class |-> "unclear", words |-> <<>>]
       ELSE ShellCombine(Upto(rest, e - 1), ShellParse(From(rest, e + 1)))
  ELSE LET k == IF HasCh(s, {" "}) THEN FirstPos(s, {" "}) - 1 ELSE Len(s)
           w == Upto(s, k)
       IN IF HasCh(w, Quotes \cup {"\\"}) THEN [class |-> "unclear", words |-> <<>>]
          ELSE ShellCombine(w, ShellParse(From(s, k + 1)))
ShellExpect(s) == LET p == ShellParse(s) IN
  IF p.class = "plain" /\ p.words = <<>> THEN [class |-> "bad", words |-> <<>>] ELSE p

ShellRecOK(r) ==
  LET e == ShellExpect(r.s) IN
  CASE e.class = "plain" -> r.out = "ok" /\ r.words = e.words
    [] e.class = "bad"   -> r.out = "reject"
    [] OTHER             -> r.out \in {"ok", "reject"}

(* ----------------------------------------------------------------------- *)
RecOK(r) ==
  /\ r.out # "panic"
  /\ CASE r.kind = "dur"       -> DurRecOK(r)
       [] r.kind = "round"     -> RoundRecOK(r)
       [] r.kind = "bytes"     -> BytesRecOK(r)
       [] r.kind = "count"     -> ValRecOK(CountExpect(r.s), r)
       [] r.kind = "opt-parse" -> OptParseRecOK(r)
       [] r.kind = "opt-apply" -> OptApplyRecOK(r)
       [] r.kind = "subset"    -> SubsetRecOK(r)
       [] r.kind = "shell"     -> ShellRecOK(r)
=============================================================================
