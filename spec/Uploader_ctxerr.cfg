SPECIFICATION Spec
CONSTANTS
  NChunks = 3
  Variant = "ctxerr"
INVARIANT NoSpuriousFatal
CHECK_DEADLOCK FALSE
