SPECIFICATION Spec
CONSTANTS
  K = 3
  N = 1
  MaxFreeze = 0
  MaxCancel = 1
  Twin = "cancel_releases"
  Record = FALSE
INVARIANTS
  Limit
  FrozenNoStart
  LockNeverBlocked
  TokensOK
