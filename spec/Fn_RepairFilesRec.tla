------------------------- MODULE Fn_RepairFilesRec -------------------------
(* record judge for C34: one record = one reachable file of one snapshot, see Fn_RepairFiles.tla *)
EXTENDS Fn_RepairFiles

RecOK(r) == FileOK(r)

\* self test on hand-made records (evaluated at start-up): the judge accepts the intended behaviour and rejects the
\* two classic filter-loop mistakes
T(b, o, x, p, a) == [before |-> b, ok |-> o, idx |-> x, present |-> p, after |-> a]
ASSUME FileOK(T(<<"a", "b", "c">>, <<TRUE, TRUE, TRUE>>, <<TRUE, TRUE, TRUE>>, TRUE, <<"a", "b", "c">>))
ASSUME FileOK(T(<<"a", "b", "c", "d">>, <<TRUE, FALSE, FALSE, TRUE>>, <<TRUE, FALSE, FALSE, TRUE>>, TRUE, <<"a", "d">>))
ASSUME FileOK(T(<<"z", "z", "a", "z">>, <<FALSE, FALSE, TRUE, FALSE>>, <<FALSE, FALSE, TRUE, FALSE>>, TRUE, <<"a">>))
ASSUME FileOK(T(<<>>, <<>>, <<>>, TRUE, <<>>))
ASSUME FileOK(T(<<"a", "b">>, <<TRUE, FALSE>>, <<TRUE, TRUE>>, TRUE, <<"a", "b">>))
ASSUME FileOK(T(<<"a", "b">>, <<TRUE, FALSE>>, <<TRUE, TRUE>>, TRUE, <<"a">>))
\* stops at the first unavailable entry: the intact tail is lost
ASSUME ~FileOK(T(<<"a", "b", "c">>, <<TRUE, FALSE, TRUE>>, <<TRUE, FALSE, TRUE>>, TRUE, <<"a">>))
\* skips the entry behind a removed one: an unavailable entry stays
ASSUME ~FileOK(T(<<"a", "b", "c", "d">>, <<TRUE, FALSE, FALSE, TRUE>>, <<TRUE, FALSE, FALSE, TRUE>>, TRUE, <<"a", "c", "d">>))
\* a repeated available chunk must survive as often as it occurred
ASSUME ~FileOK(T(<<"z", "z", "a">>, <<TRUE, TRUE, TRUE>>, <<TRUE, TRUE, TRUE>>, TRUE, <<"z", "a">>))
\* the file must not vanish
ASSUME ~FileOK(T(<<"a">>, <<TRUE>>, <<TRUE>>, FALSE, <<>>))
=============================================================================
