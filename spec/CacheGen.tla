------------------------------ MODULE CacheGen ------------------------------
(* C38: TLC enumerates the bounded scenario spaces of Cache.tla and writes them as vectors for the
   Go harness (B2: spec -> code). *)
EXTENDS Cache, Json, SequencesExt

CONSTANTS ScriptLen, SchedLen

ASSUME ndJsonSerialize("vec_script.ndjson", SetToSeq(ScriptScenarios(ScriptLen)))
ASSUME ndJsonSerialize("vec_conc.ndjson", SetToSeq(ConcScenarios(SchedLen)))

VARIABLE genDummy
Init == genDummy = 0
Next == genDummy' = genDummy
Spec == Init /\ [][Next]_genDummy
=============================================================================
