SPECIFICATION Spec
CONSTANTS
  MaxLen = 5
  Budget = 4
  Ops = {"save", "load", "stat", "remove", "list"}
  Twin = "none"
  Record = FALSE
INVARIANTS
  InvSame
  InvNoPartial
  InvPerm
  ListNever
  Progress
  Conforms

