SPECIFICATION Spec
CONSTANTS
  N = 1
  MaxTime = 12
  MaxSkew = 1
  Budget = 1
  Variant = "design"
  Faults <- C13Faults
  MaxToggle = 2
  Removal = TRUE
  Remotes <- RemotesNone
  MaxWaits = 99
  HistMax = 0
  Emit = FALSE
  MaxAtt = 2
  Crashes = FALSE
  StartBy = 0
  StartFrom = 0
  HealOdds = 3
  ListLag = FALSE
  FixSkew = FALSE
  MaxMods = 2
  Edge = FALSE
VIEW View
INVARIANTS TypeOK InvHolderHasFile InvFresh InvNoWriteAfterCancel
CHECK_DEADLOCK FALSE
