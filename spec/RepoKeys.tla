------------------------------ MODULE RepoKeys ------------------------------
(***************************************************************************)
(* Design model of the key commands and of the v1 -> v2 upgrade (C29, C31) *)
(* at the level of single backend operations, with a crash possible        *)
(* between any two of them:                                                *)
(*   key add     Save(new key); verify it opens; (remove it if it does not)*)
(*   key passwd  Save(new key); verify; Remove(old key)                    *)
(*   key remove  refuse the key in use; Remove(key)                        *)
(*   upgrade     [Remove(config) on backends without atomic replace;]      *)
(*               Save(config v2); on failure [Remove +] Save(old config)   *)
(*               (the Remove only without atomic replace - the variant     *)
(*               "upgrade_remove_always" is restic before fix 8th of the   *)
(*               C31 findings and is refuted by ConfigPresentAtomic)       *)
(* keys maps key file id |-> password it was created with; every key wraps *)
(* the one master key, so "password pw opens the repository" is            *)
(* \E k : keys[k] = pw.  Variants are broken designs TLC must refute.      *)
(***************************************************************************)
EXTENDS Naturals, FiniteSets, TLC

CONSTANTS Pw,          \* passwords
          MaxKeys,     \* bound on key files ever created
          Atomic,      \* backend replaces the config atomically
          Variant      \* "ok" | "passwd_remove_first" | "remove_no_guard" | "upgrade_no_reupload" | "upgrade_remove_always"

VARIABLES keys,        \* key id |-> password
          cfg,         \* 0 = no config, 1, 2
          cur,         \* the process's current key id (the one it opened the repository with)
          pc,          \* control state of the single (exclusive) command process
          newk, oldk,  \* key being added / key being replaced
          nextK,
          saveFails    \* upgrade: the backend refuses the next config Save (one fault)

vars == <<keys, cfg, cur, pc, newk, oldk, nextK, saveFails>>

Opens(pw) == \E k \in DOMAIN keys : keys[k] = pw
Drop(f, k) == [x \in DOMAIN f \ {k} |-> f[x]]

Init == /\ keys = (1 :> CHOOSE p \in Pw : TRUE) /\ cfg = 1 /\ cur = 1 /\ pc = "idle"
        /\ newk = 0 /\ oldk = 0 /\ nextK = 2 /\ saveFails \in BOOLEAN

\* a new process opens the repository with some password that works
Open == /\ pc = "idle"
        /\ \E k \in DOMAIN keys : cur' = k
        /\ UNCHANGED <<keys, cfg, pc, newk, oldk, nextK, saveFails>>

AddStart(passwd) ==
  /\ pc = "idle" /\ cur \in DOMAIN keys /\ nextK <= MaxKeys
  /\ IF passwd /\ Variant = "passwd_remove_first"
     THEN /\ keys' = Drop(keys, cur) /\ oldk' = cur /\ newk' = 0 /\ pc' = "pw_add_after_remove"
          /\ UNCHANGED nextK
     ELSE /\ \E p \in Pw : keys' = (nextK :> p) @@ keys
          /\ newk' = nextK /\ nextK' = nextK + 1 /\ oldk' = (IF passwd THEN cur ELSE 0)
          /\ pc' = (IF passwd THEN "pw_verify" ELSE "add_verify")
  /\ UNCHANGED <<cfg, cur, saveFails>>

AddAfterRemove ==
  /\ pc = "pw_add_after_remove" /\ nextK <= MaxKeys
  /\ \E p \in Pw : keys' = (nextK :> p) @@ keys
  /\ cur' = nextK /\ nextK' = nextK + 1 /\ pc' = "idle"
  /\ UNCHANGED <<cfg, newk, oldk, saveFails>>

Verify ==
  /\ pc \in {"add_verify", "pw_verify"}
  /\ pc' = (IF pc = "pw_verify" THEN "pw_remove_old" ELSE "idle")
  /\ cur' = (IF pc = "pw_verify" THEN newk ELSE cur)      \* passwd switches to the new key
  /\ UNCHANGED <<keys, cfg, newk, oldk, nextK, saveFails>>

RemoveOld ==
  /\ pc = "pw_remove_old"
  /\ keys' = (IF oldk \in DOMAIN keys /\ oldk # cur THEN Drop(keys, oldk) ELSE keys)
  /\ pc' = "idle"
  /\ UNCHANGED <<cfg, cur, newk, oldk, nextK, saveFails>>

KeyRemove ==
  /\ pc = "idle" /\ cur \in DOMAIN keys
  /\ \E k \in DOMAIN keys :
        /\ (Variant # "remove_no_guard" => k # cur)          \* refusing to remove the key in use
        /\ keys' = Drop(keys, k)
  /\ UNCHANGED <<cfg, cur, pc, newk, oldk, nextK, saveFails>>

UpgradeStart ==
  /\ pc = "idle" /\ cfg = 1 /\ cur \in DOMAIN keys
  /\ IF Atomic THEN pc' = "up_save" /\ UNCHANGED cfg
     ELSE pc' = "up_save" /\ cfg' = 0                         \* Remove(config)
  /\ UNCHANGED <<keys, cur, newk, oldk, nextK, saveFails>>

UpgradeSave ==
  /\ pc = "up_save"
  /\ IF saveFails
     THEN /\ saveFails' = FALSE
          /\ pc' = (IF Variant = "upgrade_no_reupload" THEN "idle"
                    ELSE IF Atomic /\ Variant # "upgrade_remove_always" THEN "up_reupload_save"   \* old config still in place
                    ELSE "up_reupload_remove")
          /\ UNCHANGED cfg
     ELSE /\ cfg' = 2 /\ pc' = "idle" /\ UNCHANGED saveFails
  /\ UNCHANGED <<keys, cur, newk, oldk, nextK>>

ReuploadRemove ==
  /\ pc = "up_reupload_remove" /\ cfg' = 0 /\ pc' = "up_reupload_save"
  /\ UNCHANGED <<keys, cur, newk, oldk, nextK, saveFails>>

ReuploadSave ==
  /\ pc = "up_reupload_save" /\ cfg' = 1 /\ pc' = "idle"
  /\ UNCHANGED <<keys, cur, newk, oldk, nextK, saveFails>>

Crash ==
  /\ pc # "idle" /\ pc' = "idle" /\ newk' = 0 /\ oldk' = 0
  /\ UNCHANGED <<keys, cfg, cur, nextK, saveFails>>

Next == \/ Open \/ AddStart(TRUE) \/ AddStart(FALSE) \/ AddAfterRemove \/ Verify \/ RemoveOld \/ KeyRemove
        \/ UpgradeStart \/ UpgradeSave \/ ReuploadRemove \/ ReuploadSave \/ Crash

Spec == Init /\ [][Next]_vars

\* C29: at every interruption point some password opens the repository
SomeKeyWorks == \E pw \in Pw : Opens(pw)
\* C29: the key in use is never removed by `key remove`
\* (checked as a step property: a removed key is not the remover's current key, unless it is
\*  the old key of a completed passwd whose process already switched to the new one)
KeyInUseKept == [][(cur \in DOMAIN keys /\ pc = "idle" /\ pc' = "idle" /\ cur' = cur) => cur \in DOMAIN keys']_vars
\* C31: the repository opens with the old or the new config at every point where no crash can
\* be in the remove/save window (atomic backends), and after every completed command
ConfigPresentAtomic == Atomic => (cfg \in {1, 2} \/ pc \in {"up_reupload_save"})
ConfigAfterCommand  == pc = "idle" => (cfg \in {1, 2} \/ ~Atomic)
ConfigAfterFailure  == (pc = "idle" /\ ~saveFails /\ cfg = 0) => ~Atomic
=============================================================================
