------------------------------ MODULE Fn_Diff ------------------------------
(***************************************************************************)
(* C53: what `restic diff A B` has to list.  A snapshot tree is a set of   *)
(* entries [p, t, c, m]: p the path (sequence of names), t the type        *)
(* ("file" | "dir" | "symlink"), c a token for the content (files: the     *)
(* list of content ids; symlinks: the target; directories: ""), m a token  *)
(* for the remaining metadata.  The output is a sequence of lines          *)
(* [p, mods] with mods the modifier characters ("+", "-", "T", "M", "U",   *)
(* "?").  From the statement / the documentation of diff:                  *)
(*   "+" / "-"  exactly for the paths that exist in only one snapshot      *)
(*   "T"        exactly for the paths in both whose types differ           *)
(*   "M"        exactly for the paths that are files in both with          *)
(*              different content                                          *)
(*   nothing is listed inside identical subtrees                           *)
(* "U" (metadata, only with --metadata) and "?" are not constrained        *)
(* beyond that.                                                            *)
(***************************************************************************)
EXTENDS Sequences, SequencesExt, FiniteSets, Naturals

IsBelow(p, d) == Len(d) < Len(p) /\ SubSeq(p, 1, Len(d)) = d

DiffOK(r) ==
  LET A  == ToSet(r.a)
      B  == ToSet(r.b)
      PA == {e.p : e \in A}
      PB == {e.p : e \in B}
      L  == ToSet(r.lines)
      Mods(p) == UNION {ToSet(l.mods) : l \in {l \in L : l.p = p}}
      EA(p) == CHOOSE e \in A : e.p = p
      EB(p) == CHOOSE e \in B : e.p = p
      Same(p) == p \in PA /\ p \in PB /\ EA(p) = EB(p)
      \* p is the root of a subtree that is identical in both snapshots
      Ident(p) == /\ Same(p)
                  /\ \A q \in PA \cup PB : IsBelow(q, p) => Same(q)
  IN
  /\ ~r.err
  /\ \A l \in L : l.p \in PA \cup PB                  \* only paths of the snapshots are listed
  /\ \A p \in PA \cup PB :
       /\ ("-" \in Mods(p)) = (p \in PA /\ p \notin PB)
       /\ ("+" \in Mods(p)) = (p \in PB /\ p \notin PA)
       /\ (p \in PA /\ p \in PB) =>
            /\ ("T" \in Mods(p)) = (EA(p).t # EB(p).t)
            /\ ("M" \in Mods(p)) = (EA(p).t = "file" /\ EB(p).t = "file" /\ EA(p).c # EB(p).c)
       /\ (p \notin PA \/ p \notin PB) => Mods(p) \cap {"T", "M"} = {}
  /\ \A p \in PA \cap PB : Ident(p) => \A l \in L : l.p # p /\ ~IsBelow(l.p, p)

RecOK(r) == DiffOK(r)
=============================================================================
