SPECIFICATION Spec
CONSTANTS
 MaxLen = 3
 MonoLen = 2
 Twin = "none"
INVARIANTS Conforms
CHECK_DEADLOCK FALSE
