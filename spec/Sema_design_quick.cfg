SPECIFICATION Spec
CONSTANTS
  K = 4
  N = 2
  MaxFreeze = 1
  MaxCancel = 0
  Twin = "none"
  Record = FALSE
INVARIANTS
  Limit
  FrozenNoStart
  LockNeverBlocked
  TokensOK

