------------------------------ MODULE Fn_Glob ------------------------------
(***************************************************************************)
(* C28 (reused by C20, C27): reference model of restic's path patterns,    *)
(* written from the user documentation (doc/040_backup.rst "Excluding      *)
(* files", doc/050_restore.rst) and the documentation of Go's              *)
(* filepath.Match, NOT from internal/filter/filter.go:                     *)
(*                                                                         *)
(*  * a pattern is a list of components; a leading "/" anchors it at the   *)
(*    root, a trailing "/" is ignored;                                     *)
(*  * every component is a shell glob matching exactly one path component  *)
(*    ("*" and "?" never cross a "/");                                     *)
(*  * the component "**" matches any number (including zero) of path       *)
(*    components;                                                          *)
(*  * a relative pattern matches at any depth;                             *)
(*  * a pattern that matches a directory matches everything inside it;     *)
(*  * in a list, a pattern starting with "!" cancels the match made by     *)
(*    earlier patterns for the paths it matches.                           *)
(*                                                                         *)
(* Abstraction (done by the Go drivers): a pattern is the record           *)
(*   [neg, abs, parts]  (parts = its components as strings), a path is     *)
(*   [abs, comps].  The glob syntax of a component and the characters of a *)
(*   path component are taken from the tables AtomTok / CompChars below    *)
(*   (finite alphabet used by the drivers).                                *)
(***************************************************************************)
EXTENDS Sequences, SequencesExt, FiniteSets, Naturals, TLC

----------------------------------------------------------------------------
(* component globs *)

Lit(c)     == [k |-> "lit",   c |-> c,  neg |-> FALSE, set |-> {}]
Star       == [k |-> "star",  c |-> "", neg |-> FALSE, set |-> {}]
AnyCh      == [k |-> "any",   c |-> "", neg |-> FALSE, set |-> {}]
Class(n,s) == [k |-> "class", c |-> "", neg |-> n,     set |-> s]
BadTok     == <<[k |-> "bad", c |-> "", neg |-> FALSE, set |-> {}]>>

\* the characters of the path components the drivers use
CompTab ==
     ("a"      :> <<"a">>)
  @@ ("b"      :> <<"b">>)
  @@ ("c"      :> <<"c">>)
  @@ ("ab"     :> <<"a", "b">>)
  @@ ("ba"     :> <<"b", "a">>)
  @@ ("*"      :> <<"*">>)
  @@ ("!"      :> <<"!">>)
  @@ ("A"      :> <<"A">>)
  @@ ("B"      :> <<"B">>)
  @@ ("Ab"     :> <<"A", "b">>)
  @@ ("aB"     :> <<"a", "B">>)
  @@ ("AB"     :> <<"A", "B">>)
CompChars(c) == CompTab[c]

\* the glob syntax (filepath.Match: '*', '?', '[' ['^'] ranges ']', '\\' escapes) of the pattern
\* components the drivers use; Bad = malformed
AtomTab ==
     ("a"      :> <<Lit("a")>>)
  @@ ("b"      :> <<Lit("b")>>)
  @@ ("c"      :> <<Lit("c")>>)
  @@ ("ab"     :> <<Lit("a"), Lit("b")>>)
  @@ ("ba"     :> <<Lit("b"), Lit("a")>>)
  @@ ("A"      :> <<Lit("A")>>)
  @@ ("B"      :> <<Lit("B")>>)
  @@ ("Ab"     :> <<Lit("A"), Lit("b")>>)
  @@ ("aB"     :> <<Lit("a"), Lit("B")>>)
  @@ ("AB"     :> <<Lit("A"), Lit("B")>>)
  @@ ("*"      :> <<Star>>)
  @@ ("?"      :> <<AnyCh>>)
  @@ ("a*"     :> <<Lit("a"), Star>>)
  @@ ("A*"     :> <<Lit("A"), Star>>)
  @@ ("*b"     :> <<Star, Lit("b")>>)
  @@ ("*B"     :> <<Star, Lit("B")>>)
  @@ ("a?"     :> <<Lit("a"), AnyCh>>)
  @@ ("?b"     :> <<AnyCh, Lit("b")>>)
  @@ ("??"     :> <<AnyCh, AnyCh>>)
  @@ ("*?"     :> <<Star, AnyCh>>)
  @@ ("a*b"    :> <<Lit("a"), Star, Lit("b")>>)
  @@ ("[ab]"   :> <<Class(FALSE, {"a", "b"})>>)
  @@ ("[a-b]"  :> <<Class(FALSE, {"a", "b"})>>)
  @@ ("[A-B]"  :> <<Class(FALSE, {"A", "B"})>>)
  @@ ("[^a]"   :> <<Class(TRUE, {"a"})>>)
  @@ ("[^A]"   :> <<Class(TRUE, {"A"})>>)
  @@ ("[!a]"   :> <<Class(FALSE, {"!", "a"})>>)   \* Go globs negate with '^' only
  @@ ("[a]b"   :> <<Class(FALSE, {"a"}), Lit("b")>>)
  @@ ("a[^a]"  :> <<Lit("a"), Class(TRUE, {"a"})>>)
  @@ ("\\*"    :> <<Lit("*")>>)
  @@ ("\\a"    :> <<Lit("a")>>)
  @@ ("a\\b"   :> <<Lit("a"), Lit("b")>>)
  @@ ("a**"    :> <<Lit("a"), Star, Star>>)   \* "**" is special only as a whole component
  @@ ("**b"    :> <<Star, Star, Lit("b")>>)
  @@ ("***"    :> <<Star, Star, Star>>)
  @@ ("["      :> BadTok)
  @@ ("a["     :> BadTok)
  @@ ("[a"     :> BadTok)
  @@ ("[]"     :> BadTok)
  @@ ("\\"     :> BadTok)
  @@ ("a\\"    :> BadTok)
AtomTok(a) == AtomTab[a]

BadAtom(a) == a # "**" /\ AtomTok(a) = BadTok
BadPat(pat) == \E i \in DOMAIN pat.parts : BadAtom(pat.parts[i])

\* toks (a glob) matches the whole character sequence cs
RECURSIVE GlobOK(_, _)
GlobOK(toks, cs) ==
  IF toks = <<>> THEN cs = <<>>
  ELSE LET t == Head(toks) IN
       IF t.k = "star"
       THEN \E n \in 0..Len(cs) : GlobOK(Tail(toks), SubSeq(cs, n + 1, Len(cs)))
       ELSE /\ cs # <<>>
            /\ CASE t.k = "lit"   -> cs[1] = t.c
                 [] t.k = "any"   -> TRUE
                 [] t.k = "class" -> (cs[1] \in t.set) # t.neg
            /\ GlobOK(Tail(toks), Tail(cs))

CompMatch(atom, comp) == GlobOK(AtomTok(atom), CompChars(comp))

----------------------------------------------------------------------------
(* patterns against paths *)

\* the pattern components match the component sequence s exactly
RECURSIVE Exact(_, _)
Exact(parts, s) ==
  IF parts = <<>> THEN s = <<>>
  ELSE IF Head(parts) = "**"
       THEN \E n \in 0..Len(s) : Exact(Tail(parts), SubSeq(s, n + 1, Len(s)))
       ELSE /\ s # <<>>
            /\ CompMatch(Head(parts), Head(s))
            /\ Exact(Tail(parts), Tail(s))

\* the pattern names exactly the entry q: anchored patterns from the root, relative patterns
\* "at any depth", i.e. against some non-empty tail of q
Names(pat, q) ==
  IF pat.abs THEN q.abs /\ Exact(pat.parts, q.comps)
  ELSE \E k \in 1..Len(q.comps) : Exact(pat.parts, SubSeq(q.comps, k, Len(q.comps)))

Prefix(p, n) == [abs |-> p.abs, comps |-> SubSeq(p.comps, 1, n)]

\* p matches when the pattern names p or a directory above it (the root "/" is the 0-prefix
\* of an absolute path)
Matches(pat, p) ==
  \E n \in (IF p.abs THEN 0 ELSE 1)..Len(p.comps) : Names(pat, Prefix(p, n))

\* the verdict of a pattern list: some positive pattern matches and no later negated one does
Listed(pats, p) ==
  \E i \in DOMAIN pats :
     /\ ~pats[i].neg
     /\ Matches(pats[i], p)
     /\ \A j \in (i + 1)..Len(pats) : pats[j].neg => ~Matches(pats[j], p)

----------------------------------------------------------------------------
(* universes of paths, and their textual form *)

SeqsUpTo(S, n) == UNION {[1..k -> S] : k \in 1..n}
Paths(S, n)    == {[abs |-> a, comps |-> cs] : a \in BOOLEAN, cs \in SeqsUpTo(S, n)}

RECURSIVE Join(_)
Join(cs) == IF Len(cs) = 1 THEN cs[1] ELSE cs[1] \o "/" \o Join(Tail(cs))
PathStr(p) == IF p.abs THEN "/" \o Join(p.comps) ELSE Join(p.comps)

ProperPrefixes(p) == {Prefix(p, n) : n \in 1..(Len(p.comps) - 1)}

\* lower-casing of the strings of the alphabet (case-insensitive variants compare pattern and path
\* in lower case)
Lower(s) ==
  CASE s = "A" -> "a" [] s = "B" -> "b" [] s = "Ab" -> "ab" [] s = "aB" -> "ab" [] s = "AB" -> "ab"
    [] s = "A*" -> "a*" [] s = "*B" -> "*b" [] s = "[A-B]" -> "[a-b]" [] s = "[^A]" -> "[^a]"
    [] OTHER -> s
LowerSeq(q) == [i \in DOMAIN q |-> Lower(q[i])]
=============================================================================
