------------------------------ MODULE Fn_Glob ------------------------------
(***************************************************************************)
(* C28 (reused by C20, C27): reference model of restic's path patterns,    *)
(* written from the user documentation (doc/040_backup.rst "Excluding      *)
(* files", doc/050_restore.rst) and the documentation of Go's              *)
(* filepath.Match, NOT from internal/filter/filter.go:                     *)
(*                                                                         *)
(*  * a pattern is a list of components; a leading "/" anchors it at the   *)
(*    root, a trailing "/" is ignored;                                     *)
(*  * every component is a shell glob matching exactly one path component  *)
(*    ("*" and "?" never cross a "/");                                     *)
(*  * the component "**" matches any number (including zero) of path       *)
(*    components;                                                          *)
(*  * a relative pattern matches at any depth;                             *)
(*  * a pattern that matches a directory matches everything inside it;     *)
(*  * in a list, a pattern starting with "!" cancels the match made by     *)
(*    earlier patterns for the paths it matches.                           *)
(*                                                                         *)
(* Abstraction (done by the Go drivers): a pattern is the record           *)
(*   [neg, abs, parts]  (parts = its components as strings), a path is     *)
(*   [abs, comps].  The glob syntax of a component and the characters of a *)
(*   path component are taken from the tables AtomTok / CompChars below    *)
(*   (finite alphabet used by the drivers).                                *)
(***************************************************************************)
EXTENDS Sequences, FiniteSets, Naturals, TLC

----------------------------------------------------------------------------
(* component globs *)

Lit(c)     == [k |-> "lit",   c |-> c,  neg |-> FALSE, set |-> {}]
Star       == [k |-> "star",  c |-> "", neg |-> FALSE, set |-> {}]
AnyCh      == [k |-> "any",   c |-> "", neg |-> FALSE, set |-> {}]
Class(n,s) == [k |-> "class", c |-> "", neg |-> n,     set |-> s]
BadTok     == <<[k |-> "bad", c |-> "", neg |-> FALSE, set |-> {}]>>

\* the characters of the path components the drivers use
CompChars(c) ==
  CASE c = "a"  -> <<"a">>
    [] c = "b"  -> <<"b">>
    [] c = "c"  -> <<"c">>
    [] c = "ab" -> <<"a", "b">>
    [] c = "ba" -> <<"b", "a">>
    [] c = "*"  -> <<"*">>
    [] c = "!"  -> <<"!">>
    [] c = "A"  -> <<"A">>
    [] c = "B"  -> <<"B">>
    [] c = "Ab" -> <<"A", "b">>
    [] c = "aB" -> <<"a", "B">>
    [] c = "AB" -> <<"A", "B">>

\* the glob syntax (filepath.Match: '*', '?', '[' ['^'] ranges ']', '\\' escapes) of the pattern
\* components the drivers use; Bad = malformed
AtomTok(a) ==
  CASE a = "a"     -> <<Lit("a")>>
    [] a = "b"     -> <<Lit("b")>>
    [] a = "c"     -> <<Lit("c")>>
    [] a = "ab"    -> <<Lit("a"), Lit("b")>>
    [] a = "ba"    -> <<Lit("b"), Lit("a")>>
    [] a = "A"     -> <<Lit("A")>>
    [] a = "B"     -> <<Lit("B")>>
    [] a = "Ab"    -> <<Lit("A"), Lit("b")>>
    [] a = "aB"    -> <<Lit("a"), Lit("B")>>
    [] a = "AB"    -> <<Lit("A"), Lit("B")>>
    [] a = "*"     -> <<Star>>
    [] a = "?"     -> <<AnyCh>>
    [] a = "a*"    -> <<Lit("a"), Star>>
    [] a = "A*"    -> <<Lit("A"), Star>>
    [] a = "*b"    -> <<Star, Lit("b")>>
    [] a = "*B"    -> <<Star, Lit("B")>>
    [] a = "a?"    -> <<Lit("a"), AnyCh>>
    [] a = "?b"    -> <<AnyCh, Lit("b")>>
    [] a = "??"    -> <<AnyCh, AnyCh>>
    [] a = "*?"    -> <<Star, AnyCh>>
    [] a = "a*b"   -> <<Lit("a"), Star, Lit("b")>>
    [] a = "[ab]"  -> <<Class(FALSE, {"a", "b"})>>
    [] a = "[a-b]" -> <<Class(FALSE, {"a", "b"})>>
    [] a = "[A-B]" -> <<Class(FALSE, {"A", "B"})>>
    [] a = "[^a]"  -> <<Class(TRUE, {"a"})>>
    [] a = "[^A]"  -> <<Class(TRUE, {"A"})>>
    [] a = "[!a]"  -> <<Class(FALSE, {"!", "a"})>>   \* Go globs negate with '^' only
    [] a = "[a]b"  -> <<Class(FALSE, {"a"}), Lit("b")>>
    [] a = "a[^a]" -> <<Lit("a"), Class(TRUE, {"a"})>>
    [] a = "\\*"   -> <<Lit("*")>>
    [] a = "\\a"   -> <<Lit("a")>>
    [] a = "a\\b"  -> <<Lit("a"), Lit("b")>>
    [] a = "a**"   -> <<Lit("a"), Star, Star>>       \* "**" is special only as a whole component
    [] a = "**b"   -> <<Star, Star, Lit("b")>>
    [] a = "***"   -> <<Star, Star, Star>>
    [] a = "["     -> BadTok
    [] a = "a["    -> BadTok
    [] a = "[a"    -> BadTok
    [] a = "[]"    -> BadTok
    [] a = "\\"    -> BadTok
    [] a = "a\\"   -> BadTok

BadAtom(a) == a # "**" /\ AtomTok(a) = BadTok
BadPat(pat) == \E i \in DOMAIN pat.parts : BadAtom(pat.parts[i])

\* toks (a glob) matches the whole character sequence cs
RECURSIVE GlobOK(_, _)
GlobOK(toks, cs) ==
  IF toks = <<>> THEN cs = <<>>
  ELSE LET t == Head(toks) IN
       IF t.k = "star"
       THEN \E n \in 0..Len(cs) : GlobOK(Tail(toks), SubSeq(cs, n + 1, Len(cs)))
       ELSE /\ cs # <<>>
            /\ CASE t.k = "lit"   -> cs[1] = t.c
                 [] t.k = "any"   -> TRUE
                 [] t.k = "class" -> (cs[1] \in t.set) # t.neg
            /\ GlobOK(Tail(toks), Tail(cs))

CompMatch(atom, comp) == GlobOK(AtomTok(atom), CompChars(comp))

----------------------------------------------------------------------------
(* patterns against paths *)

\* the pattern components match the component sequence s exactly
RECURSIVE Exact(_, _)
Exact(parts, s) ==
  IF parts = <<>> THEN s = <<>>
  ELSE IF Head(parts) = "**"
       THEN \E n \in 0..Len(s) : Exact(Tail(parts), SubSeq(s, n + 1, Len(s)))
       ELSE /\ s # <<>>
            /\ CompMatch(Head(parts), Head(s))
            /\ Exact(Tail(parts), Tail(s))

\* the pattern names exactly the entry q: anchored patterns from the root, relative patterns
\* "at any depth", i.e. against some non-empty tail of q
Names(pat, q) ==
  IF pat.abs THEN q.abs /\ Exact(pat.parts, q.comps)
  ELSE \E k \in 1..Len(q.comps) : Exact(pat.parts, SubSeq(q.comps, k, Len(q.comps)))

Prefix(p, n) == [abs |-> p.abs, comps |-> SubSeq(p.comps, 1, n)]

\* p matches when the pattern names p or a directory above it (the root "/" is the 0-prefix
\* of an absolute path)
Matches(pat, p) ==
  \E n \in (IF p.abs THEN 0 ELSE 1)..Len(p.comps) : Names(pat, Prefix(p, n))

\* the verdict of a pattern list: some positive pattern matches and no later negated one does
Listed(pats, p) ==
  \E i \in DOMAIN pats :
     /\ ~pats[i].neg
     /\ Matches(pats[i], p)
     /\ \A j \in (i + 1)..Len(pats) : pats[j].neg => ~Matches(pats[j], p)

----------------------------------------------------------------------------
(* universes of paths, and their textual form *)

SeqsUpTo(S, n) == UNION {[1..k -> S] : k \in 1..n}
Paths(S, n)    == {[abs |-> a, comps |-> cs] : a \in BOOLEAN, cs \in SeqsUpTo(S, n)}

RECURSIVE Join(_)
Join(cs) == IF Len(cs) = 1 THEN cs[1] ELSE cs[1] \o "/" \o Join(Tail(cs))
PathStr(p) == IF p.abs THEN "/" \o Join(p.comps) ELSE Join(p.comps)

ToSet(s) == {s[i] : i \in DOMAIN s}
ProperPrefixes(p) == {Prefix(p, n) : n \in 1..(Len(p.comps) - 1)}

----------------------------------------------------------------------------
(* one record of the C28 driver: the real Match / ChildMatch / List / ListWithChild /      *)
(* ValidatePatterns (and the Include/Reject closures of include.go / exclude.go) evaluated *)
(* for one pattern list on EVERY path of a universe                                        *)
(*   r.pats     the patterns [neg, abs, parts] in list order                               *)
(*   r.alpha, r.depth   the universe: paths of <= depth components over alpha, abs and rel *)
(*   r.fold     the case-insensitive closures were used (patterns and paths are compared   *)
(*              in lower case)                                                             *)
(*   r.single   TRUE when Match/ChildMatch were run too (one un-negated pattern)           *)
(*   r.m        paths for which Match returned true                                        *)
(*   r.c        paths of < depth components for which ChildMatch returned true            *)
(*   r.l, r.lw  paths for which List / ListWithChild returned matched                      *)
(*   r.lc       paths of < depth components for which ListWithChild said children may match*)
(*   r.deep     paths of < depth components below which the REAL List accepted a path one  *)
(*              or two levels below the universe                                           *)
(*   r.err      some call returned an error;  r.panic  some call panicked                  *)
(*   r.valerr   ValidatePatterns rejected the list                                         *)
Lower(s) ==
  CASE s = "A" -> "a" [] s = "B" -> "b" [] s = "Ab" -> "ab" [] s = "aB" -> "ab" [] s = "AB" -> "ab"
    [] s = "A*" -> "a*" [] s = "*B" -> "*b" [] s = "[A-B]" -> "[a-b]" [] s = "[^A]" -> "[^a]"
    [] OTHER -> s
LowerSeq(q) == [i \in DOMAIN q |-> Lower(q[i])]

RecOK(r) ==
  /\ ~r.panic
  /\ LET bad == \E i \in DOMAIN r.pats : BadPat(r.pats[i]) IN
     /\ r.valerr = bad
     /\ bad \/
        LET U     == Paths(ToSet(r.alpha), r.depth)
            P     == [i \in DOMAIN r.pats |->
                        IF r.fold THEN [r.pats[i] EXCEPT !.parts = LowerSeq(@)] ELSE r.pats[i]]
            Eff(q) == IF r.fold THEN [q EXCEPT !.comps = LowerSeq(@)] ELSE q
            \* entries named, per pattern (evaluated once per pattern)
            N     == [i \in DOMAIN P |-> {q \in U : Names(P[i], Eff(q))}]
            root  == [i \in DOMAIN P |-> P[i].abs /\ Exact(P[i].parts, <<>>)]
            M(i)  == {p \in U : (p.abs /\ root[i]) \/ \E n \in 1..Len(p.comps) : Prefix(p, n) \in N[i]}
            MS    == [i \in DOMAIN P |-> M(i)]
            L     == {p \in U : \E i \in DOMAIN P :
                        /\ ~P[i].neg /\ p \in MS[i]
                        /\ \A j \in (i + 1)..Len(P) : P[j].neg => p \notin MS[j]}
            LStr  == {PathStr(p) : p \in L}
            Need  == {PathStr(q) : q \in UNION {ProperPrefixes(p) : p \in L}}
        IN
        /\ ~r.err
        /\ ToSet(r.l) = LStr
        /\ ToSet(r.lw) = LStr
        /\ Need \subseteq ToSet(r.lc)            \* children-may-match is never false above a match
        /\ ToSet(r.deep) \subseteq ToSet(r.lc)
        /\ r.single =>
             /\ ToSet(r.m) = {PathStr(p) : p \in MS[1]}
             /\ Need \subseteq ToSet(r.c)
             /\ ToSet(r.deep) \subseteq ToSet(r.c)
=============================================================================
