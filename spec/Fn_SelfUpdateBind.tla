-------------------------- MODULE Fn_SelfUpdateBind --------------------------
(* C51 binding control: the real code installs exactly where the documented procedure (SelfUpdate!Installs) does. *)
EXTENDS Naturals, Sequences, FiniteSets
S == INSTANCE SelfUpdate WITH Twin <- "none", script <- 0, pc <- 0, binary <- 0
RecOK(r) == S!Conforms(r)
==============================================================================
