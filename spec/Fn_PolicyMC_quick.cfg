SPECIFICATION Spec
CONSTANTS
 MaxLen = 2
 MonoLen = 1
 Twin = "none"
INVARIANTS Conforms
CHECK_DEADLOCK FALSE
