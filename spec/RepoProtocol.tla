--------------------------- MODULE RepoProtocol ---------------------------
(***************************************************************************)
(* The read/write ordering protocol of doc/design.rst in its most abstract *)
(* form, with a machine-checked proof (TLAPS) that it preserves the        *)
(* repository invariants for repositories of ANY size.                     *)
(*                                                                         *)
(* Files are content addressed, so what a file contains is a function of   *)
(* its id: the constants Has (pack -> blobs), Ent (index file -> entries)  *)
(* and Tree (snapshot -> blobs it needs, i.e. the closure of its tree).    *)
(* The state is just which files exist.  Every action is one backend       *)
(* operation, guarded by the rule that RepoTrace.tla / RepoProc.tla check  *)
(* on recorded and on modelled steps (R_PackBeforeIndex,                   *)
(* R_IndexBeforeSnapshot, R_IndexGoneBeforePackDelete,                     *)
(* R_IndexDeleteKeepsNeeded).                                              *)
(***************************************************************************)
EXTENDS TLAPS

CONSTANTS Blob, Pack, Idx, Snap,
          Has,    \* Has[p]  : blobs stored in pack p
          Ent,    \* Ent[i]  : set of <<blob, pack>> entries of index file i
          Tree    \* Tree[s] : blobs snapshot s needs

ASSUME ConstAssump ==
  /\ Has  \in [Pack -> SUBSET Blob]
  /\ Ent  \in [Idx  -> SUBSET (Blob \X Pack)]
  /\ Tree \in [Snap -> SUBSET Blob]

VARIABLES P, I, S       \* existing pack files, index files, snapshot files
vars == <<P, I, S>>

TypeOK == P \subseteq Pack /\ I \subseteq Idx /\ S \subseteq Snap

\* blob b is found through index file set X with pack set Y
IndexedIn(b, X, Y) == \E i \in X : \E p \in Y : <<b, p>> \in Ent[i] /\ b \in Has[p]

SnapshotIndexed == \A s \in S : \A b \in Tree[s] : IndexedIn(b, I, P)
IndexSound      == \A i \in I : \A e \in Ent[i] : e[2] \in P /\ e[1] \in Has[e[2]]

Inv == TypeOK /\ SnapshotIndexed /\ IndexSound

Init == P = {} /\ I = {} /\ S = {}

AddPack(p)  == p \in Pack /\ P' = P \cup {p} /\ UNCHANGED <<I, S>>
\* W1: packs are persisted before the index entries naming them
AddIndex(i) == /\ i \in Idx
               /\ \A e \in Ent[i] : e[2] \in P /\ e[1] \in Has[e[2]]
               /\ I' = I \cup {i} /\ UNCHANGED <<P, S>>
\* W2: index entries are persisted before the snapshot using them
AddSnap(s)  == /\ s \in Snap
               /\ \A b \in Tree[s] : IndexedIn(b, I, P)
               /\ S' = S \cup {s} /\ UNCHANGED <<P, I>>
DelSnap(s)  == s \in S /\ S' = S \ {s} /\ UNCHANGED <<P, I>>
\* D2: an index file goes only if everything needed stays indexed
DelIndex(i) == /\ i \in I
               /\ \A s \in S : \A b \in Tree[s] : IndexedIn(b, I \ {i}, P)
               /\ I' = I \ {i} /\ UNCHANGED <<P, S>>
\* D1: a pack goes only after no index file names it
DelPack(p)  == /\ p \in P
               /\ \A i \in I : \A e \in Ent[i] : e[2] # p
               /\ P' = P \ {p} /\ UNCHANGED <<I, S>>

Next == \/ \E p \in Pack : AddPack(p) \/ DelPack(p)
        \/ \E i \in Idx  : AddIndex(i) \/ DelIndex(i)
        \/ \E s \in Snap : AddSnap(s) \/ DelSnap(s)

Spec == Init /\ [][Next]_vars

LEMMA InitInv == Init => Inv
  BY DEF Init, Inv, TypeOK, SnapshotIndexed, IndexSound

LEMMA StepInv == Inv /\ [Next]_vars => Inv'
<1> SUFFICES ASSUME Inv, [Next]_vars PROVE Inv'
  OBVIOUS
<1>1. CASE UNCHANGED vars
  BY <1>1 DEF Inv, TypeOK, SnapshotIndexed, IndexSound, IndexedIn, vars
<1>2. ASSUME NEW p \in Pack, AddPack(p) PROVE Inv'
  BY <1>2, ConstAssump DEF Inv, TypeOK, SnapshotIndexed, IndexSound, IndexedIn, AddPack
<1>3. ASSUME NEW p \in Pack, DelPack(p) PROVE Inv'
  <2>1. TypeOK'
    BY <1>3 DEF Inv, TypeOK, DelPack
  <2>2. IndexSound'
    BY <1>3 DEF Inv, IndexSound, DelPack
  <2>3. SnapshotIndexed'
    <3> SUFFICES ASSUME NEW s \in S', NEW b \in Tree[s] PROVE IndexedIn(b, I', P')
      BY DEF SnapshotIndexed
    <3>1. s \in S /\ I' = I /\ P' = P \ {p}
      BY <1>3 DEF DelPack
    <3>2. PICK i \in I, q \in P : <<b, q>> \in Ent[i] /\ b \in Has[q]
      BY <3>1 DEF Inv, SnapshotIndexed, IndexedIn
    <3>3. q # p
      <4>1. <<b, q>>[2] # p
        BY <1>3, <3>2 DEF DelPack
      <4> QED BY <4>1
    <3> QED BY <3>1, <3>2, <3>3 DEF IndexedIn
  <2> QED BY <2>1, <2>2, <2>3 DEF Inv
<1>4. ASSUME NEW i \in Idx, AddIndex(i) PROVE Inv'
  BY <1>4, ConstAssump DEF Inv, TypeOK, SnapshotIndexed, IndexSound, IndexedIn, AddIndex
<1>5. ASSUME NEW i \in Idx, DelIndex(i) PROVE Inv'
  BY <1>5, ConstAssump DEF Inv, TypeOK, SnapshotIndexed, IndexSound, IndexedIn, DelIndex
<1>6. ASSUME NEW s \in Snap, AddSnap(s) PROVE Inv'
  BY <1>6, ConstAssump DEF Inv, TypeOK, SnapshotIndexed, IndexSound, IndexedIn, AddSnap
<1>7. ASSUME NEW s \in Snap, DelSnap(s) PROVE Inv'
  BY <1>7, ConstAssump DEF Inv, TypeOK, SnapshotIndexed, IndexSound, IndexedIn, DelSnap
<1> QED BY <1>1, <1>2, <1>3, <1>4, <1>5, <1>6, <1>7 DEF Next

THEOREM Safety == Spec => []Inv
  BY InitInv, StepInv, PTL DEF Spec
=============================================================================
