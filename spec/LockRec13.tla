----------------------------- MODULE LockRec13 -----------------------------
(* C13: one record = one schedule / fault script replayed into real lockers; *)
(* every recorded observation must satisfy the three C13 predicates.         *)
EXTENDS LockObs
RecOK(r) == \A k \in 1..Len(r.obs) : HolderHasFile(r.obs[k]) /\ FreshWhileActive(r.obs[k]) /\ ReleasedClean(r.obs[k])
=============================================================================
