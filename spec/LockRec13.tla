----------------------------- MODULE LockRec13 -----------------------------
(* C13: one record = one schedule / fault script replayed into real lockers; *)
(* every recorded observation must satisfy the three C13 predicates, and no  *)
(* recorded non-lock modification reached the storage with a cancelled lock  *)
(* context.                                                                  *)
EXTENDS LockObs
RecOK(r) == /\ \A k \in 1..Len(r.obs) : HolderHasFile(r.obs[k]) /\ FreshWhileActive(r.obs[k]) /\ ReleasedClean(r.obs[k])
            /\ NoWriteAfterCancel(r.mods)
=============================================================================
