SPECIFICATION Spec
CONSTANTS
  Procs = {1}
  NIds = 3
  Cost <- Cost112
  Size = 2
  MaxCalls = 3
  MaxPerProc = 3
  Twin = "evict_once"
  Record = FALSE
INVARIANTS
  Budget
  Accounting
  NoDup
  CacheVal
  ResultOK

