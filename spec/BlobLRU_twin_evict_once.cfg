SPECIFICATION Spec
CONSTANTS
  Procs = {1,2}
  NIds = 3
  Cost <- Cost112
  Size = 2
  MaxCalls = 4
  MaxPerProc = 2
  Twin = "evict_once"
  Record = FALSE
INVARIANTS
  Budget
  Accounting
  NoDup
  CacheVal
  ResultOK

