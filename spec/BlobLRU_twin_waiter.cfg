SPECIFICATION Spec
CONSTANTS
  Procs = {1,2}
  NIds = 1
  Cost <- Cost1
  Size = 1
  MaxCalls = 2
  MaxPerProc = 1
  Twin = "waiter_no_recheck"
  Record = FALSE
INVARIANTS
  Budget
  Accounting
  NoDup
  CacheVal
  ResultOK

