----------------------------- MODULE RepoTrace -----------------------------
(***************************************************************************)
(* Trace specification: binds backend operations recorded from the real    *)
(* restic code (harness/kit: Store + Projector) to the effects of Repo.tla.*)
(* One ndjson line = one TLC state, so every invariant and every ordering  *)
(* rule is evaluated on every prefix of every recorded run - each prefix   *)
(* is the storage a crash at that point leaves behind.                     *)
(*                                                                         *)
(* Several runs are concatenated; a "Reset" line starts a new repository.  *)
(* "Init*" lines describe a pre-existing storage (harness-made or cloned   *)
(* prefix state), "Damage*"/"Drop*" lines harness-made damage; both are    *)
(* environment steps, exempt from the ordering rules, and what they break  *)
(* is remembered as a baseline: restic must not ADD damage.                *)
(***************************************************************************)
EXTENDS Repo, Json, Sequences, SequencesExt, FiniteSetsExt

Trace == ndJsonDeserialize("trace.ndjson")

VARIABLES l,    \* next line to consume
          aux,  \* bookkeeping record, see AuxInit
          ev    \* the line consumed last (for per-event invariants)

tvars == <<storage, l, aux, ev>>

Rng(s) == {s[k] : k \in DOMAIN s}
Get(f, k, d) == IF k \in DOMAIN f THEN f[k] ELSE d
Put(f, k, v) == [x \in DOMAIN f \cup {k} |-> IF x = k THEN v ELSE f[x]]

AuxInit == [cmd     |-> EmptyFn,   \* proc |-> name of the command it is running ("" = none)
            removed |-> EmptyFn,   \* proc |-> snapshots it removed during the current command
            saved   |-> EmptyFn,   \* proc |-> snapshots it saved during the current command
            muts    |-> EmptyFn,   \* proc |-> effective mutating operations (not lock files) in the command
            lockops |-> EmptyFn,   \* proc |-> lock-file operations in the command
            base    |-> {},        \* index entries made unsound by the environment
            baseB   |-> {},        \* blobs made unavailable by the environment
            pre     |-> EmptyFn,   \* proc |-> [packs, idx] when its current command began
            plen    |-> EmptyFn,   \* pack |-> (blob |-> stored length)
            psize   |-> EmptyFn,   \* pack |-> file size
            reader  |-> EmptyFn,   \* proc |-> TRUE while it runs a reading command (C14 order rule applies)
            sawSnap |-> EmptyFn,   \* proc |-> it has listed / loaded snapshots in this command
            packsize |-> 0,        \* target pack size of the repository (from the Reset line, 0 = unknown)
            plisted |-> EmptyFn]   \* pack |-> blobs its (readable) header lists, whether or not they still decrypt

E == Trace[l]
Is(names) == l <= Len(Trace) /\ E.ev \in names
Consume == l' = l + 1 /\ ev' = E
NoEv == [ev |-> "none"]

EnvEvents == {"Reset", "InitPack", "InitIndex", "InitSnap", "InitKey", "InitConfig", "InitLock",
              "DamagePack", "DamageIndex", "DamageSnap", "DamageKey", "DamageConfig", "DamageLock",
              "DropPack", "DropIndex", "DropSnap", "DropKey", "DropConfig"}

\* blobs of a pack event that decrypt and hash to their id
GoodIdx(e)   == {j \in DOMAIN e.blobs : e.blob_ok[j]}
GoodBlobs(e) == {e.blobs[k] : k \in GoodIdx(e)}
LenFn(e)     == [b \in GoodBlobs(e) |-> e.lens[CHOOSE k \in GoodIdx(e) : e.blobs[k] = b]]
EntrySet(e)  == {<<x[1], x[2]>> : x \in Rng(e.entries)}

Touch(a, p) == [a EXCEPT !.muts = Put(@, p, Get(@, p, 0) + 1)]

\* what the environment has broken after an environment step (evaluated on the new storage)
Unsound(pk, ix)  == {e \in EntriesOf(ix) : ~SoundEntry(e, pk)}
Unavail(pk, ix, sn, kd) == {b \in NeededOf(sn, kd) : ~IndexedIn(b, ix, pk)}
Rebase(a) == [a EXCEPT !.base  = @ \cup Unsound(packs', idx'),
                       !.baseB = @ \cup Unavail(packs', idx', snaps', kids')]

TReset ==
  /\ Is({"Reset"}) /\ Consume
  /\ packs' = EmptyFn /\ idx' = EmptyFn /\ snaps' = EmptyFn /\ kids' = EmptyFn
  /\ keys' = {} /\ cfg' = 0
  /\ aux' = [AuxInit EXCEPT !.packsize = IF "packsize" \in DOMAIN E THEN E.packsize ELSE 0]

TTree ==
  /\ Is({"Tree"}) /\ Consume
  /\ LearnTree(E.b, Rng(E.kids))
  /\ UNCHANGED aux

TSavePack ==
  /\ Is({"SavePack", "InitPack"}) /\ Consume
  /\ SavePack(E.id, GoodBlobs(E))
  /\ LET a == [aux EXCEPT !.plen = Put(@, E.id, LenFn(E)), !.psize = Put(@, E.id, E.size),
                           !.plisted = Put(@, E.id, Rng(E.blobs))]
     IN aux' = IF E.ev = "InitPack" THEN Rebase(a) ELSE Touch(a, E.proc)

TSaveIndex ==
  /\ Is({"SaveIndex", "InitIndex"}) /\ Consume
  /\ SaveIndex(E.id, EntrySet(E))
  /\ aux' = IF E.ev = "InitIndex" THEN Rebase(aux) ELSE Touch(aux, E.proc)

TSaveSnap ==
  /\ Is({"SaveSnap", "InitSnap"}) /\ Consume
  /\ SaveSnap(E.id, E.tree, E.orig)
  /\ LET a == [aux EXCEPT !.saved = Put(@, E.proc, Get(@, E.proc, {}) \cup {E.id})]
     IN aux' = IF E.ev = "InitSnap" THEN Rebase(a) ELSE Touch(a, E.proc)

TRemoveSnap ==
  /\ Is({"RemoveSnap", "DropSnap"}) /\ Consume
  /\ IF E.id \in DOMAIN snaps THEN RemoveSnap(E.id) ELSE UNCHANGED storage
  /\ aux' = Touch([aux EXCEPT !.removed = Put(@, E.proc, Get(@, E.proc, {}) \cup {E.id})], E.proc)

TRemoveIndex ==
  /\ Is({"RemoveIndex", "DropIndex"}) /\ Consume
  /\ IF E.id \in DOMAIN idx THEN RemoveIndex(E.id) ELSE UNCHANGED storage
  /\ aux' = IF E.ev = "DropIndex" THEN Rebase(aux) ELSE Touch(aux, E.proc)

TRemovePack ==
  /\ Is({"RemovePack", "DropPack"}) /\ Consume
  /\ IF E.id \in DOMAIN packs THEN RemovePack(E.id) ELSE UNCHANGED storage
  /\ aux' = IF E.ev = "DropPack" THEN Rebase(aux) ELSE Touch(aux, E.proc)

TSaveKey ==
  /\ Is({"SaveKey", "InitKey"}) /\ Consume
  /\ AddKey(E.id)
  /\ aux' = IF E.ev = "InitKey" THEN aux ELSE Touch(aux, E.proc)

TRemoveKey ==
  /\ Is({"RemoveKey", "DropKey"}) /\ Consume
  /\ RemoveKey(E.id)
  /\ aux' = Touch(aux, E.proc)

TSaveConfig ==
  /\ Is({"SaveConfig", "InitConfig"}) /\ Consume
  /\ SaveConfig(E.version)
  /\ aux' = IF E.ev = "InitConfig" THEN aux ELSE Touch(aux, E.proc)

TRemoveConfig ==
  /\ Is({"RemoveConfig", "DropConfig"}) /\ Consume
  /\ RemoveConfig
  /\ aux' = Touch(aux, E.proc)

\* lock files are outside the storage model (Lock.tla); they are counted separately
TLockOp ==
  /\ Is({"SaveLock", "RemoveLock", "InitLock", "DamageLock"}) /\ Consume
  /\ UNCHANGED storage
  /\ aux' = IF E.ev \in {"InitLock", "DamageLock"} THEN aux
            ELSE [aux EXCEPT !.lockops = Put(@, E.proc, Get(@, E.proc, 0) + 1)]

\* reads, failed operations and free-form marks do not change the storage
TSilent ==
  /\ Is({"Stat", "Failed", "Mark", "Report", "DamageKey", "DamageConfig"}) /\ Consume
  /\ UNCHANGED storage /\ UNCHANGED aux

\* reads: remember that the process has looked at the snapshots (C14 reader order)
TRead ==
  /\ Is({"Load", "List"}) /\ Consume
  /\ UNCHANGED storage
  /\ aux' = IF E.t = "snapshot" THEN [aux EXCEPT !.sawSnap = Put(@, E.proc, TRUE)] ELSE aux

\* harness-made damage: a pack keeps its id but loses blobs; an index / snapshot file is replaced
TDamagePack ==
  /\ Is({"DamagePack"}) /\ Consume
  /\ packs' = Put(packs, E.id, GoodBlobs(E))
  /\ UNCHANGED <<idx, snaps, kids, keys, cfg>>
  /\ aux' = Rebase([aux EXCEPT !.plen = Put(@, E.id, LenFn(E)), !.psize = Put(@, E.id, E.size),
                               !.plisted = Put(@, E.id, Rng(E.blobs))])

TDamageIndex ==
  /\ Is({"DamageIndex"}) /\ Consume
  /\ idx' = Put(idx, E.id, EntrySet(E))
  /\ UNCHANGED <<packs, snaps, kids, keys, cfg>>
  /\ aux' = Rebase(aux)

TDamageSnap ==
  /\ Is({"DamageSnap"}) /\ Consume
  /\ snaps' = IF E.readable THEN Put(snaps, E.id, [tree |-> E.tree, orig |-> E.orig]) ELSE Drop(snaps, E.id)
  /\ UNCHANGED <<packs, idx, kids, keys, cfg>>
  /\ aux' = Rebase(aux)

TCmdBegin ==
  /\ Is({"Cmd"}) /\ E.phase = "begin" /\ Consume
  /\ aux' = [aux EXCEPT !.cmd = Put(@, E.proc, E.cmd), !.removed = Put(@, E.proc, {}),
                        !.saved = Put(@, E.proc, {}), !.muts = Put(@, E.proc, 0),
                        !.lockops = Put(@, E.proc, 0),
                        !.pre = Put(@, E.proc, [packs |-> packs, idx |-> idx]),
                        !.reader = Put(@, E.proc, "reader" \in DOMAIN E /\ E.reader),
                        !.sawSnap = Put(@, E.proc, FALSE)]
  /\ UNCHANGED storage

TCmdEnd ==
  /\ Is({"Cmd"}) /\ E.phase = "end" /\ Consume
  /\ aux' = [aux EXCEPT !.cmd = Put(@, E.proc, "")]
  /\ UNCHANGED storage

TNext ==
  \/ TReset \/ TTree \/ TSavePack \/ TSaveIndex \/ TSaveSnap
  \/ TRemoveSnap \/ TRemoveIndex \/ TRemovePack
  \/ TSaveKey \/ TRemoveKey \/ TSaveConfig \/ TRemoveConfig
  \/ TLockOp \/ TSilent \/ TRead \/ TDamagePack \/ TDamageIndex \/ TDamageSnap \/ TCmdBegin \/ TCmdEnd

TInit == StorageInit /\ l = 1 /\ aux = AuxInit /\ ev = NoEv

TraceSpec == TInit /\ [][TNext]_tvars

\* ---------------------------------------------------------- acceptance
TraceAccepted == TLCGet("stats").diameter >= Len(Trace) + 1

\* ------------------------------- invariants relative to the damage baseline
\* (on an undamaged history base = baseB = {} and these are Repo's invariants)
T_SnapshotData    == \A b \in Needed : Stored(b) \/ b \in aux.baseB
T_SnapshotIndexed == \A b \in Needed : Indexed(b) \/ b \in aux.baseB
\* an index entry is sound when its pack exists and the pack's header lists the blob (whether
\* the blob's bytes still decrypt is a matter of the pack, cf. C33: the index describes the packs)
Listed            == [p \in DOMAIN packs |-> Get(aux.plisted, p, {}) \cup packs[p]]
T_IndexSound      == \A e \in Entries : SoundEntry(e, Listed) \/ e \in aux.base

\* ------------------------------------- ordering rules on recorded steps
Env == l <= Len(Trace) /\ E.ev \in EnvEvents
R_PackBeforeIndex           == [][Env \/ \A i \in DOMAIN idx' \ DOMAIN idx :
                                   \A e \in idx'[i] : SoundEntry(e, Listed)]_storage
R_IndexBeforeSnapshot       == [][Env \/ \A s \in DOMAIN snaps' \ DOMAIN snaps :
                                   \A b \in ReachK(kids', snaps'[s].tree) : IndexedIn(b, idx, packs) \/ b \in aux.baseB]_storage
R_IndexGoneBeforePackDelete == [][Env \/ IndexGoneBeforePackDelete]_storage
R_IndexDeleteKeepsNeeded    == [][Env \/ \A i \in DOMAIN idx \ DOMAIN idx' :
                                   \A b \in Needed : IndexedIn(b, Drop(idx, i), packs) \/ b \in aux.baseB]_storage
R_LastKeyKept               == [][Env \/ LastKeyKept]_storage
R_ConfigWriteOnce           == [][Env \/ ConfigWriteOnce]_storage

CmdOf(p) == Get(aux.cmd, p, "")

\* C26: tag / rewrite / repair snapshots never lose the snapshot they replace:
\* when such a command removes snapshot s, a snapshot whose original is s (or
\* the first id of s's lineage) exists afterwards.
RewriteCmds == {"tag", "rewrite", "repair-snapshots"}
SnapshotNotLost ==
  \A s \in DOMAIN snaps \ DOMAIN snaps' :
     (l <= Len(Trace) /\ CmdOf(E.proc) \in RewriteCmds)
        => \/ \E s2 \in DOMAIN snaps' : snaps'[s2].orig \in {s, OrigOf(snaps, s)}
           \* rolling back a just-saved replacement while the snapshot it was made from is still there
           \/ (snaps[s].orig # NoSnap /\ snaps[s].orig \in DOMAIN snaps')
           \* `repair snapshots --forget` drops a snapshot that environment damage made unrepairable
           \/ (CmdOf(E.proc) = "repair-snapshots" /\ Reach(snaps[s].tree) \cap aux.baseB # {})
R_SnapshotNotLost == [][SnapshotNotLost]_storage

\* C26: original / tree relations of a snapshot saved by such a command
OriginalKept ==
  \A s \in DOMAIN snaps' \ DOMAIN snaps :
     (l <= Len(Trace) /\ CmdOf(E.proc) \in RewriteCmds)
        => /\ snaps'[s].orig # NoSnap
           /\ IF CmdOf(E.proc) = "tag"
              \* tag: first id of the lineage is kept, tree untouched
              THEN \E o \in DOMAIN snaps : /\ OrigOf(snaps, o) = snaps'[s].orig
                                           /\ snaps[o].tree = snaps'[s].tree
              \* rewrite / repair snapshots: the code records the replaced snapshot's id; the
              \* statement ("first snapshot's ID") also admits the lineage's first id
              ELSE \E o \in DOMAIN snaps : snaps'[s].orig \in {o, OrigOf(snaps, o)}
R_OriginalKept == [][OriginalKept]_storage

\* --------------------------------------------- per-event invariants
SaveEvents == {"SavePack", "SaveIndex", "SaveSnap", "SaveKey", "SaveLock", "SaveConfig"}
\* C02: every file is stored under the SHA-256 of its bytes, every blob under the SHA-256 of its plaintext
ContentAddressed ==
  ev.ev \in SaveEvents =>
     /\ ev.name_ok
     /\ (ev.ev = "SavePack" => ev.blobs_ok /\ ev.readable)
\* C04: fresh nonce for every encrypted object, no plaintext marker in stored bytes
NonceFresh == (ev.ev \in SaveEvents /\ "nonce_ok" \in DOMAIN ev) => ev.nonce_ok
NoLeak     == (ev.ev \in SaveEvents) => ~ev.leak
\* C44: packs never mix tree and data blobs
PackUnmixed == ev.ev = "SavePack" => ~ev.mixed
\* C44: a pack receives no further blob once it has reached the target pack size: the
\* blobs before the last one (in offset order = order of adding) sum up to less than it
\* (the Reset line of a trace names the repository's pack size, 0 = unknown)
PackSizeOf == aux.packsize
SumSeq(s, n) == LET RECURSIVE SS(_)
                    SS(k) == IF k = 0 THEN 0 ELSE s[k] + SS(k - 1)
                IN SS(n)
PackNotOverfilled ==
  (ev.ev = "SavePack" /\ PackSizeOf > 0 /\ Len(ev.lens) >= 2)
     => SumSeq(ev.lens, Len(ev.lens) - 1) < PackSizeOf

\* C44 / C16: at the end of an upload session (a Cmd end line with "accepted")
\*  - every accepted blob is in exactly one pack of the repository, and is
\*    indexed by the index files now present (packs and index persisted before the end);
\*  - no blob that the index files present at the start already listed, and no blob twice,
\*    was uploaded (unless the session stored duplicates on purpose)
NewPacks(p) == DOMAIN packs \ DOMAIN aux.pre[p].packs
SessionComplete ==
  (ev.ev = "Cmd" /\ ev.phase = "end" /\ "accepted" \in DOMAIN ev) =>
     \A b \in Rng(ev.accepted) :
        /\ Indexed(b)
        /\ (~ev.dups) => Cardinality({p \in DOMAIN packs : b \in packs[p]}) = 1
NoDuplicateUpload ==
  (ev.ev = "Cmd" /\ ev.phase = "end" /\ "dups" \in DOMAIN ev /\ ~ev.dups) =>
     LET new == NewPacks(ev.proc)
         old == BlobsOf({e \in EntriesOf(aux.pre[ev.proc].idx) : SoundEntry(e, aux.pre[ev.proc].packs)})
     IN /\ \A p1, p2 \in new : p1 # p2 => packs[p1] \cap packs[p2] = {}
        /\ \A p \in new : packs[p] \cap old = {}

\* C33: after `repair index` the index lists every blob of every pack whose header is
\* readable and nothing else (nothing for missing or unreadable packs), and the repair
\* deleted no pack file
RepairIndexExact ==
  (ev.ev = "Cmd" /\ ev.phase = "end" /\ "repairindex" \in DOMAIN ev /\ ev.repairindex) =>
     /\ Entries = UNION {{<<b, p>> : b \in Get(aux.plisted, p, {})} : p \in DOMAIN packs}
     /\ DOMAIN aux.pre[ev.proc].packs \subseteq DOMAIN packs
\* C33 / C34: a repair command deletes a pack only after every blob that could still be read
\* from it is indexed in another pack
RepairKeepsReadable ==
  \A p \in DOMAIN packs \ DOMAIN packs' :
     (l <= Len(Trace) /\ CmdOf(E.proc) \in {"repair-packs", "repair-index"})
        => \A b \in packs[p] : IndexedIn(b, idx', packs')
R_RepairKeepsReadable == [][RepairKeepsReadable]_storage

\* files written by restic are readable by restic's own decoder
Readable   == (ev.ev \in SaveEvents /\ "readable" \in DOMAIN ev) => ev.readable

\* C14: a reading command lists (or loads) the snapshots before it lists or loads the index,
\* so that every snapshot it can see was written before the index it is going to load
ReaderOrder ==
  (ev.ev \in {"Load", "List"} /\ ev.t = "index" /\ Get(aux.reader, ev.proc, FALSE))
     => Get(aux.sawSnap, ev.proc, FALSE)

IsEnd == ev.ev = "Cmd" /\ ev.phase = "end"

\* C39: a command announced as read-only performed no mutating operation
ReadOnlyRespected ==
  (IsEnd /\ "readonly" \in DOMAIN ev /\ ev.readonly) => Get(aux.muts, ev.proc, 0) = 0
\* C39: a command run with --no-lock did not even create a lock file
NoLockRespected ==
  (IsEnd /\ "nolock" \in DOMAIN ev /\ ev.nolock) => Get(aux.lockops, ev.proc, 0) = 0

\* C23: forget removed exactly the snapshots it reported
ForgetMatchesReport ==
  (IsEnd /\ "reported" \in DOMAIN ev) => Get(aux.removed, ev.proc, {}) = Rng(ev.reported)

\* C10: after a full prune (no tolerance, no repack limit) there is no waste
NoWaste ==
  (IsEnd /\ "fullprune" \in DOMAIN ev /\ ev.fullprune) =>
     /\ \A e \in Entries : e[1] \in Needed                        \* no unreachable blob indexed
     /\ \A e1, e2 \in Entries : e1[1] = e2[1] => e1 = e2           \* no blob twice
     /\ \A p \in DOMAIN packs : \E e \in Entries : e[2] = p        \* no pack without entry
     /\ IndexSound                                                 \* no entry for a missing pack

\* C10: the statistics prune reports agree with the repository before and after.
\* Only relations that follow from the statement are asserted; which copy of a
\* duplicated blob counts as "used" is prune's choice, so sizes of used and
\* duplicate blobs are only constrained in sum.
EntryLen(e) == IF e[2] \in DOMAIN aux.plen /\ e[1] \in DOMAIN aux.plen[e[2]] THEN aux.plen[e[2]][e[1]] ELSE 0
SumLen(es)  == MapThenSumSet(EntryLen, es)
PackSize(p) == Get(aux.psize, p, 0)
PruneStatsOK ==
  (IsEnd /\ "stats" \in DOMAIN ev) =>
     LET st      == ev.stats
         P       == aux.pre[ev.proc]
         preE    == EntriesOf(P.idx)
         usedE   == {e \in preE : e[1] \in Needed}
         unusedE == preE \ usedE
         usedB   == BlobsOf(usedE)
         unref   == DOMAIN P.packs \ PacksOf(preE)
         gone    == DOMAIN P.packs \ DOMAIN packs
     IN /\ st.blobs_total     = Cardinality(preE)
        /\ st.blobs_used      = Cardinality(usedB)
        /\ st.blobs_duplicate = Cardinality(usedE) - Cardinality(usedB)
        /\ st.blobs_unused    = Cardinality(unusedE)
        /\ st.size_used + st.size_duplicate = SumLen(usedE)
        /\ st.size_unused     = SumLen(unusedE)
        /\ st.size_unref      = MapThenSumSet(PackSize, unref)
        /\ st.size_total      = SumLen(preE) + MapThenSumSet(PackSize, unref)
        /\ st.packs_unref     = Cardinality(unref)
        /\ st.packs_total     = Cardinality(DOMAIN P.packs)          \* pack files present (indexed or not)
        /\ (PacksOf(preE) \subseteq DOMAIN P.packs) =>
              st.packs_keep + st.packs_repack + st.packs_remove = Cardinality(PacksOf(preE))
        \* what the run actually did (not a dry run, run completed)
        /\ ev.executed =>
             /\ st.blobs_remaining = Cardinality(Entries)
             /\ (PacksOf(preE) \subseteq DOMAIN P.packs) =>
                   st.packs_remove_total + st.packs_repack = Cardinality(gone)
             /\ st.packs_keep = Cardinality(PacksOf(preE) \cap DOMAIN P.packs \cap DOMAIN packs)
             /\ (ev.samecompression => st.size_remaining = SumLen(Entries))

=============================================================================
