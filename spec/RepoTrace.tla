----------------------------- MODULE RepoTrace -----------------------------
(***************************************************************************)
(* Trace specification: binds backend operations recorded from the real    *)
(* restic code (harness/kit: Store + Projector) to the effects of Repo.tla.*)
(* One ndjson line = one TLC state, so every invariant and every ordering  *)
(* rule is evaluated on every prefix of every recorded run - each prefix   *)
(* is the storage a crash at that point leaves behind.                     *)
(*                                                                         *)
(* Several runs are concatenated; a "Reset" line starts a new repository.  *)
(* "Init*" lines describe a pre-existing storage (harness-made or cloned   *)
(* prefix state), "Damage*" lines harness-made damage; both are            *)
(* environment steps and exempt from the ordering rules.                   *)
(***************************************************************************)
EXTENDS Repo, Json, Sequences, SequencesExt

Trace == ndJsonDeserialize("trace.ndjson")

VARIABLES l,        \* next line to consume
          cmd,      \* proc |-> name of the command it is running ("" = none)
          removed,  \* proc |-> snapshots it removed during the current command
          saved,    \* proc |-> snapshots it saved during the current command
          muts,     \* proc |-> number of effective mutating operations (not lock files) in the command
          lockops,  \* proc |-> number of lock-file operations in the command
          base,     \* set of blobs already lost / index entries already unsound by environment damage
          ev        \* the line consumed last (for per-event invariants)

tvars == <<storage, l, cmd, removed, saved, muts, lockops, base, ev>>

Rng(s) == {s[k] : k \in DOMAIN s}
Get(f, k, d) == IF k \in DOMAIN f THEN f[k] ELSE d
Put(f, k, v) == [x \in DOMAIN f \cup {k} |-> IF x = k THEN v ELSE f[x]]

E == Trace[l]
Is(names) == l <= Len(Trace) /\ E.ev \in names
Consume == l' = l + 1 /\ ev' = E

NoEv == [ev |-> "none"]

EnvEvents == {"Reset", "InitPack", "InitIndex", "InitSnap", "InitKey", "InitConfig", "InitLock",
              "DamagePack", "DamageIndex", "DamageSnap", "DropPack", "DropIndex", "DropSnap", "DropKey", "DropConfig"}

\* blobs of a pack event that decrypt and hash to their id
GoodBlobs(e) == {e.blobs[k] : k \in {j \in DOMAIN e.blobs : e.blob_ok[j]}}
EntrySet(e)  == {<<x[1], x[2]>> : x \in Rng(e.entries)}

Touch(p)  == muts' = Put(muts, p, Get(muts, p, 0) + 1)
KeepCmd   == UNCHANGED <<cmd, removed, saved, base, lockops>>

TReset ==
  /\ Is({"Reset"}) /\ Consume
  /\ packs' = EmptyFn /\ idx' = EmptyFn /\ snaps' = EmptyFn /\ kids' = EmptyFn
  /\ keys' = {} /\ cfg' = 0
  /\ cmd' = EmptyFn /\ removed' = EmptyFn /\ saved' = EmptyFn /\ muts' = EmptyFn /\ lockops' = EmptyFn /\ base' = {}

TTree ==
  /\ Is({"Tree"}) /\ Consume
  /\ LearnTree(E.b, Rng(E.kids))
  /\ KeepCmd /\ UNCHANGED muts

TSavePack ==
  /\ Is({"SavePack", "InitPack"}) /\ Consume
  /\ SavePack(E.id, GoodBlobs(E))
  /\ KeepCmd /\ Touch(E.proc)

TSaveIndex ==
  /\ Is({"SaveIndex", "InitIndex"}) /\ Consume
  /\ SaveIndex(E.id, EntrySet(E))
  /\ KeepCmd /\ Touch(E.proc)

TSaveSnap ==
  /\ Is({"SaveSnap", "InitSnap"}) /\ Consume
  /\ SaveSnap(E.id, E.tree, E.orig)
  /\ saved' = Put(saved, E.proc, Get(saved, E.proc, {}) \cup {E.id})
  /\ UNCHANGED <<cmd, removed, base, lockops>> /\ Touch(E.proc)

TRemoveSnap ==
  /\ Is({"RemoveSnap", "DropSnap"}) /\ Consume
  /\ IF E.id \in DOMAIN snaps THEN RemoveSnap(E.id) ELSE UNCHANGED storage
  /\ removed' = Put(removed, E.proc, Get(removed, E.proc, {}) \cup {E.id})
  /\ UNCHANGED <<cmd, saved, base, lockops>> /\ Touch(E.proc)

TRemoveIndex ==
  /\ Is({"RemoveIndex", "DropIndex"}) /\ Consume
  /\ IF E.id \in DOMAIN idx THEN RemoveIndex(E.id) ELSE UNCHANGED storage
  /\ KeepCmd /\ Touch(E.proc)

TRemovePack ==
  /\ Is({"RemovePack", "DropPack"}) /\ Consume
  /\ IF E.id \in DOMAIN packs THEN RemovePack(E.id) ELSE UNCHANGED storage
  /\ KeepCmd /\ Touch(E.proc)

TSaveKey ==
  /\ Is({"SaveKey", "InitKey"}) /\ Consume
  /\ AddKey(E.id)
  /\ KeepCmd /\ Touch(E.proc)

TRemoveKey ==
  /\ Is({"RemoveKey", "DropKey"}) /\ Consume
  /\ RemoveKey(E.id)
  /\ KeepCmd /\ Touch(E.proc)

TSaveConfig ==
  /\ Is({"SaveConfig", "InitConfig"}) /\ Consume
  /\ SaveConfig(E.version)
  /\ KeepCmd /\ Touch(E.proc)

TRemoveConfig ==
  /\ Is({"RemoveConfig", "DropConfig"}) /\ Consume
  /\ RemoveConfig
  /\ KeepCmd /\ Touch(E.proc)

\* lock files are outside the storage model (Lock.tla); they count as mutations
TLockOp ==
  /\ Is({"SaveLock", "RemoveLock", "InitLock"}) /\ Consume
  /\ UNCHANGED storage /\ UNCHANGED <<cmd, removed, saved, base, muts>>
  /\ IF E.ev = "InitLock" THEN UNCHANGED lockops
     ELSE lockops' = Put(lockops, E.proc, Get(lockops, E.proc, 0) + 1)

\* reads, failed operations and free-form marks do not change the storage
TSilent ==
  /\ Is({"Load", "List", "Stat", "Failed", "Mark", "Report"}) /\ Consume
  /\ UNCHANGED storage /\ KeepCmd /\ UNCHANGED muts

\* harness-made damage: the blobs a pack loses / entries that become unsound
\* are recorded in `base`, and invariants are evaluated relative to it
TDamagePack ==
  /\ Is({"DamagePack"}) /\ Consume
  /\ packs' = Put(packs, E.id, GoodBlobs(E))
  /\ UNCHANGED <<idx, snaps, kids, keys, cfg>>
  /\ UNCHANGED <<cmd, removed, saved, muts, lockops, base>>

TCmdBegin ==
  /\ Is({"Cmd"}) /\ E.phase = "begin" /\ Consume
  /\ cmd' = Put(cmd, E.proc, E.cmd)
  /\ removed' = Put(removed, E.proc, {})
  /\ saved' = Put(saved, E.proc, {})
  /\ muts' = Put(muts, E.proc, 0) /\ lockops' = Put(lockops, E.proc, 0)
  /\ UNCHANGED storage /\ UNCHANGED base

TCmdEnd ==
  /\ Is({"Cmd"}) /\ E.phase = "end" /\ Consume
  /\ cmd' = Put(cmd, E.proc, "")
  /\ UNCHANGED storage /\ UNCHANGED <<removed, saved, muts, lockops, base>>

TNext ==
  \/ TReset \/ TTree \/ TSavePack \/ TSaveIndex \/ TSaveSnap
  \/ TRemoveSnap \/ TRemoveIndex \/ TRemovePack
  \/ TSaveKey \/ TRemoveKey \/ TSaveConfig \/ TRemoveConfig
  \/ TLockOp \/ TSilent \/ TDamagePack \/ TCmdBegin \/ TCmdEnd

TInit ==
  /\ StorageInit /\ l = 1
  /\ cmd = EmptyFn /\ removed = EmptyFn /\ saved = EmptyFn /\ muts = EmptyFn /\ lockops = EmptyFn
  /\ base = {} /\ ev = NoEv

TraceSpec == TInit /\ [][TNext]_tvars

\* ---------------------------------------------------------- acceptance
TraceAccepted == TLCGet("stats").diameter >= Len(Trace) + 1

\* ------------------------------------- ordering rules on recorded steps
Env == l <= Len(Trace) /\ E.ev \in EnvEvents
R_PackBeforeIndex           == [][Env \/ PackBeforeIndex]_storage
R_IndexBeforeSnapshot       == [][Env \/ IndexBeforeSnapshot]_storage
R_IndexGoneBeforePackDelete == [][Env \/ IndexGoneBeforePackDelete]_storage
R_IndexDeleteKeepsNeeded    == [][Env \/ IndexDeleteKeepsNeeded]_storage
R_LastKeyKept               == [][Env \/ LastKeyKept]_storage
R_ConfigWriteOnce           == [][Env \/ ConfigWriteOnce]_storage

\* C26: tag / rewrite / repair snapshots never lose the snapshot they replace:
\* when such a command removes snapshot s, a snapshot with the same original
\* (or s itself as original) exists afterwards.
RewriteCmds == {"tag", "rewrite", "repair-snapshots"}
SnapshotNotLost ==
  \A s \in DOMAIN snaps \ DOMAIN snaps' :
     (l <= Len(Trace) /\ Get(cmd, E.proc, "") \in RewriteCmds)
        => \E s2 \in DOMAIN snaps' : snaps'[s2].orig \in {s, OrigOf(snaps, s)}
R_SnapshotNotLost == [][SnapshotNotLost]_storage

\* C26: a snapshot saved by such a command keeps the first snapshot's id as
\* its original whenever it replaces an existing snapshot of that lineage
OriginalKept ==
  \A s \in DOMAIN snaps' \ DOMAIN snaps :
     (l <= Len(Trace) /\ Get(cmd, E.proc, "") \in RewriteCmds)
        => /\ snaps'[s].orig # NoSnap
           /\ IF cmd[E.proc] = "tag"
              \* tag: first id of the lineage is kept, tree untouched
              THEN \E o \in DOMAIN snaps : /\ OrigOf(snaps, o) = snaps'[s].orig
                                           /\ snaps[o].tree = snaps'[s].tree
              \* rewrite / repair snapshots: the code records the replaced snapshot's id; the
              \* statement ("first snapshot's ID") also admits the lineage's first id
              ELSE \E o \in DOMAIN snaps : snaps'[s].orig \in {o, OrigOf(snaps, o)}
R_OriginalKept == [][OriginalKept]_storage

\* --------------------------------------------- per-event invariants
SaveEvents == {"SavePack", "SaveIndex", "SaveSnap", "SaveKey", "SaveLock", "SaveConfig"}
\* C02: every file is stored under the SHA-256 of its bytes, every blob under the SHA-256 of its plaintext
ContentAddressed ==
  ev.ev \in SaveEvents =>
     /\ ev.name_ok
     /\ (ev.ev = "SavePack" => ev.blobs_ok /\ ev.readable)
\* C04: fresh nonce for every encrypted object, no plaintext marker in stored bytes
NonceFresh == (ev.ev \in SaveEvents /\ "nonce_ok" \in DOMAIN ev) => ev.nonce_ok
NoLeak     == (ev.ev \in SaveEvents) => ~ev.leak
\* C44: packs never mix tree and data blobs
PackUnmixed == ev.ev = "SavePack" => ~ev.mixed
\* files written by restic are readable by restic's own decoder
Readable   == (ev.ev \in SaveEvents /\ "readable" \in DOMAIN ev) => ev.readable

\* C39: a command announced as read-only performed no mutating operation
ReadOnlyRespected ==
  (ev.ev = "Cmd" /\ ev.phase = "end" /\ "readonly" \in DOMAIN ev /\ ev.readonly)
     => Get(muts, ev.proc, 0) = 0
\* C39: a command run with --no-lock did not even create a lock file
NoLockRespected ==
  (ev.ev = "Cmd" /\ ev.phase = "end" /\ "nolock" \in DOMAIN ev /\ ev.nolock)
     => Get(lockops, ev.proc, 0) = 0

\* C23: forget removed exactly the snapshots it reported
ForgetMatchesReport ==
  (ev.ev = "Cmd" /\ ev.phase = "end" /\ "reported" \in DOMAIN ev)
     => Get(removed, ev.proc, {}) = Rng(ev.reported)

\* C10: after a full prune (no tolerance, no repack limit) there is no waste
NoWaste ==
  (ev.ev = "Cmd" /\ ev.phase = "end" /\ "fullprune" \in DOMAIN ev /\ ev.fullprune) =>
     /\ \A e \in Entries : e[1] \in Needed                        \* no unreachable blob indexed
     /\ \A e1, e2 \in Entries : e1[1] = e2[1] => e1 = e2           \* no blob twice
     /\ \A p \in DOMAIN packs : \E e \in Entries : e[2] = p        \* no pack without entry
     /\ IndexSound                                                 \* no entry for a missing pack

=============================================================================
