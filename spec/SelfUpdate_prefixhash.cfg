SPECIFICATION Spec
CONSTANT Twin = "prefixhash"
INVARIANTS Safe
CHECK_DEADLOCK FALSE
