------------------------------ MODULE Fn_Stats ------------------------------
(***************************************************************************)
(* C54: `restic stats --mode restore-size` reports                         *)
(*   total_file_count = number of entries of the selected snapshots,       *)
(*   total_size       = total size of their regular files, a group of      *)
(*                      hard-linked files counted once per snapshot,       *)
(* and total_size equals the data a restore of those snapshots writes.     *)
(*                                                                         *)
(* A snapshot is given as the sequence of entries the harness found in the *)
(* source tree at backup time (independently of restic, by lstat):         *)
(*   [t |-> type, s |-> size in bytes (regular files, else 0),             *)
(*    g |-> 0 if the inode has one link, else a positive id of the inode]  *)
(***************************************************************************)
EXTENDS Sequences, Naturals, FiniteSets

RECURSIVE SumSeq(_, _)
SumSeq(s, i) == IF i > Len(s) THEN 0 ELSE s[i] + SumSeq(s, i + 1)

\* size of one snapshot: files with a single link each count; every hard-link group counts once
Groups(sn) == {sn[i].g : i \in {j \in DOMAIN sn : sn[j].t = "file" /\ sn[j].g # 0}}
GroupSize(sn, g) == LET i == CHOOSE j \in DOMAIN sn : sn[j].t = "file" /\ sn[j].g = g IN sn[i].s
RECURSIVE GroupSum(_, _)
GroupSum(sn, G) == IF G = {} THEN 0 ELSE LET g == CHOOSE y \in G : TRUE IN GroupSize(sn, g) + GroupSum(sn, G \ {g})
SnapSize(sn) ==
  SumSeq([i \in DOMAIN sn |-> IF sn[i].t = "file" /\ sn[i].g = 0 THEN sn[i].s ELSE 0], 1)
  + GroupSum(sn, Groups(sn))
SnapCount(sn) == Len(sn)

ExpSize(snaps)  == SumSeq([k \in DOMAIN snaps |-> SnapSize(snaps[k])], 1)
ExpCount(snaps) == SumSeq([k \in DOMAIN snaps |-> SnapCount(snaps[k])], 1)

\* r.snaps              the selected snapshots (entries as above)
\* r.stats_size/count/snapshots   what `stats --mode restore-size --json` printed
\* r.restore_bytes      sum over the selected snapshots of the bytes the real `restore` reports as written
\* r.disk_bytes         sum over the restored directories of the sizes of the distinct regular-file inodes
RecOK(r) ==
  /\ r.stats_snapshots = Len(r.snaps)
  /\ r.stats_count = ExpCount(r.snaps)
  /\ r.stats_size = ExpSize(r.snaps)
  /\ r.restore_bytes = r.stats_size
  /\ r.disk_bytes = r.stats_size
=============================================================================
