---- MODULE LockRec13HasFile ----
(* C13, classification of rejected records: only HolderHasFile *)
EXTENDS LockObs
RecOK(r) == \A k \in 1..Len(r.obs) : HolderHasFile(r.obs[k])
====
