---------------------------- MODULE Fn_BucketsMC ----------------------------
(***************************************************************************)
(* Design checks for Fn_Buckets, evaluated by TLC:                         *)
(*  1. PartitionFast = Partition on every sequence of <= 3 subsets of a    *)
(*     3-element universe;                                                 *)
(*  2. the reference grouping "first ID byte mod t = n-1" partitions the   *)
(*     byte range for every t in 1..MaxT (and every group is non-empty,    *)
(*     which is why the maximum is 256);                                   *)
(*  3. (negative twin, Twin = TRUE) the off-by-one grouping "mod t = n"    *)
(*     does not cover: TLC must refute the assumption.                     *)
(***************************************************************************)
EXTENDS Fn_Buckets, TLC
CONSTANT Twin

U == {1, 2, 3}
SmallSeqs == UNION {[1..k -> SUBSET U] : k \in 0..3}
ASSUME \A S \in SmallSeqs : \A all \in SUBSET U :
          Partition(S, all) <=> PartitionFast(S, all)

Bytes == 0..255
Group(n, t) == IF Twin THEN {b \in Bytes : b % t = n} ELSE {b \in Bytes : b % t = n - 1}
ASSUME \A t \in 1..MaxT :
          LET S == [n \in 1..t |-> Group(n, t)] IN
          /\ PartitionFast(S, Bytes)
          /\ (t <= 24 => Partition(S, Bytes))
          /\ (Twin \/ \A n \in 1..t : S[n] # {})

VARIABLE x
Init == x = 0
Next == x' = x
Spec == Init /\ [][Next]_x
=============================================================================
