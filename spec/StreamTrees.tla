----------------------------- MODULE StreamTrees -----------------------------
(***************************************************************************)
(* C42: design model of data.StreamTrees as FindUsedBlobs uses it          *)
(* (internal/data/tree_stream.go, find.go).                                *)
(*  filterTrees goroutine: backlog (stack), next tree waiting to be sent,  *)
(*    outstanding jobs; Pick pops the backlog and asks skip() (visited-set *)
(*    test-and-insert); Dispatch hands `next` to an idle worker            *)
(*    (unbuffered loaderChan); Deliver receives a finished job from a      *)
(*    worker and pushes its subtrees; Exit when nothing is left.           *)
(*  loadTreeWorker w: Work = LoadTree + process callback (the gate of the  *)
(*    replay is LoadBlob), then the job waits to be delivered.             *)
(*  A missing tree makes process fail: the traversal aborts with an error. *)
(* The DAG is chosen in Init among all DAGs on 1..NT whose edges go from   *)
(* lower to higher numbers, every tree having at most MaxKids subtree      *)
(* entries (duplicates allowed), so the run covers all shapes of sharing.  *)
(***************************************************************************)
EXTENDS StreamTreesProps, TLC

CONSTANTS NT,       \* trees 1..NT
          MaxKids,
          W,        \* number of (normal) workers
          MaxRoots, \* root lists have 1..MaxRoots entries
          WithBad,  \* TRUE: one tree may be missing
          Twin,     \* "none" | "mark_after_load" | "exit_early" | "no_decrement"
          Record

Trees == 1..NT
Workers == 1..W

VARIABLES kids, roots, bad,
          backlog, next, outstanding, seen,
          wst, wt,          \* worker state "idle" | "work" | "send", and its tree
          loaded,           \* history: sequence of trees processed
          state,            \* "run" | "done" | "err"
          sched
vars == <<kids, roots, bad, backlog, next, outstanding, seen, wst, wt, loaded, state, sched>>

SeqsUpTo(S, k) == UNION {[1..m -> S] : m \in 0..k}
Data == [t \in Trees |-> <<100 + t, 100 + (t % 2)>>]     \* data blobs, some shared between trees

\* all DAGs: tree t lists at most MaxKids subtree entries among the higher-numbered trees
RECURSIVE AllDags(_)
AllDags(t) == IF t > NT THEN {<<>>}
              ELSE {<<k>> \o rest : k \in SeqsUpTo((t + 1)..NT, MaxKids), rest \in AllDags(t + 1)}

Init ==
  /\ kids \in AllDags(1)
  /\ roots \in {s \in SeqsUpTo(Trees, MaxRoots) : s # <<>> /\ s[1] = 1}
  /\ bad \in IF WithBad THEN {{}} \cup {{t} : t \in Trees} ELSE {{}}
  /\ backlog = roots /\ next = 0 /\ outstanding = 0 /\ seen = {}
  /\ wst = [w \in Workers |-> "idle"] /\ wt = [w \in Workers |-> 0]
  /\ loaded = <<>> /\ state = "run" /\ sched = <<>>

\* filterTrees: pop the backlog; skip() tests and inserts into the visited set
Pick ==
  /\ state = "run" /\ next = 0 /\ backlog # <<>>
  /\ LET t == backlog[Len(backlog)] IN
       /\ backlog' = SubSeq(backlog, 1, Len(backlog) - 1)
       /\ IF t \in seen THEN UNCHANGED <<next, seen>>
          ELSE /\ next' = t
               /\ seen' = IF Twin = "mark_after_load" THEN seen ELSE seen \cup {t}
  /\ UNCHANGED <<kids, roots, bad, outstanding, wst, wt, loaded, state, sched>>

\* the select in filterTrees is reached only when Pick cannot continue
AtSelect == next # 0 \/ backlog = <<>>

Dispatch(w) ==
  /\ state = "run" /\ AtSelect /\ next # 0 /\ wst[w] = "idle"
  /\ wst' = [wst EXCEPT ![w] = "work"] /\ wt' = [wt EXCEPT ![w] = next]
  /\ next' = 0 /\ outstanding' = outstanding + 1
  /\ UNCHANGED <<kids, roots, bad, backlog, seen, loaded, state, sched>>

\* LoadTree + process callback (FindUsedBlobs inserts the data blobs); controllable: LoadBlob is the gate
Work(w) ==
  /\ state = "run" /\ wst[w] = "work"
  /\ loaded' = Append(loaded, wt[w])
  /\ seen' = IF Twin = "mark_after_load" THEN seen \cup {wt[w]} ELSE seen
  /\ IF wt[w] \in bad THEN state' = "err" /\ UNCHANGED wst
     ELSE wst' = [wst EXCEPT ![w] = "send"] /\ UNCHANGED state
  /\ sched' = IF Record THEN Append(sched, wt[w]) ELSE sched
  /\ UNCHANGED <<kids, roots, bad, backlog, next, outstanding, wt>>

RECURSIVE PushRev(_, _, _)
PushRev(b, ks, i) == IF i = 0 THEN b ELSE PushRev(IF ks[i] = 0 THEN b ELSE Append(b, ks[i]), ks, i - 1)

Deliver(w) ==
  /\ state = "run" /\ AtSelect /\ wst[w] = "send"
  /\ outstanding' = IF Twin = "no_decrement" THEN outstanding ELSE outstanding - 1
  /\ backlog' = PushRev(backlog, kids[wt[w]], Len(kids[wt[w]]))
  /\ wst' = [wst EXCEPT ![w] = "idle"]
  /\ UNCHANGED <<kids, roots, bad, next, seen, wt, loaded, state, sched>>

Exit ==
  /\ state = "run" /\ next = 0 /\ backlog = <<>>
  /\ (outstanding = 0 \/ Twin = "exit_early")
  /\ state' = "done"
  /\ UNCHANGED <<kids, roots, bad, backlog, next, outstanding, seen, wst, wt, loaded, sched>>

Internal == Pick \/ Exit \/ \E w \in Workers : Dispatch(w) \/ Deliver(w)
Control  == \E w \in Workers : Work(w)
Finished == state # "run" /\ UNCHANGED vars

Next   == Internal \/ Control \/ Finished
Spec   == Init /\ [][Next]_vars /\ WF_vars(Internal \/ Control)
SpecQ  == Init /\ [][Internal \/ (~ENABLED Internal /\ Control) \/ Finished]_vars
SpecQS == Init /\ [][Internal \/ (~ENABLED Internal /\ Control)]_vars

---------------------------------------------------------------------------
TheReach == Reach(kids, bad, Range(roots))

\* each tree is processed at most once, and only reachable trees are
Once      == AtMostOnce(loaded) /\ Range(loaded) \subseteq TheReach
\* a finished traversal processed exactly the reachable trees; the blob set is exactly trees + their data
Exact     == state = "done" => /\ ExactlyReach(loaded, TheReach)
                               /\ UsedOK(seen, DataOf(Data, bad, Range(loaded)), TheReach, Data, bad)
\* error iff a reachable tree cannot be read
ErrorIff  == /\ state = "err" => TheReach \cap bad # {}
             /\ state = "done" => TheReach \cap bad = {}
\* always terminates (also checked: no deadlock, `Finished` being the only legal end)
Termination == <>(state # "run")

EmitSched == (Record /\ state # "run") => PrintT("SCHED " \o ToString(<<kids, roots, bad, sched>>))
=============================================================================
