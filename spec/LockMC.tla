------------------------------- MODULE LockMC -------------------------------
(* constant definitions for the configurations of Lock.tla *)
EXTENDS Lock
RemotesNone == {{}}
RemotesSome == {{}, {[o |-> 0, t |-> 0, x |-> TRUE]}, {[o |-> 0, t |-> 0, x |-> FALSE]}}
NoFaults    == {}
ReadFaults  == {"List", "Load"}
AllFaults   == {"List", "Load", "Save", "Remove"}
WriteFaults == {"Save", "Remove"}
=============================================================================
