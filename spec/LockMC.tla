------------------------------- MODULE LockMC -------------------------------
(* constant definitions for the configurations of Lock.tla *)
EXTENDS Lock
RemotesNone == {{}}
RemotesSome == {{}, {[o |-> 0, t |-> 0, x |-> TRUE, g |-> 0]}, {[o |-> 0, t |-> 0, x |-> FALSE, g |-> 0]}}
NoFaults    == {}
ReadFaults  == {"List", "Load"}
AllFaults   == {"List", "Load", "Save", "Remove"}
WriteFaults == {"Save", "Remove"}
C13Faults   == {"List", "Save", "SaveAfter", "Remove"}
SaveFault   == {"Save"}
=============================================================================
