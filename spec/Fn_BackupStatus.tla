-------------------------- MODULE Fn_BackupStatus --------------------------
(***************************************************************************)
(* C55: exit status of `restic backup` when source items cannot be read.   *)
(*                                                                         *)
(* A source tree is a sequence of items; item i has a parent (0 = it is a  *)
(* command-line target, otherwise the index of the directory holding it,   *)
(* always smaller than i), a kind and a fault class: the answer the source *)
(* file system gives when restic touches the item.  `delivered` says that  *)
(* the file system really returned that answer to restic during the run    *)
(* (an item below an unreadable directory is never touched; an unchanged   *)
(* file of an incremental backup is never opened).                         *)
(*                                                                         *)
(* Statement (doc/040_backup.rst "Exit status codes"):                     *)
(*   0  snapshot with all source files created                             *)
(*   3  some source files could not be read; incomplete snapshot with the  *)
(*      remaining files created                                            *)
(* Files that vanish between the directory listing and opening them are    *)
(* not source items: they are skipped silently.                            *)
(***************************************************************************)
EXTENDS Naturals, Sequences, FiniteSets, TLC

Kinds == {"file", "dir", "symlink"}

\* read() faults addressed by call number: the k-th Read call on the open file answers EIO, once (a
\* transient fault: later calls work again) or persistently (that call and every later one); the file
\* system delivers the file whole (one Read per request) or in short pieces (a few bytes / 64 KiB per
\* Read call, as a slow disk or a network file system does)
ReadCalls == 1..3
ReadCallClasses == {"read_k" \o ToString(k) \o "_" \o p \o "_" \o m :
                      k \in ReadCalls, p \in {"once", "pers"}, m \in {"whole", "short"}}
\* the item is exchanged on the real file system after it was listed and lstat()ed and before it is
\* opened for reading: by a symlink to a readable item of the old kind, by a dangling symlink, by a
\* directory (was a file), by a file (was a directory)
SwapClasses == {"swap_symlink_same", "swap_symlink_dangling", "swap_dir", "swap_file"}

\* the item exists but cannot be read: error on open / lstat / read / readdir, or it is
\* not what lstat said it was once it is open (type change), or a named target is missing
\* (readdir_partial: the listing breaks in the middle, some names are returned together with the error)
FailClasses == {"open_err", "lstat_err", "openread_err", "read_eio", "read_eio0", "fstat_err",
                "to_symlink", "to_dir", "to_file", "readdir_err", "readdir_partial", "tonode_err", "target_missing"}
               \cup ReadCallClasses \cup SwapClasses
\* the item was listed by readdir but is gone (ENOENT) when restic looks at it: not a source item
VanishClasses == {"vanish_open", "vanish_lstat"}
\* lstat succeeded, the item is gone when it is opened for reading: the statement does not say
\* whether this is "vanished" or "unreadable"; both statuses are accepted
OpenClasses == {"vanish_late"}

AllClasses == FailClasses \cup VanishClasses \cup OpenClasses \cup {"none"}

FaultsOf(kind, isTarget) ==
  {"none", "open_err", "lstat_err", "tonode_err", "vanish_open", "vanish_lstat"}
  \cup (IF kind = "file" THEN {"openread_err", "read_eio", "read_eio0", "fstat_err", "to_symlink", "to_dir", "vanish_late"}
                            \cup ReadCallClasses \cup {"swap_symlink_same", "swap_symlink_dangling", "swap_dir"} ELSE {})
  \cup (IF kind = "dir" THEN {"openread_err", "readdir_err", "readdir_partial", "to_file", "vanish_late",
                             "swap_symlink_same", "swap_symlink_dangling", "swap_file"} ELSE {})
  \cup (IF isTarget THEN {"target_missing"} ELSE {})

\* item i or one of its ancestors got an error answer: i cannot be part of the snapshot
RECURSIVE Blocked(_, _)
Blocked(items, i) ==
  \/ items[i].delivered
  \/ items[i].parent # 0 /\ Blocked(items, items[i].parent)

\* "the snapshot is still saved for the readable items"
ReadableItems(items) == {i \in DOMAIN items : ~Blocked(items, i)}

MustBeIncomplete(items) == \E i \in DOMAIN items : items[i].delivered /\ items[i].fault \in FailClasses
Unspecified(items)      == \E i \in DOMAIN items : items[i].delivered /\ items[i].fault \in OpenClasses

\* status: 0 success, 3 incomplete snapshot (anything else is never allowed here)
StatusOK(items, status) ==
  IF MustBeIncomplete(items) THEN status = 3
  ELSE IF Unspecified(items) THEN status \in {0, 3}
  ELSE status = 0

SetOf(s) == {s[k] : k \in DOMAIN s}

\* one recorded run of the real backup command
\*  r.mode     "inproc-noparent" | "inproc-parent" | "inproc-skip" (--skip-if-unchanged on top of a parent
\*             snapshot taken from the same source under the same faults) | "binary"
\*  r.items    sequence of [parent, kind, fault, delivered]
\*  r.status   exit status (binary) / status main() derives from the returned error (in-process)
\*  r.saved    exactly one new snapshot exists after the run
\*  r.skipped  --skip-if-unchanged was given and the run created no snapshot (its tree equals the parent's);
\*             insnap/extra then describe the parent snapshot
\*  r.insnap   items found in that snapshot (by path), r.extra: number of snapshot paths that are no item
Modes == {"inproc-noparent", "inproc-parent", "inproc-skip", "binary"}

RecOK(r) ==
  /\ r.mode \in Modes
  /\ IF r.skipped THEN r.mode = "inproc-skip" /\ ~r.saved ELSE r.saved
  /\ StatusOK(r.items, r.status)
  /\ SetOf(r.insnap) = ReadableItems(r.items)
  /\ r.extra = 0
  /\ \A i \in DOMAIN r.items : r.items[i].fault \in AllClasses
=============================================================================
