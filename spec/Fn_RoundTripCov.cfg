SPECIFICATION Spec
