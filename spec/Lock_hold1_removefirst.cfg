SPECIFICATION Spec
CONSTANTS
  N = 1
  MaxTime = 6
  MaxSkew = 1
  Budget = 1
  Variant = "removefirst"
  Faults <- NoFaults
  MaxToggle = 0
  Removal = FALSE
  Remotes <- RemotesNone
  MaxWaits = 99
  HistMax = 0
  Emit = FALSE
  MaxAtt = 2
  Crashes = FALSE
  StartBy = 0
  StartFrom = 0
  HealOdds = 3
  ListLag = FALSE
  FixSkew = FALSE
  MaxMods = 0
  Edge = FALSE
VIEW View
INVARIANTS TypeOK InvExclusion InvHolderHasFile InvNotStale InvFresh
CHECK_DEADLOCK FALSE
