SPECIFICATION Spec
CONSTANTS
  Pw = {"a", "b"}
  MaxKeys = 4
  Atomic = TRUE
  Variant = "upgrade_remove_always"
INVARIANTS
  SomeKeyWorks
  ConfigPresentAtomic

PROPERTIES
  KeyInUseKept
CHECK_DEADLOCK FALSE
