\* negative twin: only the property it must violate is checked
SPECIFICATION Spec
CONSTANTS
  Pw = {"a", "b"}
  MaxKeys = 4
  Atomic = TRUE
  Variant = "upgrade_remove_always"
INVARIANT ConfigPresentAtomic
CHECK_DEADLOCK FALSE
