SPECIFICATION Spec
CONSTANTS
  MaxLen = 5
  Budget = 3
  Ops = {"save", "load", "stat", "remove", "list"}
  Twin = "none"
  Record = TRUE
INVARIANTS
  InvSame
  InvNoPartial
  InvPerm
  ListNever
  Progress
  Conforms
  EmitVec
