------------------------------ MODULE LockObs ------------------------------
(***************************************************************************)
(* C12 / C13: the lock properties, stated over one OBSERVATION of the lock *)
(* directory and of what every process believes.  The same operators are   *)
(*  - invariants of the design model Lock.tla (over ObsOf(model state)),   *)
(*  - evaluated by TLC on every observation the harness recorded while it  *)
(*    replayed schedules into the real lockers (LockRec12 / LockRec13).    *)
(*                                                                         *)
(* An observation o is a record                                            *)
(*   now  virtual time in ms                                               *)
(*   f    sequence of lock files        <<owner, time, exclusive>>         *)
(*   p    sequence, one per process     <<believes, ctxAlive, exclusive,   *)
(*                                        robbed, stall, clean, faulted,   *)
(*                                        newest, robbedAt, kept>>         *)
(*   r    sequence of remote holders    <<time, exclusive>>                *)
(* believes = Lock() returned success and the process neither called       *)
(* Unlock nor died; ctxAlive = the context returned by Lock() is not       *)
(* cancelled; robbed = somebody else removed a lock file of the process;   *)
(* stall = total time (ms) the process was stalled inside backend          *)
(* operations so far; clean = finished by Unlock() without any injected    *)
(* fault/removal/cancel; faulted = a Save/Remove fault was ever injected;  *)
(* newest = time of the newest lock file the process saved (-1: none);     *)
(* robbedAt = time (ms) somebody else last removed a lock file of the      *)
(* process (meaningful when robbed = 1); kept = time of the newest lock    *)
(* file the process saved and did not remove itself (still there, or       *)
(* removed by somebody else; -1: none).                                    *)
(* A remote holder is a process on another host that saved a lock file at  *)
(* `time` and follows the protocol: it stops using the repository when it  *)
(* could not refresh for RefreshTO.                                        *)
(***************************************************************************)
EXTENDS Integers, Sequences

StaleMs     == 1800000   \* 30 min: others may judge the lock stale (documented)
RefreshToMs == 1350000   \* 30 min minus the documented margin of 7.5 min for clock drift between clients
SlackMs     == 60000     \* polling of the expiry monitor (1 s), 200 ms waits, retry delays while acquiring

Holds(o, i)   == o.p[i][1] = 1 /\ o.p[i][2] = 1     \* the process uses the repository under its lock
IsExcl(o, i)  == o.p[i][3] = 1
Robbed(o, i)  == o.p[i][4] = 1
StallOf(o, i) == o.p[i][5]
RobbedAt(o, i) == o.p[i][9]
RemoteHolds(o, k) == o.now - o.r[k][1] < RefreshToMs

\* C12: an exclusive lock never coexists with another active lock
Exclusion(o) ==
  /\ \A i, j \in 1..Len(o.p) : (i # j /\ Holds(o, i) /\ IsExcl(o, i)) => ~Holds(o, j)
  /\ \A i \in 1..Len(o.p), k \in 1..Len(o.r) :
        (Holds(o, i) /\ RemoteHolds(o, k)) => (~IsExcl(o, i) /\ o.r[k][2] = 0)

\* C12 with the premise spelled out.  A third party whose clock is ahead by up to the documented margin (7.5 min)
\* may remove the lock file of a live holder as soon as it is older than 22.5 min, i.e. at the very moment the
\* holder's expiry monitor forces a refresh (the monitor's time stamp lags the lock file's by the duration of the
\* last refresh).  The robbed holder notices at the next existence check of its forced refresh: until then it may
\* coexist with a newcomer, but only for the polling/waiting times of the protocol (slack) plus the time the
\* environment stalled it inside backend operations.
Excused(o, i, slack) == Robbed(o, i) /\ o.now - RobbedAt(o, i) <= slack + StallOf(o, i)
ExclusionMargin(o, slack) ==
  /\ \A i, j \in 1..Len(o.p) : (i # j /\ Holds(o, i) /\ IsExcl(o, i) /\ Holds(o, j)) =>
        (Excused(o, i, slack) \/ Excused(o, j, slack))
  /\ \A i \in 1..Len(o.p), k \in 1..Len(o.r) :
        (Holds(o, i) /\ RemoteHolds(o, k)) => (~IsExcl(o, i) /\ o.r[k][2] = 0)
ExclusionWithinMargin(o) == ExclusionMargin(o, SlackMs)

OwnFiles(o, i) == {k \in 1..Len(o.f) : o.f[k][1] = i}

\* C13: refreshing never leaves a moment where the holder has no lock file (unless somebody else removed it)
HolderHasFile(o) ==
  \A i \in 1..Len(o.p) : (Holds(o, i) /\ ~Robbed(o, i)) => OwnFiles(o, i) # {}

\* C13: a holder whose context is alive has a lock file that nobody whose clock agrees within the margin can
\* judge stale: young enough by the refreshability timeout (+ the time the environment stalled the process)
FreshWithin(o, slack) ==
  \A i \in 1..Len(o.p) : Holds(o, i) =>
      IF Robbed(o, i)
      THEN \* its lock file was removed by others: judged by the newest lock file it saved and did not remove itself
           \* (the file its lock handle points to is such a file: a forced refresh that finds it missing must stop,
           \* the replacement it cleans up does not count)
           o.now - o.p[i][10] <= RefreshToMs + slack + StallOf(o, i)
      ELSE \E k \in OwnFiles(o, i) : o.now - o.f[k][2] <= RefreshToMs + slack + StallOf(o, i)
FreshWhileActive(o) == FreshWithin(o, SlackMs)

\* C13: stops issuing repository modifications: a non-lock modification <<process, time, cancelled, frozen>> never
\* reaches the storage (the layer below the connection limiting backend) with the lock context of its process
\* already cancelled (or after the lock code reported that its forced refresh failed, which it does just before
\* it cancels the context) - in particular not after it waited at the freeze gate while the forced refresh failed
NoWriteAfterCancel(mods) == \A k \in 1..Len(mods) : mods[k][3] = 0

\* C13: removes its lock when it finishes
ReleasedClean(o) ==
  \A i \in 1..Len(o.p) : o.p[i][6] = 1 => OwnFiles(o, i) = {}
=============================================================================
