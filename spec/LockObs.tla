------------------------------ MODULE LockObs ------------------------------
(***************************************************************************)
(* C12 / C13: the lock properties, stated over one OBSERVATION of the lock *)
(* directory and of what every process believes.  The same operators are   *)
(*  - invariants of the design model Lock.tla (over ObsOf(model state)),   *)
(*  - evaluated by TLC on every observation the harness recorded while it  *)
(*    replayed schedules into the real lockers (LockRec12 / LockRec13).    *)
(*                                                                         *)
(* An observation o is a record                                            *)
(*   now  virtual time in ms                                               *)
(*   f    sequence of lock files        <<owner, time, exclusive>>         *)
(*   p    sequence, one per process     <<believes, ctxAlive, exclusive,   *)
(*                                        robbed, stall, clean, faulted,   *)
(*                                        newest>>                         *)
(*   r    sequence of remote holders    <<time, exclusive>>                *)
(* believes = Lock() returned success and the process neither called       *)
(* Unlock nor died; ctxAlive = the context returned by Lock() is not       *)
(* cancelled; robbed = somebody else removed a lock file of the process;   *)
(* stall = total time (ms) the process was stalled inside backend          *)
(* operations so far; clean = finished by Unlock() without any injected    *)
(* fault/removal/cancel; faulted = a Save/Remove fault was ever injected;  *)
(* newest = time of the newest lock file the process saved (-1: none).     *)
(* A remote holder is a process on another host that saved a lock file at  *)
(* `time` and follows the protocol: it stops using the repository when it  *)
(* could not refresh for RefreshTO.                                        *)
(***************************************************************************)
EXTENDS Integers, Sequences

StaleMs     == 1800000   \* 30 min: others may judge the lock stale (documented)
RefreshToMs == 1350000   \* 30 min minus the documented margin of 7.5 min for clock drift between clients
SlackMs     == 60000     \* polling of the expiry monitor (1 s), 200 ms waits, retry delays while acquiring

Holds(o, i)   == o.p[i][1] = 1 /\ o.p[i][2] = 1     \* the process uses the repository under its lock
IsExcl(o, i)  == o.p[i][3] = 1
Robbed(o, i)  == o.p[i][4] = 1
StallOf(o, i) == o.p[i][5]
RemoteHolds(o, k) == o.now - o.r[k][1] < RefreshToMs

\* C12: an exclusive lock never coexists with another active lock
Exclusion(o) ==
  /\ \A i, j \in 1..Len(o.p) : (i # j /\ Holds(o, i) /\ IsExcl(o, i)) => ~Holds(o, j)
  /\ \A i \in 1..Len(o.p), k \in 1..Len(o.r) :
        (Holds(o, i) /\ RemoteHolds(o, k)) => (~IsExcl(o, i) /\ o.r[k][2] = 0)

OwnFiles(o, i) == {k \in 1..Len(o.f) : o.f[k][1] = i}

\* C13: refreshing never leaves a moment where the holder has no lock file (unless somebody else removed it)
HolderHasFile(o) ==
  \A i \in 1..Len(o.p) : (Holds(o, i) /\ ~Robbed(o, i)) => OwnFiles(o, i) # {}

\* C13: a holder whose context is alive has a lock file that nobody whose clock agrees within the margin can
\* judge stale: young enough by the refreshability timeout (+ the time the environment stalled the process)
FreshWithin(o, slack) ==
  \A i \in 1..Len(o.p) : Holds(o, i) =>
      IF Robbed(o, i)
      THEN \* its lock file was removed by others: judged by the newest lock file it managed to save
           o.now - o.p[i][8] <= RefreshToMs + slack + StallOf(o, i)
      ELSE \E k \in OwnFiles(o, i) : o.now - o.f[k][2] <= RefreshToMs + slack + StallOf(o, i)
FreshWhileActive(o) == FreshWithin(o, SlackMs)

\* C13: removes its lock when it finishes
ReleasedClean(o) ==
  \A i \in 1..Len(o.p) : o.p[i][6] = 1 => OwnFiles(o, i) = {}
=============================================================================
