SPECIFICATION Spec
CONSTANT Twin = FALSE
