\* negative twin: only the property it must violate is checked (TLC reports the first violation it meets)
SPECIFICATION Spec
CONSTANTS
  Proc = {"w1", "x"}
  Roots <- RootsS
  Kids <- KidsS
  MaxPacks = 4
  MaxIdx = 4
  MaxSnaps = 2
  CanBackup = {"w1"}
  CanRead = {}
  CanPrune = {"x"}
  CanForget = {"x"}
  CanRewrite = {}
  CanTag = {}
  Budget <- BudgetP
  Variant = "prune_delete_first"
VIEW View
INVARIANT IndexSound
CHECK_DEADLOCK FALSE
