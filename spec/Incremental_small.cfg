SPECIFICATION Spec
CONSTANTS
  Paths = {"a", "d", "d/x"}
  Rounds = 2
  MaxEdits = 1
  Twin = FALSE
  Modes = {"inc", "incskip", "force", "forceskip"}
  Emit = FALSE
INVARIANT IncEqualsFull
VIEW View
CHECK_DEADLOCK FALSE
