SPECIFICATION SpecQ
CONSTANTS
  NT = 3
  MaxKids = 2
  W = 2
  MaxRoots = 2
  WithBad = TRUE
  Twin = "none"
  Record = TRUE
INVARIANTS
  Once
  Exact
  ErrorIff
  EmitSched
