---------------------------- MODULE Fn_KeysMany ----------------------------
(***************************************************************************)
(* C29, the key limit: "A password opens the repository if and only if     *)
(* some key file currently in it was created with that password (for       *)
(* repositories with at most 20 keys, or when that key is named with       *)
(* --key-hint)".  One record = one attempt to open a repository with       *)
(* r.nkeys key files the way OpenRepository does (SearchKey, maxKeys 20):  *)
(*   r.kind = "own"    the password belongs to exactly one present key     *)
(*            "wrong"  no key was created with the password                *)
(*   r.hint  "none" | "self" | "other" | "nothing"   what --key-hint names *)
(*   r.hint_matches    the hint names the key of the password              *)
(*   r.opened, r.same_master                                               *)
(***************************************************************************)
EXTENDS Naturals

MaxKeys == 20

MustOpen(r) == r.kind = "own" /\ (r.nkeys <= MaxKeys \/ r.hint_matches)
MustFail(r) == r.kind = "wrong"

RecOK(r) ==
  /\ MustOpen(r) => r.opened
  /\ MustFail(r) => ~r.opened
  /\ r.same_master
=============================================================================
