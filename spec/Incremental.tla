----------------------------- MODULE Incremental -----------------------------
(***************************************************************************)
(* C40 history model: a source directory edited by operations with an      *)
(* explicit metadata effect, backed up in rounds.  Used                    *)
(*  (a) exhaustively (small constants): whenever the premise holds the     *)
(*      documented change detection yields the full tree, a skipped        *)
(*      snapshot never hides a change; the negative twin (premise not      *)
(*      enforced) is refuted;                                              *)
(*  (b) with -simulate to generate edit/backup histories that the Go       *)
(*      driver replays into the real backup command (hist is printed by    *)
(*      the Finish action).                                                *)
(* A history also fixes                                                    *)
(*  - the TARGET STYLE of its backups (how the source directory is named   *)
(*    on the command line, i.e. what the root tree of a snapshot lists):   *)
(*      "dir"   cd base; backup src              root tree = {src}         *)
(*      "deep"  cd base; backup i1/i2/i3/src     intermediate directories  *)
(*      "dot"   cd src;  backup .                root tree = entries of src*)
(*      "list"  cd src;  backup <top-level entries present now>, parent =  *)
(*              latest snapshot of the host (the target list changes)      *)
(*  - the size class of the files (big: several read buffers / chunks)     *)
(*  - at most one FAULT, planned for one backup round:                     *)
(*      "readerr"   a transient read error in the middle of one regular    *)
(*                  file that this backup reads: the file is left out of   *)
(*                  the snapshot (that backup is not judged; the snapshot  *)
(*                  is a parent later on)                                  *)
(*      "treeloss"  one tree blob of the parent snapshot was lost          *)
(*      "dataloss"  the data blobs of the parent snapshot were lost        *)
(*    (loss = bit rot in a pack + `repair packs` / removed packs + `repair *)
(*    index`).  The statement puts no condition on the parent snapshot, so *)
(*    the backup with this parent still has to store the full tree.        *)
(***************************************************************************)
EXTENDS Fn_Incremental, TLC, Json, SequencesExt

CONSTANTS Paths,      \* subset of {"a", "b", "d", "d/x"}
          EditPlan,   \* sequence: EditPlan[k] = maximal number of edits before the k-th backup of a history
          Twin,       \* TRUE: parent based backups are taken even when the premise is violated (negative twin)
          Emit,       \* TRUE: print the history when it is complete
          Modes,      \* subset of {"inc", "incskip", "force", "forceskip"}
          FlagSet,    \* subset of Flags
          Targets,    \* subset of {"dir", "deep", "dot", "list"}
          Bigs,       \* subset of BOOLEAN
          FaultKinds, \* subset of {"readerr", "treeloss", "dataloss"}
          MaxVictim   \* fault plans choose a victim number in 0..MaxVictim

VARIABLES src, clock, flags, group, round, todo, hist, ok, target, big, fplan

vars == <<src, clock, flags, group, round, todo, hist, ok, target, big, fplan>>
View == <<src, clock, flags, group, round, todo, ok, target, big, fplan>>

Absent == [kind |-> "none", content |-> 0, size |-> 0, mtime |-> 0, ctime |-> 0, inode |-> 0, perm |-> 0]
Dir    == [Absent EXCEPT !.kind = "dir"]
Link   == [Absent EXCEPT !.kind = "symlink"]
NewFile(c) == [kind |-> "file", content |-> c, size |-> 1, mtime |-> c, ctime |-> c, inode |-> c, perm |-> 0]

Up(p) == IF p = "d/x" THEN "d" ELSE ""
CanExist(s, p) == Up(p) = "" \/ (Up(p) \in Paths /\ s[Up(p)].kind = "dir")
Below(p) == {q \in Paths : Up(q) = p}

UsesParent(m) == m \in {"inc", "incskip"}
Skips(m) == m \in {"incskip", "forceskip"}

Rounds == Len(EditPlan)
\* plans used by the configurations (TLC configuration files cannot contain tuples)
Plan00 == <<0, 0>>
Plan01 == <<0, 1>>
Plan11 == <<1, 1>>
Plan111 == <<1, 1, 1>>
Plan3333 == <<3, 3, 3, 3>>
Plan33333 == <<3, 3, 3, 3, 3>>
\* initial files have different sizes so that the first size change of "a" shrinks and that of "b" grows the file
InitSrc == [p \in Paths |-> IF p = "d" THEN Dir
                            ELSE IF p = "a" THEN [NewFile(1) EXCEPT !.size = 3]
                            ELSE IF p = "b" THEN NewFile(2) ELSE [NewFile(3) EXCEPT !.size = 2]]

NoFault == [round |-> 0, kind |-> "none", v |-> 0]
FaultPlans == {NoFault} \cup [round : 1..Rounds, kind : FaultKinds, v : 0..MaxVictim]

Init ==
  /\ src = InitSrc /\ clock = 4 /\ flags \in FlagSet /\ group = <<>> /\ round = 0 /\ todo = 0
  /\ hist = <<>> /\ ok = TRUE
  /\ target \in Targets /\ big \in Bigs /\ fplan \in FaultPlans

\* the root tree of a "dot" / "list" backup lists the top-level entries themselves: such a backup needs one
TopLevel(s) == {p \in Paths : Up(p) = "" /\ s[p].kind # "none"}
\* number of tree blobs of a snapshot of state s (one per directory, the root tree included)
NTrees(s) == Cardinality({p \in Paths : s[p].kind = "dir"})
             + (CASE target = "deep" -> 5 [] target = "dir" -> 2 [] OTHER -> 1)
PathOrder == <<"a", "b", "d", "d/x">>      \* the order in which the archiver visits the paths

F(p) == src[p]
t == clock
IsFile(p) == F(p).kind = "file"
NextSize(s) == (s % 3) + 1

\* the present nodes as a sequence of records (what a snapshot of the state must contain)
TreeOf(s) == SetToSeq({[path |-> p, kind |-> s[p].kind, content |-> s[p].content, size |-> s[p].size, perm |-> s[p].perm] :
                        p \in {q \in Paths : s[q].kind # "none"}})

EditRec(op, p, q) == [op |-> op, p |-> p, q |-> q, t |-> t, n |-> src'[p], m |-> IF q = "" THEN Absent ELSE src'[q],
                      mode |-> "", premise |-> TRUE, has_parent |-> FALSE, omitted |-> FALSE, tree |-> <<>>,
                      fault |-> "none", fp |-> "", fv |-> 0, stored |-> <<>>]

Set1(p, n) == src' = [src EXCEPT ![p] = n]

EditOp(op, p, q) ==
  CASE op = "Grow"             -> IsFile(p) /\ q = "" /\ Set1(p, [F(p) EXCEPT !.content = t, !.size = NextSize(@), !.mtime = t, !.ctime = t])
    [] op = "Rewrite"          -> IsFile(p) /\ q = "" /\ Set1(p, [F(p) EXCEPT !.content = t, !.mtime = t, !.ctime = t])
    [] op = "RewriteKeepMtime" -> IsFile(p) /\ q = "" /\ Set1(p, [F(p) EXCEPT !.content = t, !.ctime = t])
    [] op = "GrowKeepMtime"    -> IsFile(p) /\ q = "" /\ Set1(p, [F(p) EXCEPT !.content = t, !.size = NextSize(@), !.ctime = t])
    [] op = "ReplaceKeep"      -> IsFile(p) /\ q = "" /\ Set1(p, [F(p) EXCEPT !.content = t, !.inode = t, !.ctime = t])
    [] op = "ReplaceSame"      -> IsFile(p) /\ q = "" /\ Set1(p, [F(p) EXCEPT !.inode = t, !.ctime = t])
    [] op = "Touch"            -> IsFile(p) /\ q = "" /\ Set1(p, [F(p) EXCEPT !.mtime = t, !.ctime = t])
    [] op = "Chmod"            -> IsFile(p) /\ q = "" /\ Set1(p, [F(p) EXCEPT !.perm = 1 - @, !.ctime = t])
    [] op = "Delete"           -> F(p).kind # "none" /\ q = "" /\ src' = [x \in Paths |-> IF x = p \/ Up(x) = p THEN Absent ELSE src[x]]
    [] op = "Add"              -> F(p).kind = "none" /\ q = "" /\ CanExist(src, p) /\ Set1(p, NewFile(t))
    [] op = "MkDir"            -> F(p).kind = "none" /\ q = "" /\ CanExist(src, p) /\ Set1(p, Dir)
    [] op = "FileToDir"        -> IsFile(p) /\ q = "" /\ Set1(p, Dir)
    [] op = "DirToFile"        -> F(p).kind = "dir" /\ q = "" /\ src' = [x \in Paths |-> IF x = p THEN NewFile(t) ELSE IF Up(x) = p THEN Absent ELSE src[x]]
    [] op = "FileToLink"       -> IsFile(p) /\ q = "" /\ Set1(p, Link)
    [] op = "LinkToFile"       -> F(p).kind = "symlink" /\ q = "" /\ Set1(p, NewFile(t))
    [] op = "Rename"           -> IsFile(p) /\ q \in Paths /\ q # p /\ F(q).kind = "none" /\ CanExist(src, q)
                                  /\ src' = [src EXCEPT ![q] = [F(p) EXCEPT !.ctime = t], ![p] = Absent]
    [] op = "Swap"             -> IsFile(p) /\ q \in Paths /\ q # p /\ IsFile(q)
                                  /\ src' = [src EXCEPT ![p] = [F(q) EXCEPT !.ctime = t], ![q] = [F(p) EXCEPT !.ctime = t]]

Ops1 == {"Grow", "Rewrite", "RewriteKeepMtime", "GrowKeepMtime", "ReplaceKeep", "ReplaceSame", "Touch", "Chmod", "Delete",
         "Add", "MkDir", "FileToDir", "DirToFile", "FileToLink", "LinkToFile"}
Ops2 == {"Rename", "Swap"}

ChooseEdits ==
  /\ todo = 0 /\ round < Rounds
  /\ \E k \in 1..(EditPlan[round + 1] + 1) : todo' = k
  /\ UNCHANGED <<src, clock, flags, group, round, hist, ok, target, big, fplan>>

Edit ==
  /\ todo > 1
  /\ \/ \E op \in Ops1, p \in Paths : EditOp(op, p, "") /\ hist' = Append(hist, EditRec(op, p, ""))
     \/ \E op \in Ops2, p \in Paths, q \in Paths : EditOp(op, p, q) /\ hist' = Append(hist, EditRec(op, p, q))
  /\ todo' = todo - 1 /\ clock' = clock + 1
  /\ UNCHANGED <<flags, group, round, ok, target, big, fplan>>

Backup ==
  /\ todo = 1
  /\ target \in {"dot", "list"} => TopLevel(src) # {}
  /\ \E mode \in Modes :
       LET hasPar  == UsesParent(mode) /\ Len(group) > 0
           par     == IF hasPar THEN group[Len(group)] ELSE [p \in Paths |-> Absent]
           prem    == ~hasPar \/ Premise(src, par, flags)
           new     == IF hasPar THEN IncTree(src, par, flags) ELSE src
           \* the fault planned for this round, as far as it applies
           planned == fplan.round = round + 1
           files   == SelectSeq(PathOrder, LAMBDA p : p \in Paths /\ src[p].kind = "file")
           rp      == IF planned /\ fplan.kind = "readerr" /\ Len(files) > 0 THEN files[(fplan.v % Len(files)) + 1] ELSE ""
           \* a file is read iff its content is not taken from the parent
           isRead  == rp # "" /\ (~hasPar \/ par[rp].kind # "file" \/ Detectable(src[rp], par[rp], flags))
           fk      == IF isRead THEN "readerr"
                      ELSE IF planned /\ fplan.kind \in {"treeloss", "dataloss"} /\ hasPar THEN fplan.kind
                      ELSE "none"
           fv      == IF fk = "treeloss" THEN fplan.v % NTrees(par) ELSE 0
           stored  == IF fk = "readerr" THEN [new EXCEPT ![rp] = Absent] ELSE new
           omitted == Skips(mode) /\ hasPar /\ par = stored
       IN /\ Twin \/ prem
          /\ group' = IF omitted THEN group ELSE Append(group, stored)
          \* incremental tree = full tree; a skipped snapshot hides no change (a backup that met a read error is not
          \* judged - but its snapshot is the parent of the next one, which is)
          /\ ok' = (ok /\ (fk # "readerr" => (new = src /\ (omitted => par = src))))
          /\ hist' = Append(hist, [op |-> "backup", p |-> "", q |-> "", t |-> 0, n |-> Absent, m |-> Absent, mode |-> mode,
                                   premise |-> prem, has_parent |-> hasPar, omitted |-> omitted, tree |-> TreeOf(src),
                                   fault |-> fk, fp |-> IF fk = "readerr" THEN rp ELSE "", fv |-> fv, stored |-> TreeOf(stored)])
  /\ todo' = 0 /\ round' = round + 1
  /\ UNCHANGED <<src, clock, flags, target, big, fplan>>

Finish ==
  /\ todo = 0 /\ round = Rounds
  /\ round' = Rounds + 1
  /\ Emit => PrintT(<<"HIST", ToJson([flags |-> flags, target |-> target, big |-> big, paths |-> SetToSeq(Paths), ops |-> hist])>>)
  /\ UNCHANGED <<src, clock, flags, group, todo, hist, ok, target, big, fplan>>

Next == ChooseEdits \/ Edit \/ Backup \/ Finish
Spec == Init /\ [][Next]_vars

IncEqualsFull == ok

\* vacuity controls (expected to be violated = reachable): a parent based backup that reuses content, an omitted snapshot
NeverReuses == ~(\E k \in DOMAIN hist : hist[k].op = "backup" /\ hist[k].has_parent)
NeverOmits  == ~(\E k \in DOMAIN hist : hist[k].op = "backup" /\ hist[k].omitted)
\* a judged backup whose parent is the snapshot of a backup that met a read error; a judged backup with a damaged parent
NeverAfterReadErr == ~(\E k, j \in DOMAIN hist : k < j /\ hist[k].op = "backup" /\ hist[k].fault = "readerr" /\ ~hist[k].omitted
                                                /\ hist[j].op = "backup" /\ hist[j].has_parent /\ hist[j].fault = "none")
NeverDamagedParent == ~(\E k \in DOMAIN hist : hist[k].op = "backup" /\ hist[k].fault \in {"treeloss", "dataloss"})
=============================================================================
