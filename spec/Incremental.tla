----------------------------- MODULE Incremental -----------------------------
(***************************************************************************)
(* C40 history model: a source directory edited by operations with an      *)
(* explicit metadata effect, backed up in rounds.  Used                    *)
(*  (a) exhaustively (small constants): whenever the premise holds the     *)
(*      documented change detection yields the full tree, a skipped        *)
(*      snapshot never hides a change; the negative twin (premise not      *)
(*      enforced) is refuted;                                              *)
(*  (b) with -simulate to generate edit/backup histories that the Go       *)
(*      driver replays into the real backup command (hist is printed by    *)
(*      the Finish action).                                                *)
(***************************************************************************)
EXTENDS Fn_Incremental, TLC, Json, SequencesExt

CONSTANTS Paths,      \* subset of {"a", "b", "d", "d/x"}
          EditPlan,   \* sequence: EditPlan[k] = maximal number of edits before the k-th backup of a history
          Twin,       \* TRUE: parent based backups are taken even when the premise is violated (negative twin)
          Emit,       \* TRUE: print the history when it is complete
          Modes       \* subset of {"inc", "incskip", "force", "forceskip"}

VARIABLES src, clock, flags, group, round, todo, hist, ok

vars == <<src, clock, flags, group, round, todo, hist, ok>>
View == <<src, clock, flags, group, round, todo, ok>>

Absent == [kind |-> "none", content |-> 0, size |-> 0, mtime |-> 0, ctime |-> 0, inode |-> 0, perm |-> 0]
Dir    == [Absent EXCEPT !.kind = "dir"]
Link   == [Absent EXCEPT !.kind = "symlink"]
NewFile(c) == [kind |-> "file", content |-> c, size |-> 1, mtime |-> c, ctime |-> c, inode |-> c, perm |-> 0]

Up(p) == IF p = "d/x" THEN "d" ELSE ""
CanExist(s, p) == Up(p) = "" \/ (Up(p) \in Paths /\ s[Up(p)].kind = "dir")
Below(p) == {q \in Paths : Up(q) = p}

UsesParent(m) == m \in {"inc", "incskip"}
Skips(m) == m \in {"incskip", "forceskip"}

Rounds == Len(EditPlan)
\* plans used by the configurations (TLC configuration files cannot contain tuples)
Plan01 == <<0, 1>>
Plan11 == <<1, 1>>
Plan111 == <<1, 1, 1>>
Plan3333 == <<3, 3, 3, 3>>
Plan33333 == <<3, 3, 3, 3, 3>>
\* initial files have different sizes so that the first size change of "a" shrinks and that of "b" grows the file
InitSrc == [p \in Paths |-> IF p = "d" THEN Dir
                            ELSE IF p = "a" THEN [NewFile(1) EXCEPT !.size = 3]
                            ELSE IF p = "b" THEN NewFile(2) ELSE [NewFile(3) EXCEPT !.size = 2]]

Init ==
  /\ src = InitSrc /\ clock = 4 /\ flags \in Flags /\ group = <<>> /\ round = 0 /\ todo = 0
  /\ hist = <<>> /\ ok = TRUE

F(p) == src[p]
t == clock
IsFile(p) == F(p).kind = "file"
NextSize(s) == (s % 3) + 1

\* the present nodes as a sequence of records (what a snapshot of the state must contain)
TreeOf(s) == SetToSeq({[path |-> p, kind |-> s[p].kind, content |-> s[p].content, size |-> s[p].size, perm |-> s[p].perm] :
                        p \in {q \in Paths : s[q].kind # "none"}})

EditRec(op, p, q) == [op |-> op, p |-> p, q |-> q, t |-> t, n |-> src'[p], m |-> IF q = "" THEN Absent ELSE src'[q],
                      mode |-> "", premise |-> TRUE, has_parent |-> FALSE, omitted |-> FALSE, tree |-> <<>>]

Set1(p, n) == src' = [src EXCEPT ![p] = n]

EditOp(op, p, q) ==
  CASE op = "Grow"             -> IsFile(p) /\ q = "" /\ Set1(p, [F(p) EXCEPT !.content = t, !.size = NextSize(@), !.mtime = t, !.ctime = t])
    [] op = "Rewrite"          -> IsFile(p) /\ q = "" /\ Set1(p, [F(p) EXCEPT !.content = t, !.mtime = t, !.ctime = t])
    [] op = "RewriteKeepMtime" -> IsFile(p) /\ q = "" /\ Set1(p, [F(p) EXCEPT !.content = t, !.ctime = t])
    [] op = "GrowKeepMtime"    -> IsFile(p) /\ q = "" /\ Set1(p, [F(p) EXCEPT !.content = t, !.size = NextSize(@), !.ctime = t])
    [] op = "ReplaceKeep"      -> IsFile(p) /\ q = "" /\ Set1(p, [F(p) EXCEPT !.content = t, !.inode = t, !.ctime = t])
    [] op = "ReplaceSame"      -> IsFile(p) /\ q = "" /\ Set1(p, [F(p) EXCEPT !.inode = t, !.ctime = t])
    [] op = "Touch"            -> IsFile(p) /\ q = "" /\ Set1(p, [F(p) EXCEPT !.mtime = t, !.ctime = t])
    [] op = "Chmod"            -> IsFile(p) /\ q = "" /\ Set1(p, [F(p) EXCEPT !.perm = 1 - @, !.ctime = t])
    [] op = "Delete"           -> F(p).kind # "none" /\ q = "" /\ src' = [x \in Paths |-> IF x = p \/ Up(x) = p THEN Absent ELSE src[x]]
    [] op = "Add"              -> F(p).kind = "none" /\ q = "" /\ CanExist(src, p) /\ Set1(p, NewFile(t))
    [] op = "MkDir"            -> F(p).kind = "none" /\ q = "" /\ CanExist(src, p) /\ Set1(p, Dir)
    [] op = "FileToDir"        -> IsFile(p) /\ q = "" /\ Set1(p, Dir)
    [] op = "DirToFile"        -> F(p).kind = "dir" /\ q = "" /\ src' = [x \in Paths |-> IF x = p THEN NewFile(t) ELSE IF Up(x) = p THEN Absent ELSE src[x]]
    [] op = "FileToLink"       -> IsFile(p) /\ q = "" /\ Set1(p, Link)
    [] op = "LinkToFile"       -> F(p).kind = "symlink" /\ q = "" /\ Set1(p, NewFile(t))
    [] op = "Rename"           -> IsFile(p) /\ q \in Paths /\ q # p /\ F(q).kind = "none" /\ CanExist(src, q)
                                  /\ src' = [src EXCEPT ![q] = [F(p) EXCEPT !.ctime = t], ![p] = Absent]
    [] op = "Swap"             -> IsFile(p) /\ q \in Paths /\ q # p /\ IsFile(q)
                                  /\ src' = [src EXCEPT ![p] = [F(q) EXCEPT !.ctime = t], ![q] = [F(p) EXCEPT !.ctime = t]]

Ops1 == {"Grow", "Rewrite", "RewriteKeepMtime", "GrowKeepMtime", "ReplaceKeep", "ReplaceSame", "Touch", "Chmod", "Delete",
         "Add", "MkDir", "FileToDir", "DirToFile", "FileToLink", "LinkToFile"}
Ops2 == {"Rename", "Swap"}

ChooseEdits ==
  /\ todo = 0 /\ round < Rounds
  /\ \E k \in 1..(EditPlan[round + 1] + 1) : todo' = k
  /\ UNCHANGED <<src, clock, flags, group, round, hist, ok>>

Edit ==
  /\ todo > 1
  /\ \/ \E op \in Ops1, p \in Paths : EditOp(op, p, "") /\ hist' = Append(hist, EditRec(op, p, ""))
     \/ \E op \in Ops2, p \in Paths, q \in Paths : EditOp(op, p, q) /\ hist' = Append(hist, EditRec(op, p, q))
  /\ todo' = todo - 1 /\ clock' = clock + 1
  /\ UNCHANGED <<flags, group, round, ok>>

Backup ==
  /\ todo = 1
  /\ \E mode \in Modes :
       LET hasPar  == UsesParent(mode) /\ Len(group) > 0
           par     == IF hasPar THEN group[Len(group)] ELSE [p \in Paths |-> Absent]
           prem    == ~hasPar \/ Premise(src, par, flags)
           new     == IF hasPar THEN IncTree(src, par, flags) ELSE src
           omitted == Skips(mode) /\ hasPar /\ par = new
       IN /\ Twin \/ prem
          /\ group' = IF omitted THEN group ELSE Append(group, new)
          \* incremental tree = full tree; a skipped snapshot hides no change
          /\ ok' = (ok /\ new = src /\ (omitted => par = src))
          /\ hist' = Append(hist, [op |-> "backup", p |-> "", q |-> "", t |-> 0, n |-> Absent, m |-> Absent, mode |-> mode,
                                   premise |-> prem, has_parent |-> hasPar, omitted |-> omitted, tree |-> TreeOf(src)])
  /\ todo' = 0 /\ round' = round + 1
  /\ UNCHANGED <<src, clock, flags>>

Finish ==
  /\ todo = 0 /\ round = Rounds
  /\ round' = Rounds + 1
  /\ Emit => PrintT(<<"HIST", ToJson([flags |-> flags, paths |-> SetToSeq(Paths), ops |-> hist])>>)
  /\ UNCHANGED <<src, clock, flags, group, todo, hist, ok>>

Next == ChooseEdits \/ Edit \/ Backup \/ Finish
Spec == Init /\ [][Next]_vars

IncEqualsFull == ok

\* vacuity controls (expected to be violated = reachable): a parent based backup that reuses content, an omitted snapshot
NeverReuses == ~(\E k \in DOMAIN hist : hist[k].op = "backup" /\ hist[k].has_parent)
NeverOmits  == ~(\E k \in DOMAIN hist : hist[k].op = "backup" /\ hist[k].omitted)
=============================================================================
