----------------------------- MODULE RepoRepair -----------------------------
(***************************************************************************)
(* Design model of the repair commands on top of Repo.tla:                 *)
(*   environment damage  (lost pack / index file, unreadable blob inside a *)
(*                        pack, truncated pack = unreadable header, bogus  *)
(*                        index entry)                                     *)
(*   repair index        (internal/repository/repair_index.go): load       *)
(*                        indexes, list packs, re-read headers of packs    *)
(*                        that are unknown or whose size disagrees, save   *)
(*                        the new index, delete the old index files        *)
(*   repair packs <ids>  (repair_pack.go): re-upload what can still be     *)
(*                        read, flush, rewrite the index without the packs,*)
(*                        delete the packs                                 *)
(* with a crash possible between any two backend operations and the        *)
(* command re-run afterwards.  Checked: restic never ADDS damage           *)
(* (NoNewLoss), the post-condition of repair index (C33), the salvage rule *)
(* of repair packs (C34).  Variants are broken designs TLC must refute.    *)
(***************************************************************************)
EXTENDS Repo, Sequences

CONSTANTS MaxDamage,   \* number of environment damage steps
          Variant      \* "ok" | "ri_delete_first" | "ri_keep_missing" | "rp_remove_first" | "rp_first_blob_only"

VARIABLES listed,      \* pack id |-> blobs its header lists ({} = header unreadable)
          sized,       \* pack id |-> TRUE iff the file has the size the writer gave it
          phase,       \* "damage" | "idle" | repair-index / repair-packs control states
          ndmg, dmgB,  \* damage steps taken; needed blobs the damage made unavailable
          mem,         \* repair: entries loaded from the index files
          newE,        \* repair index: entries read from pack headers
          toRead, drop,\* repair index: packs to re-read / to forget
          old,         \* index files that existed when the rewrite started
          ids,         \* repair packs: the packs named on the command line
          open, nextN,  \* repair packs: blobs in the open packer; fresh id counter
          prePacks     \* pack files present when the current repair command started

rvars == <<listed, sized, phase, ndmg, dmgB, mem, newE, toRead, drop, old, ids, open, nextN, prePacks>>
vars  == <<storage, rvars>>

\* ------------------------------------------------- the undamaged repository
KidsC  == [t \in {"t1", "t2"} |-> IF t = "t1" THEN {"d1", "d2"} ELSE {"d2", "d3"}]
PacksC == [p \in {"p1", "p2", "p3", "p4"} |->
             IF p = "p1" THEN {"t1", "t2"} ELSE IF p = "p2" THEN {"d1", "d2"}
             ELSE IF p = "p3" THEN {"d3"} ELSE {"d2"}]                      \* p4: duplicate of d2
EntOf(p) == {<<b, p>> : b \in PacksC[p]}
IdxC   == [i \in {"i1", "i2"} |-> IF i = "i1" THEN EntOf("p1") \cup EntOf("p2") ELSE EntOf("p3") \cup EntOf("p4")]
SnapsC == [s \in {"s1", "s2"} |-> [tree |-> IF s = "s1" THEN "t1" ELSE "t2", orig |-> NoSnap]]

Init ==
  /\ packs = PacksC /\ idx = IdxC /\ snaps = SnapsC /\ kids = KidsC /\ keys = {"k1"} /\ cfg = 2
  /\ listed = PacksC /\ sized = [p \in DOMAIN PacksC |-> TRUE]
  /\ phase = "damage" /\ ndmg = 0 /\ dmgB = {}
  /\ mem = {} /\ newE = {} /\ toRead = {} /\ drop = {} /\ old = {} /\ ids = {} /\ open = {} /\ nextN = 1
  /\ prePacks = {}

Keep(vs) == UNCHANGED vs
NoRepairChange == UNCHANGED <<mem, newE, toRead, drop, old, ids, open, nextN, prePacks>>

\* ---------------------------------------------------- environment damage
Damage ==
  /\ phase = "damage" /\ ndmg < MaxDamage /\ ndmg' = ndmg + 1
  /\ \/ \E p \in DOMAIN packs : /\ packs' = Drop(packs, p) /\ listed' = Drop(listed, p) /\ sized' = Drop(sized, p)
                                /\ UNCHANGED idx
     \/ \E i \in DOMAIN idx : idx' = Drop(idx, i) /\ UNCHANGED <<packs, listed, sized>>
     \/ \E p \in DOMAIN packs : \E b \in packs[p] :          \* bit flip inside one blob
           /\ packs' = [packs EXCEPT ![p] = @ \ {b}] /\ UNCHANGED <<idx, listed, sized>>
     \/ \E p \in DOMAIN packs :                               \* truncation: header gone
           /\ packs' = [packs EXCEPT ![p] = {}] /\ listed' = [listed EXCEPT ![p] = {}]
           /\ sized' = [sized EXCEPT ![p] = FALSE] /\ UNCHANGED idx
     \/ /\ "ibogus" \notin DOMAIN idx                         \* a valid index file with a wrong entry
        /\ idx' = "ibogus" :> {<<"d1", "ghost">>} @@ idx /\ UNCHANGED <<packs, listed, sized>>
  /\ UNCHANGED <<snaps, kids, keys, cfg, phase, dmgB>> /\ NoRepairChange

EndDamage ==
  /\ phase = "damage"
  /\ phase' = "idle"
  /\ dmgB' = {b \in Needed : ~Indexed(b)}
  /\ UNCHANGED <<storage, listed, sized, ndmg>> /\ NoRepairChange

Fresh(pfx) == pfx \o ToString(nextN)

\* ----------------------------------------------------------- repair index
RIStart ==
  /\ phase = "idle"
  /\ phase' = "ri_list" /\ mem' = Entries /\ old' = DOMAIN idx /\ prePacks' = DOMAIN packs
  /\ newE' = {} /\ toRead' = {} /\ drop' = {}
  /\ UNCHANGED <<storage, listed, sized, ndmg, dmgB, ids, open, nextN>>

\* a pack is re-read when the index does not know it or its size disagrees (the size an index
\* implies is abstracted to: its entries for the pack are exactly the header's listing and the
\* file was not truncated)
SizeOK(p) == sized[p] /\ {e[1] : e \in {x \in mem : x[2] = p}} = listed[p]
RIListPacks ==
  /\ phase = "ri_list"
  /\ toRead' = {p \in DOMAIN packs : ~(p \in PacksOf(mem) /\ SizeOK(p))}
  /\ drop' = {p \in DOMAIN packs : ~(p \in PacksOf(mem) /\ SizeOK(p))}
             \cup (IF Variant = "ri_keep_missing" THEN {} ELSE PacksOf(mem) \ DOMAIN packs)
  /\ phase' = "ri_read"
  /\ UNCHANGED <<storage, listed, sized, ndmg, dmgB, mem, newE, old, ids, open, nextN, prePacks>>

RIReadHeader ==
  /\ phase = "ri_read"
  /\ IF toRead = {} THEN phase' = (IF Variant = "ri_delete_first" THEN "ri_delete" ELSE "ri_save") /\ UNCHANGED <<toRead, newE>>
     ELSE \E p \in toRead :
            /\ toRead' = toRead \ {p}
            /\ newE' = newE \cup (IF p \in DOMAIN packs THEN {<<b, p>> : b \in listed[p]} ELSE {})
            /\ UNCHANGED phase
  /\ UNCHANGED <<storage, listed, sized, ndmg, dmgB, mem, drop, old, ids, open, nextN, prePacks>>

RISave ==
  /\ phase = "ri_save"
  /\ LET es == {e \in mem : e[2] \notin drop} \cup newE
     IN IF es = {} THEN UNCHANGED <<storage, nextN>>
        ELSE SaveIndex(Fresh("in"), es) /\ nextN' = nextN + 1
  /\ phase' = (IF Variant = "ri_delete_first" THEN "idle" ELSE "ri_delete")
  /\ UNCHANGED <<listed, sized, ndmg, dmgB, mem, newE, toRead, drop, old, ids, open, prePacks>>

RIDelete ==
  /\ phase = "ri_delete"
  /\ LET todo == old \cap DOMAIN idx
     IN IF todo = {} THEN phase' = (IF Variant = "ri_delete_first" THEN "ri_save" ELSE "ri_done") /\ UNCHANGED storage
        ELSE (\E i \in todo : RemoveIndex(i)) /\ UNCHANGED phase
  /\ UNCHANGED <<listed, sized, ndmg, dmgB, mem, newE, toRead, drop, old, ids, open, nextN, prePacks>>

RIDone ==
  /\ phase = "ri_done" /\ phase' = "idle"
  /\ UNCHANGED <<storage, listed, sized, ndmg, dmgB, mem, newE, toRead, drop, old, ids, open, nextN, prePacks>>

\* C33: what must hold when repair index reports success
RepairIndexPost ==
  phase = "ri_done" =>
     /\ Entries = UNION {{<<b, p>> : b \in listed[p]} : p \in DOMAIN packs}
     /\ prePacks \subseteq DOMAIN packs

\* ----------------------------------------------------------- repair packs
RPStart ==
  /\ phase = "idle" /\ DOMAIN packs # {}
  /\ \E sel \in (SUBSET DOMAIN packs) \ {{}} :
        /\ ids' = sel
        \* every blob that can still be read from the named packs goes into the packer
        /\ open' = IF Variant = "rp_first_blob_only"
                   THEN UNION {IF packs[p] = {} THEN {} ELSE {CHOOSE b \in packs[p] : TRUE} : p \in sel}
                   ELSE UNION {packs[p] : p \in sel}
  /\ mem' = Entries /\ old' = DOMAIN idx /\ prePacks' = DOMAIN packs
  /\ phase' = (IF Variant = "rp_remove_first" THEN "rp_remove" ELSE "rp_upload")
  /\ UNCHANGED <<storage, listed, sized, ndmg, dmgB, newE, toRead, drop, nextN>>

RPUpload ==
  /\ phase = "rp_upload"
  /\ IF open = {} THEN UNCHANGED <<storage, listed, sized, nextN, newE>>
     ELSE /\ SavePack(Fresh("pn"), open)
          /\ listed' = Fresh("pn") :> open @@ listed /\ sized' = Fresh("pn") :> TRUE @@ sized
          /\ newE' = {<<b, Fresh("pn")>> : b \in open} /\ nextN' = nextN + 1
  /\ phase' = "rp_flush"
  /\ UNCHANGED <<ndmg, dmgB, mem, toRead, drop, old, ids, open, prePacks>>

RPFlushIndex ==
  /\ phase = "rp_flush"
  /\ IF newE = {} THEN UNCHANGED <<storage, nextN>>
     ELSE SaveIndex(Fresh("in"), newE) /\ nextN' = nextN + 1
  /\ phase' = "rp_rwsave"
  /\ UNCHANGED <<listed, sized, ndmg, dmgB, mem, newE, toRead, drop, old, ids, open, prePacks>>

RPRewriteSave ==
  /\ phase = "rp_rwsave"
  /\ LET es == {e \in mem : e[2] \notin ids}
     IN IF es = {} THEN UNCHANGED <<storage, nextN>>
        ELSE SaveIndex(Fresh("in"), es) /\ nextN' = nextN + 1
  /\ phase' = "rp_rwdel"
  /\ UNCHANGED <<listed, sized, ndmg, dmgB, mem, newE, toRead, drop, old, ids, open, prePacks>>

RPRewriteDelete ==
  /\ phase = "rp_rwdel"
  /\ LET todo == old \cap DOMAIN idx
     IN IF todo = {} THEN phase' = (IF Variant = "rp_remove_first" THEN "idle" ELSE "rp_remove") /\ UNCHANGED storage
        ELSE (\E i \in todo : RemoveIndex(i)) /\ UNCHANGED phase
  /\ UNCHANGED <<listed, sized, ndmg, dmgB, mem, newE, toRead, drop, old, ids, open, nextN, prePacks>>

RPRemove ==
  /\ phase = "rp_remove"
  /\ LET todo == ids \cap DOMAIN packs
     IN IF todo = {} THEN phase' = (IF Variant = "rp_remove_first" THEN "rp_upload" ELSE "idle") /\ UNCHANGED <<storage, listed, sized>>
        ELSE \E p \in todo : /\ RemovePack(p) /\ listed' = Drop(listed, p) /\ sized' = Drop(sized, p)
                             /\ UNCHANGED phase
  /\ UNCHANGED <<ndmg, dmgB, mem, newE, toRead, drop, old, ids, open, nextN, prePacks>>

\* a crash loses the process state; the command is simply run again later
Crash ==
  /\ phase \notin {"damage", "idle"}
  /\ phase' = "idle" /\ mem' = {} /\ newE' = {} /\ toRead' = {} /\ drop' = {} /\ old' = {} /\ ids' = {} /\ open' = {}
  /\ UNCHANGED <<storage, listed, sized, ndmg, dmgB, nextN, prePacks>>

Next == \/ Damage \/ EndDamage
        \/ RIStart \/ RIListPacks \/ RIReadHeader \/ RISave \/ RIDelete \/ RIDone
        \/ RPStart \/ RPUpload \/ RPFlushIndex \/ RPRewriteSave \/ RPRewriteDelete \/ RPRemove
        \/ Crash

Spec == Init /\ [][Next]_vars

\* ------------------------------------------------------------ properties
\* restic never adds damage: what a snapshot needed and could read after the environment's
\* damage stays readable through the index at every point of every repair (crash points)
NoNewLoss == phase # "damage" => \A b \in Needed : Indexed(b) \/ b \in dmgB

\* C34: a pack is removed only after every blob still readable from it is indexed elsewhere
KeepsReadable ==
  \A p \in DOMAIN packs \ DOMAIN packs' :
     phase # "damage" => \A b \in packs[p] : IndexedIn(b, idx', packs')
SalvageRule == [][KeepsReadable]_vars

Bound == nextN <= 4
=============================================================================
