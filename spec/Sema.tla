-------------------------------- MODULE Sema --------------------------------
(***************************************************************************)
(* C37: design model of sema.connectionLimitedBackend                      *)
(* (internal/backend/sema/backend.go, semaphore.go).                       *)
(* An operation o (Save/Load/Stat/Remove) on a non-lock file runs          *)
(*   Call -> GetToken (blocks while N tokens are out)                      *)
(*        -> FLock / FUnlock (the freeze gate: freezeLock.Lock();Unlock()) *)
(*        -> admitted -> InnerStart -> InnerEnd -> Release (token back).   *)
(* An operation on a lock file skips token and gate.                       *)
(* Freeze() = freezeLock.Lock() by the controller, Unfreeze() = Unlock().  *)
(* Cancel(o): the context of an operation that is held back by the wrapper  *)
(* (queued for a token or at the freeze gate) is cancelled.  Such an        *)
(* operation never starts: either it gives up waiting at once ("abandon":   *)
(* a context-aware wait; it holds no token, so the token count must not     *)
(* change) or it keeps waiting, passes token and gate and returns without   *)
(* touching the wrapped backend, giving its own token back ("stay": what a  *)
(* wait that ignores the context does).  Both are allowed.                  *)
(* "An operation starts" = it is admitted (typeDependentLimit returned).   *)
(*                                                                         *)
(* Spec: all interleavings.  SpecQ/SpecQS: scheduler view for the replay:  *)
(* the controllable actions (Call, InnerEnd, FreezeCall, Unfreeze) fire    *)
(* only when no internal action is enabled (every goroutine is parked);    *)
(* `sched` records them.                                                   *)
(***************************************************************************)
EXTENDS SemaProps, TLC

CONSTANTS K,        \* operations 1..K, each called at most once
          N,        \* configured connections
          MaxFreeze,\* number of Freeze calls in a behaviour
          MaxCancel,\* number of context cancellations in a behaviour
          Twin,     \* "none" | "token_after_gate" | "limit_locks" | "release_twice" | "no_gate" | "cancel_releases"
          Record

Ops == 1..K
CTL == 0 - 1   \* holder id of freezeLock when the controller froze the backend

VARIABLES pc,      \* idle, called, tok, fl, pregate, adm, inner, ret, done
          isLock, tokens, fmu, frozen, fpend, nfreeze,
          admittedFrozen,   \* history: non-lock operations admitted while frozen
          cmode,   \* per operation: "none" | "abandon" | "stay" (context cancelled while held back)
          ncancel,
          sched
vars == <<pc, isLock, tokens, fmu, frozen, fpend, nfreeze, admittedFrozen, cmode, ncancel, sched>>

Init == /\ pc = [o \in Ops |-> "idle"] /\ isLock = [o \in Ops |-> FALSE]
        /\ tokens = 0 /\ fmu = 0 /\ frozen = FALSE /\ fpend = FALSE /\ nfreeze = 0
        /\ admittedFrozen = {} /\ sched = <<>>
        /\ cmode = [o \in Ops |-> "none"] /\ ncancel = 0

Limited(o) == ~isLock[o] \/ Twin = "limit_locks"

\* typeDependentLimit returns: the operation starts, unless its context is cancelled (ctx.Err() != nil:
\* it returns without calling the wrapped backend and releases what it holds)
Admit(o) == IF cmode[o] # "none"
            THEN pc' = [pc EXCEPT ![o] = "ret"] /\ UNCHANGED admittedFrozen
            ELSE /\ pc' = [pc EXCEPT ![o] = "adm"]
                 /\ admittedFrozen' = IF frozen /\ ~isLock[o] THEN admittedFrozen \cup {o} ELSE admittedFrozen

Call(o, lock) ==
  /\ pc[o] = "idle" /\ \A q \in Ops : q < o => pc[q] # "idle"
  /\ pc' = [pc EXCEPT ![o] = "called"] /\ isLock' = [isLock EXCEPT ![o] = lock]
  /\ sched' = IF Record THEN Append(sched, 10 * o + (IF lock THEN 1 ELSE 0)) ELSE sched
  /\ UNCHANGED <<tokens, fmu, frozen, fpend, nfreeze, admittedFrozen, cmode, ncancel>>

\* lock files: typeDependentLimit returns at once
Bypass(o) ==
  /\ pc[o] = "called" /\ ~Limited(o)
  /\ Admit(o)
  /\ UNCHANGED <<isLock, tokens, fmu, frozen, fpend, nfreeze, cmode, ncancel, sched>>

GetToken(o) ==
  /\ Limited(o) /\ tokens < N
  /\ \/ pc[o] = "called" /\ Twin # "token_after_gate"
        /\ IF Twin = "no_gate" THEN Admit(o) ELSE pc' = [pc EXCEPT ![o] = "tok"] /\ UNCHANGED admittedFrozen
     \/ pc[o] = "pregate" /\ Admit(o)       \* twin: token taken after the freeze gate
  /\ tokens' = tokens + 1
  /\ UNCHANGED <<isLock, fmu, frozen, fpend, nfreeze, cmode, ncancel, sched>>

FLock(o) ==
  /\ Limited(o) /\ fmu = 0
  /\ \/ pc[o] = "tok"
     \/ pc[o] = "called" /\ Twin = "token_after_gate"
  /\ fmu' = o /\ pc' = [pc EXCEPT ![o] = "fl"]
  /\ UNCHANGED <<isLock, tokens, frozen, fpend, nfreeze, admittedFrozen, cmode, ncancel, sched>>

FUnlock(o) ==
  /\ pc[o] = "fl" /\ fmu = o
  /\ fmu' = 0
  /\ IF Twin = "token_after_gate" THEN pc' = [pc EXCEPT ![o] = "pregate"] /\ UNCHANGED admittedFrozen
     ELSE Admit(o)
  /\ UNCHANGED <<isLock, tokens, frozen, fpend, nfreeze, cmode, ncancel, sched>>

InnerStart(o) ==
  /\ pc[o] = "adm" /\ pc' = [pc EXCEPT ![o] = "inner"]
  /\ UNCHANGED <<isLock, tokens, fmu, frozen, fpend, nfreeze, admittedFrozen, cmode, ncancel, sched>>

InnerEnd(o) ==
  /\ pc[o] = "inner" /\ pc' = [pc EXCEPT ![o] = "ret"]
  /\ sched' = IF Record THEN Append(sched, 10 * o + 2) ELSE sched
  /\ UNCHANGED <<isLock, tokens, fmu, frozen, fpend, nfreeze, admittedFrozen, cmode, ncancel>>

Release(o) ==
  /\ pc[o] = "ret" /\ pc' = [pc EXCEPT ![o] = "done"]
  /\ tokens' = IF ~Limited(o) THEN tokens
               ELSE IF Twin = "release_twice" THEN (IF tokens >= 2 THEN tokens - 2 ELSE 0) ELSE tokens - 1
  /\ UNCHANGED <<isLock, fmu, frozen, fpend, nfreeze, admittedFrozen, cmode, ncancel, sched>>

\* the context of a held-back operation is cancelled (controller action)
Cancel(o, m) ==
  /\ ncancel < MaxCancel /\ cmode[o] = "none"
  /\ pc[o] \in {"called", "tok", "pregate"}
  /\ cmode' = [cmode EXCEPT ![o] = m] /\ ncancel' = ncancel + 1
  /\ sched' = IF Record THEN Append(sched, 10 * o + 3) ELSE sched
  /\ UNCHANGED <<pc, isLock, tokens, fmu, frozen, fpend, nfreeze, admittedFrozen>>

\* a cancelled operation gives up waiting for a token: it returns, it holds no token and gives none back
\* (twin "cancel_releases": its deferred release takes a token of somebody else)
Abandon(o) ==
  /\ pc[o] = "called" /\ Limited(o) /\ cmode[o] = "abandon" /\ Twin # "token_after_gate"
  /\ pc' = [pc EXCEPT ![o] = "done"]
  /\ tokens' = IF Twin = "cancel_releases" /\ tokens > 0 THEN tokens - 1 ELSE tokens
  /\ UNCHANGED <<isLock, fmu, frozen, fpend, nfreeze, admittedFrozen, cmode, ncancel, sched>>

FreezeCall ==
  /\ ~frozen /\ ~fpend /\ nfreeze < MaxFreeze
  /\ fpend' = TRUE /\ nfreeze' = nfreeze + 1
  /\ sched' = IF Record THEN Append(sched, 1) ELSE sched
  /\ UNCHANGED <<pc, isLock, tokens, fmu, frozen, admittedFrozen, cmode, ncancel>>

FreezeAcq ==
  /\ fpend /\ fmu = 0
  /\ fmu' = CTL /\ frozen' = TRUE /\ fpend' = FALSE
  /\ UNCHANGED <<pc, isLock, tokens, nfreeze, admittedFrozen, cmode, ncancel, sched>>

Unfreeze ==
  /\ frozen
  /\ fmu' = 0 /\ frozen' = FALSE
  /\ sched' = IF Record THEN Append(sched, 2) ELSE sched
  /\ UNCHANGED <<pc, isLock, tokens, fpend, nfreeze, admittedFrozen, cmode, ncancel>>

Step(o)  == Bypass(o) \/ Abandon(o) \/ GetToken(o) \/ FLock(o) \/ FUnlock(o) \/ InnerStart(o) \/ Release(o)
Internal == (\E o \in Ops : Step(o)) \/ FreezeAcq
Control  == \/ \E o \in Ops : (\E l \in BOOLEAN : Call(o, l)) \/ InnerEnd(o) \/ (\E m \in {"abandon", "stay"} : Cancel(o, m))
            \/ FreezeCall \/ Unfreeze

AllDone  == (\A o \in Ops : pc[o] = "done") /\ ~frozen /\ ~fpend
Finished == AllDone /\ UNCHANGED vars

Next  == Internal \/ Control \/ Finished
Spec  == Init /\ [][Next]_vars
SpecQ == Init /\ [][Internal \/ (~ENABLED Internal /\ Control) \/ Finished]_vars
SpecQS == Init /\ [][Internal \/ (~ENABLED Internal /\ Control)]_vars

---------------------------------------------------------------------------
Running == {o \in Ops : ~isLock[o] /\ pc[o] \in {"adm", "inner"}}
Limit          == LimitOK(Running, N)
FrozenNoStart  == admittedFrozen = {}
\* a called lock-file operation can always take its next step, whatever the others and the controller did
LockNeverBlocked == LocksFreeOK({o \in Ops : isLock[o] /\ pc[o] \in {"called", "tok", "fl", "pregate"} /\ ~ENABLED Step(o)})
TokensOK       == tokens <= N

EmitSched == (Record /\ AllDone) => PrintT(<<"SCHED", sched>>)
=============================================================================
