SPECIFICATION Spec
CONSTANTS
 MaxLen = 3
 MonoLen = 2
 Twin = "nooldest"
INVARIANTS Conforms
CHECK_DEADLOCK FALSE
