------------------------------ MODULE Fn_Chunks ------------------------------
(***************************************************************************)
(* C17: content-defined chunking is lossless, bounded, deterministic and   *)
(* shift-resistant.  The spec states relations over observed cut lists     *)
(* (chunk end offsets) and chunk content tokens (equal token <=> equal     *)
(* chunk bytes); it does not model the Rabin polynomial.                   *)
(*                                                                         *)
(* Records written by the Go driver (real fileSaver + repository chunker):  *)
(*  kind "group": one file content, `runs` = every way it was read:        *)
(*     [pattern, pos (position in the worker's file sequence), cuts,       *)
(*      hashes, hash_ok (sha256 of the concatenated chunks = sha256 of the *)
(*      file), err]                                                        *)
(*  kind "edit":  a file (old) and an edited copy (new): `del` bytes at    *)
(*     offset `off` replaced by `ins` bytes                                *)
(*  kind "summary": how many edits of multi-chunk random files left the    *)
(*     chunks behind the edit unchanged                                    *)
(***************************************************************************)
EXTENDS Integers, Sequences, FiniteSets

MinSize == 524288      \* 512 KiB
MaxSize == 8388608     \* 8 MiB

ChunkSize(cuts, k) == cuts[k] - (IF k = 1 THEN 0 ELSE cuts[k - 1])

\* the chunks, concatenated, are the file
Lossless(run, size) ==
  /\ ~run.err
  /\ Len(run.hashes) = Len(run.cuts)
  /\ IF size = 0 THEN run.cuts = <<>> ELSE Len(run.cuts) > 0 /\ run.cuts[Len(run.cuts)] = size
  /\ \A k \in DOMAIN run.cuts : ChunkSize(run.cuts, k) >= 1
  /\ run.hash_ok

\* every chunk except the last has a size between the minimum and the maximum chunk size
Bounded(run) ==
  \A k \in DOMAIN run.cuts :
     /\ ChunkSize(run.cuts, k) <= MaxSize
     /\ k < Len(run.cuts) => ChunkSize(run.cuts, k) >= MinSize

\* boundaries depend only on the content (and the polynomial, fixed per run of the driver):
\* not on read sizes, not on the files the worker processed before
Deterministic(g) ==
  \A i, j \in DOMAIN g.runs : g.runs[i].cuts = g.runs[j].cuts /\ g.runs[i].hashes = g.runs[j].hashes

GroupOK(g) ==
  /\ Len(g.runs) >= 1
  /\ \A i \in DOMAIN g.runs : Lossless(g.runs[i], g.size) /\ Bounded(g.runs[i])
  /\ Deterministic(g)

\* an edit leaves every chunk that ends at or before the edit untouched (boundaries are decided by the bytes before
\* them), in both directions; the last cut of a file is its end, not a content-defined boundary
PrefixKept(a, ah, b, bh, off) ==
  \A k \in DOMAIN a : (k < Len(a) /\ a[k] <= off) => (k <= Len(b) /\ b[k] = a[k] /\ bh[k] = ah[k])

\* once both files cut at the same place behind the edit, all later chunks are the same (shifted by delta)
Resync(e) ==
  LET delta == e.ins - e.del IN
  \A k \in DOMAIN e.old, j \in DOMAIN e.new :
     (k < Len(e.old) /\ j < Len(e.new) /\ e.old[k] >= e.off + e.del /\ e.new[j] = e.old[k] + delta) =>
        /\ Len(e.old) - k = Len(e.new) - j
        /\ \A i \in 1..(Len(e.old) - k) : e.new[j + i] = e.old[k + i] + delta /\ e.new_h[j + i] = e.old_h[k + i]

EditOK(e) ==
  /\ PrefixKept(e.old, e.old_h, e.new, e.new_h, e.off)
  /\ PrefixKept(e.new, e.new_h, e.old, e.old_h, e.off)
  /\ Resync(e)

\* "changes only the chunks around the edit": at least half of the edits of random multi-chunk files leave the chunks
\* further behind the edit unchanged (a fixed-offset splitter would leave none; restic's resynchronises almost always)
SummaryOK(s) == s.edits >= 10 => 2 * s.resynced >= s.edits

RecOK(r) ==
  CASE r.kind = "group"   -> GroupOK(r)
    [] r.kind = "edit"    -> EditOK(r)
    [] r.kind = "summary" -> SummaryOK(r)
    [] OTHER -> FALSE
=============================================================================
