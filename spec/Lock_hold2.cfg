SPECIFICATION Spec
CONSTANTS
  N = 2
  MaxTime = 14
  MaxSkew = 1
  Budget = 1
  Variant = "design"
  Faults <- NoFaults
  MaxToggle = 0
  Removal = FALSE
  Remotes <- RemotesNone
  MaxWaits = 99
  HistMax = 0
  Emit = FALSE
  MaxAtt = 2
  Crashes = TRUE
  StartBy = 3
  StartFrom = 0
  HealOdds = 3
  ListLag = FALSE
  FixSkew = FALSE
  MaxMods = 0
  Edge = FALSE
VIEW View
INVARIANTS TypeOK InvExclusion InvHolderHasFile InvNotStale InvFresh
CHECK_DEADLOCK FALSE
