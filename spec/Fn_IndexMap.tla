---------------------------- MODULE Fn_IndexMap ----------------------------
(***************************************************************************)
(* C56: the index hash table (indexMap, also reached through index.Index)  *)
(* behaves as an insert-only multimap.                                     *)
(*                                                                         *)
(* A recorded scenario r is a list of steps applied to one real table:     *)
(*   add k t          insert one entry with key k and unique tag t         *)
(*   addmany k ts     insert one entry per tag of ts, all with key k       *)
(*   burst from to    insert filler entries number from..to, filler j has  *)
(*                    its own key (never a tracked key) and tag FillBase+j *)
(*   prealloc n / nop no change of contents                                *)
(* After every step the driver observed (st.obs, a list of 0 or 1 records) *)
(*   len                      number of entries the table reports          *)
(*   look[x] for r.keys[x]    <<tags, get, has, first>>: tags of the       *)
(*                            entries found for the key, tag of the        *)
(*                            single-entry lookup (-2 none), membership,   *)
(*                            first-entry position (-1 none)               *)
(*   fill[y] for r.fsamp[y]   the same for a fixed sample of filler numbers*)
(*   it                       <<seen, distinct, min, max>> over the tags of*)
(*                            tracked entries met while iterating          *)
(*   fs                       <<filler entries met, distinct fillers met,  *)
(*                            entries met whose payload or key is not what *)
(*                            was inserted>>                               *)
(* (JSON is slow to read in TLC, hence tuples and the iteration summary;   *)
(* the summary is exact because the driver numbers tracked tags 1,2,3,...) *)
(* The expected contents after step i are a function of steps 1..i only    *)
(* (declarative: no table layout, buckets, growth or bloom bits here).     *)
(***************************************************************************)
EXTENDS Sequences, FiniteSets, Integers

FillBase == 1000000
Range(s) == {s[i] : i \in DOMAIN s}

\* tags inserted for tracked key k by steps 1..i
TagsOf(steps, i, k) ==
  UNION { IF steps[j].op = "add" /\ steps[j].k = k THEN {steps[j].t}
          ELSE IF steps[j].op = "addmany" /\ steps[j].k = k THEN Range(steps[j].ts)
          ELSE {} : j \in 1..i }

AllTracked(steps, i) ==
  UNION { IF steps[j].op = "add" THEN {steps[j].t}
          ELSE IF steps[j].op = "addmany" THEN Range(steps[j].ts)
          ELSE {} : j \in 1..i }

\* number of fillers after step i (bursts are consecutive ranges starting at 1)
FillCount(steps, i) ==
  LET S == {steps[j].to : j \in {q \in 1..i : steps[q].op = "burst"}}
  IN IF S = {} THEN 0 ELSE CHOOSE x \in S : \A y \in S : y <= x

Tags(L) == L[1]
Get(L) == L[2]
Has(L) == L[3]
First(L) == L[4]

LookOK(T, L, total) ==
  /\ Len(Tags(L)) = Cardinality(T) /\ Range(Tags(L)) = T     \* exactly the inserted entries, each once
  /\ IF T = {} THEN Get(L) = -2 /\ First(L) = -1 /\ ~Has(L)
     ELSE Get(L) \in T /\ Has(L) /\ First(L) \in 0..total

ObsOK(r, i, o) ==
  LET c     == FillCount(r.steps, i)
      AT    == AllTracked(r.steps, i)
      total == Cardinality(AT) + c
      firsts == [x \in DOMAIN r.keys |-> First(o.look[x])]
      ffirsts == [y \in DOMAIN r.fsamp |-> First(o.fill[y])]
  IN /\ o.len = total
     /\ Len(o.look) = Len(r.keys) /\ Len(o.fill) = Len(r.fsamp)
     /\ \A x \in DOMAIN r.keys : LookOK(TagsOf(r.steps, i, r.keys[x]), o.look[x], total)
     /\ \A y \in DOMAIN r.fsamp :
          LookOK(IF r.fsamp[y] <= c THEN {FillBase + r.fsamp[y]} ELSE {}, o.fill[y], total)
     \* positions identify entries: different keys never share a first-entry position
     /\ \A x1, x2 \in DOMAIN r.keys : (x1 # x2 /\ firsts[x1] # -1) => firsts[x1] # firsts[x2]
     /\ \A y1, y2 \in DOMAIN r.fsamp : (y1 # y2 /\ ffirsts[y1] # -1) => ffirsts[y1] # ffirsts[y2]
     /\ \A x \in DOMAIN r.keys : \A y \in DOMAIN r.fsamp : firsts[x] # -1 => firsts[x] # ffirsts[y]
     \* iteration yields every entry exactly once: as many tracked entries as inserted, all distinct, none outside
     \* the inserted tags (smallest and largest tag met are inserted tags; tags are consecutive numbers)
     /\ o.it[1] = Cardinality(AT) /\ o.it[2] = Cardinality(AT)
     /\ (AT # {} => o.it[3] \in AT /\ o.it[4] \in AT)
     /\ o.fs[1] = c /\ o.fs[2] = c /\ o.fs[3] = 0

\* the first-entry position of a key never changes once the key has an entry
Stable(r, p, q) ==   \* p earlier observation, q later observation
  /\ \A x \in DOMAIN r.keys : First(p.look[x]) # -1 => First(q.look[x]) = First(p.look[x])
  /\ \A y \in DOMAIN r.fsamp : First(p.fill[y]) # -1 => First(q.fill[y]) = First(p.fill[y])

\* the driver observes after every step (a step without observation only occurs after a panic, which fails anyway)
RecOK(r) ==
  /\ r.panic = ""
  /\ \A i \in DOMAIN r.steps : Len(r.steps[i].obs) = 1 => ObsOK(r, i, r.steps[i].obs[1])
  /\ \A i \in 2..Len(r.steps) :
       (Len(r.steps[i-1].obs) = 1 /\ Len(r.steps[i].obs) = 1) => Stable(r, r.steps[i-1].obs[1], r.steps[i].obs[1])
=============================================================================
