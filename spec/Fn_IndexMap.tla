---------------------------- MODULE Fn_IndexMap ----------------------------
(***************************************************************************)
(* C56: the index hash table (indexMap, also reached through index.Index)  *)
(* behaves as an insert-only multimap: every insertion adds one entry,     *)
(* also when an equal entry (same key, same pack, same offset, even the    *)
(* same lengths) is already stored.                                        *)
(*                                                                         *)
(* A recorded scenario r is a list of steps applied to one real table:     *)
(*   add k vs         insert one entry per element of the sequence vs, in  *)
(*                    that order, all with tracked key k; an element is a  *)
(*                    value code (pack, offset, length variant) - codes    *)
(*                    may repeat within vs and between steps               *)
(*   burst from to    insert filler entries number from..to, filler j has  *)
(*                    its own key (never a tracked key) and value code j   *)
(*   prealloc n / nop no change of contents                                *)
(* After every step the driver observed (st.obs, a list of 0 or 1 records) *)
(*   len                      number of entries the table reports          *)
(*   look[x] for r.keys[x]    <<codes, get, has, first, iter>>: value codes*)
(*                            of the entries found for the key, code of the*)
(*                            single-entry lookup (-2 none), membership,   *)
(*                            first-entry position (-1 none), value codes  *)
(*                            of the entries with that key met by a full   *)
(*                            iteration; or <<>> = "the same 5-tuple as in *)
(*                            the previous observation" (records are read  *)
(*                            slowly, most keys do not change in a step)   *)
(*   fill[y] for r.fsamp[y]   the same for a fixed sample of filler numbers*)
(*   fs                       <<filler entries met by the iteration,       *)
(*                            distinct fillers met, entries met whose key  *)
(*                            or payload is not what was inserted>>        *)
(* A code of -1 stands for an entry whose payload was never inserted.      *)
(* The expected contents after step i are a function of steps 1..i only    *)
(* (declarative: no table layout, buckets, growth or bloom bits here); they*)
(* are BAGS: the order in which a lookup or the iteration yields entries is*)
(* left open, the multiplicity of every code is not.                       *)
(***************************************************************************)
EXTENDS Sequences, FiniteSets, Integers, TLC

Range(s) == {s[i] : i \in DOMAIN s}

C56Less(a, b) == a < b
Sorted(s) == SortSeq(s, C56Less)
\* two sequences hold the same elements with the same multiplicities
SameBag(s, t) == Sorted(s) = Sorted(t)

\* codes inserted for tracked key k by steps 1..i (one element per inserted entry)
RECURSIVE InsOf(_, _, _)
InsOf(steps, i, k) ==
  IF i = 0 THEN <<>>
  ELSE InsOf(steps, i - 1, k) \o (IF steps[i].op = "add" /\ steps[i].k = k THEN steps[i].vs ELSE <<>>)

\* number of tracked entries inserted by steps 1..i
RECURSIVE TrackedCount(_, _)
TrackedCount(steps, i) ==
  IF i = 0 THEN 0 ELSE TrackedCount(steps, i - 1) + (IF steps[i].op = "add" THEN Len(steps[i].vs) ELSE 0)

\* number of fillers after step i (bursts are consecutive ranges starting at 1)
FillCount(steps, i) ==
  LET S == {steps[j].to : j \in {q \in 1..i : steps[q].op = "burst"}}
  IN IF S = {} THEN 0 ELSE CHOOSE x \in S : \A y \in S : y <= x

Codes(L) == L[1]
Get(L) == L[2]
Has(L) == L[3]
First(L) == L[4]
Iter(L) == L[5]

\* Resolving "same as before": ResAll(r, n)[i] = <<look, fill>>, the 5-tuples of every tracked key and every sampled
\* filler as observed after step i (i <= n).  (`\o <<>>' makes TLC build the tuple once instead of keeping a lazy function.)
RECURSIVE ResAll(_, _)
ResAll(r, i) ==
  IF i = 0 THEN <<>>
  ELSE LET prev == ResAll(r, i - 1)
           o    == r.steps[i].obs[1]
           look == [x \in DOMAIN r.keys |-> IF o.look[x] # <<>> \/ i = 1 THEN o.look[x] ELSE prev[i - 1][1][x]] \o <<>>
           fill == [y \in DOMAIN r.fsamp |-> IF o.fill[y] # <<>> \/ i = 1 THEN o.fill[y] ELSE prev[i - 1][2][y]] \o <<>>
       IN Append(prev, <<look, fill>>)

\* E: the sequence of codes inserted for the key so far
LookOK(E, L, total) ==
  LET SE == Sorted(E)
  IN /\ Sorted(Codes(L)) = SE      \* SameBag: the lookup yields exactly the inserted entries, each as often as inserted
     /\ Sorted(Iter(L)) = SE       \* SameBag: so does the iteration
     /\ IF E = <<>> THEN Get(L) = -2 /\ First(L) = -1 /\ ~Has(L)
        ELSE Get(L) \in Range(E) /\ Has(L) /\ First(L) \in 0..total

\* o: observation after step i; look, fill: its resolved 5-tuples
ObsOK(r, i, o, look, fill) ==
  LET c     == FillCount(r.steps, i)
      total == TrackedCount(r.steps, i) + c
      firsts == [x \in DOMAIN r.keys |-> First(look[x])] \o <<>>
      ffirsts == [y \in DOMAIN r.fsamp |-> First(fill[y])] \o <<>>
  IN /\ o.len = total
     /\ \A x \in DOMAIN r.keys : LookOK(InsOf(r.steps, i, r.keys[x]), look[x], total)
     /\ \A y \in DOMAIN r.fsamp :
          LookOK(IF r.fsamp[y] <= c THEN <<r.fsamp[y]>> ELSE <<>>, fill[y], total)
     \* positions identify entries: different keys never share a first-entry position
     /\ \A x1, x2 \in DOMAIN r.keys : (x1 # x2 /\ firsts[x1] # -1) => firsts[x1] # firsts[x2]
     /\ \A y1, y2 \in DOMAIN r.fsamp : (y1 # y2 /\ ffirsts[y1] # -1) => ffirsts[y1] # ffirsts[y2]
     /\ \A x \in DOMAIN r.keys : \A y \in DOMAIN r.fsamp : firsts[x] # -1 => firsts[x] # ffirsts[y]
     \* iteration yields every entry exactly once: per tracked key the bag above, every filler once, nothing else
     /\ o.fs[1] = c /\ o.fs[2] = c /\ o.fs[3] = 0

\* the first-entry position of a key never changes once the key has an entry (p earlier, q later resolved observation)
Stable(r, p, q) ==
  /\ \A x \in DOMAIN r.keys : First(p[1][x]) # -1 => First(q[1][x]) = First(p[1][x])
  /\ \A y \in DOMAIN r.fsamp : First(p[2][y]) # -1 => First(q[2][y]) = First(p[2][y])

\* the driver observes after every step (a step without observation only occurs after a panic, which fails anyway)
RecOK(r) ==
  /\ r.panic = ""
  /\ \A i \in DOMAIN r.steps :
       /\ Len(r.steps[i].obs) = 1
       /\ Len(r.steps[i].obs[1].look) = Len(r.keys) /\ Len(r.steps[i].obs[1].fill) = Len(r.fsamp)
  /\ LET R == ResAll(r, Len(r.steps))
     IN /\ \A i \in DOMAIN r.steps : ObsOK(r, i, r.steps[i].obs[1], R[i][1], R[i][2])
        /\ \A i \in 2..Len(r.steps) : Stable(r, R[i - 1], R[i])
=============================================================================
