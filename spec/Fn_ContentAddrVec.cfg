SPECIFICATION Spec
