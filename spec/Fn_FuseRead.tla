---------------------------- MODULE Fn_FuseRead ----------------------------
(***************************************************************************)
(* C46: reading (offset, size) from a mounted file returns exactly that    *)
(* range of the file's content, empty past the end.                        *)
(*                                                                         *)
(* The content of a file is the concatenation of its blobs (any number,    *)
(* any sizes, empty blobs included).                                       *)
(*                                                                         *)
(* Two record kinds (the driver writes one record per opened file):        *)
(*  "small": r.blobs is the list of blobs, every blob a sequence of byte   *)
(*           values; every read carries the returned bytes d.              *)
(*  "big":   only the blob sizes are given; the driver stored the file so  *)
(*           that the byte at file position p has the value p % M, and it  *)
(*           encodes the returned bytes losslessly as maximal runs         *)
(*           <<v, l>> = l bytes v, v+1, v+2, ... (mod M).                  *)
(***************************************************************************)
EXTENDS Sequences, Naturals, SequencesExt, FiniteSetsExt

Content(blobs) == FlattenSeq(blobs)

Total(sizes) == FoldSeq(LAMBDA x, acc : x + acc, 0, sizes)

\* number of bytes a read of n bytes at offset off must return from a file of length len
RangeLen(len, off, n) ==
  IF off >= len THEN 0 ELSE IF off + n <= len THEN n ELSE len - off

\* d is exactly content[off .. off+n) cut at the end of the file
IsRange(content, off, n, d) ==
  /\ Len(d) = RangeLen(Len(content), off, n)
  /\ \A i \in 1..Len(d) : d[i] = content[off + i]

SmallReadOK(content, rd) == rd.err = "" /\ IsRange(content, rd.o, rd.n, rd.d)

\* expected run encoding of positions off .. off+L-1 of the file p |-> p % M
BigReadOK(len, M, rd) ==
  LET L == RangeLen(len, rd.o, rd.n) IN
  /\ rd.err = ""
  /\ IF L = 0 THEN rd.runs = <<>>
     ELSE rd.runs = << <<rd.o % M, L>> >>

RecOK(r) ==
  IF r.kind = "small"
  THEN LET c == Content(r.blobs) IN \A k \in DOMAIN r.reads : SmallReadOK(c, r.reads[k])
  ELSE LET len == Total(r.sizes) IN \A k \in DOMAIN r.reads : BigReadOK(len, r.m, r.reads[k])
=============================================================================
