SPECIFICATION Spec
CONSTANTS
  N = 2
  MaxTime = 10
  MaxSkew = 3
  Budget = 0
  Variant = "design"
  Faults <- SaveFault
  MaxToggle = 1
  Removal = FALSE
  Remotes <- RemotesNone
  MaxWaits = 99
  HistMax = 100000
  Emit = TRUE
  MaxAtt = 1
  Crashes = FALSE
  StartBy = 10
  StartFrom = 9
  HealOdds = 3
  ListLag = FALSE
  FixSkew = TRUE
  MaxMods = 0
  Edge = TRUE
VIEW View
INVARIANTS TypeOK InvExclusionMargin InvGoal1 InvGoal2 InvGoal4 InvGoal9 InvGoal10
CHECK_DEADLOCK FALSE
