SPECIFICATION Spec
CONSTANTS
  N = 3
  MaxTime = 16
  MaxSkew = 0
  Budget = 2
  Variant = "code"
  Faults <- ReadFaults
  MaxToggle = 2
  Removal = FALSE
  Remotes <- RemotesSome
  MaxWaits = 4
  HistMax = 70
  Emit = TRUE
  MaxAtt = 3
  Crashes = TRUE
  StartBy = 16
  HealOdds = 3
CHECK_DEADLOCK FALSE
