------------------------------ MODULE Uploader ------------------------------
(***************************************************************************)
(* Design model of the upload session around a backup                      *)
(* (repository.WithBlobUploader / saveBlobAsync / flush,                   *)
(*  archiver file_saver.saveFile, archiver.Snapshot's errgroup):           *)
(* the lifecycle in which two defects of the pinned tree were found        *)
(* (fix commits dea305c86 and 37e2786c3, property C55).                    *)
(*                                                                         *)
(* One file with NChunks chunks is read by the file saver.  Every chunk    *)
(* read is handed to SaveBlobAsync, which starts a goroutine on the        *)
(* uploader's errgroup.  A read error resolves the file's future at once   *)
(* (completeError) although earlier chunks may still be queued.  When all  *)
(* futures are resolved the archiver writes the snapshot's trees, its own  *)
(* errgroup returns and CANCELS the context the queued saves were started  *)
(* with.  The callback of WithBlobUploader then returns and flush() runs:  *)
(* it waits for the blob savers it knows of, then shuts the packer         *)
(* managers down (dataPM = nil).                                           *)
(*                                                                         *)
(* Variant "fixed"         saveBlobAsync registers with the blobSaver wait *)
(*                         group; a save whose caller's context is         *)
(*                         cancelled reports to the callback only          *)
(*         "unregistered"  restic before dea305c86: flush waits for nobody *)
(*                         -> a pending save meets dataPM = nil (crash)    *)
(*         "ctxerr"        restic before 37e2786c3: the cancelled context  *)
(*                         becomes an error of the whole upload            *)
(*                         -> "unable to save snapshot: context canceled"  *)
(***************************************************************************)
EXTENDS Naturals, FiniteSets

CONSTANTS NChunks,     \* chunks of the file (a read error may strike before any of them)
          Variant

VARIABLES read,        \* chunks read so far
          queued,      \* chunk saves handed to SaveBlobAsync that have not run yet
          saved,       \* chunk saves that stored their blob
          dropped,     \* chunk saves that reported an error to their callback only
          future,      \* "open" | "ok" | "error"   the file's future
          arch,        \* "run" | "done"            archiver.Snapshot (its errgroup context is cancelled when done)
          pm,          \* "up" | "down"             packer managers
          outcome      \* "running" | "complete" | "incomplete" | "fatal" | "crash"

vars == <<read, queued, saved, dropped, future, arch, pm, outcome>>

Chunks == 1..NChunks
Registered == Variant # "unregistered"

Init ==
  /\ read = 0 /\ queued = {} /\ saved = {} /\ dropped = {}
  /\ future = "open" /\ arch = "run" /\ pm = "up" /\ outcome = "running"

\* file saver: the next chunk is read and queued for saving
ReadChunk ==
  /\ future = "open" /\ read < NChunks /\ outcome = "running"
  /\ read' = read + 1 /\ queued' = queued \cup {read + 1}
  /\ UNCHANGED <<saved, dropped, future, arch, pm, outcome>>

\* file saver: reading fails; completeError resolves the future immediately
ReadError ==
  /\ future = "open" /\ read < NChunks /\ outcome = "running"
  /\ future' = "error"
  /\ UNCHANGED <<read, queued, saved, dropped, arch, pm, outcome>>

\* file saver: end of file; the future resolves when the last chunk's callback has run (completeBlob)
EndOfFile ==
  /\ future = "open" /\ read = NChunks /\ queued = {} /\ outcome = "running"
  /\ future' = "ok"
  /\ UNCHANGED <<read, queued, saved, dropped, arch, pm, outcome>>

\* archiver: all futures resolved, trees written, errgroup returns (its context is cancelled from now on)
ArchiverDone ==
  /\ arch = "run" /\ future # "open" /\ outcome = "running"
  /\ arch' = "done"
  /\ UNCHANGED <<read, queued, saved, dropped, future, pm, outcome>>

\* one queued save runs (goroutine of saveBlobAsync)
RunSave(c) ==
  /\ c \in queued /\ outcome = "running"
  /\ queued' = queued \ {c}
  /\ IF arch = "done"      \* the caller's context is cancelled
     THEN IF Variant = "ctxerr"
          THEN outcome' = "fatal" /\ dropped' = dropped \cup {c} /\ UNCHANGED saved
          ELSE IF pm = "down" /\ ~Registered
               THEN outcome' = "crash" /\ UNCHANGED <<saved, dropped>>
               ELSE dropped' = dropped \cup {c} /\ UNCHANGED <<saved, outcome>>
     ELSE IF pm = "down"
          THEN outcome' = "crash" /\ UNCHANGED <<saved, dropped>>
          ELSE saved' = saved \cup {c} /\ UNCHANGED <<dropped, outcome>>
  /\ UNCHANGED <<read, future, arch, pm>>

\* the "unregistered" variant checks the context first as well; its crash needs a save that started before the
\* cancellation check could see it - modelled by letting such a save skip the check
RunSaveLate(c) ==
  /\ Variant = "unregistered" /\ c \in queued /\ outcome = "running" /\ pm = "down"
  /\ queued' = queued \ {c} /\ outcome' = "crash"
  /\ UNCHANGED <<read, saved, dropped, future, arch, pm>>

\* flush(): wait for the registered blob savers, then shut the packer managers down
Flush ==
  /\ arch = "done" /\ pm = "up" /\ outcome = "running"
  /\ (Registered => queued = {})
  /\ pm' = "down"
  /\ UNCHANGED <<read, queued, saved, dropped, future, arch, outcome>>

\* the command ends: snapshot saved; status 3 when an item could not be read
Finish ==
  /\ pm = "down" /\ queued = {} /\ outcome = "running"
  /\ outcome' = IF future = "error" THEN "incomplete" ELSE "complete"
  /\ UNCHANGED <<read, queued, saved, dropped, future, arch, pm>>

Next ==
  \/ ReadChunk \/ ReadError \/ EndOfFile \/ ArchiverDone \/ Flush \/ Finish
  \/ \E c \in Chunks : RunSave(c) \/ RunSaveLate(c)

Spec == Init /\ [][Next]_vars /\ WF_vars(Next)

\* ------------------------------------------------------------ properties
TypeOK == /\ read \in 0..NChunks /\ queued \subseteq Chunks /\ saved \subseteq Chunks /\ dropped \subseteq Chunks
          /\ outcome \in {"running", "complete", "incomplete", "fatal", "crash"}

\* no save touches a packer manager that flush() has shut down
NoCrash == outcome # "crash"
\* without backend faults the upload itself never fails: a read error gives an incomplete snapshot, not a fatal error
NoSpuriousFatal == outcome # "fatal"
\* C55: the outcome tells whether every item was read
StatusOK == /\ outcome = "complete" => (future = "ok" /\ saved = Chunks)
            /\ outcome = "incomplete" => future = "error"
\* every run ends with a verdict
Terminates == <>(outcome # "running")
=============================================================================
