SPECIFICATION Spec
CONSTANTS
  Pw = {"a", "b"}
  MaxKeys = 4
  Atomic = FALSE
  Variant = "ok"
INVARIANTS
  SomeKeyWorks
  ConfigPresentAtomic

PROPERTIES
  KeyInUseKept
CHECK_DEADLOCK FALSE
