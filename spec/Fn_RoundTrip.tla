---------------------------- MODULE Fn_RoundTrip ----------------------------
(***************************************************************************)
(* C01: backup followed by restore reproduces every entry of the source    *)
(* tree: name, type, file content, symlink target, device number,          *)
(* permission and special mode bits, modification time, ownership,         *)
(* extended attributes and hard-link grouping -- for every repository      *)
(* version, compression mode, pack size and read concurrency.              *)
(*                                                                         *)
(* This module states (1) the case space: attribute classes per entry kind *)
(* and the configuration space, with the coverage the generated table has  *)
(* to reach, and (2) the relation Restore(Backup(T)) = T on the abstract   *)
(* projection of a directory entry.  Byte-level values (names, contents,   *)
(* xattr values) are projected by the harness to hex strings / sha256      *)
(* tokens; TLC compares the projections field by field.                    *)
(***************************************************************************)
EXTENDS Sequences, Naturals, FiniteSets

Kinds == {"file", "dir", "symlink", "fifo", "chardev", "blockdev", "hardlink"}

\* attribute classes (concretised by the harness through a fixed map)
Domain ==
  [ name    |-> {"ascii", "space-quote", "ctrl", "badutf8", "u2028", "long255", "dash", "glob", "dots", "utf8"},
    content |-> {"empty", "one", "small", "zero512k", "multi", "sparse", "zeros-odd", "repeat"},
    target  |-> {"rel", "abs", "nonutf8", "dangling", "long", "newline", "dot", "trailing"},
    mode    |-> {"m644", "m000", "m755", "m500", "setuid", "setgid", "sticky", "all"},
    \* what a directory holds: "children" = entries of the table may be placed in it; the other classes are
    \* directories NONE of whose children is restored (restore must still restore their own metadata):
    \* empty, only an empty directory (itself a table entry with fill "empty"), only a socket
    fill    |-> {"children", "empty", "only-empty-dir", "only-socket"},
    mtime   |-> {"epoch", "ns", "pre-epoch", "future", "one-ns", "min32"},
    xattr   |-> {"none", "text", "bin", "empty", "multi", "trusted", "big", "badname"},
    owner   |-> {"root", "user", "nobody"},
    rdev    |-> {"null", "sda1", "bigminor", "bigmajor"} ]

\* which attributes an entry of a kind has
Attrs(k) ==
  CASE k = "file"     -> {"name", "content", "mode", "mtime", "xattr", "owner"}
    [] k = "dir"      -> {"name", "mode", "mtime", "xattr", "owner", "fill"}
    [] k = "symlink"  -> {"name", "target", "mtime", "owner"}
    [] k = "fifo"     -> {"name", "mode", "mtime", "owner"}
    [] k \in {"chardev", "blockdev"} -> {"name", "rdev", "mode", "mtime", "owner"}
    [] k = "hardlink" -> {"name"}              \* second name of an earlier regular file of the tree

\* configurations
Versions == {1, 2}
Compressions == {"off", "auto", "max"}
PackSizes == {4, 16, 128}          \* MiB
ReadConcs == {1, 2, 8}
Configs == [version : Versions, compression : Compressions, packsize : PackSizes, readconc : ReadConcs]

\* ---- coverage of a generated table (sequence of node descriptors [kind, a: [attr -> class], cfg]) ----
Covers1(tab) ==      \* every class of every attribute of every kind occurs
  \A k \in Kinds : \A a \in Attrs(k) : \A v \in Domain[a] :
     \E i \in DOMAIN tab : tab[i].kind = k /\ tab[i].a[a] = v
Covers2(tab) ==      \* every pair of classes of two attributes of one kind occurs together
  \A k \in Kinds : \A a1 \in Attrs(k) : \A a2 \in Attrs(k) \ {a1} : \A v1 \in Domain[a1] : \A v2 \in Domain[a2] :
     \E i \in DOMAIN tab : tab[i].kind = k /\ tab[i].a[a1] = v1 /\ tab[i].a[a2] = v2
CoversCfg(tab) ==    \* every configuration occurs
  \A c \in Configs : \E i \in DOMAIN tab : tab[i].cfg = c

\* ---- the relation ------------------------------------------------------------------------------
\* fields of the projection that must be identical, by entry type as found in the source
MustMatch(ty) ==
  CASE ty = "file"    -> {"type", "size", "content", "perm", "mtime", "uid", "gid", "xattrs", "linkgroup"}
    [] ty = "dir"     -> {"type", "perm", "mtime", "uid", "gid", "xattrs"}
    [] ty = "symlink" -> {"type", "target", "mtime", "uid", "gid"}
    [] ty = "fifo"    -> {"type", "perm", "mtime", "uid", "gid"}
    [] ty \in {"chardev", "blockdev"} -> {"type", "rdev", "perm", "mtime", "uid", "gid"}

\*  r.rec = "node":    r.src, r.dst projections of one path (r.dst.type = "missing" if not restored)
\*  r.rec = "listing": r.src_names, r.dst_names sorted hex names of one directory (no extra, no missing entry)
RecOK(r) ==
  IF r.rec = "node"
  THEN \A f \in MustMatch(r.src.type) : r.src[f] = r.dst[f]
  ELSE r.src_names = r.dst_names
=============================================================================
