SPECIFICATION Spec
CONSTANTS
  Paths = {"a", "b", "d", "d/x"}
  EditPlan <- Plan3333
  Twin = FALSE
  Modes = {"inc", "incskip", "force"}
  FlagSet = {"none", "ignore-ctime", "ignore-inode"}
  Targets = {"dir"}
  Bigs = {FALSE}
  FaultKinds = {}
  MaxVictim = 0
  Emit = TRUE
INVARIANT IncEqualsFull
CHECK_DEADLOCK FALSE
