SPECIFICATION Spec
CONSTANTS
  Paths = {"a", "b", "d", "d/x"}
  EditPlan <- Plan3333
  Twin = FALSE
  Modes = {"inc", "incskip", "force"}
  Emit = TRUE
INVARIANT IncEqualsFull
CHECK_DEADLOCK FALSE
