SPECIFICATION Spec
CONSTANTS
  Paths = {"a", "b", "d", "d/x"}
  Rounds = 4
  MaxEdits = 3
  Twin = FALSE
  Modes = {"inc", "incskip", "force"}
  Emit = TRUE
INVARIANT IncEqualsFull
CHECK_DEADLOCK FALSE
