SPECIFICATION Spec
CONSTANTS
  Loaders = {"l1", "l2"}
  RawReaders = {}
  Inits = {"bad"}
  ExtBudget = 0
  Variant = "armfirst"
INVARIANTS
  ResultOK
  RawOK
  NoBadLeft
  Replaced
PROPERTIES
  Terminates
CHECK_DEADLOCK FALSE
