SPECIFICATION Spec
CONSTANTS
  Paths = {"a", "b"}
  EditPlan <- Plan11
  Twin = FALSE
  Modes = {"inc", "incskip", "force"}
  FlagSet = {"none"}
  Targets = {"dir", "dot"}
  Bigs = {FALSE}
  FaultKinds = {"readerr", "treeloss", "dataloss"}
  MaxVictim = 1
  Emit = FALSE
INVARIANT NeverDamagedParent
VIEW View
CHECK_DEADLOCK FALSE
