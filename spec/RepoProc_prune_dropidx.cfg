SPECIFICATION Spec
CONSTANTS
  Proc = {"w1", "x"}
  Roots <- RootsS
  Kids <- KidsS
  MaxPacks = 4
  MaxIdx = 4
  MaxSnaps = 2
  CanBackup = {"w1"}
  CanRead = {}
  CanPrune = {"x"}
  CanForget = {"x"}
  CanRewrite = {}
  CanTag = {}
  Budget <- BudgetP
  Variant = "prune_drop_index_first"
VIEW View
INVARIANTS
  SnapshotData
  SnapshotIndexed
  IndexSound
  ReaderOK
  TagNeverLoses
  RewriteNeverLoses
PROPERTIES
  W1
  W2
  D1
  D2
CHECK_DEADLOCK FALSE
