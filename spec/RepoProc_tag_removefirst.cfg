\* negative twin: only the property it must violate is checked (TLC reports the first violation it meets)
SPECIFICATION Spec
CONSTANTS
  Proc = {"w1", "x"}
  Roots <- Roots2
  Kids <- KidsC
  MaxPacks = 2
  MaxIdx = 2
  MaxSnaps = 3
  CanBackup = {"w1"}
  CanRead = {}
  CanPrune = {}
  CanForget = {"x"}
  CanRewrite = {}
  CanTag = {"x"}
  Budget <- Budget2
  Variant = "tag_remove_first"
VIEW View
INVARIANT TagNeverLoses
CHECK_DEADLOCK FALSE
