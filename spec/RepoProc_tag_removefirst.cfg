SPECIFICATION Spec
CONSTANTS
  Proc = {"w1", "x"}
  Roots <- Roots2
  Kids <- KidsC
  MaxPacks = 2
  MaxIdx = 2
  MaxSnaps = 3
  CanBackup = {"w1"}
  CanRead = {}
  CanPrune = {}
  CanForget = {"x"}
  CanRewrite = {}
  CanTag = {"x"}
  Budget <- Budget2
  Variant = "tag_remove_first"
VIEW View
INVARIANTS
  SnapshotData
  SnapshotIndexed
  IndexSound
  ReaderOK
  TagNeverLoses
  RewriteNeverLoses
PROPERTIES
  W1
  W2
  D1
  D2
CHECK_DEADLOCK FALSE
