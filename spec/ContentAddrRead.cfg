SPECIFICATION Spec
CONSTANTS MaxAttempts = 3
          UnverifiedAttempt = 0
INVARIANTS Safe HealthyOk Terminates
