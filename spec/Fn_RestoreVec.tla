---------------------------- MODULE Fn_RestoreVec ----------------------------
(* C19: TLC serialises the cell table of Fn_Restore (inputs + demanded outcome) for replay
   into the real restorer. *)
EXTENDS Fn_Restore, Json, SequencesExt, TLC
ASSUME ndJsonSerialize("vec.ndjson", SetToSeq(Cells))
ASSUME PrintT(<<"cells", Cardinality(Cells)>>)
VARIABLE vecDummy
Init == vecDummy = 0
Next == vecDummy' = vecDummy
Spec == Init /\ [][Next]_vecDummy
=============================================================================
