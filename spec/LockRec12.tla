----------------------------- MODULE LockRec12 -----------------------------
(* C12: one record = one schedule replayed into the real lockers; every      *)
(* recorded observation must satisfy Exclusion (LockObs.tla).                *)
EXTENDS LockObs
RecOK(r) == \A k \in 1..Len(r.obs) : Exclusion(r.obs[k])
=============================================================================
