----------------------------- MODULE LockRec12 -----------------------------
(* C12: one record = one schedule replayed into the real lockers; every      *)
(* recorded observation must satisfy ExclusionWithinMargin (LockObs.tla):    *)
(* Exclusion, except that a holder whose lock file was removed by a third    *)
(* party (clock ahead by the documented margin) may coexist with a newcomer  *)
(* for 1 min of protocol waits + the time it was stalled.                    *)
EXTENDS LockObs
RecOK(r) == \A k \in 1..Len(r.obs) : ExclusionWithinMargin(r.obs[k])
=============================================================================
