---- MODULE LockRec13Clean ----
(* C13, classification of rejected records: only ReleasedClean *)
EXTENDS LockObs
RecOK(r) == \A k \in 1..Len(r.obs) : ReleasedClean(r.obs[k])
====
