----------------------------- MODULE Fn_Upgrade -----------------------------
(***************************************************************************)
(* C31: one record = one storage state (a prefix = crash point, or the     *)
(* final state) of a `migrate upgrade_repo_v2` run under a fault script.   *)
(*   r.version   config version the real code reads when it opens the      *)
(*               storage (0 = the repository cannot be opened)             *)
(*   r.snaps_ok  every snapshot reloads with unchanged content             *)
(*   r.final, r.cmd_ok, r.kind  final state / command reported success /   *)
(*               fault kind of the script                                  *)
(***************************************************************************)
EXTENDS Naturals

RecOK(r) ==
  /\ r.version \in {1, 2}            \* opens with the old or the new config, at every interruption point
  /\ r.snaps_ok                      \* every snapshot restorable with unchanged content
  /\ (r.final /\ r.cmd_ok /\ r.kind = "none") => r.version = 2
=============================================================================
