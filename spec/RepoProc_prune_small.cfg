SPECIFICATION Spec
CONSTANTS
  Proc = {"w1", "x"}
  Roots <- RootsS
  Kids <- KidsS
  MaxPacks = 3
  MaxIdx = 3
  MaxSnaps = 1
  CanBackup = {"w1"}
  CanRead = {}
  CanPrune = {"x"}
  CanForget = {"x"}
  CanRewrite = {}
  CanTag = {}
  Budget <- BudgetQ
  Variant = "ok"
VIEW View
INVARIANTS
  SnapshotData
  SnapshotIndexed
  IndexSound
  ReaderOK
  TagNeverLoses
  RewriteNeverLoses
PROPERTIES
  W1
  W2
  D1
  D2
CHECK_DEADLOCK FALSE
