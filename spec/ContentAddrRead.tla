--------------------------- MODULE ContentAddrRead ---------------------------
(***************************************************************************)
(* C02 design model: a content-addressed read over a backend that may      *)
(* serve anything (Fn_ContentAddr!Faults) on every attempt.  The reader    *)
(* verifies what it got against the requested id and retries up to         *)
(* MaxAttempts times.  VerifyFrom..MaxAttempts are the attempts whose       *)
(* result is verified; the real design verifies all (VerifyFrom = 1).  The *)
(* negative twin (cfg _twin) leaves the last attempt unverified -- "the    *)
(* second comparison removed" -- and TLC must refute Safe.                 *)
(***************************************************************************)
EXTENDS Naturals, Sequences
CONSTANTS MaxAttempts, UnverifiedAttempt     \* UnverifiedAttempt = 0: every attempt is verified

Faults == {"good", "altered", "truncated", "extended", "empty", "foreign", "error"}
HashMatches(c) == c = "good"

VARIABLES attempt, served, result      \* result: "pending" | "ok" | "err";  served: history of what the backend served

vars == <<attempt, served, result>>

Init == attempt = 0 /\ served = <<>> /\ result = "pending"

Verified(a) == a # UnverifiedAttempt

Serve(c) ==
  /\ result = "pending" /\ attempt < MaxAttempts
  /\ attempt' = attempt + 1
  /\ served' = Append(served, c)
  /\ result' = IF c = "error" THEN (IF attempt + 1 = MaxAttempts THEN "err" ELSE "pending")
               ELSE IF ~Verified(attempt + 1) THEN "ok"                 \* handed out unchecked
               ELSE IF HashMatches(c) THEN "ok"
               ELSE IF attempt + 1 = MaxAttempts THEN "err" ELSE "pending"

Next == \E c \in Faults : Serve(c)
Spec == Init /\ [][Next]_vars

\* the property: what is handed out has the requested hash
Safe == result = "ok" => HashMatches(served[Len(served)])
\* a read that was never disturbed succeeds at the first attempt
HealthyOk == (Len(served) >= 1 /\ served[1] = "good") => (result = "ok" /\ attempt = 1)
\* every run ends with a verdict after at most MaxAttempts reads
Terminates == attempt = MaxAttempts => result # "pending"
=============================================================================
