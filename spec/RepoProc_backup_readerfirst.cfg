SPECIFICATION Spec
CONSTANTS
  Proc = {"w1", "w2", "r"}
  Roots <- RootsS
  Kids <- KidsS
  MaxPacks = 3
  MaxIdx = 3
  MaxSnaps = 2
  CanBackup = {"w1", "w2"}
  CanRead = {"r"}
  CanPrune = {}
  CanForget = {}
  CanRewrite = {}
  CanTag = {}
  Budget <- Budget1
  Variant = "reader_index_first"
VIEW View
INVARIANTS
  SnapshotData
  SnapshotIndexed
  IndexSound
  ReaderOK
  TagNeverLoses
  RewriteNeverLoses
PROPERTIES
  W1
  W2
  D1
  D2
CHECK_DEADLOCK FALSE
