SPECIFICATION Spec
