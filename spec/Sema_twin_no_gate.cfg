SPECIFICATION Spec
CONSTANTS
  K = 2
  N = 1
  MaxFreeze = 1
  MaxCancel = 0
  Twin = "no_gate"
  Record = FALSE
INVARIANTS
  Limit
  FrozenNoStart
  LockNeverBlocked
  TokensOK

