----------------------------- MODULE Fn_Select -----------------------------
(***************************************************************************)
(* C20 (restore --include/--exclude/--delete) and C27 (rewrite             *)
(* --exclude/--include): which entries of a snapshot tree a pattern set    *)
(* selects, built on the pattern semantics of Fn_Glob (C28).               *)
(*                                                                         *)
(* A pattern set has case-sensitive patterns (pats) and case-insensitive   *)
(* ones (ipats: pattern and path are compared in lower case); an entry     *)
(* "matches a pattern" when one of the two lists accepts its snapshot      *)
(* path (an absolute path; lists follow Fn_Glob!Listed, so later "!"       *)
(* patterns cancel earlier matches).                                       *)
(*                                                                         *)
(*  include:  selected = the entries that match                            *)
(*  exclude:  selected = the entries that do not match and do not lie      *)
(*            below a directory that matches (documented: "once a          *)
(*            directory is excluded, it is not possible to include files   *)
(*            inside the directory")                                       *)
(*  none:     everything is selected                                       *)
(***************************************************************************)
EXTENDS Fn_Glob

LowerPats(ps)  == [i \in DOMAIN ps |-> [ps[i] EXCEPT !.parts = LowerSeq(@)]]
LowerPath(p)   == [p EXCEPT !.comps = LowerSeq(@)]

\* the path matches the pattern set
Hit(sel, p) == Listed(sel.pats, p) \/ Listed(LowerPats(sel.ipats), LowerPath(p))

Selected(sel, p) ==
  CASE sel.mode = "include" -> Hit(sel, p)
    [] sel.mode = "exclude" -> \A n \in 1..Len(p.comps) : ~Hit(sel, Prefix(p, n))
    [] sel.mode = "none"    -> TRUE

IsAncestor(d, p) == /\ d.abs = p.abs /\ Len(d.comps) < Len(p.comps)
                    /\ SubSeq(p.comps, 1, Len(d.comps)) = d.comps
Root == [abs |-> TRUE, comps |-> <<>>]

----------------------------------------------------------------------------
(* C20: one `restic restore` into a target directory that may already contain entries.     *)
(*   r.sel     [mode, pats, ipats]                                                         *)
(*   r.delete  --delete given                                                              *)
(*   r.snap    entries of the snapshot   [p (path), t ("file" | "dir" | "symlink" | "fifo" | *)
(*             "dev" | "chardev" | "socket")]; restore cannot create sockets, but they are *)
(*             part of the snapshot                                                        *)
(*   r.pre     entries of the target before the restore [p, t]; their content differs from *)
(*             the snapshot's; same path => same type, except at the paths of snapshot     *)
(*             entries that are neither file, directory nor symlink                        *)
(*   r.after   entries of the target afterwards [p, t, c]: c = "snap" content (or link     *)
(*             target) equals the snapshot's entry, "pre" equals the pre-existing one,     *)
(*             "dir" for directories, "other" anything else                                *)
(*   r.err     the command failed                                                          *)

Paths20(es) == {es[i].p : i \in DOMAIN es}

RestoreOK(r) ==
  LET S      == ToSet(r.snap)
      SP     == Paths20(r.snap)
      PreP   == Paths20(r.pre)
      A      == ToSet(r.after)
      AP     == Paths20(r.after)
      Sel(p) == Selected(r.sel, p)
      R      == {s \in S : Sel(s.p)}                       \* what restore has to write
      RP     == {s.p : s \in R}
      Needed == {s.p : s \in {s \in S : s.t = "dir" /\ \E x \in RP : IsAncestor(s.p, x)}}
      \* a snapshot directory (or the root) in which restore does its work
      SockP  == {s.p : s \in {s \in R : s.t = "socket"}}    \* selected, but restore cannot create them
      RW     == RP \ SockP                                  \* what restore really writes
      SnapDir(d) == \E s \in S : s.t = "dir" /\ s.p = d
      Worked(d) == IF d = Root THEN RW # {}
                   ELSE SnapDir(d) /\ (d \in RW \/ \E x \in RW : IsAncestor(d, x))
      \* for a pre-existing entry that is not part of the snapshot: the chain from its top-most
      \* ancestor that is not part of the snapshot down to the entry itself
      Chain(p) == {Prefix(p, n) : n \in {n \in 1..Len(p.comps) : Prefix(p, n) \notin SP}}
      Top(p)   == Prefix(p, CHOOSE n \in 1..Len(p.comps) :
                              Prefix(p, n) \notin SP /\ \A m \in 1..(n - 1) : Prefix(p, m) \in SP)
      Parent(p) == Prefix(p, Len(p.comps) - 1)
      MayRemove(p)  == r.delete /\ \E q \in Chain(p) : Sel(q)
      MustRemove(p) == r.delete /\ (\A q \in Chain(p) : Sel(q)) /\ Worked(Parent(Top(p)))
  IN
  /\ ~r.err
  \* exactly the selected entries are written, with the snapshot's type and content
  /\ \A s \in R : s.t = "socket" \/ \E a \in A : a.p = s.p /\ a.t = s.t /\ (s.t = "dir" \/ a.c = "snap")
  \* nothing else appears or changes: every other entry of the target is a directory needed to
  \* hold a restored entry, or an untouched pre-existing entry
  /\ \A a \in A :
        \/ a.p \in RW
        \/ a.p \in SockP /\ a.t = "socket"
        \/ a.t = "dir" /\ a.p \in Needed
        \/ \E e \in ToSet(r.pre) : e.p = a.p /\ e.t = a.t /\ (a.t = "dir" \/ a.c = "pre")
  \* pre-existing entries disappear only with --delete, only when selected and not part of the snapshot
  \* (an entry that is part of the snapshot, whatever its type, is never removed)
  /\ \A p \in PreP \ AP : p \notin SP /\ MayRemove(p)
  \* ... and then they do disappear (in every directory restore works in)
  /\ \A p \in (PreP \ SP) \cap AP : ~MustRemove(p)

----------------------------------------------------------------------------
(* C27: one `restic rewrite` of one snapshot.                                              *)
(*   r.sel      [mode, pats, ipats]   (mode include | exclude)                             *)
(*   r.snap     entries of the original snapshot [p, t, size]                              *)
(*   r.changed  a new snapshot was written (its "original" is the rewritten snapshot)      *)
(*   r.new      entries of the new snapshot (of the original one when not changed)         *)
(*              [p, t, same]: same = node metadata and content ids equal the original's    *)
(*   r.origkept the original snapshot is still there with its tree                         *)
(*   r.extra    number of snapshots that appeared besides the new one (must be 0)          *)
(*   r.sumfiles, r.sumbytes   summary statistics of the new snapshot                       *)
(*   r.err      the command failed                                                         *)

RECURSIVE SumSize(_)
SumSize(es) == IF es = {} THEN 0 ELSE LET e == CHOOSE x \in es : TRUE IN e.size + SumSize(es \ {e})

RewriteOK(r) ==
  LET S      == ToSet(r.snap)
      Match  == {s \in S : Hit(r.sel, s.p)}                \* entries matching a pattern
      R      == {s \in S : Selected(r.sel, s.p)}
      RP     == {s.p : s \in R}
      \* exclude: the original minus the matching entries with their contents;
      \* include: the matching entries and the directories leading to them
      Kept   == IF r.sel.mode = "exclude" THEN R
                ELSE R \cup {s \in S : s.t = "dir" /\ \E x \in RP : IsAncestor(s.p, x)}
      N      == ToSet(r.new)
      Files  == {s \in Kept : s.t = "file"}
  IN
  /\ ~r.err
  /\ r.origkept /\ r.extra = 0
  /\ IF Match = {} \/ Kept = S
     THEN \* a rewrite that matches nothing (or removes nothing) leaves the snapshot unchanged
          /\ ~r.changed
          /\ {[p |-> n.p, t |-> n.t] : n \in N} = {[p |-> s.p, t |-> s.t] : s \in S}
     ELSE /\ r.changed
          /\ {[p |-> n.p, t |-> n.t] : n \in N} = {[p |-> s.p, t |-> s.t] : s \in Kept}
          /\ \A n \in N : n.same                            \* kept entries keep metadata and data
          /\ r.sumfiles = Cardinality(Files)
          /\ r.sumbytes = SumSize(Files)

\* the drivers add r.op
RecOK(r) == CASE r.op = "restore" -> RestoreOK(r)
              [] r.op = "rewrite" -> RewriteOK(r)
=============================================================================
