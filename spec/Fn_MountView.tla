---------------------------- MODULE Fn_MountView ----------------------------
(***************************************************************************)
(* C14 for the long-running reader `mount`: the mount lists the snapshots  *)
(* lazily (first access, later refreshes) and serves them from the index   *)
(* it loaded.  A snapshot it shows must never reference a blob that is     *)
(* missing from the index it has loaded (RepoProc.tla: ReaderOK; the       *)
(* reader lists snapshots first and (re)loads the index afterwards).       *)
(*                                                                         *)
(* One record = one run of the real mount code (open + LoadIndex, NewRoot, *)
(* first ReadDirAll, browsing, refresh) against views of the storage that  *)
(* move forward along a recorded run of real writers (backups):            *)
(*   r.snaps   every snapshot of the writer run: [s |-> token,             *)
(*             blobs |-> tokens of all tree and data blobs it references]  *)
(*   r.index   [b |-> blob, p |-> writer operation number at which the     *)
(*             first index file listing b was stored]                      *)
(*   r.steps   what the reader did, in order:                              *)
(*     [k |-> "listindex", at |-> p]  it listed the index files when the   *)
(*                                    storage was as after writer op p     *)
(*                                    (= the index it then loads)          *)
(*     [k |-> "listsnap",  at |-> p]  it listed the snapshot files         *)
(*     [k |-> "serve", shown |-> snapshots the mountpoint listed,          *)
(*                     failed |-> those of them that could not be read     *)
(*                                completely (directories and files)]      *)
(* The model side computes, from the reader's own operation sequence,      *)
(* which index it holds when it serves; the real side says what happened.  *)
(***************************************************************************)
EXTENDS Naturals, Sequences, FiniteSets

Elems(s) == {s[k] : k \in DOMAIN s}

BlobsOfSnap(snaps, s) == LET x == CHOOSE y \in Elems(snaps) : y.s = s IN Elems(x.blobs)
IndexAsOf(index, p)   == {e.b : e \in {x \in Elems(index) : x.p <= p}}

\* position of the last index listing before step k (0 = none yet)
LastIdx(steps, k) == LET c == {j \in 1..(k - 1) : steps[j].k = "listindex"}
                     IN IF c = {} THEN 0 ELSE CHOOSE j \in c : \A i \in c : i <= j
LoadedIndex(index, steps, k) ==
  IF LastIdx(steps, k) = 0 THEN {} ELSE IndexAsOf(index, steps[LastIdx(steps, k)].at)

\* the index held covers every snapshot shown
ViewOK(snaps, index, steps, k) ==
  \A s \in Elems(steps[k].shown) : BlobsOfSnap(snaps, s) \subseteq LoadedIndex(index, steps, k)

MountOK(snaps, index, steps) ==
  \A k \in DOMAIN steps : steps[k].k = "serve" =>
     /\ ViewOK(snaps, index, steps, k)     \* no shown snapshot references a blob missing from the loaded index
     /\ steps[k].failed = <<>>             \* and the real mount could read every snapshot it showed

RecOK(r) == MountOK(r.snaps, r.index, r.steps)

\* ---- vacuity control
TSnaps == <<[s |-> "s1", blobs |-> <<"b1">>], [s |-> "s2", blobs |-> <<"b1", "b2">>]>>
TIndex == <<[b |-> "b1", p |-> 3], [b |-> "b2", p |-> 8]>>
Li(p)  == [k |-> "listindex", at |-> p, shown |-> <<>>, failed |-> <<>>]
Ls(p)  == [k |-> "listsnap", at |-> p, shown |-> <<>>, failed |-> <<>>]
Sv(sh, f) == [k |-> "serve", at |-> 0, shown |-> sh, failed |-> f]
\* snapshots listed, then the index: fine
ASSUME MountOK(TSnaps, TIndex, <<Li(4), Ls(9), Li(9), Sv(<<"s1", "s2">>, <<>>)>>)
\* index loaded before the second snapshot was written, snapshots listed afterwards, index not reloaded
ASSUME ~MountOK(TSnaps, TIndex, <<Li(4), Ls(9), Sv(<<"s1", "s2">>, <<>>)>>)
\* same schedule, but only the old snapshot is shown: nothing wrong
ASSUME MountOK(TSnaps, TIndex, <<Li(4), Ls(4), Sv(<<"s1">>, <<>>)>>)
\* covered by the index, yet the real code failed to read it
ASSUME ~MountOK(TSnaps, TIndex, <<Ls(9), Li(9), Sv(<<"s2">>, <<"s2">>)>>)
\* a later refresh reloads the index
ASSUME MountOK(TSnaps, TIndex, <<Li(4), Ls(4), Li(4), Sv(<<"s1">>, <<>>), Ls(9), Li(9), Sv(<<"s1", "s2">>, <<>>)>>)
=============================================================================
