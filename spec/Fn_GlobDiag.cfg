SPECIFICATION Spec
