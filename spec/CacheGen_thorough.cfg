SPECIFICATION Spec
CONSTANTS
  ScriptLen = 5
  SchedLen = 5
