------------------------------ MODULE SelfUpdate ------------------------------
(***************************************************************************)
(* C51: self-update installs only a signed, hash-matching binary.          *)
(*                                                                         *)
(* A script describes what the (untrusted) network serves:                 *)
(*   sig      class of the SHA256SUMS.asc content                          *)
(*   sums     class of the SHA256SUMS content, relative to the archive     *)
(*            that is served and to its exact asset name                   *)
(*   archive  class of the served archive                                  *)
(*   fault    [req, kind]: transport fault at request req (0 = none;       *)
(*            1 release info, 2 SHA256SUMS, 3 SHA256SUMS.asc, 4 archive)   *)
(*   assets   shape of the release's asset list                            *)
(*   version  "newer" | "same" (as the running binary)                     *)
(*   key      "harness": the trusted key is one whose private half the     *)
(*            harness holds (valid signatures can be made); "embedded":    *)
(*            the genuine restic release key (every signature the harness  *)
(*            can make is foreign to it)                                   *)
(*                                                                         *)
(* The module contains (1) the statement as predicates over scripts,       *)
(* (2) the step machine of the update procedure, model-checked against     *)
(* them over all scripts (with deliberately broken twins), (3) the script  *)
(* table written for the Go driver, (4) RecOK for recorded executions.     *)
(***************************************************************************)
EXTENDS Naturals, Sequences, FiniteSets, TLC, Json, SequencesExt

CONSTANT Twin   \* "none" | "noverify" | "suffix" | "early" | "prefixhash"

SigClasses   == {"valid", "missing", "garbage", "foreign", "otherdata", "empty", "truncated"}
SumsClasses  == {"correct", "upper", "crlf", "tampered", "missing", "suffixname", "prefixname", "dupfirst", "dupsecond",
                 "onespace", "truncated", "emptyhash", "nonhex", "otherarch"}
ArchClasses  == {"ok", "tampered", "truncated", "notbz2", "empty"}
FaultKinds   == {"error", "s404", "s500", "bodyerr"}
AssetClasses == {"normal", "noarchive", "nosums", "nosig", "decoyarchive"}

NoFault == [req |-> 0, kind |-> "none"]
Base == [sig |-> "valid", sums |-> "correct", archive |-> "ok", fault |-> NoFault, assets |-> "normal", version |-> "newer", key |-> "harness"]

\* ---------------------------------------------------------------- (1) the statement
\* the checksum file carries a valid signature from the trusted key
SigValid(s) == s.sig = "valid" /\ s.key = "harness" /\ s.assets # "nosig"
\* a well-formed line lists the SHA-256 of the served archive for exactly the archive's asset name
ExactListed(s) == s.sums \in {"correct", "upper", "crlf", "dupfirst", "dupsecond"} /\ s.archive \in {"ok", "notbz2"}
\* a line "hash name" with one blank instead of two: the statement does not say whether that is "listed"
LooselyListed(s) == s.sums = "onespace" /\ s.archive \in {"ok", "notbz2"}
Transported(s) == s.fault.req = 0 /\ s.assets = "normal"

\* the binary may be replaced only if ...
MayInstall(s) == SigValid(s) /\ (ExactListed(s) \/ LooselyListed(s)) /\ Transported(s) /\ s.version = "newer"

\* ---------------------------------------------------------------- (2) step machine (documented procedure)
\* what "the first line with two fields whose second field is the exact name" yields
FirstEntry(s) ==
  CASE s.sums \in {"correct", "upper", "crlf", "dupfirst"} -> IF s.archive \in {"ok", "notbz2"} THEN "match" ELSE "mismatch"
    [] s.sums \in {"dupsecond", "tampered", "truncated", "emptyhash"} -> "mismatch"
    [] s.sums = "nonhex" -> "error"
    [] OTHER -> "none"
\* twins: a suffix match also accepts the entry of a longer name ending in ours / a prefix compare accepts a truncated hash
FirstEntryTwin(s) ==
  IF Twin = "suffix" /\ s.sums = "prefixname" /\ s.archive \in {"ok", "notbz2"} THEN "match"
  ELSE IF Twin = "prefixhash" /\ s.sums \in {"truncated", "emptyhash"} THEN "match"
  ELSE FirstEntry(s)

VARIABLES script, pc, binary
vars == <<script, pc, binary>>

FaultAt(k) == script.fault.req = k
Fail == pc' = "failed" /\ UNCHANGED <<script, binary>>
Goto(p) == pc' = p /\ UNCHANGED <<script, binary>>

Release == pc = "release" /\ IF FaultAt(1) THEN Fail ELSE IF script.version = "same" THEN Goto("uptodate") ELSE Goto("sums")
Sums    == pc = "sums"    /\ IF FaultAt(2) \/ script.assets = "nosums" THEN Fail ELSE Goto("sig")
Sig     == pc = "sig"     /\ IF FaultAt(3) \/ script.assets = "nosig" \/ script.sig = "missing" THEN Fail
                             ELSE IF Twin = "noverify" THEN Goto("archive") ELSE Goto("verify")
Verify  == pc = "verify"  /\ IF SigValid(script) THEN Goto("archive") ELSE Fail
Archive == pc = "archive" /\ IF FaultAt(4) \/ script.assets = "noarchive" THEN Fail
                             ELSE IF Twin = "early" THEN Goto("extract") ELSE Goto("findhash")
FindHash == pc = "findhash" /\ IF script.assets = "decoyarchive" THEN Fail
                               ELSE IF FirstEntryTwin(script) = "match" THEN Goto("extract") ELSE Fail
Extract == pc = "extract" /\ IF script.archive = "ok" THEN pc' = "done" /\ binary' = "new" /\ UNCHANGED script ELSE Fail

Next == Release \/ Sums \/ Sig \/ Verify \/ Archive \/ FindHash \/ Extract

\* ---------------------------------------------------------------- (3) scripts
Product == {[Base EXCEPT !.sig = a, !.sums = b, !.archive = c] : a \in SigClasses, b \in SumsClasses, c \in ArchClasses}
Seeds == {Base, [Base EXCEPT !.sig = "foreign"], [Base EXCEPT !.sums = "tampered"], [Base EXCEPT !.archive = "tampered"]}
Faulted == {[x EXCEPT !.fault = [req |-> r, kind |-> k]] : x \in Seeds, r \in 1..4, k \in FaultKinds}
Listed == {[x EXCEPT !.assets = a] : x \in Seeds, a \in AssetClasses \ {"normal"}}
Same == {[x EXCEPT !.version = "same"] : x \in Seeds}
Embedded == {[Base EXCEPT !.key = "embedded", !.sig = a, !.sums = b] : a \in SigClasses, b \in {"correct", "tampered"}}
Scripts == Product \cup Faulted \cup Listed \cup Same \cup Embedded

Init == script \in Scripts /\ pc = "release" /\ binary = "old"
Spec == Init /\ [][Next]_vars

\* the predicted outcome of the documented procedure
Installs(s) == MayInstall(s) /\ FirstEntry(s) = "match" /\ s.archive = "ok"

\* invariants of the design run
Safe == binary = "new" => MayInstall(script)
Predicted == pc \in {"done", "failed", "uptodate"} => ((binary = "new") = Installs(script))
\* vacuity: some script does install
NeverInstalls == binary = "old"

\* ---------------------------------------------------------------- (4) recorded executions of the real code
\*  r.script        the script;  r.changed  the target file differs from what it was
\*  r.new_is_payload  its new content is exactly the decompressed served archive (defined for a decodable archive)
\*  r.err           an error was returned;  r.same_version  the call reported "up to date"
RecOK(r) ==
  /\ r.changed => MayInstall(r.script) /\ (r.script.archive = "ok" => r.new_is_payload)
  /\ ~r.changed => (r.err \/ r.script.version = "same")
Conforms(r) == r.changed = Installs(r.script)
=============================================================================
