--------------------------- MODULE LocalSaveProc ---------------------------
(***************************************************************************)
(* Design model for C36: the save procedure of the local backend as its    *)
(* comments describe it - create a temporary file next to the final name,  *)
(* preallocate, write, fsync, close, rename, fsync the directory, chmod -  *)
(* with every step allowed to fail (error path: close and remove the       *)
(* temporary file), a source that may end early, an optional file already  *)
(* present under the final name, a missing directory, and Crash enabled in *)
(* every state.  Variant # "ok" are deliberately broken procedures         *)
(* (negative twins) which TLC must refute.                                 *)
(***************************************************************************)
EXTENDS LocalSave

CONSTANTS Wants,     \* set of content lengths
          Variant    \* "ok" | "nofsync" | "renamefirst" | "direct" | "ignoresyncerr" | "nolencheck" | "tmpvalid"

VARIABLES pc, written, failed

vars == <<vdir, ddir, vcon, dcon, mkd, fdt, mode, vis, want, final, reponames, pc, written, failed>>

Dir  == <<"data", "ab">>
Fin  == <<"data", "ab", "F">>
Tmp  == <<"data", "ab", "F-tmp-1">>
Target == IF Variant = "direct" THEN Fin ELSE Tmp

Init ==
  /\ want \in Wants
  /\ final = Fin
  /\ reponames = IF Variant = "tmpvalid" THEN {Fin, Tmp} ELSE {Fin}
  /\ \E pre \in BOOLEAN :
        /\ vdir = IF pre THEN (Fin :> 1) ELSE EmptyFn
        /\ ddir = vdir
        /\ vcon = IF pre THEN (1 :> Old) ELSE EmptyFn
        /\ dcon = vcon
  /\ mkd \in {{}, {Dir}}          \* the directory was just made by the mkdir path
  /\ fdt = EmptyFn /\ mode = "run" /\ vis = EmptyFn
  /\ pc = "create" /\ written = 0 /\ failed = FALSE

Goto(l) == pc' = l /\ UNCHANGED <<mode, vis, want, final, reponames>>
Keep    == UNCHANGED <<written, failed>>
Fail    == failed' = TRUE /\ UNCHANGED written

\* order of the steps after "create" per variant
AfterCreate == IF Variant = "renamefirst" THEN "rename" ELSE "falloc"
AfterRename == IF Variant = "renamefirst" THEN "falloc" ELSE "opendir"
AfterClose  == IF Variant \in {"renamefirst", "direct"} THEN "opendir" ELSE "rename"
AfterWrite  == IF Variant = "nofsync" THEN "close" ELSE "sync"

Create ==
  /\ pc = "create"
  /\ \/ SysOpen(Target, 3, TRUE, Variant = "direct", TRUE, FALSE) /\ Goto(AfterCreate) /\ Keep
     \/ UNCHANGED fsvars /\ Goto("done") /\ Fail

Falloc ==
  /\ pc = "falloc"
  /\ \/ want > 0 /\ SysFallocate(3, 0, 0, want)
     \/ UNCHANGED fsvars            \* nothing to allocate, or the call failed (ignored)
  /\ Goto("write") /\ Keep

Write ==
  /\ pc = "write"
  /\ \/ /\ written < want
        /\ \E m \in 1..(want - written) :
              SysWrite(3, -1, m) /\ written' = written + m
        /\ Goto("write") /\ UNCHANGED failed
     \/ written = want /\ UNCHANGED fsvars /\ Goto(AfterWrite) /\ Keep
     \* the source ended early, or a write failed
     \/ /\ written < want /\ UNCHANGED fsvars /\ Keep
        /\ Goto(IF Variant = "nolencheck" THEN AfterWrite ELSE "cleanup")

Sync ==
  /\ pc = "sync"
  /\ \/ SysFsync(3) /\ Goto("close") /\ Keep
     \/ UNCHANGED fsvars /\ Keep /\ Goto(IF Variant = "ignoresyncerr" THEN "close" ELSE "cleanup")

Close ==
  /\ pc = "close"
  /\ SysClose(3) /\ Goto(AfterClose) /\ Keep

Rename ==
  /\ pc = "rename"
  /\ \/ SysRename(Tmp, Fin) /\ Goto(AfterRename) /\ Keep
     \/ UNCHANGED fsvars /\ Goto("cleanup") /\ Keep

OpenDir ==
  /\ pc = "opendir"
  /\ \/ SysOpen(Dir, 4, FALSE, FALSE, FALSE, FALSE) /\ Goto("syncdir") /\ Keep
     \/ UNCHANGED fsvars /\ Goto("cleanup") /\ Keep

SyncDir ==
  /\ pc = "syncdir"
  /\ \/ SysFsync(4) /\ Goto("closedir") /\ Keep
     \/ UNCHANGED fsvars /\ Goto("closedir") /\ Fail

CloseDir ==
  /\ pc = "closedir"
  /\ SysClose(4) /\ Goto(IF failed THEN "cleanup" ELSE "chmod") /\ Keep

Chmod ==
  /\ pc = "chmod"
  /\ SysMeta /\ Goto("done") /\ Keep

\* error path: close the descriptor if still open, remove the temporary name if still there
Cleanup ==
  /\ pc = "cleanup"
  /\ IF 3 \in DOMAIN fdt THEN SysClose(3) /\ Goto("cleanup") /\ Keep
     ELSE IF Tmp \in DOMAIN vdir THEN SysUnlink(Tmp) /\ Goto("done") /\ Fail
     ELSE UNCHANGED fsvars /\ Goto("done") /\ Fail

Step == Create \/ Falloc \/ Write \/ Sync \/ Close \/ Rename \/ OpenDir \/ SyncDir \/ CloseDir \/ Chmod \/ Cleanup

Next == (mode = "run" /\ Step) \/ (Crash /\ UNCHANGED <<pc, written, failed>>)

Spec == Init /\ [][Next]_vars

\* a save that reports success leaves the complete content under the final name, visible and durable
DoneOK == (pc = "done" /\ ~failed /\ mode = "run") =>
             /\ final \in DOMAIN vdir /\ Complete(vcon[vdir[final]])
             /\ final \in DOMAIN ddir /\ Complete(dcon[ddir[final]])
\* the temporary file is gone when the procedure ends
NoLeftover == (pc = "done" /\ mode = "run") => Tmp \notin DOMAIN vdir
=============================================================================
