SPECIFICATION Spec
CONSTANTS
  Variant = "ok"
  MaxOps = 7
INVARIANT LoadedMatchesFiles
CHECK_DEADLOCK FALSE
