--------------------------- MODULE Fn_ContentAddr ---------------------------
(***************************************************************************)
(* C02: loaded data always matches its content address.                    *)
(*                                                                         *)
(* The relation: an object stored / handed out under id X has             *)
(* SHA-256(content) = X, where content is                                  *)
(*   - the plaintext (decrypted, decompressed) for data and tree blobs,    *)
(*   - the stored bytes for pack, index, snapshot, lock and key files.     *)
(* SHA-256 is abstracted: the Go driver computes it with crypto/sha256,    *)
(* independently of restic, and reports booleans ("the hash of these bytes *)
(* equals that id"); contents served by the faulty backend are classes.    *)
(***************************************************************************)
EXTENDS Naturals, Sequences, FiniteSets, TLC, Json

\* what the backend can serve on one read attempt
Faults == {"good", "altered", "truncated", "extended", "empty", "foreign", "error"}
\* the only class whose hash equals the requested id
HashMatches(c) == c = "good"

\* CheckPack is the read behind `check --read-data` (every blob of a pack against its id, the pack against its
\* name); it hands out a verdict instead of bytes: no error = "what I read matches its address"
Apis   == {"LoadRaw", "LoadUnpacked", "LoadBlob", "LoadBlobsFromPack", "CheckPack"}
\* what is stored under the target: "good", or "misaddressed" = an intact pack (name = hash of its bytes, valid
\* MACs) that holds a blob under an id which is not the hash of its plaintext (damaged before it was encrypted)
StoredStates == {"good", "misaddressed"}
Caches == {"none", "good", "bad"}

\* fault scripts: attempt i of a read of the target file is served script[i]; the last element repeats
Scripts(n) == UNION {[1..k -> Faults] : k \in 1..n}

\* ---------------------------------------------------------------- stored --
\* r: one file found in the repository after real commands ran
\*   r.ftype    "pack" | "index" | "snapshot" | "lock" | "key" | "config"
\*   r.name_ok  file name = hex(sha256(stored bytes))
\*   r.blobs    for packs: per blob listed in the header [ok |-> sha256(plaintext) = blob id, readable |-> ...]
StoredOK(r) ==
  /\ r.ftype # "config" => r.name_ok
  /\ \A i \in DOMAIN r.blobs : r.blobs[i].readable /\ r.blobs[i].ok

\* r: one SaveBlob / SaveUnpacked call on a healthy backend
\*   r.id_ok    the id returned = sha256(content handed in) (blob) resp. sha256(bytes found in the backend under
\*              that name) (unpacked file); r.present: a file / blob is stored under the returned id
SaveOK(r) == ~r.save_err /\ r.id_ok /\ r.present

\* ------------------------------------------------------------------ read --
\* r: one read through the repository API while the backend follows r.script for the target file
\*   r.results  one entry per value handed out (1 for Load*, one per blob callback for LoadBlobsFromPack):
\*              [err |-> an error was reported, hash_ok |-> sha256(value) = requested id,
\*               data |-> bytes were handed out together with the error]
\*              CheckPack: one entry, hash_ok |-> no error was reported and everything the read was served
\*              does match its address (pack bytes vs name, every blob vs its id; driver's own SHA-256)
\*   r.attempts number of backend reads of the target the repository made
Healthy(r) == (\A i \in DOMAIN r.script : r.script[i] = "good") /\ r.cache # "bad" /\ r.stored = "good"

ReadOK(r) ==
  /\ ~r.panic
  /\ Len(r.results) >= 1
  \* the property: whatever is handed out without an error has the requested hash
  /\ \A i \in DOMAIN r.results : ~r.results[i].err => r.results[i].hash_ok
  \* vacuity guard: a read nobody disturbed succeeds
  /\ Healthy(r) => \A i \in DOMAIN r.results : ~r.results[i].err

RecOK(r) ==
  CASE r.op = "stored" -> StoredOK(r)
    [] r.op = "save"   -> SaveOK(r)
    [] r.op = "read"   -> r.api \in Apis /\ r.cache \in Caches /\ r.stored \in StoredStates /\ (\A i \in DOMAIN r.script : r.script[i] \in Faults) /\ ReadOK(r)
    [] OTHER           -> FALSE
=============================================================================
