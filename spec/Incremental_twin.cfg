SPECIFICATION Spec
CONSTANTS
  Paths = {"a", "d", "d/x"}
  EditPlan <- Plan11
  Twin = TRUE
  Modes = {"inc", "incskip", "force", "forceskip"}
  FlagSet = {"none", "ignore-ctime", "ignore-inode"}
  Targets = {"dir"}
  Bigs = {FALSE}
  FaultKinds = {}
  MaxVictim = 0
  Emit = FALSE
INVARIANT IncEqualsFull
VIEW View
CHECK_DEADLOCK FALSE
