SPECIFICATION Spec
CONSTANTS
  Paths = {"a", "d", "d/x"}
  EditPlan <- Plan11
  Twin = TRUE
  Modes = {"inc", "incskip", "force", "forceskip"}
  Emit = FALSE
INVARIANT IncEqualsFull
VIEW View
CHECK_DEADLOCK FALSE
