SPECIFICATION Spec
CONSTANT Twin = "early"
INVARIANTS Safe
CHECK_DEADLOCK FALSE
