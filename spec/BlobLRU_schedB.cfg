SPECIFICATION SpecQ
CONSTANTS
  Procs = {1,2,3}
  NIds = 3
  Cost <- Cost112
  Size = 2
  MaxCalls = 3
  MaxPerProc = 1
  Twin = "none"
  Record = TRUE
INVARIANTS
  Budget
  Accounting
  NoDup
  CacheVal
  ResultOK
  EmitSched
