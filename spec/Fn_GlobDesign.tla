--------------------------- MODULE Fn_GlobDesign ---------------------------
(***************************************************************************)
(* C28 design run.  An operational transcription of internal/filter        *)
(* (match with its window offsets and the step-wise expansion of "**",     *)
(* childMatch with the cut at the first "**", the fold of list) is checked *)
(* by TLC, on ALL patterns and paths of a bounded universe, against the    *)
(* declarative definition of Fn_Glob:                                      *)
(*   RefinesMatch     OpMatch = Matches                                    *)
(*   ChildSound       some path below d matches  =>  OpChildMatch(d)       *)
(*   RefinesList      OpList = Listed, and its children-may-match answer   *)
(*                    is sound                                             *)
(* Negative twins (vacuity control; TLC must find them FALSE):             *)
(*   TwinMatch        the "**" expansion bounded as if there were only one *)
(*                    "**" (the defect fixed in c4edcf6c3)                 *)
(*   TwinChild        childMatch without the cut at "**"                   *)
(*   TwinList         negations applied without regard to order            *)
(* The conformance of the real code is NOT decided here but by             *)
(* Fn_GlobRec!RecOK on records of the real functions (props/C28.py).          *)
(***************************************************************************)
EXTENDS Fn_GlobRec, Integers, VerifParams   \* VerifParams: MaxParts, MaxDepth, ListParts, ListDepth, ListTriples (written by props/C28.py)

MinOf(S) == CHOOSE x \in S : \A y \in S : x <= y
Strs(p)     == (IF p.abs THEN <<"/">> ELSE <<>>) \o p.comps
OpParts(pt) == (IF pt.abs THEN <<"/">> ELSE <<>>) \o pt.parts
Stars(n)    == [j \in 1..n |-> "*"]

\* one pattern part against one path element ("/" is the root marker; no glob matches it)
PartOK(part, s) ==
  IF part = "/" THEN s = "/"
  ELSE IF s = "/" THEN FALSE
  ELSE CompMatch(part, s)

\* match(): oneStar = TRUE is the twin with the old loop bound
RECURSIVE OpMatch(_, _, _)
OpMatch(parts, strs, oneStar) ==
  LET dw == {i \in DOMAIN parts : parts[i] = "**"} IN
  IF dw # {}
  THEN LET pos == MinOf(dw)
           hi  == Len(strs) + (IF oneStar THEN 1 ELSE Cardinality(dw))
       IN \E i \in 0..(hi - Len(parts)) :        \* empty when hi < Len(parts)
             hi >= Len(parts) /\
             OpMatch(SubSeq(parts, 1, pos - 1) \o Stars(i) \o SubSeq(parts, pos + 1, Len(parts)), strs, oneStar)
  ELSE IF parts = <<>> THEN strs = <<>>
  ELSE /\ Len(parts) <= Len(strs)
       /\ LET maxOff == IF parts[1] = "/" THEN 0 ELSE Len(strs) - Len(parts)
              minOff == IF parts[1] # "/" /\ strs[1] = "/" THEN 1 ELSE 0
          IN \E off \in minOff..maxOff : \A i \in 1..Len(parts) : PartOK(parts[i], strs[off + i])

\* childMatch(): cut = FALSE is the twin that does not cut the path at the first "**"
OpChildMatch(parts, strs, cut) ==
  IF parts[1] # "/" THEN TRUE
  ELSE LET dw    == {i \in DOMAIN parts : parts[i] = "**"}
           strs2 == IF cut /\ dw # {} /\ Len(strs) >= MinOf(dw) - 1 THEN SubSeq(strs, 1, MinOf(dw) - 1) ELSE strs
           l     == IF Len(strs2) < Len(parts) THEN Len(strs2) ELSE Len(parts)
       IN OpMatch(SubSeq(parts, 1, l), strs2, FALSE)

\* list(): fold over the patterns, state <<matched, childMayMatch>>; ordered = FALSE is the twin that
\* applies all negations first
RECURSIVE OpListFrom(_, _, _, _)
OpListFrom(pats, strs, k, st) ==
  IF k > Len(pats) THEN st
  ELSE LET m == OpMatch(OpParts(pats[k]), strs, FALSE)
           c == OpChildMatch(OpParts(pats[k]), strs, TRUE)
       IN OpListFrom(pats, strs, k + 1,
                     IF pats[k].neg THEN <<st[1] /\ ~m, st[2] /\ ~m>> ELSE <<st[1] \/ m, st[2] \/ c>>)
OpList(pats, strs) == OpListFrom(pats, strs, 1, <<FALSE, FALSE>>)
TwinOpList(pats, strs) ==
  LET pos == SelectSeq(pats, LAMBDA x : ~x.neg)
      ng  == SelectSeq(pats, LAMBDA x : x.neg)
  IN OpListFrom(ng \o pos, strs, 1, <<FALSE, FALSE>>)

----------------------------------------------------------------------------
Atoms  == {"a", "*", "**", "[^a]"}
Pats   == {[neg |-> FALSE, abs |-> a, parts |-> ps] : a \in BOOLEAN, ps \in SeqsUpTo(Atoms, MaxParts)}
DPaths == Paths({"a", "b"}, MaxDepth)
Dirs   == {p \in DPaths : Len(p.comps) <= 2}
Below(d) == {p \in DPaths : p.abs = d.abs /\ Len(p.comps) > Len(d.comps) /\ SubSeq(p.comps, 1, Len(d.comps)) = d.comps}

RefinesMatch == \A pt \in Pats : \A p \in DPaths : OpMatch(OpParts(pt), Strs(p), FALSE) = Matches(pt, p)
TwinMatch    == \A pt \in Pats : \A p \in DPaths : OpMatch(OpParts(pt), Strs(p), TRUE) = Matches(pt, p)
ChildSound   == \A pt \in Pats : \A d \in Dirs :
                  (\E p \in Below(d) : Matches(pt, p)) => OpChildMatch(OpParts(pt), Strs(d), TRUE)
TwinChild    == \A pt \in Pats : \A d \in Dirs :
                  (\E p \in Below(d) : Matches(pt, p)) => OpChildMatch(OpParts(pt), Strs(d), FALSE)

LAtoms == {"a", "*", "**"}
LPats  == {[neg |-> n, abs |-> a, parts |-> ps] : n \in BOOLEAN, a \in BOOLEAN, ps \in SeqsUpTo(LAtoms, ListParts)}
Lists  == SeqsUpTo(LPats, 2) \cup IF ~ListTriples THEN {} ELSE {<<x, y, z>> : x \in {q \in LPats : ~q.neg /\ Len(q.parts) = 1}, y \in {q \in LPats : q.neg}, z \in {q \in LPats : ~q.neg /\ q.abs}}
LPaths == Paths({"a", "b"}, ListDepth)
LBelow(d) == {p \in LPaths : p.abs = d.abs /\ Len(p.comps) > Len(d.comps) /\ SubSeq(p.comps, 1, Len(d.comps)) = d.comps}
RefinesList == \A ps \in Lists : \A p \in LPaths :
                 /\ OpList(ps, Strs(p))[1] = Listed(ps, p)
                 /\ (\E q \in LBelow(p) : Listed(ps, q)) => OpList(ps, Strs(p))[2]
TwinList    == \A ps \in Lists : \A p \in LPaths : TwinOpList(ps, Strs(p))[1] = Listed(ps, p)

\* the evaluation arrangement used by RecOK is the declarative definition
ArrOK == \A ps \in SeqsUpTo(LPats, 2) :
            LET r == [fold |-> FALSE] IN ArrangementOK(r, ps, LPaths)

ASSUME PrintT(<<"RefinesMatch", RefinesMatch>>)
ASSUME PrintT(<<"ChildSound", ChildSound>>)
ASSUME PrintT(<<"RefinesList", RefinesList>>)
ASSUME PrintT(<<"ArrOK", ArrOK>>)
ASSUME PrintT(<<"TwinMatch", TwinMatch>>)
ASSUME PrintT(<<"TwinChild", TwinChild>>)
ASSUME PrintT(<<"TwinList", TwinList>>)
ASSUME PrintT(<<"Sizes", Cardinality(Pats) * Cardinality(DPaths), Cardinality(Lists) * Cardinality(LPaths)>>)

VARIABLE designDummy
Init == designDummy = 0
Next == designDummy' = designDummy
Spec == Init /\ [][Next]_designDummy
=============================================================================
