---------------------------- MODULE Fn_ConfineVec ----------------------------
(* C18: TLC serialises the adversarial trees and environments of Fn_Confine for replay. *)
EXTENDS Fn_Confine, Json, SequencesExt, TLC
ASSUME ndJsonSerialize("trees.ndjson", SetToSeq({[nodes |-> t] : t \in Trees}))
ASSUME ndJsonSerialize("envs.ndjson", SetToSeq(Envs))
ASSUME PrintT(<<"trees", Cardinality(Trees), "envs", Cardinality(Envs)>>)
VARIABLE vecDummy
Init == vecDummy = 0
Next == vecDummy' = vecDummy
Spec == Init /\ [][Next]_vecDummy
=============================================================================
