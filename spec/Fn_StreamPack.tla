---------------------------- MODULE Fn_StreamPack ----------------------------
(***************************************************************************)
(* C43: streaming blobs from a pack delivers each requested blob exactly   *)
(* once.  One record = one call of the real streamPack /                   *)
(* Repository.LoadBlobsFromPack:                                           *)
(*   r.req    requested blobs <<token, offset, length, hascopy, damaged>>  *)
(*            (hascopy: another intact stored copy exists; damaged: the    *)
(*            bytes of this copy are damaged: flipped byte, wrong content, *)
(*            undecodable compression)                                     *)
(*   r.loads  downloads the code issued <<offset, length, status>>, status *)
(*            "ok" | "fail" (download error or short read, injected)       *)
(*   r.cbs    callbacks in order <<token, status>>, status "ok" (nil error *)
(*            and exactly the blob's plaintext) | "wrong" (nil error, other*)
(*            bytes) | "err"                                               *)
(*   r.cberr_at  the callback with this number returned an error (0: none) *)
(*   r.fallback  a loader for other copies was available                   *)
(*   r.ret    "nil" | "err"  what the call returned                        *)
(* Records of Repository.LoadBlobsFromPack on a real repository (variant    *)
(* "repo", the fallback is the real LoadBlob) list every stored copy of the *)
(* requested blobs instead:                                                *)
(*   r.copies <<token, where, offset, length, damaged, packfails>>, where   *)
(*            "s": in the streamed pack | "o": in another pack; damaged: a  *)
(*            byte of the copy is flipped in every read; packfails (other   *)
(*            packs): every download of that pack fails                     *)
(*   r.sfault fault of the streamed pack: "none" | "flip" (some copies are  *)
(*            damaged) | "packfail" (every download from the k-th on fails; *)
(*            r.loads has all downloads of the streamed pack, also those of *)
(*            LoadBlob)                                                     *)
(* A blob may be stored several times in the streamed pack and in other    *)
(* packs, with different stored lengths (compressed / uncompressed).  Which *)
(* copy is streamed is not specified: an error callback is a violation     *)
(* exactly when a usable copy exists whatever copy was streamed.            *)
(* How the code splits the request into downloads is not specified here    *)
(* (gaps > 1 MiB, ranges > 32 MiB are optimisations): the downloads are    *)
(* taken from the record and only their consequences are judged.           *)
(***************************************************************************)
EXTENDS Sequences, FiniteSets, Integers

Range(s) == {s[i] : i \in DOMAIN s}

Tok(b) == b[1]
Off(b) == b[2]
Length(b) == b[3]
HasCopy(b) == b[4]
Damaged(b) == b[5]

Inside(b, l) == Off(b) >= l[1] /\ Off(b) + Length(b) <= l[1] + l[2]
InFailedLoad(r, b) == \E i \in DOMAIN r.loads : r.loads[i][3] = "fail" /\ Inside(b, r.loads[i])

CbAborted(r) == r.cberr_at > 0 /\ Len(r.cbs) >= r.cberr_at
AnyFailedLoad(r) == \E i \in DOMAIN r.loads : r.loads[i][3] = "fail"

ReqOf(r, tok) == CHOOSE b \in Range(r.req) : Tok(b) = tok

\* what a callback for blob b must carry
Expected(r, b) ==
  IF Damaged(b) \/ InFailedLoad(r, b)
  THEN (IF r.fallback /\ HasCopy(b) THEN "ok" ELSE "err")       \* falls back to another stored copy, else an error
  ELSE "ok"

\* ---- repository scenarios: the copies are listed in the record
CopiesOf(r, tok) == {c \in Range(r.copies) : c[1] = tok}
CopyInFailedLoad(r, c) ==
  \E i \in DOMAIN r.loads : r.loads[i][3] = "fail" /\ c[3] >= r.loads[i][1] /\ c[3] + c[4] <= r.loads[i][1] + r.loads[i][2]

\* the blob has to be delivered with its plaintext (an error callback is a violation):
\*  - an undamaged copy lies in another pack that can be downloaded, or
\*  - the streamed pack can always be downloaded and holds an undamaged copy, or
\*  - the streamed pack became unreadable, but no download covering a copy of the blob failed (downloads of that
\*    pack fail from some point on for good: once a copy was in a failed download, no copy of that pack is readable)
MustDeliver(r, tok) ==
  LET cs == CopiesOf(r, tok)
  IN \/ \E c \in cs : c[2] = "o" /\ ~c[5] /\ ~c[6]
     \/ r.sfault # "packfail" /\ \E c \in cs : c[2] = "s" /\ ~c[5]
     \/ r.sfault = "packfail" /\ ~\E c \in cs : c[2] = "s" /\ CopyInFailedLoad(r, c)

CbOK(r, i) ==
  IF r.variant = "repo"
  THEN r.cbs[i][2] = "err" => ~MustDeliver(r, r.cbs[i][1])       \* falls back to whatever usable copy is stored
  ELSE r.cbs[i][2] = Expected(r, ReqOf(r, r.cbs[i][1]))

RecOK(r) ==
  LET ReqToks == {Tok(b) : b \in Range(r.req)}
      CbToks  == {r.cbs[i][1] : i \in DOMAIN r.cbs}
  IN /\ r.panic = ""
     /\ CbToks \subseteq ReqToks                                  \* only requested blobs
     /\ Len(r.cbs) = Cardinality(CbToks)                          \* at most once each
     /\ \A i \in DOMAIN r.cbs : r.cbs[i][2] # "wrong"             \* never foreign bytes without an error
     /\ \A i \in DOMAIN r.cbs : CbOK(r, i)
     /\ (CbAborted(r) => Len(r.cbs) = r.cberr_at /\ r.ret = "err")   \* callback error: abort, nothing more delivered
     /\ (r.ret = "nil" => CbToks = ReqToks)                        \* success means exactly once for every requested blob
     /\ ((~CbAborted(r) /\ ~AnyFailedLoad(r)) => r.ret = "nil")    \* damaged blobs alone do not fail the call
     /\ ((AnyFailedLoad(r) /\ ~r.fallback) => r.ret = "err")       \* a failed download is never lost without a fallback
     \* with a fallback loader every requested blob is called back (plaintext from another copy, or an error),
     \* whatever downloads failed, unless the callback itself aborted the call
     /\ ((r.fallback /\ ~CbAborted(r)) => CbToks = ReqToks)
=============================================================================
