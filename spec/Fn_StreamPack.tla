---------------------------- MODULE Fn_StreamPack ----------------------------
(***************************************************************************)
(* C43: streaming blobs from a pack delivers each requested blob exactly   *)
(* once.  One record = one call of the real streamPack /                   *)
(* Repository.LoadBlobsFromPack:                                           *)
(*   r.req    requested blobs <<token, offset, length, hascopy, damaged>>  *)
(*            (hascopy: another intact stored copy exists; damaged: the    *)
(*            bytes of this copy are damaged: flipped byte, wrong content, *)
(*            undecodable compression)                                     *)
(*   r.loads  downloads the code issued <<offset, length, status>>, status *)
(*            "ok" | "fail" (download error or short read, injected)       *)
(*   r.cbs    callbacks in order <<token, status>>, status "ok" (nil error *)
(*            and exactly the blob's plaintext) | "wrong" (nil error, other*)
(*            bytes) | "err"                                               *)
(*   r.cberr_at  the callback with this number returned an error (0: none) *)
(*   r.fallback  a loader for other copies was available                   *)
(*   r.ret    "nil" | "err"  what the call returned                        *)
(* How the code splits the request into downloads is not specified here    *)
(* (gaps > 1 MiB, ranges > 32 MiB are optimisations): the downloads are    *)
(* taken from the record and only their consequences are judged.           *)
(***************************************************************************)
EXTENDS Sequences, FiniteSets, Integers

Range(s) == {s[i] : i \in DOMAIN s}

Tok(b) == b[1]
Off(b) == b[2]
Length(b) == b[3]
HasCopy(b) == b[4]
Damaged(b) == b[5]

Inside(b, l) == Off(b) >= l[1] /\ Off(b) + Length(b) <= l[1] + l[2]
InFailedLoad(r, b) == \E i \in DOMAIN r.loads : r.loads[i][3] = "fail" /\ Inside(b, r.loads[i])

CbAborted(r) == r.cberr_at > 0 /\ Len(r.cbs) >= r.cberr_at
AnyFailedLoad(r) == \E i \in DOMAIN r.loads : r.loads[i][3] = "fail"

ReqOf(r, tok) == CHOOSE b \in Range(r.req) : Tok(b) = tok

\* what a callback for blob b must carry
Expected(r, b) ==
  IF Damaged(b) \/ InFailedLoad(r, b)
  THEN (IF r.fallback /\ HasCopy(b) THEN "ok" ELSE "err")       \* falls back to another stored copy, else an error
  ELSE "ok"

RecOK(r) ==
  LET ReqToks == {Tok(b) : b \in Range(r.req)}
      CbToks  == {r.cbs[i][1] : i \in DOMAIN r.cbs}
  IN /\ r.panic = ""
     /\ CbToks \subseteq ReqToks                                  \* only requested blobs
     /\ Len(r.cbs) = Cardinality(CbToks)                          \* at most once each
     /\ \A i \in DOMAIN r.cbs : r.cbs[i][2] # "wrong"             \* never foreign bytes without an error
     /\ \A i \in DOMAIN r.cbs : r.cbs[i][2] = Expected(r, ReqOf(r, r.cbs[i][1]))
     /\ (CbAborted(r) => Len(r.cbs) = r.cberr_at /\ r.ret = "err")   \* callback error: abort, nothing more delivered
     /\ (r.ret = "nil" => CbToks = ReqToks)                        \* success means exactly once for every requested blob
     /\ ((~CbAborted(r) /\ ~AnyFailedLoad(r)) => r.ret = "nil")    \* damaged blobs alone do not fail the call
     /\ ((AnyFailedLoad(r) /\ ~r.fallback) => r.ret = "err")       \* a failed download is never lost without a fallback
     \* with a fallback loader every requested blob is called back (plaintext from another copy, or an error),
     \* whatever downloads failed, unless the callback itself aborted the call
     /\ ((r.fallback /\ ~CbAborted(r)) => CbToks = ReqToks)
=============================================================================
