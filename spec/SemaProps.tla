----------------------------- MODULE SemaProps -----------------------------
(***************************************************************************)
(* C37: the properties of the connection-limiting backend, as pure         *)
(* operators, used as invariants of the design model Sema.tla and by RecOK *)
(* on traces recorded from the real sema backend.                          *)
(* Statement: "No more than the configured number of non-lock backend      *)
(* operations run at the same time, lock-file operations proceed even when *)
(* all slots are taken or the backend is frozen, and while frozen no new   *)
(* non-lock operation starts."                                             *)
(***************************************************************************)
EXTENDS Naturals, Sequences, FiniteSets

\* running: the set of non-lock operations currently running on the wrapped backend
LimitOK(running, n) == Cardinality(running) <= n

\* an operation starts (is admitted to the wrapped backend)
StartOK(isLock, frozen) == isLock \/ ~frozen

\* blockedLocks: lock-file operations that were called but are held back by the wrapper
LocksFreeOK(blockedLocks) == blockedLocks = {}

(***************************************************************************)
(* One recorded run.  r.n = configured connections, r.events = sequence of *)
(*   [ev |-> "call",  o, lock]   the harness calls Save/Load/Stat/Remove    *)
(*   [ev |-> "start", o, lock]   the wrapped backend's method is entered    *)
(*   [ev |-> "end",   o, lock]   ... and left                               *)
(*   [ev |-> "freeze"]           Freeze() has returned                      *)
(*   [ev |-> "unfreeze"]         the harness is about to call Unfreeze()    *)
(*   [ev |-> "cancel", o, lock]  the harness cancels the context of o,      *)
(*                               which the wrapper holds back (a schedule   *)
(*                               event like the others: the three clauses   *)
(*                               must hold whatever was cancelled)          *)
(*   [ev |-> "quiet", blocked]   every goroutine is parked; blocked = the   *)
(*                               called operations that have not started    *)
(* in the order of a global atomic clock.  r.strict = FALSE for free       *)
(* running runs (no freeze events, no quiet points).                       *)
(***************************************************************************)
Ev(r, i) == r.events[i]

RunningAt(r, i) == {Ev(r, j).o : j \in {j \in 1..i : /\ Ev(r, j).ev = "start" /\ ~Ev(r, j).lock
                                                      /\ ~\E k \in (j+1)..i : Ev(r, k).ev = "end" /\ Ev(r, k).o = Ev(r, j).o}}

FrozenAt(r, i) == \E j \in 1..(i-1) : /\ Ev(r, j).ev = "freeze"
                                      /\ ~\E k \in (j+1)..(i-1) : Ev(r, k).ev = "unfreeze"

RecLimit(r)  == \A i \in DOMAIN r.events : Ev(r, i).ev = "start" => LimitOK(RunningAt(r, i), r.n)
RecFrozen(r) == \A i \in DOMAIN r.events : Ev(r, i).ev = "start" => StartOK(Ev(r, i).lock, FrozenAt(r, i))
RecLocks(r)  == \A i \in DOMAIN r.events : Ev(r, i).ev = "quiet" =>
                   LocksFreeOK({Ev(r, i).blocked[k].o : k \in {k \in DOMAIN Ev(r, i).blocked : Ev(r, i).blocked[k].lock}})

RecOK(r) == RecLimit(r) /\ RecFrozen(r) /\ RecLocks(r)
=============================================================================
