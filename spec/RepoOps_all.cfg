SPECIFICATION Spec
CONSTANTS
  MaxLen = 8
  MaxSnaps = 4
  CrashPoints = {1, 2, 3, 4, 6, 9}
  Family = "all"
INVARIANT TypeOK
CHECK_DEADLOCK FALSE
