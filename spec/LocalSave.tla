----------------------------- MODULE LocalSave -----------------------------
(***************************************************************************)
(* C36: the local backend never exposes a partially written file.          *)
(*                                                                         *)
(* A POSIX-like file system with a volatile state (what a running process  *)
(* sees: page cache, in-memory directory) and a durable state (what is on  *)
(* the medium), the effect of every system call that a save may issue on   *)
(* both, and Crash: the machine (or just the process) stops, and what      *)
(* survives is, independently                                              *)
(*   - for every directory entry changed since the last fsync of its       *)
(*     directory: the old or the new binding (an un-synced create, rename,  *)
(*     link or unlink may be lost or kept),                                *)
(*   - for every file written since its last successful fsync: the synced  *)
(*     content, the full new content, or anything in between ("torn":      *)
(*     size updated but blocks missing, zeros of a preallocation, ...),    *)
(*   - for every directory made since the last fsync of its parent:        *)
(*     present or lost with everything below it.                           *)
(* A process kill is the special case in which everything volatile         *)
(* survives.                                                               *)
(*                                                                         *)
(* This module has no behaviour of its own:                                *)
(*   LocalSaveProc.tla  the save procedure as documented (temp file,       *)
(*                      write, fsync, close, rename, fsync dir, chmod)     *)
(*                      with error paths; model checked, negative twins;   *)
(*   LocalSaveTrace.tla replays the system calls recorded by `strace -f`   *)
(*                      from the real local.Save and lets TLC explore      *)
(*                      every crash point and persistence choice of the    *)
(*                      observed sequence.                                 *)
(*                                                                         *)
(* Paths are sequences of components.  File content is abstracted to       *)
(*   [size, valid, kind]: kind "new" = the first `valid` bytes are the     *)
(*   first bytes of the content being saved, the rest up to `size` is not; *)
(*   kind "old" = complete content of an earlier, finished save;           *)
(*   kind "torn" = anything else.                                          *)
(***************************************************************************)
EXTENDS Integers, Sequences, FiniteSets, TLC

VARIABLES
  vdir,      \* volatile directory tree: file path |-> inode
  ddir,      \* durable  directory tree: file path |-> inode
  vcon,      \* inode |-> content as a running process reads it
  dcon,      \* inode |-> content at its last successful fsync
  mkd,       \* directories made and not yet durable
  fdt,       \* open descriptors: fd |-> [kind, ino, off, app, path]
  mode,      \* "idle" | "run" | "crashed"
  vis,       \* after a crash: file path |-> content found by whoever opens the directory next
  want,      \* length of the content the current save was asked to store
  final,     \* path of the final name of the current save
  reponames  \* paths that a listing reports as repository files (well-formed names in listed directories)

fsvars == <<vdir, ddir, vcon, dcon, mkd, fdt>>
savars == <<want, final, reponames>>

EmptyFn == << >>
Put(f, k, v) == [x \in DOMAIN f \cup {k} |-> IF x = k THEN v ELSE f[x]]
Del(f, k)    == [x \in DOMAIN f \ {k} |-> f[x]]
FMax(a, b)    == IF a >= b THEN a ELSE b
FMin(a, b)    == IF a <= b THEN a ELSE b
Parent(p)    == SubSeq(p, 1, Len(p) - 1)
Under(d, p)  == Len(d) < Len(p) /\ SubSeq(p, 1, Len(d)) = d

Zero == [size |-> 0, valid |-> 0, kind |-> "new"]
Old  == [size |-> 1, valid |-> 1, kind |-> "old"]
Torn == [size |-> 0, valid |-> 0, kind |-> "torn"]

NewIno == Cardinality(DOMAIN vcon) + 1

\* ------------------------------------------------------------ system calls
\* (each describes the effect of a call that SUCCEEDED; a failed call changes nothing)

\* open(2) / openat(2) / creat(2).  A path the model does not know and that is
\* not created is a directory handle.
SysOpen(p, fd, creat, trunc, wr, app) ==
  /\ fd \notin DOMAIN fdt
  /\ IF p \in DOMAIN vdir
     THEN LET i == vdir[p] IN
          /\ vcon' = IF trunc /\ wr THEN Put(vcon, i, Zero) ELSE vcon
          /\ fdt'  = Put(fdt, fd, [kind |-> "file", ino |-> i, off |-> 0, app |-> app, path |-> p])
          /\ UNCHANGED <<vdir, ddir, dcon, mkd>>
     ELSE IF creat
     THEN LET i == NewIno IN
          /\ vdir' = Put(vdir, p, i)
          /\ vcon' = Put(vcon, i, Zero)
          /\ dcon' = Put(dcon, i, Zero)
          /\ fdt'  = Put(fdt, fd, [kind |-> "file", ino |-> i, off |-> 0, app |-> app, path |-> p])
          /\ UNCHANGED <<ddir, mkd>>
     ELSE /\ fdt' = Put(fdt, fd, [kind |-> "dir", ino |-> 0, off |-> 0, app |-> FALSE, path |-> p])
          /\ UNCHANGED <<vdir, ddir, vcon, dcon, mkd>>

IsFile(fd) == fd \in DOMAIN fdt /\ fdt[fd].kind = "file"

\* m bytes of the source, taken in order, arrive at offset o of content c
Written(c, o, m) ==
  IF m = 0 THEN c
  ELSE IF c.kind = "new" /\ o = c.valid
       THEN [c EXCEPT !.valid = o + m, !.size = FMax(c.size, o + m)]
       ELSE [c EXCEPT !.kind = "torn"]

\* write(2) (poff < 0: at the descriptor's offset) / pwrite64(2) (poff >= 0) returning m;
\* copy_file_range / sendfile into the descriptor count as write
SysWrite(fd, poff, m) ==
  /\ IsFile(fd)
  /\ LET e == fdt[fd]
         c == vcon[e.ino]
         o == IF poff >= 0 THEN poff ELSE IF e.app THEN c.size ELSE e.off
     IN /\ vcon' = Put(vcon, e.ino, Written(c, o, m))
        /\ fdt'  = IF poff >= 0 THEN fdt ELSE Put(fdt, fd, [e EXCEPT !.off = o + m])
  /\ UNCHANGED <<vdir, ddir, dcon, mkd>>

SysSeek(fd, o) ==
  /\ fd \in DOMAIN fdt
  /\ fdt' = Put(fdt, fd, [fdt[fd] EXCEPT !.off = o])
  /\ UNCHANGED <<vdir, ddir, vcon, dcon, mkd>>

\* fallocate(2): mode 0 extends the size with zeros, FALLOC_FL_KEEP_SIZE (1) changes nothing visible
SysFallocate(fd, fmode, off, len) ==
  /\ IsFile(fd)
  /\ LET i == fdt[fd].ino
         c == vcon[i]
     IN vcon' = Put(vcon, i,
                    IF fmode = 1 THEN c
                    ELSE IF fmode = 0 THEN (IF off + len <= c.size THEN c
                                            ELSE IF c.kind = "new" THEN [c EXCEPT !.size = off + len]
                                            ELSE [c EXCEPT !.kind = "torn"])
                    ELSE [c EXCEPT !.kind = "torn"])
  /\ UNCHANGED <<vdir, ddir, dcon, mkd, fdt>>

SysTruncate(fd, len) ==
  /\ IsFile(fd)
  /\ LET i == fdt[fd].ino
         c == vcon[i]
     IN vcon' = Put(vcon, i, IF len = c.size THEN c
                             ELSE IF c.kind = "new" THEN [c EXCEPT !.size = len, !.valid = FMin(c.valid, len)]
                             ELSE [c EXCEPT !.kind = "torn"])
  /\ UNCHANGED <<vdir, ddir, dcon, mkd, fdt>>

\* fsync(2) / fdatasync(2) on a file: its content is durable; on a directory: its entries are
SysFsync(fd) ==
  /\ fd \in DOMAIN fdt
  /\ IF fdt[fd].kind = "file"
     THEN /\ dcon' = Put(dcon, fdt[fd].ino, vcon[fdt[fd].ino])
          /\ UNCHANGED <<vdir, ddir, vcon, mkd, fdt>>
     ELSE LET d == fdt[fd].path
              here == {n \in DOMAIN vdir \cup DOMAIN ddir : Parent(n) = d}
          IN /\ ddir' = [n \in ((DOMAIN ddir \ here) \cup (here \cap DOMAIN vdir)) |->
                            IF n \in here THEN vdir[n] ELSE ddir[n]]
             /\ mkd'  = {x \in mkd : Parent(x) # d}
             /\ UNCHANGED <<vdir, vcon, dcon, fdt>>

\* sync(2) / syncfs(2)
SysSyncAll ==
  /\ ddir' = vdir /\ dcon' = vcon /\ mkd' = {}
  /\ UNCHANGED <<vdir, vcon, fdt>>

SysClose(fd) ==
  /\ fd \in DOMAIN fdt
  /\ fdt' = Del(fdt, fd)
  /\ UNCHANGED <<vdir, ddir, vcon, dcon, mkd>>

\* rename(2): atomic for a running observer; b's previous binding is replaced
SysRename(a, b) ==
  /\ a \in DOMAIN vdir
  /\ vdir' = IF a = b THEN vdir ELSE Put(Del(vdir, a), b, vdir[a])
  /\ UNCHANGED <<ddir, vcon, dcon, mkd, fdt>>

SysLink(a, b) ==
  /\ a \in DOMAIN vdir /\ b \notin DOMAIN vdir
  /\ vdir' = Put(vdir, b, vdir[a])
  /\ UNCHANGED <<ddir, vcon, dcon, mkd, fdt>>

\* unlink(2) of a file / rmdir(2) of a directory
SysUnlink(a) ==
  /\ IF a \in DOMAIN vdir THEN vdir' = Del(vdir, a) /\ mkd' = mkd
                          ELSE vdir' = vdir /\ mkd' = mkd \ {a}
  /\ UNCHANGED <<ddir, vcon, dcon, fdt>>

SysMkdir(d) ==
  /\ mkd' = mkd \cup {d}
  /\ UNCHANGED <<vdir, ddir, vcon, dcon, fdt>>

\* chmod / chown / utimes, reads, stats: nothing the property speaks about changes
SysMeta == UNCHANGED fsvars

\* ------------------------------------------------------------------- crash
Bind(d, n)  == IF n \in DOMAIN d THEN d[n] ELSE 0
AllNames    == DOMAIN vdir \cup DOMAIN ddir
DirtyNames  == {n \in AllNames : Bind(vdir, n) # Bind(ddir, n)}
DirtyInos   == {i \in DOMAIN vcon : vcon[i] # dcon[i]}

\* keep: dirty directory entries whose new binding reached the medium; lost: lost new directories;
\* cc: what reached the medium of each dirty file
AfterCrash(keep, lost, cc) ==
  LET b(n)  == IF n \in DirtyNames /\ n \notin keep THEN Bind(ddir, n) ELSE Bind(vdir, n)
      names == {n \in AllNames : b(n) # 0 /\ ~\E d \in lost : Under(d, n)}
      con(i) == IF i \notin DirtyInos THEN vcon[i]
                ELSE IF cc[i] = "dur" THEN dcon[i]
                ELSE IF cc[i] = "vol" THEN vcon[i]
                ELSE Torn
  IN [n \in names |-> con(b(n))]

Crash ==
  /\ mode = "run"
  /\ \E keep \in SUBSET DirtyNames, lost \in SUBSET mkd, cc \in [DirtyInos -> {"dur", "vol", "torn"}] :
        vis' = AfterCrash(keep, lost, cc)
  /\ mode' = "crashed"
  /\ UNCHANGED fsvars /\ UNCHANGED savars

\* the process is killed, the machine keeps running: everything volatile survives
KillView == [n \in DOMAIN vdir |-> vcon[vdir[n]]]

\* ---------------------------------------------------------------- property
Complete(c) == c.kind = "old" \/ (c.kind = "new" /\ c.size = want /\ c.valid = want)

\* a file under its final name either does not exist or has its complete, final content
PartialFinal(v) == final \in DOMAIN v /\ ~Complete(v[final])
\* temporary files never appear in listings as repository files
TempListed(v)   == \E n \in DOMAIN v : n # final /\ n \in reponames

NoPartialFinal == mode = "crashed" => ~PartialFinal(vis)
NoTempListed   == mode = "crashed" => ~TempListed(vis)
\* the same for an observer that runs concurrently with the save (no crash at all)
NoPartialFinalLive == mode = "run" => ~PartialFinal(KillView)
NoTempListedLive   == mode = "run" => ~TempListed(KillView)
=============================================================================
