SPECIFICATION Spec
CONSTANTS
  Wants = {0, 1, 3}
  Variant = "ignoresyncerr"
INVARIANTS
  NoPartialFinal
  NoTempListed
  NoPartialFinalLive
  NoTempListedLive
  DoneOK
  NoLeftover
CHECK_DEADLOCK FALSE
