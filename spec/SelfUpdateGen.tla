---------------------------- MODULE SelfUpdateGen ----------------------------
(* C51: writes the script table of SelfUpdate (with the predicted outcome) for the Go driver. *)
EXTENDS SelfUpdate
ASSUME ndJsonSerialize("vec.ndjson", SetToSeq({[script |-> s, installs |-> Installs(s), may |-> MayInstall(s)] : s \in Scripts}))
ASSUME PrintT(<<"VERIF_SCRIPTS", Cardinality(Scripts)>>)
==============================================================================
