--------------------------- MODULE Fn_FindPrefix ---------------------------
(***************************************************************************)
(* C57: resolving an ID prefix.                                            *)
(* A record is one call of the real code:                                  *)
(*   r.ids    the names (64 hex characters) of the files of the type       *)
(*   r.prefix the string the user gave                                     *)
(*   r.res    the ID returned ("" if none), r.err the outcome class:       *)
(*            "none" | "noid" | "multiple" | "other" (any other error) |   *)
(*            "panic"                                                      *)
(* Statement: the one file whose ID starts with the prefix is returned;    *)
(* no match or more than one match is an error.                            *)
(* (TLC evaluates Len and SubSeq on strings.)                              *)
(***************************************************************************)
EXTENDS Naturals, Sequences, FiniteSets

StartsWith(s, p) == Len(p) <= Len(s) /\ SubSeq(s, 1, Len(p)) = p

Matching(ids, p) == {i \in DOMAIN ids : StartsWith(ids[i], p)}

Errors == {"noid", "multiple", "other"}

\* r.intr (optional field): the listing was interrupted (backend error / cancelled context) after r.intr
\* delivered entries -- the set of files is then unknown, the only acceptable outcome is an error.
Interrupted(r) == "intr" \in DOMAIN r

RecOK(r) ==
  LET M == Matching(r.ids, r.prefix) IN
  IF Interrupted(r) THEN r.err \in Errors /\ r.res = ""
  ELSE IF Cardinality(M) = 1
  THEN r.err = "none" /\ r.res = r.ids[CHOOSE i \in M : TRUE]
  ELSE r.err \in Errors /\ r.res = ""
=============================================================================
