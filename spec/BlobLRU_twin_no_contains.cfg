SPECIFICATION Spec
CONSTANTS
  Procs = {1,2,3}
  NIds = 1
  Cost <- Cost1
  Size = 2
  MaxCalls = 3
  MaxPerProc = 1
  Twin = "no_contains"
  Record = FALSE
INVARIANTS
  Budget
  Accounting
  NoDup
  CacheVal
  ResultOK

