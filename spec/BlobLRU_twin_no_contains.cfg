SPECIFICATION Spec
CONSTANTS
  Procs = {1,2,3}
  NIds = 2
  Cost <- Cost12
  Size = 2
  MaxCalls = 4
  MaxPerProc = 2
  Twin = "no_contains"
  Record = FALSE
INVARIANTS
  Budget
  Accounting
  NoDup
  CacheVal
  ResultOK

