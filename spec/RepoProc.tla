------------------------------ MODULE RepoProc ------------------------------
(***************************************************************************)
(* Implementation-shaped design model of restic's repository commands on   *)
(* top of Repo.tla: one action per backend call / critical section of the  *)
(* code (names follow the code):                                           *)
(*   backup  (internal/archiver + repository.WithBlobUploader/flush):      *)
(*           ListIndex, LoadIndexFile, SaveBlob, UploadPack, SaveIndex,    *)
(*           SaveSnapshot                                                  *)
(*   prune   (repository/prune.go PlanPrune + Execute):                    *)
(*           Plan, DeleteUnreferenced, RepackUpload, RepackSaveIndex,      *)
(*           RewriteSave, RewriteDelete, DeletePack                        *)
(*   forget  RemoveSnapshot;  tag  SaveNew, RemoveOld                      *)
(*   rewrite / repair snapshots (cmd_rewrite.go filterAndReplaceSnapshot): *)
(*           new tree blobs saved like a backup does (ListIndex, LoadIndex,*)
(*           SaveBlob, UploadPack, SaveIndex), then SaveSnapshot with the  *)
(*           Original field, then with --forget RemoveOld; without --forget*)
(*           it runs next to backups (append lock only)                    *)
(*   reader  ListSnapshots, ListIndex, LoadIndexFile, Use                  *)
(*   Crash   of any process at any point (local state lost, files stay)    *)
(* Locking is abstracted to its contract (Lock.tla models the protocol):   *)
(* prune / forget / tag run only while no other process is active.         *)
(* Variants (constant Variant) are deliberately broken designs TLC must    *)
(* refute - they show that the rules are not vacuous.                      *)
(***************************************************************************)
EXTENDS Repo, Sequences

CONSTANTS Proc,        \* process ids
          Roots,       \* root trees that backups may snapshot
          Kids,        \* tree blob |-> set of child blobs (fixed content universe)
          MaxPacks, MaxIdx, MaxSnaps,
          CanBackup, CanRead, CanPrune, CanForget, CanTag, CanRewrite,   \* which processes may take which role
          Budget,      \* proc |-> how many commands it may start (bounds the model)
          Variant      \* "ok" | "snap_before_index" | "index_before_pack"
                       \* | "prune_delete_first" | "prune_drop_index_first"
                       \* | "tag_remove_first" | "reader_index_first"
                       \* | "rewrite_remove_first"

VARIABLES pc,          \* proc |-> control state
          role,        \* proc |-> "none" | "backup" | "prune" | "forget" | "tag" | "reader"
          goal,        \* backup: root tree; tag: snapshot being replaced
          lst,         \* index files still to load (listing taken earlier)
          mem,         \* in-memory index: set of <<blob, pack>>
          open,        \* blobs in the open packer
          unsaved,     \* entries of uploaded packs not yet in a saved index file
          have,        \* blobs saved in this session (pendingBlobs)
          seen,        \* reader: snapshots listed; prune: snapshots listed
          plan,        \* prune plan [gone, keep, first, oldidx]
          newsnap,     \* tag: id of the snapshot just saved ("" = none)
          runs,        \* proc |-> commands started so far
          told,        \* tag: [tree, orig] of the snapshot being replaced, as loaded
          nextP, nextI, nextS

lvars == <<pc, role, goal, lst, mem, open, unsaved, have, seen, plan, newsnap, told, runs, nextP, nextI, nextS>>
vars  == <<storage, lvars>>

NoPlan == [gone |-> {}, keepB |-> {}, first |-> {}, oldidx |-> {}]
NoOld  == [tree |-> "", orig |-> ""]

Blobs    == (DOMAIN Kids) \cup UNION {Kids[t] : t \in DOMAIN Kids}
ReachC(t) == ReachK(Kids, t)

Idle(p)  == pc[p] = "idle"
Others(p) == Proc \ {p}
Exclusive(p) == \A q \in Others(p) : Idle(q)
NoExclusiveRunning == \A q \in Proc : role[q] \notin {"prune", "forget", "tag", "rewritef"}
IsRewrite(p) == role[p] \in {"rewrite", "rewritef"}
\* the tree a backup / rewrite run is storing
Target(p) == IF IsRewrite(p) THEN told[p].tree ELSE goal[p]

Set(f, p, v) == [f EXCEPT ![p] = v]

Reset(p) ==
  /\ pc' = Set(pc, p, "idle") /\ role' = Set(role, p, "none")
  /\ goal' = Set(goal, p, "") /\ lst' = Set(lst, p, {}) /\ mem' = Set(mem, p, {})
  /\ open' = Set(open, p, {}) /\ unsaved' = Set(unsaved, p, {}) /\ have' = Set(have, p, {})
  /\ seen' = Set(seen, p, EmptyFn) /\ plan' = Set(plan, p, NoPlan) /\ newsnap' = Set(newsnap, p, "")
  /\ told' = Set(told, p, NoOld)

FreshP == "p" \o ToString(nextP)
FreshI == "i" \o ToString(nextI)
FreshS == "s" \o ToString(nextS)

\* ------------------------------------------------------------------ backup
BStart(p, t) ==
  /\ runs[p] < Budget[p] /\ runs' = Set(runs, p, runs[p] + 1)
  /\ p \in CanBackup /\ Idle(p) /\ NoExclusiveRunning /\ t \in Roots
  /\ pc' = Set(pc, p, "b_list") /\ role' = Set(role, p, "backup") /\ goal' = Set(goal, p, t)
  /\ UNCHANGED <<storage, lst, mem, open, unsaved, have, seen, plan, newsnap, told, nextP, nextI, nextS>>

\* List(index) is one backend call; the files are loaded afterwards one by one
ListIndex(p, from, to) ==
  /\ pc[p] = from
  /\ lst' = Set(lst, p, DOMAIN idx) /\ pc' = Set(pc, p, to)
  /\ UNCHANGED <<storage, role, goal, mem, open, unsaved, have, seen, plan, newsnap, told, runs, nextP, nextI, nextS>>

LoadIndexFile(p, at, done) ==
  /\ pc[p] = at
  /\ IF lst[p] = {} THEN /\ pc' = Set(pc, p, done) /\ UNCHANGED <<lst, mem>>
     ELSE \E i \in lst[p] :
            /\ lst' = Set(lst, p, lst[p] \ {i})
            /\ mem' = Set(mem, p, mem[p] \cup (IF i \in DOMAIN idx THEN idx[i] ELSE {}))
            /\ UNCHANGED pc
  /\ UNCHANGED <<storage, role, goal, open, unsaved, have, seen, plan, newsnap, told, runs, nextP, nextI, nextS>>

Known(p) == BlobsOf(mem[p]) \cup have[p]

\* SaveBlob: AddPending is a test-and-set on (index + pending); a tree is saved
\* after its children (archiver saves a directory after its entries)
BSaveBlob(p, b) ==
  /\ pc[p] = "b_run" /\ b \in ReachC(Target(p)) /\ b \notin Known(p)
  /\ (b \in DOMAIN Kids => Kids[b] \subseteq Known(p))
  /\ open' = Set(open, p, open[p] \cup {b}) /\ have' = Set(have, p, have[p] \cup {b})
  /\ UNCHANGED <<storage, pc, role, goal, lst, mem, unsaved, seen, plan, newsnap, told, runs, nextP, nextI, nextS>>

\* a packer is uploaded when full or at flush
BUploadPack(p) ==
  /\ pc[p] \in {"b_run", "r_run"} /\ open[p] # {} /\ nextP <= MaxPacks
  /\ SavePack(FreshP, open[p])
  /\ unsaved' = Set(unsaved, p, unsaved[p] \cup {<<b, FreshP>> : b \in open[p]})
  /\ open' = Set(open, p, {}) /\ nextP' = nextP + 1
  /\ UNCHANGED <<pc, role, goal, lst, mem, have, seen, plan, newsnap, told, runs, nextI, nextS>>

\* index entries are saved when the in-memory index is full or at flush; the
\* broken variant saves entries for blobs that are still in the open packer
BSaveIndex(p) ==
  /\ pc[p] \in {"b_run", "r_run"} /\ nextI <= MaxIdx
  /\ LET es == IF Variant = "index_before_pack"
               THEN unsaved[p] \cup {<<b, FreshP>> : b \in open[p]}
               ELSE unsaved[p]
     IN /\ es # {}
        /\ SaveIndex(FreshI, es)
        /\ mem' = Set(mem, p, mem[p] \cup unsaved[p])
  /\ unsaved' = Set(unsaved, p, {}) /\ nextI' = nextI + 1
  /\ UNCHANGED <<pc, role, goal, lst, open, have, seen, plan, newsnap, told, runs, nextP, nextS>>

\* the snapshot is saved after flush: nothing open, nothing unsaved
BSaveSnapshot(p) ==
  /\ pc[p] = "b_run" /\ nextS <= MaxSnaps
  /\ ReachC(Target(p)) \subseteq Known(p)
  /\ open[p] = {}
  /\ (Variant # "snap_before_index" => unsaved[p] = {})
  /\ SaveSnap(FreshS, Target(p), IF IsRewrite(p) THEN told[p].orig ELSE NoSnap)
  /\ nextS' = nextS + 1
  /\ newsnap' = Set(newsnap, p, IF IsRewrite(p) THEN FreshS ELSE newsnap[p])
  /\ pc' = Set(pc, p, IF unsaved[p] # {} THEN "b_run"
                      ELSE IF role[p] = "rewritef" /\ Variant # "rewrite_remove_first" THEN "t_remove" ELSE "done")
  /\ UNCHANGED <<role, goal, lst, mem, open, unsaved, have, seen, plan, told, runs, nextP, nextI>>

Finish(p) == pc[p] = "done" /\ Reset(p) /\ UNCHANGED <<storage, runs, nextP, nextI, nextS>>

\* ------------------------------------------------------------------ reader
RStart(p) ==
  /\ runs[p] < Budget[p] /\ runs' = Set(runs, p, runs[p] + 1)
  /\ p \in CanRead /\ Idle(p) /\ NoExclusiveRunning
  /\ role' = Set(role, p, "reader")
  /\ pc' = Set(pc, p, IF Variant = "reader_index_first" THEN "rd_ilist0" ELSE "rd_snaps")
  /\ UNCHANGED <<storage, goal, lst, mem, open, unsaved, have, seen, plan, newsnap, told, nextP, nextI, nextS>>

RListSnapshots(p, from, to) ==
  /\ pc[p] = from
  /\ seen' = Set(seen, p, [s \in DOMAIN snaps |-> snaps[s].tree]) /\ pc' = Set(pc, p, to)
  /\ UNCHANGED <<storage, role, goal, lst, mem, open, unsaved, have, plan, newsnap, told, runs, nextP, nextI, nextS>>

\* the property C14: everything a listed snapshot needs is in the loaded index
ReaderOK ==
  \A p \in Proc : pc[p] = "rd_use" =>
     \A s \in DOMAIN seen[p] : ReachC(seen[p][s]) \subseteq BlobsOf(mem[p])

\* ------------------------------------------------------------------- prune
PStart(p) ==
  /\ runs[p] < Budget[p] /\ runs' = Set(runs, p, runs[p] + 1)
  /\ p \in CanPrune /\ Idle(p) /\ Exclusive(p)
  /\ role' = Set(role, p, "prune") /\ pc' = Set(pc, p, "p_plan")
  /\ UNCHANGED <<storage, goal, lst, mem, open, unsaved, have, seen, plan, newsnap, told, nextP, nextI, nextS>>

\* PlanPrune: with the exclusive lock held the index and snapshot list are
\* loaded; packs are partitioned nondeterministically (the policy options
\* max-unused / max-repack-size / repack-small only restrict this choice):
\*   first  - packs no index entry names          (deleted first)
\*   gone   - indexed packs to repack or remove
\*   keepB  - used blobs whose only indexed copies are in `gone` packs
\* a plan is valid only if every used blob stays available
PPlan(p) ==
  /\ pc[p] = "p_plan"
  /\ LET used    == Needed
         indexed == PacksOf(Entries)
     IN \E gone \in SUBSET (indexed \cap DOMAIN packs) :
          LET stay  == {e \in Entries : e[2] \notin gone /\ SoundEntry(e, packs)}
              keepB == {b \in used : b \notin BlobsOf(stay)}
          IN /\ \A b \in keepB : \E e \in Entries : e[1] = b /\ e[2] \in gone /\ SoundEntry(e, packs)
             /\ plan' = Set(plan, p, [gone |-> gone, keepB |-> keepB,
                                      first |-> DOMAIN packs \ indexed, oldidx |-> DOMAIN idx])
  /\ mem' = Set(mem, p, Entries)
  /\ pc' = Set(pc, p, IF Variant = "prune_delete_first" THEN "p_delete" ELSE "p_first")
  /\ UNCHANGED <<storage, role, goal, lst, open, unsaved, have, seen, newsnap, told, runs, nextP, nextI, nextS>>

PDeleteUnreferenced(p) ==
  /\ pc[p] = "p_first"
  /\ IF plan[p].first = {} THEN /\ pc' = Set(pc, p, "r_run") /\ UNCHANGED <<storage, plan>>
     ELSE \E k \in plan[p].first :
            /\ RemovePack(k)
            /\ plan' = Set(plan, p, [plan[p] EXCEPT !.first = @ \ {k}])
            /\ UNCHANGED pc
  /\ UNCHANGED <<role, goal, lst, mem, open, unsaved, have, seen, newsnap, told, runs, nextP, nextI, nextS>>

\* repack = CopyBlobs inside WithBlobUploader: blobs go into the packer, packs
\* are uploaded, the index is flushed (BUploadPack / BSaveIndex in state r_run)
PRepackBlob(p, b) ==
  /\ pc[p] = "r_run" /\ b \in plan[p].keepB /\ b \notin have[p]
  /\ open' = Set(open, p, open[p] \cup {b}) /\ have' = Set(have, p, have[p] \cup {b})
  /\ UNCHANGED <<storage, pc, role, goal, lst, mem, unsaved, seen, plan, newsnap, told, runs, nextP, nextI, nextS>>

PRepackDone(p) ==
  /\ pc[p] = "r_run" /\ plan[p].keepB \subseteq have[p] /\ open[p] = {} /\ unsaved[p] = {}
  /\ pc' = Set(pc, p, IF Variant = "prune_drop_index_first" THEN "p_rwdel" ELSE "p_rwsave")
  /\ UNCHANGED <<storage, role, goal, lst, mem, open, unsaved, have, seen, plan, newsnap, told, runs, nextP, nextI, nextS>>

\* rewriteIndexFiles: save the surviving entries of the old index files ...
PRewriteSave(p) ==
  /\ pc[p] = "p_rwsave" /\ nextI <= MaxIdx
  /\ LET old  == UNION {idx[i] : i \in plan[p].oldidx \cap DOMAIN idx}
         keep == {e \in old : e[2] \notin plan[p].gone}
     IN IF keep = {} THEN UNCHANGED <<storage, nextI>>
        ELSE SaveIndex(FreshI, keep) /\ nextI' = nextI + 1
  /\ pc' = Set(pc, p, IF Variant = "prune_drop_index_first" THEN "p_delete" ELSE "p_rwdel")
  /\ UNCHANGED <<role, goal, lst, mem, open, unsaved, have, seen, plan, newsnap, told, runs, nextP, nextS>>

\* ... then delete the obsolete ones, one Remove at a time
PRewriteDelete(p) ==
  /\ pc[p] = "p_rwdel"
  /\ LET todo == plan[p].oldidx \cap DOMAIN idx
     IN IF todo = {}
        THEN /\ pc' = Set(pc, p, IF Variant = "prune_drop_index_first" THEN "p_rwsave" ELSE "p_delete")
             /\ UNCHANGED storage
        ELSE \E i \in todo : RemoveIndex(i) /\ UNCHANGED pc
  /\ UNCHANGED <<role, goal, lst, mem, open, unsaved, have, seen, plan, newsnap, told, runs, nextP, nextI, nextS>>

PDeletePack(p) ==
  /\ pc[p] = "p_delete"
  /\ LET todo == plan[p].gone \cap DOMAIN packs
     IN IF todo = {}
        THEN pc' = Set(pc, p, "done") /\ UNCHANGED storage
        ELSE \E k \in todo : RemovePack(k) /\ UNCHANGED pc
  /\ UNCHANGED <<role, goal, lst, mem, open, unsaved, have, seen, plan, newsnap, told, runs, nextP, nextI, nextS>>

\* ------------------------------------------------------------------ forget
Forget(p, s) ==
  /\ p \in CanForget /\ Idle(p) /\ Exclusive(p) /\ s \in DOMAIN snaps
  /\ runs[p] < Budget[p] /\ runs' = Set(runs, p, runs[p] + 1)
  /\ RemoveSnap(s)
  /\ UNCHANGED <<pc, role, goal, lst, mem, open, unsaved, have, seen, plan, newsnap, told, nextP, nextI, nextS>>

\* ----------------------------------------- tag / rewrite / repair snapshots
TStart(p, s) ==
  /\ runs[p] < Budget[p] /\ runs' = Set(runs, p, runs[p] + 1)
  /\ p \in CanTag /\ Idle(p) /\ Exclusive(p) /\ s \in DOMAIN snaps
  /\ role' = Set(role, p, "tag") /\ goal' = Set(goal, p, s)
  /\ pc' = Set(pc, p, IF Variant = "tag_remove_first" THEN "t_remove" ELSE "t_save")
  /\ UNCHANGED <<storage, lst, mem, open, unsaved, have, seen, plan, newsnap, told, nextP, nextI, nextS>>

TSaveNew(p) ==
  /\ pc[p] = "t_save" /\ nextS <= MaxSnaps
  /\ LET s == goal[p] IN
       \* the tree and original are remembered from the loaded snapshot
       SaveSnap(FreshS, told[p].tree, told[p].orig)
  /\ newsnap' = Set(newsnap, p, FreshS) /\ nextS' = nextS + 1
  /\ pc' = Set(pc, p, IF Variant = "tag_remove_first" THEN "done" ELSE "t_remove")
  /\ told[p] # NoOld
  /\ UNCHANGED <<role, goal, lst, mem, open, unsaved, have, seen, plan, told, runs, nextP, nextI>>

TLoad(p) ==
  /\ pc[p] \in {"t_save", "t_remove"} /\ told[p] = NoOld /\ goal[p] \in DOMAIN snaps
  /\ told' = Set(told, p, [tree |-> snaps[goal[p]].tree, orig |-> OrigOf(snaps, goal[p])])
  /\ UNCHANGED <<storage, pc, role, goal, lst, mem, open, unsaved, have, seen, plan, newsnap, runs, nextP, nextI, nextS>>

TRemoveOld(p) ==
  /\ pc[p] = "t_remove" /\ told[p] # NoOld /\ goal[p] \in DOMAIN snaps
  /\ RemoveSnap(goal[p])
  /\ pc' = Set(pc, p, IF Variant = "tag_remove_first" THEN "t_save" ELSE "done")
  /\ UNCHANGED <<role, goal, lst, mem, open, unsaved, have, seen, plan, newsnap, told, runs, nextP, nextI, nextS>>

\* ------------------------------------------- rewrite / repair snapshots
\* snapshot s is replaced by one with root t (any tree of the universe: the filtered / repaired tree); the new
\* snapshot records the replaced id or the Original that one already carries
RwStart(p, s, t, f) ==
  /\ runs[p] < Budget[p] /\ runs' = Set(runs, p, runs[p] + 1)
  /\ p \in CanRewrite /\ Idle(p) /\ s \in DOMAIN snaps /\ t \in Roots
  /\ IF f THEN Exclusive(p) ELSE NoExclusiveRunning
  /\ role' = Set(role, p, IF f THEN "rewritef" ELSE "rewrite") /\ goal' = Set(goal, p, s)
  /\ \E o \in {s, OrigOf(snaps, s)} : told' = Set(told, p, [tree |-> t, orig |-> o])
  /\ pc' = Set(pc, p, IF f /\ Variant = "rewrite_remove_first" THEN "w_remove" ELSE "b_list")
  /\ UNCHANGED <<storage, lst, mem, open, unsaved, have, seen, plan, newsnap, nextP, nextI, nextS>>

\* broken variant: the old snapshot is removed before the new one exists
WRemoveFirst(p) ==
  /\ pc[p] = "w_remove" /\ goal[p] \in DOMAIN snaps
  /\ RemoveSnap(goal[p]) /\ pc' = Set(pc, p, "b_list")
  /\ UNCHANGED <<role, goal, lst, mem, open, unsaved, have, seen, plan, newsnap, told, runs, nextP, nextI, nextS>>

\* C26 for rewrite: while a rewrite runs, the snapshot it replaces or its replacement exists
RewriteNeverLoses ==
  \A p \in Proc : IsRewrite(p) =>
     \/ goal[p] \in DOMAIN snaps
     \/ (newsnap[p] # "" /\ newsnap[p] \in DOMAIN snaps)

\* C26: at every point of a tag run the old or the new snapshot exists
TagNeverLoses ==
  \A p \in Proc : (role[p] = "tag" /\ told[p] # NoOld) =>
     \E s \in DOMAIN snaps : OrigOf(snaps, s) = told[p].orig

\* ------------------------------------------------------------------- crash
Crash(p) == ~Idle(p) /\ Reset(p) /\ UNCHANGED <<storage, runs, nextP, nextI, nextS>>

Init ==
  /\ packs = EmptyFn /\ idx = EmptyFn /\ snaps = EmptyFn /\ kids = Kids
  /\ keys = {"k1"} /\ cfg = 2
  /\ pc = [p \in Proc |-> "idle"] /\ role = [p \in Proc |-> "none"]
  /\ goal = [p \in Proc |-> ""] /\ lst = [p \in Proc |-> {}] /\ mem = [p \in Proc |-> {}]
  /\ open = [p \in Proc |-> {}] /\ unsaved = [p \in Proc |-> {}] /\ have = [p \in Proc |-> {}]
  /\ seen = [p \in Proc |-> EmptyFn] /\ plan = [p \in Proc |-> NoPlan] /\ newsnap = [p \in Proc |-> ""]
  /\ told = [p \in Proc |-> NoOld] /\ runs = [p \in Proc |-> 0]
  /\ nextP = 1 /\ nextI = 1 /\ nextS = 1

Next ==
  \E p \in Proc :
    \/ \E t \in Roots : BStart(p, t)
    \/ ListIndex(p, "b_list", "b_load") \/ LoadIndexFile(p, "b_load", "b_run")
    \/ \E b \in Blobs : BSaveBlob(p, b)
    \/ BUploadPack(p) \/ BSaveIndex(p) \/ BSaveSnapshot(p) \/ Finish(p)
    \/ RStart(p)
    \/ RListSnapshots(p, "rd_snaps", "rd_ilist") \/ ListIndex(p, "rd_ilist", "rd_load")
    \/ ListIndex(p, "rd_ilist0", "rd_load0") \/ LoadIndexFile(p, "rd_load0", "rd_snaps0")
    \/ RListSnapshots(p, "rd_snaps0", "rd_use")
    \/ LoadIndexFile(p, "rd_load", "rd_use")
    \/ (pc[p] = "rd_use" /\ Reset(p) /\ UNCHANGED <<storage, runs, nextP, nextI, nextS>>)
    \/ PStart(p) \/ PPlan(p) \/ PDeleteUnreferenced(p)
    \/ (\E b \in Blobs : PRepackBlob(p, b)) \/ PRepackDone(p)
    \/ PRewriteSave(p) \/ PRewriteDelete(p) \/ PDeletePack(p)
    \/ (\E s \in DOMAIN snaps : Forget(p, s))
    \/ (\E s \in DOMAIN snaps : TStart(p, s)) \/ TLoad(p) \/ TSaveNew(p) \/ TRemoveOld(p)
    \/ (\E s \in DOMAIN snaps, t \in Roots, f \in BOOLEAN : RwStart(p, s, t, f)) \/ WRemoveFirst(p)
    \/ Crash(p)

Spec == Init /\ [][Next]_vars

\* ------------------------------------------------ what is checked on it
W1 == [][PackBeforeIndex]_storage
W2 == [][IndexBeforeSnapshot]_storage
D1 == [][IndexGoneBeforePackDelete]_storage
D2 == [][IndexDeleteKeepsNeeded]_storage

\* bound the model
Bounded == nextP <= MaxPacks + 1 /\ nextI <= MaxIdx + 1 /\ nextS <= MaxSnaps + 1
\* history-free view: fresh-id counters matter only through the ids in use
=============================================================================
