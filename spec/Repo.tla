------------------------------- MODULE Repo -------------------------------
(***************************************************************************)
(* The restic repository as a set of content-addressed files, at the level *)
(* of single backend operations (one Save or Remove of one file).          *)
(*                                                                         *)
(* This module holds the durable state, the effect of every backend        *)
(* operation on it, the invariants of doc/design.rst ("Read and Write      *)
(* Ordering") and the ordering rules as ACTION properties over arbitrary   *)
(* steps.  It has no behaviour of its own:                                 *)
(*   RepoProc.tla   adds implementation-shaped processes (backup, prune,   *)
(*                  forget, tag/rewrite, reader, crash) and is model       *)
(*                  checked against the rules and invariants below;        *)
(*   RepoTrace.tla  replays backend operations recorded from the real code *)
(*                  and has TLC evaluate the same rules and invariants on  *)
(*                  every recorded step.                                   *)
(*                                                                         *)
(*   packs  pack id   |-> set of blobs readable from that pack             *)
(*   idx    index id  |-> set of <<blob, pack>> entries                    *)
(*   snaps  snap id   |-> [tree, orig]                                     *)
(*   kids   tree blob |-> set of blobs it references (content addressing   *)
(*                        makes this a function of the blob id)            *)
(*   keys   set of key file ids;  cfg  config version (0 = no config)      *)
(***************************************************************************)
EXTENDS Naturals, FiniteSets, TLC

VARIABLES packs, idx, snaps, kids, keys, cfg

storage == <<packs, idx, snaps, kids, keys, cfg>>

NoSnap == ""
EmptyFn == << >>

\* ---------------------------------------------------------------- derived
RECURSIVE ReachFrom(_, _, _)
ReachFrom(kd, front, seen) ==
  IF front = {} THEN seen
  ELSE LET nxt == (UNION {kd[b] : b \in front \cap DOMAIN kd}) \ seen
       IN  ReachFrom(kd, nxt, seen \cup nxt)

ReachK(kd, t) == ReachFrom(kd, {t}, {t})
Reach(t)      == ReachK(kids, t)

EntriesOf(ix) == UNION {ix[i] : i \in DOMAIN ix}
Entries       == EntriesOf(idx)
BlobsOf(es)   == {e[1] : e \in es}
PacksOf(es)   == {e[2] : e \in es}

\* an index entry is sound when its pack exists and really contains the blob
SoundEntry(e, pk)    == e[2] \in DOMAIN pk /\ e[1] \in pk[e[2]]
IndexedIn(b, ix, pk) == \E e \in EntriesOf(ix) : e[1] = b /\ SoundEntry(e, pk)
Indexed(b)           == IndexedIn(b, idx, packs)
Stored(b)            == \E p \in DOMAIN packs : b \in packs[p]

NeededOf(sn, kd) == UNION {ReachK(kd, sn[s].tree) : s \in DOMAIN sn}
Needed           == NeededOf(snaps, kids)
OrigOf(sn, s)    == IF sn[s].orig = NoSnap THEN s ELSE sn[s].orig

\* ------------------------------------------------------------- invariants
\* design.rst: a snapshot references only blobs that are stored ...
SnapshotData    == \A b \in Needed : Stored(b)
\* ... and that a reader finds through the index files present
SnapshotIndexed == \A b \in Needed : Indexed(b)
\* no index file names a missing pack or a blob its pack does not hold
IndexSound      == \A e \in Entries : SoundEntry(e, packs)
\* an initialised repository always has a key
KeyAlive        == cfg # 0 => keys # {}

\* ------------------------------------------- effects of backend operations
Drop(f, k) == [x \in DOMAIN f \ {k} |-> f[x]]

SavePack(p, bs) ==
  /\ p \notin DOMAIN packs
  /\ packs' = p :> bs @@ packs
  /\ UNCHANGED <<idx, snaps, kids, keys, cfg>>

SaveIndex(i, es) ==
  /\ i \notin DOMAIN idx
  /\ idx' = i :> es @@ idx
  /\ UNCHANGED <<packs, snaps, kids, keys, cfg>>

SaveSnap(s, tree, orig) ==
  /\ s \notin DOMAIN snaps
  /\ snaps' = s :> [tree |-> tree, orig |-> orig] @@ snaps
  /\ UNCHANGED <<packs, idx, kids, keys, cfg>>

RemoveSnap(s) ==
  /\ s \in DOMAIN snaps
  /\ snaps' = Drop(snaps, s)
  /\ UNCHANGED <<packs, idx, kids, keys, cfg>>

RemoveIndex(i) ==
  /\ i \in DOMAIN idx
  /\ idx' = Drop(idx, i)
  /\ UNCHANGED <<packs, snaps, kids, keys, cfg>>

RemovePack(p) ==
  /\ p \in DOMAIN packs
  /\ packs' = Drop(packs, p)
  /\ UNCHANGED <<idx, snaps, kids, keys, cfg>>

LearnTree(b, ks) ==
  /\ kids' = IF b \in DOMAIN kids THEN kids ELSE b :> ks @@ kids
  /\ UNCHANGED <<packs, idx, snaps, keys, cfg>>

AddKey(k) ==
  /\ keys' = keys \cup {k}
  /\ UNCHANGED <<packs, idx, snaps, kids, cfg>>

RemoveKey(k) ==
  /\ keys' = keys \ {k}
  /\ UNCHANGED <<packs, idx, snaps, kids, cfg>>

SaveConfig(v) ==
  /\ cfg' = v
  /\ UNCHANGED <<packs, idx, snaps, kids, keys>>

RemoveConfig ==
  /\ cfg' = 0
  /\ UNCHANGED <<packs, idx, snaps, kids, keys>>

StorageInit ==
  /\ packs = EmptyFn /\ idx = EmptyFn /\ snaps = EmptyFn /\ kids = EmptyFn
  /\ keys = {} /\ cfg = 0

\* --------------------------------------------------- ordering rules (steps)
\* Each rule constrains one kind of step, whatever process takes it.  They
\* are checked as  [][Rule]_storage  on the design model and on every
\* recorded execution.

\* W1: packs are persisted before the index entries naming them
PackBeforeIndex ==
  \A i \in DOMAIN idx' \ DOMAIN idx : \A e \in idx'[i] : SoundEntry(e, packs)

\* W2: index entries are persisted before the snapshot that uses them
IndexBeforeSnapshot ==
  \A s \in DOMAIN snaps' \ DOMAIN snaps :
     \A b \in ReachK(kids', snaps'[s].tree) : IndexedIn(b, idx, packs)

\* D1: a pack is deleted only after no index file names it
IndexGoneBeforePackDelete ==
  \A p \in DOMAIN packs \ DOMAIN packs' : \A e \in Entries : e[2] # p

\* D2: an index file is deleted only if everything needed stays indexed
IndexDeleteKeepsNeeded ==
  \A i \in DOMAIN idx \ DOMAIN idx' :
     \A b \in Needed : IndexedIn(b, Drop(idx, i), packs)

\* K1: the last key of an initialised repository is never removed
LastKeyKept == (cfg # 0 /\ keys # {}) => keys' # {}

\* C1: a config is written only when a key exists, and an existing config is
\* replaced only by the 1 -> 2 upgrade
ConfigWriteOnce ==
  (cfg' # cfg) => ((cfg = 0 /\ cfg' \in {1, 2} /\ keys # {}) \/ (cfg = 1 /\ cfg' = 2))

=============================================================================
