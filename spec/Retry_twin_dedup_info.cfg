SPECIFICATION Spec
CONSTANTS
  MaxLen = 2
  Budget = 3
  Ops = {"save", "load", "stat", "remove", "list"}
  Twin = "dedup_info"
  Record = FALSE
INVARIANTS
  InvSame
  InvNoPartial
  InvPerm
  ListNever
  Progress
  Conforms

