------------------------------ MODULE BlobLRU ------------------------------
(***************************************************************************)
(* C47: design model of bloblru.Cache (internal/bloblru/cache.go).         *)
(* One action per critical section of GetOrCompute:                        *)
(*   Call    the goroutine enters GetOrCompute(id, compute)                *)
(*   Get1    first c.get(id)            (mutex)                            *)
(*   Chk     look up / register inProgress[id]   (mutex)                   *)
(*   Wait    <-waitForResult  (enabled once that channel is closed)        *)
(*   Get2    second c.get(id)           (mutex)                            *)
(*   Compute the caller's compute() returns (ok | fail)  -- the gate       *)
(*   Add     c.add(id, blob): oversize skip, Contains skip, evict loop     *)
(*   Unreg   deferred: delete(inProgress, id)   (mutex)                    *)
(*   Close   deferred: close(finish)                                       *)
(*   Ret     GetOrCompute returns                                          *)
(* Values are tokens <<p, n>> (n-th call of goroutine p computed it), so a *)
(* value handed to the wrong lookup is visible.                            *)
(*                                                                         *)
(* Two next-state relations:                                               *)
(*   Spec   every interleaving of all actions (exhaustive design run)      *)
(*   SpecQ  the scheduler view used for schedule replay: the controllable  *)
(*          actions (Call, Compute) happen only when no internal action is *)
(*          enabled, i.e. when every goroutine is parked (idle, at its     *)
(*          compute gate, or waiting for a channel).  Every SpecQ          *)
(*          behaviour is a Spec behaviour.  `sched` records the sequence   *)
(*          of controllable actions; EmitSched prints it at the end.       *)
(***************************************************************************)
EXTENDS BlobLRUProps, TLC

CONSTANTS Procs,      \* goroutines, a set of small positive integers
          NIds,       \* blob ids are 1..NIds
          Cost,       \* Cost[id]: bytes charged for id's blob (cap + overhead), in units
          Size,       \* configured cache size in the same units
          MaxCalls,   \* total number of GetOrCompute calls in a behaviour
          MaxPerProc, \* calls per goroutine
          Twin,       \* "none" | "evict_once" | "no_cleanup_on_fail" | "waiter_no_recheck" | "no_contains"
          Record      \* TRUE: keep the schedule in `sched`

Ids  == 1..NIds
None == <<0, 0>>

VARIABLES lru,      \* sequence of ids, oldest first (simplelru recency list)
          val,      \* val[id]: cached value token (None if not cached)
          free,     \* c.free
          inProg,   \* inProg[id]: channel token <<p,n>> of the registered computation, or None
          closed,   \* set of closed channel tokens
          pc, cur, callno, leader, waitOn, res,
          ncalls,
          computed, \* set of <<id, token>>: values successfully computed
          failed,   \* set of <<id, token>>: failed computations
          sched

vars == <<lru, val, free, inProg, closed, pc, cur, callno, leader, waitOn, res, ncalls, computed, failed, sched>>

InCache(id) == \E i \in DOMAIN lru : lru[i] = id
Without(s, id) == SelectSeq(s, LAMBDA x : x # id)
Touch(s, id) == Append(Without(s, id), id)      \* simplelru Get moves the entry to the front
Tok(p) == <<p, callno[p]>>
CostsOf(s) == [i \in DOMAIN s |-> Cost[s[i]]]

\* evict oldest entries while the blob does not fit (the loop in Cache.add)
RECURSIVE EvictFor(_, _, _)
EvictFor(s, f, need) == IF need > f /\ s # <<>> THEN EvictFor(Tail(s), f + Cost[Head(s)], need)
                        ELSE [s |-> s, f |-> f]
EvictOnce(s, f, need) == IF need > f /\ s # <<>> THEN [s |-> Tail(s), f |-> f + Cost[Head(s)]]
                         ELSE [s |-> s, f |-> f]

Init ==
  /\ lru = <<>> /\ val = [i \in Ids |-> None] /\ free = Size
  /\ inProg = [i \in Ids |-> None] /\ closed = {}
  /\ pc = [p \in Procs |-> "idle"] /\ cur = [p \in Procs |-> 1] /\ callno = [p \in Procs |-> 0]
  /\ leader = [p \in Procs |-> FALSE] /\ waitOn = [p \in Procs |-> None]
  /\ res = [p \in Procs |-> [ok |-> TRUE, v |-> None]]
  /\ ncalls = 0 /\ computed = {} /\ failed = {} /\ sched = <<>>

After(p) == IF leader[p] THEN "unreg" ELSE "ret"

Call(p, id) ==
  /\ pc[p] = "idle" /\ ncalls < MaxCalls /\ callno[p] < MaxPerProc
  /\ (Record => \A q \in Procs : q < p => callno[q] > 0)   \* goroutines are interchangeable: schedules up to renaming
  /\ pc' = [pc EXCEPT ![p] = "get1"] /\ cur' = [cur EXCEPT ![p] = id]
  /\ callno' = [callno EXCEPT ![p] = @ + 1] /\ ncalls' = ncalls + 1
  /\ leader' = [leader EXCEPT ![p] = FALSE]
  /\ sched' = IF Record THEN Append(sched, 100 * p + id) ELSE sched
  /\ UNCHANGED <<lru, val, free, inProg, closed, waitOn, res, computed, failed>>

Hit(p, next) ==
  /\ lru' = Touch(lru, cur[p])
  /\ res' = [res EXCEPT ![p] = [ok |-> TRUE, v |-> val[cur[p]]]]
  /\ pc' = [pc EXCEPT ![p] = next]

Get1(p) ==
  /\ pc[p] = "get1"
  /\ IF InCache(cur[p]) THEN Hit(p, "ret")
     ELSE pc' = [pc EXCEPT ![p] = "chk"] /\ UNCHANGED <<lru, res>>
  /\ UNCHANGED <<val, free, inProg, closed, cur, callno, leader, waitOn, ncalls, computed, failed, sched>>

Chk(p) ==
  /\ pc[p] = "chk"
  /\ IF inProg[cur[p]] # None
     THEN /\ waitOn' = [waitOn EXCEPT ![p] = inProg[cur[p]]]
          /\ pc' = [pc EXCEPT ![p] = "wait"]
          /\ UNCHANGED <<inProg, leader>>
     ELSE /\ inProg' = [inProg EXCEPT ![cur[p]] = Tok(p)]
          /\ leader' = [leader EXCEPT ![p] = TRUE]
          /\ pc' = [pc EXCEPT ![p] = "get2"]
          /\ UNCHANGED waitOn
  /\ UNCHANGED <<lru, val, free, closed, cur, callno, res, ncalls, computed, failed, sched>>

Wait(p) ==
  /\ pc[p] = "wait" /\ waitOn[p] \in closed
  /\ IF Twin = "waiter_no_recheck"
     THEN pc' = [pc EXCEPT ![p] = "ret"] /\ res' = [res EXCEPT ![p] = [ok |-> TRUE, v |-> None]]
     ELSE pc' = [pc EXCEPT ![p] = "get2"] /\ UNCHANGED res
  /\ UNCHANGED <<lru, val, free, inProg, closed, cur, callno, leader, waitOn, ncalls, computed, failed, sched>>

Get2(p) ==
  /\ pc[p] = "get2"
  /\ IF InCache(cur[p]) THEN Hit(p, After(p))
     ELSE pc' = [pc EXCEPT ![p] = "compute"] /\ UNCHANGED <<lru, res>>
  /\ UNCHANGED <<val, free, inProg, closed, cur, callno, leader, waitOn, ncalls, computed, failed, sched>>

Compute(p, ok) ==
  /\ pc[p] = "compute"
  /\ IF ok
     THEN /\ computed' = computed \cup {<<cur[p], Tok(p)>>}
          /\ res' = [res EXCEPT ![p] = [ok |-> TRUE, v |-> Tok(p)]]
          /\ pc' = [pc EXCEPT ![p] = "add"]
          /\ UNCHANGED failed
     ELSE /\ failed' = failed \cup {<<cur[p], Tok(p)>>}
          /\ res' = [res EXCEPT ![p] = [ok |-> FALSE, v |-> Tok(p)]]
          /\ pc' = [pc EXCEPT ![p] = IF Twin = "no_cleanup_on_fail" THEN "ret" ELSE After(p)]
          /\ UNCHANGED computed
  /\ sched' = IF Record THEN Append(sched, 100 * p + 50 + (IF ok THEN 1 ELSE 0)) ELSE sched
  /\ UNCHANGED <<lru, val, free, inProg, closed, cur, callno, leader, waitOn, ncalls>>

Add(p) ==
  /\ pc[p] = "add"
  /\ LET id == cur[p]
         e  == IF Twin = "evict_once" THEN EvictOnce(lru, free, Cost[id]) ELSE EvictFor(lru, free, Cost[id])
     IN IF Cost[id] > Size \/ (InCache(id) /\ Twin # "no_contains")
        THEN UNCHANGED <<lru, val, free>>
        ELSE /\ lru' = Append(Without(e.s, id), id)
             /\ free' = e.f - Cost[id]
             /\ val' = [i \in Ids |-> IF i = id THEN Tok(p)
                                      ELSE IF \E k \in DOMAIN e.s : e.s[k] = i THEN val[i] ELSE None]
  /\ pc' = [pc EXCEPT ![p] = After(p)]
  /\ UNCHANGED <<inProg, closed, cur, callno, leader, waitOn, res, ncalls, computed, failed, sched>>

Unreg(p) ==
  /\ pc[p] = "unreg"
  /\ inProg' = [inProg EXCEPT ![cur[p]] = None]
  /\ pc' = [pc EXCEPT ![p] = "close"]
  /\ UNCHANGED <<lru, val, free, closed, cur, callno, leader, waitOn, res, ncalls, computed, failed, sched>>

Close(p) ==
  /\ pc[p] = "close"
  /\ closed' = closed \cup {Tok(p)}
  /\ pc' = [pc EXCEPT ![p] = "ret"]
  /\ UNCHANGED <<lru, val, free, inProg, cur, callno, leader, waitOn, res, ncalls, computed, failed, sched>>

Ret(p) ==
  /\ pc[p] = "ret"
  /\ pc' = [pc EXCEPT ![p] = "idle"]
  /\ UNCHANGED <<lru, val, free, inProg, closed, cur, callno, leader, waitOn, res, ncalls, computed, failed, sched>>

Internal == \E p \in Procs : Get1(p) \/ Chk(p) \/ Wait(p) \/ Get2(p) \/ Add(p) \/ Unreg(p) \/ Close(p) \/ Ret(p)
Control  == \E p \in Procs : (\E id \in Ids : Call(p, id)) \/ (\E ok \in BOOLEAN : Compute(p, ok))

InternalEnabled == \E p \in Procs : \/ pc[p] \in {"get1", "chk", "get2", "add", "unreg", "close", "ret"}
                                    \/ (pc[p] = "wait" /\ waitOn[p] \in closed)

AllDone == /\ \A p \in Procs : pc[p] = "idle"
           /\ (ncalls = MaxCalls \/ \A p \in Procs : callno[p] = MaxPerProc)
Finished == AllDone /\ UNCHANGED vars

Next  == Internal \/ Control \/ Finished
NextQ == Internal \/ (~InternalEnabled /\ Control) \/ Finished

Spec  == Init /\ [][Next]_vars /\ WF_vars(Internal \/ Control)
SpecQ == Init /\ [][NextQ]_vars
\* for TLC's simulation mode (run with deadlock checking off): a behaviour simply ends when all calls returned
SpecQS == Init /\ [][Internal \/ (~InternalEnabled /\ Control)]_vars

---------------------------------------------------------------------------
\* the properties (shared operators of BlobLRUProps)
Budget     == BudgetOK(CostsOf(lru), Size)
Accounting == AccountingOK(CostsOf(lru), free, Size)
NoDup      == NoDupOK(lru)
CacheVal   == \A i \in DOMAIN lru : ValueOK(lru[i], val[lru[i]], computed)
ResultOK   == \A p \in Procs : pc[p] = "ret" =>
                IF res[p].ok THEN ValueOK(cur[p], res[p].v, computed)
                             ELSE ErrorOK(cur[p], res[p].v, failed) /\ res[p].v = Tok(p)
\* every lookup returns: deadlock freedom (checked by TLC's deadlock check, `Finished` being the
\* only legal end) and, as a temporal property, termination
Termination == <>[]AllDone

\* schedule emission for the replay (only under SpecQ with Record = TRUE)
EmitSched == (Record /\ AllDone) => PrintT(<<"SCHED", sched>>)

\* state view without the history of the schedule
View == <<lru, val, free, inProg, closed, pc, cur, callno, leader, waitOn, res, ncalls, computed, failed>>
=============================================================================
