SPECIFICATION Spec
