SPECIFICATION Spec
CONSTANTS
  MaxDamage = 1
  Variant = "rp_first_blob_only"
CONSTRAINT Bound
INVARIANTS
  NoNewLoss
  RepairIndexPost
PROPERTIES
  SalvageRule
CHECK_DEADLOCK FALSE
