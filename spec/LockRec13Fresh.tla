---- MODULE LockRec13Fresh ----
(* C13, classification of rejected records: only FreshWhileActive *)
EXTENDS LockObs
RecOK(r) == \A k \in 1..Len(r.obs) : FreshWhileActive(r.obs[k])
====
