SPECIFICATION Spec
