------------------------------ MODULE Fn_Tags ------------------------------
(***************************************************************************)
(* C25: reference model of `restic tag`.  Tags are sequences (the snapshot *)
(* format keeps a list, duplicates can be stored); the statement speaks    *)
(* about them as sets.                                                     *)
(***************************************************************************)
EXTENDS Sequences, FiniteSets, Naturals

SetOf(s) == {s[i] : i \in DOMAIN s}

\* `tag --add A --remove R`: every tag of A not in R is carried, no tag of R
\* is carried, nothing is invented, tags not mentioned stay
AddRemovePost(old, add, rem, new) ==
  /\ (SetOf(add) \ SetOf(rem)) \subseteq SetOf(new)
  /\ SetOf(new) \cap SetOf(rem) = {}
  /\ SetOf(new) \subseteq (SetOf(old) \cup SetOf(add))
  /\ (SetOf(old) \ SetOf(rem)) \subseteq SetOf(new)

\* `tag --set L`: tags are exactly L (`--set ""` means no tags)
SetPost(L, new) ==
  IF L = <<"">> THEN SetOf(new) = {} ELSE SetOf(new) = SetOf(L)

\* one recorded application of the real code
\*  r.op      "set" | "addremove"
\*  r.old/new tag lists before / after;  r.set, r.add, r.rem  the arguments
\*  r.others_same  every other snapshot field is unchanged
\*  r.count_same   the number of snapshots did not change
RecOK(r) ==
  /\ r.others_same /\ r.count_same
  /\ IF r.op = "set" THEN SetPost(r.set, r.new)
     ELSE AddRemovePost(r.old, r.add, r.rem, r.new)
=============================================================================
