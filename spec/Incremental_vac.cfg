SPECIFICATION Spec
CONSTANTS
  Paths = {"a", "d", "d/x"}
  EditPlan <- Plan11
  Twin = FALSE
  Modes = {"inc", "incskip", "force", "forceskip"}
  Emit = FALSE
INVARIANT NeverOmits
VIEW View
CHECK_DEADLOCK FALSE
