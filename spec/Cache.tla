------------------------------- MODULE Cache -------------------------------
(***************************************************************************)
(* C38: the local cache never changes what restic reads.                   *)
(*                                                                         *)
(* This module states the property on records of real executions           *)
(* (RecOK, evaluated by TLC on every record the harness wrote) and         *)
(* defines the bounded scenario spaces that TLC enumerates for the harness *)
(* (CacheGen.tla serialises them):                                         *)
(*                                                                         *)
(*  "script" scenarios (one process, one file, sequential): a sequence of  *)
(*     load     the repository-level read under test                       *)
(*     flip     another process/disk flips a byte of the cached file       *)
(*     trunc    the cached file is cut short (partially written)           *)
(*     rm       the cached file is deleted by another process              *)
(*     rmdir    the whole cache directory is deleted by another process    *)
(*     delrepo  the file is deleted from the repository (prune elsewhere)  *)
(*     list     restic lists the file type (which clears stale entries)    *)
(*     berr     the next download of the file from the repository fails    *)
(*              once with a transient error (whoever downloads next)       *)
(*     warm     another restic process (fresh Cache object on the same     *)
(*              directory) reads the file in the standard verified way     *)
(*              (LoadRaw / LoadBlob) - the cache is filled by somebody     *)
(*              else, this process' per-run state is untouched             *)
(*   so that every cache state of the statement (empty, good, stale,       *)
(*   partially written, corrupted, cleared) x every next operation is      *)
(*   reached.                                                              *)
(*                                                                         *)
(*  "conc" scenarios: loaders of the same file in the same process (they   *)
(*   share the in-progress map), a loader in a second process sharing the  *)
(*   cache directory, a raw (unverified, backend level) reader in that     *)
(*   second process, downloads stopped at gates (before the first byte /   *)
(*   half way), failing downloads, and a third party that deletes,         *)
(*   clears or corrupts the cached file between any two steps.             *)
(*                                                                         *)
(* The protocol itself (in-progress map, temp+rename, forget-and-retry,    *)
(* circuit breaker) is modelled and model checked in CacheProc.tla.        *)
(***************************************************************************)
EXTENDS Naturals, Sequences, FiniteSets, TLC

\* ----------------------------------------------------------- vocabulary
FTypes == {"index", "snapshot", "treepack", "datapack"}
\* file types restic stores in the cache on its own
AutoCached(ft) == ft \in {"index", "snapshot", "treepack"}

OpsOf(ft) ==
  CASE ft = "index"    -> {"LoadRaw", "LoadUnpacked"}
    [] ft = "snapshot" -> {"LoadRaw", "LoadUnpacked"}
    [] ft = "treepack" -> {"LoadBlob", "ListPack", "StreamPack", "RawRange", "CheckPack"}
    [] ft = "datapack" -> {"LoadBlob", "ListPack", "CheckPack"}
\* RawRange is a backend-level ranged read through the cache: no hash is checked at that level
Verified(op) == op # "RawRange"
\* CheckPack (check --read-data, whole-pack verification) and ListPack (pack header) read a cached pack when
\* there is one but never store a pack in the cache (plain pack handle): after they met a damaged copy the copy is
\* gone and the next ordinary metadata read replaces it.  CheckPack by design reports the first, failed attempt as an
\* error ("check successful on second attempt").
Recaches(op) == op \notin {"CheckPack", "ListPack"}
HealedResult(op) == IF op = "CheckPack" THEN {"good", "err"} ELSE {"good"}

Steps == {"load", "flip", "trunc", "rm", "rmdir", "delrepo", "list", "berr", "warm"}

RECURSIVE SeqsUpTo(_, _)
SeqsUpTo(S, n) == IF n = 0 THEN {<< >>}
                  ELSE LET shorter == SeqsUpTo(S, n - 1)
                       IN shorter \cup {Append(s, x) : s \in {t \in shorter : Len(t) = n - 1}, x \in S}

\* scripts: up to n steps, the last one a load
Scripts(n) == {Append(s, "load") : s \in SeqsUpTo(Steps, n - 1)}

TypeOps == {<<ft, op>> : ft \in FTypes, op \in UNION {OpsOf(f) : f \in FTypes}} \cap
           {x \in FTypes \X (UNION {OpsOf(f) : f \in FTypes}) : x[2] \in OpsOf(x[1])}
ScriptScenarios(n) ==
  {[kind |-> "script", ftype |-> x[1], op |-> x[2], script |-> s] : x \in TypeOps, s \in Scripts(n)}

\* concurrent schedules
\*   L   start a repository-level loader in process A        M  the same in process B (own Cache object, same directory)
\*   R   start a raw backend-level reader in process B
\*   rel advance the oldest stopped download by one gate     relnew  the newest one
\*   fail  let the oldest stopped download fail
\*   relpost  let the oldest stopped download run to its end and stop it once more after the last byte was
\*            consumed (the file is stored in the cache, the download call has not returned yet)
\*   xrm / xclear / xflip   third party deletes the cached file / clears the file type / corrupts the cached file
Starts == {"L", "M", "R"}
Ctl    == {"rel", "relnew", "fail", "relpost"}
Ext    == {"xrm", "xclear", "xflip"}
CountIn(s, S) == Cardinality({i \in DOMAIN s : s[i] \in S})
Schedules(n) ==
  {s \in SeqsUpTo(Starts \cup Ctl \cup Ext, n) :
      /\ Len(s) >= 2
      /\ s[1] \in Starts
      /\ CountIn(s, Starts) \in 2..3
      /\ CountIn(s, {"M"}) <= 1 /\ CountIn(s, {"R"}) <= 1
      /\ CountIn(s, Ext) <= 1 /\ CountIn(s, {"fail"}) <= 1 /\ CountIn(s, {"relpost"}) <= 1
      \* a control step needs somebody who may be stopped
      /\ \A i \in DOMAIN s : s[i] \in Ctl => i > 1}

ConcScenarios(n) ==
  [kind : {"conc"}, ftype : {"index", "snapshot", "treepack"}, init : {"absent", "good", "bad"}, schedule : Schedules(n)]

\* ------------------------------------------------------------- the oracle
\* Script record: r.res[i] = [out, cache, applied, bfault]
\*   out     "good"  the load returned exactly the repository's bytes / blobs
\*           "err"   the load failed
\*           "wrong" the load returned something else without an error
\*           "na"    not a load
\*   cache   state of the cached file after the step: "absent" | "good" (= repository bytes) | "bad"
\*   applied the damage step found a cached file to damage
\*   bfault  a download failed during this step because of an earlier "berr"
\*
\* The fold tracks what the statement needs: is the file still in the repository, is the cached copy
\* damaged inside the region the operation reads, did this process already use its single forget for the
\* file (circuit breaker: documented "delete a file at most once while restic runs"), is the cache
\* directory gone.
St0 == [inrepo |-> TRUE, dmg |-> FALSE, forgot |-> FALSE, dirgone |-> FALSE]

StepOK(r, i, s) ==
  LET a  == r.script[i]
      o  == r.res[i]
      before == IF i = 1 THEN "absent" ELSE r.res[i - 1].cache
  IN
  CASE a = "load" ->
         \* every load returns the same bytes as the repository or fails
         /\ (Verified(r.op) \/ ~s.dmg) => o.out \in {"good", "err"}
         \* nothing anywhere holds the bytes any more: the load fails
         /\ (~s.inrepo /\ before = "absent") => o.out = "err"
         \* a corrupted / partial cached file is detected and replaced (first time in this process; a Forget that
         \* found nothing to delete does not count); when the fresh download itself fails the load may fail, and
         \* an operation that never fills the cache leaves it without the damaged copy
         /\ (Verified(r.op) /\ s.dmg /\ ~s.forgot /\ s.inrepo /\ ~s.dirgone /\ AutoCached(r.ftype) /\ ~o.bfault)
               => /\ o.out \in HealedResult(r.op)
                  /\ IF Recaches(r.op) THEN o.cache = "good" ELSE o.cache # "bad"
         \* restic itself never produces a bad cached file
         /\ (~s.dmg /\ o.cache # "bad")  \/ s.dmg
    [] a = "warm" ->
         \* the other process is restic too: its verified read returns the right bytes or fails and does not
         \* produce a bad cached file (it reads its own byte range, so it need not meet the damage)
         /\ o.out \in {"good", "err"}
         /\ (~s.inrepo /\ before = "absent") => o.out = "err"
         /\ (~s.dmg /\ o.cache # "bad")  \/ s.dmg
    [] a = "list" ->
         \* listing drops cached files that are no longer in the repository
         (~s.inrepo /\ ~s.dirgone) => o.cache = "absent"
    [] OTHER -> TRUE

StepNext(r, i, s) ==
  LET a == r.script[i]
      o == r.res[i]
  IN
  CASE a = "load"    -> IF s.dmg /\ Verified(r.op)
                        THEN [s EXCEPT !.forgot = TRUE, !.dmg = (o.cache = "bad")]
                        ELSE [s EXCEPT !.dmg = (s.dmg /\ o.cache = "bad")]
    [] a \in {"flip", "trunc"} -> IF o.applied THEN [s EXCEPT !.dmg = TRUE] ELSE s
    [] a = "rm"      -> [s EXCEPT !.dmg = FALSE]
    [] a = "rmdir"   -> [s EXCEPT !.dmg = FALSE, !.dirgone = TRUE]
    [] a = "delrepo" -> [s EXCEPT !.inrepo = FALSE]
    [] a \in {"list", "warm"} -> [s EXCEPT !.dmg = (s.dmg /\ o.cache = "bad")]
    [] OTHER         -> s

RECURSIVE ScriptOKFrom(_, _, _)
ScriptOKFrom(r, i, s) ==
  IF i > Len(r.script) THEN TRUE
  ELSE StepOK(r, i, s) /\ ScriptOKFrom(r, i + 1, StepNext(r, i, s))

\* first step that breaks the property (0 = none), for the violation key
RECURSIVE FirstBadFrom(_, _, _)
FirstBadFrom(r, i, s) ==
  IF i > Len(r.script) THEN 0
  ELSE IF ~StepOK(r, i, s) THEN i ELSE FirstBadFrom(r, i + 1, StepNext(r, i, s))
FirstBad(r) == FirstBadFrom(r, 1, St0)

ScriptOK(r) == Len(r.res) = Len(r.script) /\ ScriptOKFrom(r, 1, St0)

\* Concurrent record: r.loaders[j] = [actor, level ("repo" | "raw"), out], r.final = cache state when
\* everybody is done, r.damaged = the cached file was corrupt at the start or corrupted by the third party
ConcOK(r) ==
  LET damaged == r.init = "bad" \/ \E i \in DOMAIN r.schedule : r.schedule[i] = "xflip"
  IN /\ \A j \in DOMAIN r.loaders :
          LET l == r.loaders[j] IN
          \* repository-level loads are verified; raw reads can only be judged when nobody corrupted the cache
          (l.level = "repo" \/ ~damaged) => l.out \in {"good", "err"}
     \* restic never leaves a partial / wrong file under the final name on its own, and a copy that was
     \* corrupt at the start has been detected by every verified loader: it cannot survive
     /\ ((\A i \in DOMAIN r.schedule : r.schedule[i] # "xflip")
          /\ (r.init = "bad" => \E j \in DOMAIN r.loaders : r.loaders[j].level = "repo"))
            => r.final # "bad"

RecOK(r) == IF r.kind = "script" THEN ScriptOK(r) ELSE ConcOK(r)
=============================================================================
