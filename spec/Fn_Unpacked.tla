---------------------------- MODULE Fn_Unpacked ----------------------------
(***************************************************************************)
(* C07: index, snapshot, lock and config files decode to what was saved.   *)
(*                                                                         *)
(* Reference model of the "Unpacked Data Format" of doc/design.rst:        *)
(*   version 1: plaintext = document                                       *)
(*   version 2: plaintext = encoding_version || data                       *)
(*              encoding_version '[' / '{' : whole plaintext is the        *)
(*              document (legacy JSON), 0x02: data = zstd(document),       *)
(*              anything else: unknown -> rejected                         *)
(*   the config file is never encoded (it tells the version)               *)
(*                                                                         *)
(* Bytes are abstracted by the Go driver into classes:                     *)
(*   first  class of the first plaintext byte of a stored file:            *)
(*          "empty" | "bracket" | "brace" | "two" | "other"                *)
(*   body   what follows a 0x02 byte: "zstd_ok" (a zstandard stream the    *)
(*          driver's own decoder accepts) | "zstd_bad" | "none"            *)
(*   stored how the plaintext of the file written by SaveUnpacked relates  *)
(*          to the payload: "identity" | "v2z" (0x02 || zstd stream that   *)
(*          the driver's own decoder turns back into the payload) |        *)
(*          "other"                                                        *)
(*   same   the bytes returned by LoadUnpacked equal the expected          *)
(*          document byte for byte (Go comparison)                         *)
(***************************************************************************)
EXTENDS Naturals, Sequences

Types == {"index", "snapshot", "lock", "config"}

\* ------------------------------------------------------------------ load --
\* decision table for a stored plaintext: "doc" = the plaintext itself is the document, "unzstd" = the
\* decompressed data is the document, "reject", "open" = the statement does not say (damaged zstd stream)
Decode(version, type, first, body) ==
  IF type = "config" \/ version = 1 THEN "doc"
  ELSE CASE first = "empty"                 -> "doc"
         [] first \in {"bracket", "brace"}  -> "doc"
         [] first = "two" /\ body = "zstd_ok"  -> "unzstd"
         [] first = "two"                   -> "open"
         [] OTHER                           -> "reject"

\* r: one LoadUnpacked of a file the driver stored itself (legacy / foreign encodings)
\*    r.expect_same: returned bytes = plaintext (for "doc") resp. = driver-decompressed data (for "unzstd")
LoadOK(r) ==
  LET d == Decode(r.version, r.type, r.first, r.body) IN
  /\ ~r.panic
  /\ d = "reject" => r.load_err
  /\ d \in {"doc", "unzstd"} => (~r.load_err /\ r.expect_same)

\* ------------------------------------------------------------- roundtrip --
\* which stored forms are legal for a payload whose first byte has class pfirst
StoredLegal(version, type, pfirst, stored) ==
  IF type = "config" \/ version = 1 THEN stored = "identity"          \* never encoded
  ELSE \/ stored = "v2z"
       \/ stored = "identity" /\ pfirst \in {"bracket", "brace"}      \* legacy JSON form stays readable

\* r: SaveUnpacked(payload) then LoadUnpacked with a freshly opened repository
RoundTripOK(r) ==
  /\ ~r.panic
  /\ ~r.save_err /\ ~r.load_err
  /\ r.same                                              \* Load(Save(x)) = x
  /\ StoredLegal(r.version, r.type, r.pfirst, r.stored)
  /\ r.type = "config" => r.stored = "identity"          \* "the config file round-trips uncompressed"

RecOK(r) ==
  /\ r.type \in Types /\ r.version \in {1, 2}
  /\ IF r.op = "roundtrip" THEN RoundTripOK(r) ELSE LoadOK(r)

\* ---------------------------------------------------------------------------
\* model sanity (evaluated by TLC in the check): whatever legal form Save chooses, Decode gives the
\* document back -- the decision table is consistent with the round-trip claim
FirstOf(stored, pfirst) == IF stored = "v2z" THEN "two" ELSE pfirst
BodyOf(stored) == IF stored = "v2z" THEN "zstd_ok" ELSE "none"
PFirsts == {"empty", "bracket", "brace", "two", "other"}
Consistent ==
  \A v \in {1, 2}, t \in Types, pf \in PFirsts, st \in {"identity", "v2z"} :
     StoredLegal(v, t, pf, st) =>
        Decode(v, t, FirstOf(st, pf), BodyOf(st)) = (IF st = "v2z" THEN "unzstd" ELSE "doc")
ASSUME Consistent
=============================================================================
