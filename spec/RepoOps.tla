------------------------------ MODULE RepoOps ------------------------------
(***************************************************************************)
(* Command-level model of a repository's life, used to GENERATE operation  *)
(* histories (tlc -simulate) that the harness executes with the real       *)
(* commands (C15, C29, C31, C32).  State is what decides which commands    *)
(* make sense next: number of snapshots, format version, number of keys,   *)
(* whether waste / a crashed command's leftovers exist, whether the        *)
(* repository is damaged in a way a repair command is meant for.           *)
(* A crash of a command at its k-th mutating backend operation is written  *)
(* "<cmd>!k"; its effect on the counters is nondeterministic (the command  *)
(* may or may not have got far enough), the harness follows reality.       *)
(***************************************************************************)
EXTENDS Naturals, Sequences, TLC, SequencesExt

CONSTANTS MaxLen,      \* history length
          MaxSnaps,    \* bound on the number of snapshots
          CrashPoints, \* set of k for "!k" variants
          Family       \* "all" | "keys" | "upgrade" | "copy" | "copydst" (scripted, enumerated exhaustively)

VARIABLES hist, snaps, ver, nkeys, waste, copied

vars == <<hist, snaps, ver, nkeys, waste, copied>>

Init == /\ hist = << >> /\ snaps = 0 /\ ver \in {1, 2} /\ nkeys = 1 /\ waste = FALSE /\ copied = FALSE
        /\ (Family = "upgrade" => ver = 1)

Emit(s) == hist' = Append(hist, s)
N(k)    == ToString(k)
In(f)   == Family \in f

Backup ==
  /\ In({"all", "copy", "upgrade", "keys"}) /\ snaps < MaxSnaps
  /\ \E v \in 0..3 : Emit("backup:" \o N(v))
  /\ snaps' = snaps + 1 /\ UNCHANGED <<ver, nkeys, waste, copied>>

BackupCrash ==
  /\ In({"all", "copy"}) /\ snaps < MaxSnaps
  /\ \E k \in CrashPoints : Emit("backup!" \o N(k))
  /\ snaps' \in {snaps, snaps + 1} /\ waste' = TRUE /\ UNCHANGED <<ver, nkeys, copied>>

Forget ==
  /\ In({"all", "copy"}) /\ snaps > 1
  /\ \E w \in 0..2 : Emit("forget:" \o N(w))
  /\ snaps' = snaps - 1 /\ waste' = TRUE /\ UNCHANGED <<ver, nkeys, copied>>

ForgetPrune ==
  /\ In({"all"}) /\ snaps > 1
  /\ \E w \in 0..2 : Emit("forget-prune:" \o N(w))
  /\ snaps' = snaps - 1 /\ waste' = FALSE /\ UNCHANGED <<ver, nkeys, copied>>

\* "?k": the k-th mutating backend operation of the command fails (the command goes on or gives up as it likes)
ForgetPruneFault ==
  /\ In({"all"}) /\ snaps > 2
  /\ \E k \in CrashPoints : Emit("forget-prune:2?" \o N(k))
  /\ snaps' \in {snaps, snaps - 1, snaps - 2} /\ waste' = TRUE /\ UNCHANGED <<ver, nkeys, copied>>

PruneFault ==
  /\ In({"all"}) /\ snaps > 0 /\ waste
  /\ \E k \in CrashPoints : Emit("prune:0?" \o N(k))
  /\ UNCHANGED <<snaps, ver, nkeys, waste, copied>>

BackupFault ==
  /\ In({"all"}) /\ snaps < MaxSnaps
  /\ \E k \in CrashPoints : Emit("backup:1?" \o N(k))
  /\ snaps' \in {snaps, snaps + 1} /\ waste' = TRUE /\ UNCHANGED <<ver, nkeys, copied>>

Prune ==
  /\ In({"all", "copy"}) /\ snaps > 0
  /\ \E o \in 0..3 : Emit("prune:" \o N(o))
  /\ waste' = FALSE /\ UNCHANGED <<snaps, ver, nkeys, copied>>

PruneCrash ==
  /\ In({"all"}) /\ snaps > 0 /\ waste
  /\ \E k \in CrashPoints : Emit("prune!" \o N(k))
  /\ UNCHANGED <<snaps, ver, nkeys, waste, copied>>

Tag ==
  /\ In({"all", "copy"}) /\ snaps > 0
  /\ \E w \in 0..2 : Emit("tag:" \o N(w))
  /\ UNCHANGED <<snaps, ver, nkeys, waste, copied>>

TagCrash ==
  /\ In({"all"}) /\ snaps > 0
  /\ \E k \in {1, 2} : Emit("tag!" \o N(k))
  /\ snaps' \in {snaps, IF snaps < MaxSnaps THEN snaps + 1 ELSE snaps} /\ UNCHANGED <<ver, nkeys, waste, copied>>

Rewrite ==
  /\ In({"all", "copy"}) /\ snaps > 0
  /\ \E w \in 0..2, f \in {"rewrite:", "rewrite-forget:"} : Emit(f \o N(w))
  /\ snaps' \in {snaps, IF snaps < MaxSnaps THEN snaps + 1 ELSE snaps} /\ waste' = TRUE
  /\ UNCHANGED <<ver, nkeys, copied>>

RewriteCrash ==
  /\ In({"all"}) /\ snaps > 0
  /\ \E k \in CrashPoints : Emit("rewrite-forget!" \o N(k))
  /\ snaps' \in {snaps, IF snaps < MaxSnaps THEN snaps + 1 ELSE snaps} /\ waste' = TRUE
  /\ UNCHANGED <<ver, nkeys, copied>>

Copy ==
  /\ In({"all", "copy"}) /\ snaps > 0
  /\ Emit("copy") /\ copied' = TRUE
  /\ UNCHANGED <<snaps, ver, nkeys, waste>>

CopyCrash ==
  /\ In({"copy"}) /\ snaps > 0
  /\ \E k \in CrashPoints : Emit("copy!" \o N(k))
  /\ UNCHANGED <<snaps, ver, nkeys, waste, copied>>

\* maintenance of the copy destination between copies: a forgotten snapshot is copied again later
DstForget ==
  /\ In({"all", "copy"}) /\ copied
  /\ \E w \in 0..2 : Emit("dst-forget:" \o N(w))
  /\ UNCHANGED <<snaps, ver, nkeys, waste, copied>>

DstPrune ==
  /\ In({"all", "copy"}) /\ copied
  /\ \E o \in 0..3 : Emit("dst-prune:" \o N(o))
  /\ UNCHANGED <<snaps, ver, nkeys, waste, copied>>

\* scripted family "copydst" (enumerated exhaustively, not sampled): two backups, a copy (complete or killed),
\* maintenance of the DESTINATION (forget + prune, or repair index after the killed copy), then two more copies.
\* The first backup holds no file data, so that after forgetting the second one the destination's data pack is
\* unused as a whole while its tree pack is still needed.
\* The destination may then hold trees whose data is gone (prune --max-repack-size 0 keeps the tree pack) or
\* packs that no index names: copy must still produce a complete, checkable destination.
CopyDst ==
  /\ Family = "copydst"
  /\ LET n == Len(hist) IN
       \/ n = 0 /\ Emit("backup:9")          \* 9: directories and empty files only
       \/ n = 1 /\ Emit("backup:1")
       \/ n = 2 /\ (Emit("copy") \/ \E k \in CrashPoints : Emit("copy!" \o N(k)))
       \/ n = 3 /\ (IF hist[3] = "copy" THEN \E w \in 0..1 : Emit("dst-forget:" \o N(w)) ELSE Emit("dst-repair-index"))
       \/ n = 4 /\ (IF hist[3] = "copy" THEN \E o \in {0, 2} : Emit("dst-prune:" \o N(o)) ELSE Emit("copy"))
       \/ n = 5 /\ Emit("copy")
  /\ UNCHANGED <<snaps, ver, nkeys, waste, copied>>

\* scripted family "forgetfault": three backups, then forget --prune of two snapshots while the k-th mutating
\* operation of that command fails (one snapshot file cannot be removed, an index cannot be written, ...), then a
\* clean prune: what is still listed must stay complete
ForgetFault ==
  /\ Family = "forgetfault"
  /\ LET n == Len(hist) IN
       \/ n \in 0..2 /\ Emit("backup:" \o N(n))
       \/ n = 3 /\ \E k \in 1..6 : Emit("forget-prune:2?" \o N(k))
       \/ n = 4 /\ Emit("prune:0")
       \/ n = 5 /\ Emit("backup:1")
  /\ UNCHANGED <<snaps, ver, nkeys, waste, copied>>

\* scripted family "copyorig": snapshots that share an Original (rewrite without --forget, tag) are copied,
\* edited again and copied again: every copy after a complete copy must find all of them already there
CopyOrig ==
  /\ Family = "copyorig"
  /\ LET n == Len(hist) IN
       \/ n = 0 /\ Emit("backup:0")
       \/ n = 1 /\ (Emit("rewrite:0") \/ Emit("tag:0") \/ Emit("rewrite-forget:0"))
       \/ n \in {2, 3} /\ Emit("copy")
       \/ n = 4 /\ (Emit("tag:0") \/ Emit("rewrite:1"))
       \/ n = 5 /\ Emit("copy")
  /\ UNCHANGED <<snaps, ver, nkeys, waste, copied>>

Joined(h) == FoldLeft(LAMBDA a, b : IF a = "" THEN b ELSE a \o " " \o b, "", h)
\* "invariant" of the scripted family: prints every complete history once (BFS run)
PrintComplete == (Family \in {"copydst", "forgetfault", "copyorig"} /\ Len(hist) = 6) => PrintT("HIST " \o Joined(hist))

DstRepairIndex ==
  /\ In({"copy"}) /\ copied
  /\ Emit("dst-repair-index") /\ UNCHANGED <<snaps, ver, nkeys, waste, copied>>

RepairIndex ==
  /\ In({"all"}) /\ snaps > 0
  /\ Emit("repair-index") /\ UNCHANGED <<snaps, ver, nkeys, waste, copied>>

RepairSnapshots ==
  /\ In({"all"}) /\ snaps > 0
  /\ Emit("repair-snapshots") /\ UNCHANGED <<snaps, ver, nkeys, waste, copied>>

KeyAdd ==
  /\ In({"all", "keys"}) /\ nkeys < 3
  /\ \E pw \in 0..2 : Emit("key-add:" \o N(pw))
  /\ nkeys' = nkeys + 1 /\ UNCHANGED <<snaps, ver, waste, copied>>

KeyAddCrash ==
  /\ In({"keys"}) /\ nkeys < 3
  /\ \E pw \in 0..2, k \in {1, 2} : Emit("key-add:" \o N(pw) \o "!" \o N(k))
  /\ nkeys' \in {nkeys, nkeys + 1} /\ UNCHANGED <<snaps, ver, waste, copied>>

KeyPasswd ==
  /\ In({"all", "keys"})
  /\ \E pw \in 0..2 : Emit("key-passwd:" \o N(pw))
  /\ UNCHANGED <<snaps, ver, nkeys, waste, copied>>

KeyPasswdCrash ==
  /\ In({"keys"})
  /\ \E pw \in 0..2, k \in {1, 2, 3} : Emit("key-passwd:" \o N(pw) \o "!" \o N(k))
  /\ nkeys' \in {nkeys, IF nkeys < 3 THEN nkeys + 1 ELSE nkeys} /\ UNCHANGED <<snaps, ver, waste, copied>>

KeyRemove ==
  /\ In({"all", "keys"}) /\ nkeys > 1
  /\ \E w \in 0..2 : Emit("key-remove:" \o N(w))
  /\ nkeys' = nkeys - 1 /\ UNCHANGED <<snaps, ver, waste, copied>>

KeyRemoveCurrent ==
  /\ In({"keys"})
  /\ Emit("key-remove-current") /\ UNCHANGED <<snaps, ver, nkeys, waste, copied>>

\* `recover` builds a snapshot from the root trees no snapshot references (left by interrupted backups, forget).
\* It is NOT part of family "all" (C15): by design it takes whatever trees it finds, including trees of an
\* interrupted backup whose data packs never arrived, and `check` then rightly reports the recovered snapshot as
\* incomplete (observed: backup with a failed data-pack upload, then recover).  Family "recover" is for
\* experiments only.
Recover ==
  /\ In({"recover"}) /\ snaps < MaxSnaps /\ waste
  /\ Emit("recover") /\ snaps' = snaps + 1 /\ UNCHANGED <<ver, nkeys, waste, copied>>

RecoverCrash ==
  /\ In({"recover"}) /\ waste
  /\ \E k \in CrashPoints : Emit("recover!" \o N(k))
  /\ UNCHANGED <<snaps, ver, nkeys, waste, copied>>

Upgrade ==
  /\ In({"all", "upgrade"}) /\ ver = 1
  /\ Emit("upgrade") /\ ver' = 2 /\ UNCHANGED <<snaps, nkeys, waste, copied>>

Next ==
  /\ Len(hist) < MaxLen
  /\ \/ CopyDst \/ ForgetFault \/ CopyOrig
     \/ Backup \/ BackupCrash \/ Forget \/ ForgetPrune \/ Prune \/ PruneCrash \/ Tag \/ TagCrash
     \/ Rewrite \/ RewriteCrash \/ Copy \/ CopyCrash \/ RepairIndex \/ RepairSnapshots
     \/ KeyAdd \/ KeyAddCrash \/ KeyPasswd \/ KeyPasswdCrash \/ KeyRemove \/ KeyRemoveCurrent \/ Upgrade
     \/ ForgetPruneFault \/ PruneFault \/ BackupFault
     \/ Recover \/ RecoverCrash \/ DstForget \/ DstPrune \/ DstRepairIndex

Spec == Init /\ [][Next]_vars

\* sanity of the generator itself (checked by TLC while simulating)
TypeOK == /\ snaps \in 0..MaxSnaps /\ ver \in {1, 2} /\ nkeys \in 1..3
          /\ Len(hist) <= MaxLen
=============================================================================
