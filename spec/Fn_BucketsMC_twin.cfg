SPECIFICATION Spec
CONSTANT Twin = TRUE
