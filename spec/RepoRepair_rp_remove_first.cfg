SPECIFICATION Spec
CONSTANTS
  MaxDamage = 1
  Variant = "rp_remove_first"
CONSTRAINT Bound
INVARIANTS
  NoNewLoss
  RepairIndexPost
PROPERTIES
  SalvageRule
CHECK_DEADLOCK FALSE
