\* negative twin: only the property it must violate is checked (TLC reports the first violation it meets)
SPECIFICATION Spec
CONSTANTS
  MaxDamage = 1
  Variant = "rp_remove_first"
CONSTRAINT Bound
INVARIANT NoNewLoss
CHECK_DEADLOCK FALSE
