------------------------------- MODULE Fn_Init -------------------------------
(***************************************************************************)
(* C30: init never overwrites an existing repository.                      *)
(*                                                                         *)
(* Statement: init refuses to initialise a location that already holds a   *)
(* config, any key or any snapshot, and otherwise creates a config with a  *)
(* supported version, an irreducible chunker polynomial and a fresh random *)
(* ID, plus one key for the given password.                                *)
(*                                                                         *)
(* One record = one run of the real init on a location prepared with a     *)
(* combination of pre-existing files:                                      *)
(*  r.pre       which kinds of files the location held                     *)
(*  r.version   the requested repository version (0..3)                    *)
(*  r.given     a chunker polynomial was supplied (an irreducible one)     *)
(*  r.ok        init reported success                                      *)
(*  r.unchanged every pre-existing file is still there, byte-identical     *)
(*  r.added     number of new files per kind                               *)
(*  r.cfg       what the new config contains (when one can be loaded with  *)
(*              a key that the given password opens)                       *)
(*  r.keys_pw   number of key files that the given password opens          *)
(* A final record (kind "ids") lists the IDs of all configs created in the *)
(* run together with the IDs of the donor repositories.                    *)
(***************************************************************************)
EXTENDS Sequences, FiniteSets, Naturals, SequencesExt

Supported == {1, 2}
Kinds == {"config", "key", "snapshot", "index", "pack", "lock"}

\* the location already holds a repository (in the sense of the statement)
Holds(pre) == pre.config \/ pre.key \/ pre.snapshot

NothingAdded(a) == \A k \in Kinds : a[k] = 0

Created(r) ==
  /\ r.added.config = 1 /\ r.added.key = 1
  /\ \A k \in Kinds \ {"config", "key"} : r.added[k] = 0
  /\ r.cfg.loadable
  /\ r.cfg.version \in Supported
  /\ (r.version \in Supported => r.cfg.version = r.version)
  /\ r.cfg.irreducible
  /\ (r.given => r.cfg.poly_as_given)
  /\ r.cfg.id_wellformed
  /\ r.keys_pw = 1

InitOK(r) ==
  /\ r.unchanged                                   \* never overwrites, whatever the outcome
  /\ (Holds(r.pre) => ~r.ok)                       \* refuses an existing repository
  /\ (~r.ok => NothingAdded(r.added))              \* a refusal leaves the location as it was
  /\ ((~Holds(r.pre) /\ r.version \in Supported) => r.ok)   \* otherwise creates
  /\ (r.ok => Created(r))

\* fresh random IDs: no ID occurs twice (new ones among each other and against the donors)
IdsOK(r) == Cardinality(ToSet(r.ids)) = Len(r.ids)

\* one of init's own probing operations (Stat config, List keys, List snapshots) fails with a backend error:
\* an existing repository is still refused, nothing is overwritten, a refusal writes nothing
InitFaultOK(r) ==
  /\ r.unchanged
  /\ (Holds(r.pre) => ~r.ok)
  /\ (~r.ok => NothingAdded(r.added))

RecOK(r) == IF r.kind = "ids" THEN IdsOK(r) ELSE IF r.kind = "initfault" THEN InitFaultOK(r) ELSE InitOK(r)
=============================================================================
