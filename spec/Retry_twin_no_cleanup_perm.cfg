SPECIFICATION Spec
CONSTANTS
  MaxLen = 2
  Budget = 3
  Ops = {"save", "load", "stat", "remove", "list"}
  Twin = "no_cleanup_perm"
  Record = FALSE
INVARIANTS
  InvSame
  InvNoPartial
  InvPerm
  ListNever
  Progress
  Conforms

