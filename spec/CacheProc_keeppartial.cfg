SPECIFICATION Spec
CONSTANTS
  Loaders = {"l1"}
  RawReaders = {"r1"}
  Inits = {"absent", "good", "bad"}
  ExtBudget = 1
  Variant = "keeppartial"
INVARIANTS
  ResultOK
  RawOK
  NoBadLeft
  Replaced
PROPERTIES
  Terminates
CHECK_DEADLOCK FALSE
