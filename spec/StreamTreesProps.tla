-------------------------- MODULE StreamTreesProps --------------------------
(***************************************************************************)
(* C42: what a traversal (data.StreamTrees / data.FindUsedBlobs) must      *)
(* deliver, stated declaratively over the tree DAG; used as invariants of  *)
(* the design model StreamTrees.tla and by RecOK on runs of the real code. *)
(* Statement: "Computing the blobs used by a set of snapshots yields       *)
(* exactly the trees and data blobs reachable from their root trees, each  *)
(* tree processed once, for any sharing of subtrees and any worker         *)
(* scheduling."                                                            *)
(* Trees are 1..n; kids[t] = sequence of subtree ids of t (0 = null id),   *)
(* data[t] = sequence of data blob ids referenced by files of t.           *)
(***************************************************************************)
EXTENDS Naturals, Sequences, FiniteSets

Range(s) == {s[i] : i \in DOMAIN s}

\* children that the traversal follows: not the null id; an unreadable tree has no (known) children
KidsOf(kids, bad, t) == IF t \in bad THEN {} ELSE Range(kids[t]) \ {0}

\* least set containing the roots and closed under KidsOf
RECURSIVE ReachR(_, _, _, _)
ReachR(kids, bad, frontier, acc) ==
  IF frontier = {} THEN acc
  ELSE LET new == (UNION {KidsOf(kids, bad, t) : t \in frontier}) \ acc
       IN ReachR(kids, bad, new, acc \cup new)
Reach(kids, bad, roots) == LET r == roots \ {0} IN ReachR(kids, bad, r, r)

DataOf(data, bad, trees) == UNION {Range(data[t]) : t \in trees \ bad}

\* occurrences of x in sequence s
Count(s, x) == Cardinality({i \in DOMAIN s : s[i] = x})

(***************************************************************************)
(* the properties, over: reach = Reach(...), loaded = sequence of trees in *)
(* the order they were loaded/processed, usedTrees/usedData = result sets  *)
(***************************************************************************)
\* no element occurs twice (stated by counting: the records of wide traversals have ~10^4 entries)
AtMostOnce(loaded)        == Cardinality(Range(loaded)) = Len(loaded)
ExactlyReach(loaded, reach) == Range(loaded) = reach /\ AtMostOnce(loaded)
UsedOK(usedTrees, usedData, reach, data, bad) == usedTrees = reach /\ usedData = DataOf(data, bad, reach)

(***************************************************************************)
(* One recorded run of the real code.                                      *)
(*  r.mode   "find"    FindUsedBlobs (errors abort)                        *)
(*           "stream"  StreamTrees with a visited-set skip and a process   *)
(*                     callback that tolerates unreadable trees            *)
(*  r.kids, r.data, r.roots, r.bad   the DAG (r.bad: missing/undecodable)  *)
(*  r.loaded       trees in the order LoadBlob was called for them         *)
(*  r.processed    trees in the order the process callback ran             *)
(*  r.used_trees, r.used_data   the resulting blob set (mode find)         *)
(*  r.err          the call returned an error                              *)
(*  r.terminated   the call returned                                       *)
(***************************************************************************)
RecReach(r) == Reach(r.kids, Range(r.bad), Range(r.roots))
BadReachable(r) == RecReach(r) \cap Range(r.bad) # {}

RecTerminates(r) == r.terminated
RecOnce(r)       == AtMostOnce(r.loaded) /\ AtMostOnce(r.processed)
                    /\ Range(r.loaded) \subseteq RecReach(r) /\ Range(r.processed) \subseteq RecReach(r)
RecError(r)      == IF r.mode = "find" THEN r.err = BadReachable(r) ELSE ~r.err
RecExact(r)      == (r.terminated /\ ~r.err) =>
                      /\ ExactlyReach(r.loaded, RecReach(r))
                      /\ ExactlyReach(r.processed, RecReach(r))
                      /\ (r.mode = "find" => UsedOK(Range(r.used_trees), Range(r.used_data), RecReach(r), r.data, Range(r.bad)))

RecOK(r) == RecTerminates(r) /\ RecOnce(r) /\ RecError(r) /\ RecExact(r)
=============================================================================
