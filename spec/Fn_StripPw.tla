----------------------------- MODULE Fn_StripPw -----------------------------
(***************************************************************************)
(* C50: for every repository location that restic accepts, the form shown  *)
(* in messages and JSON output contains no password from the location.     *)
(*                                                                         *)
(* Strings are sequences of byte values.  A location with credentials is   *)
(*                                                                         *)
(*    pre  user [ ":" password ] "@"  rest                                 *)
(*                                                                         *)
(* (pre = "rest:http://" or "rest:https://", rest = host, port, path) -    *)
(* the syntax the user manual documents for the REST backend, the only     *)
(* backend whose location carries a password.  The record must be built    *)
(* from exactly these components (r.loc = Assemble(r.c)), so which bytes   *)
(* are "the password" is decided here and not by the driver.               *)
(*                                                                         *)
(* r.forms lists the spellings of the password that would reveal it: as    *)
(* typed (first), percent-decoded, and percent-encoded in the usual ways.  *)
(* r.shown is what restic displayed at r.site (return value of a           *)
(* StripPassword function, or the complete text of a message / JSON        *)
(* document).                                                              *)
(***************************************************************************)
EXTENDS Sequences, Integers

Colon == 58
At    == 64

Assemble(c) ==
  c.pre \o (IF c.hasuser
            THEN c.user \o (IF c.haspw THEN <<Colon>> \o c.pw ELSE <<>>) \o <<At>>
            ELSE <<>>) \o c.rest

Contains(h, n) ==
  \E i \in 0..(Len(h) - Len(n)) : \A j \in 1..Len(n) : h[i + j] = n[j]

RecOK(r) ==
  /\ r.loc = Assemble(r.c)
  /\ (r.c.haspw => (r.c.hasuser /\ Len(r.forms) >= 1 /\ r.forms[1] = r.c.pw))
  /\ ((r.accepted /\ r.c.haspw) =>
        /\ r.err = ""
        /\ \A k \in DOMAIN r.forms :
             Len(r.forms[k]) > 0 => ~Contains(r.shown, r.forms[k]))
=============================================================================
