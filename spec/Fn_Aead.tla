------------------------------ MODULE Fn_Aead ------------------------------
(***************************************************************************)
(* C05: authenticated encryption round-trips and rejects every forgery.    *)
(*                                                                         *)
(* The model is the ideal AEAD functionality over tokens:                  *)
(*   Seal(k, n, p) is defined iff k is a valid key and n is not all-zero;  *)
(*   Open(k', x) = p  iff  x is byte-identical to Seal(k, n, p) and k' = k *)
(*   and fails for every other input.                                      *)
(* TLA+ cannot reason about AES or Poly1305; it is the oracle only.  The   *)
(* Go driver abstracts bytes:                                              *)
(*   * a sealed message is  nonce(16) || ciphertext(L) || tag(16);         *)
(*     forgeries are described by kind and position, the driver reports    *)
(*     how many it tried and WHICH ones the real Open accepted;            *)
(*   * keys are described by their relation to the sealing key.            *)
(* The arithmetic below (in bytes / bits) states how many forgeries of a   *)
(* kind exist, so "every single-bit flip", "every truncation length" is    *)
(* checked, not assumed.                                                   *)
(***************************************************************************)
EXTENDS Naturals, Sequences, FiniteSets

NonceSize == 16
TagSize   == 16
Overhead  == TagSize                  \* crypto.Key.Overhead(): what Open needs at least after the nonce
Extension == NonceSize + TagSize

KeyClasses == {"valid", "zero_enc", "zero_mac_k", "zero_mac_r", "zero_all"}
ValidKey(kc) == kc = "valid"

\* ------------------------------------------------------------------ Seal --
\* r.key_class, r.nonce_zero, r.rejected (Seal panicked instead of returning a ciphertext)
SealOK(r) ==
  /\ r.key_class \in KeyClasses
  /\ r.rejected <=> (~ValidKey(r.key_class) \/ r.nonce_zero)

\* --------------------------------------------------------------- message --
\* one sealed message of r.len plaintext bytes and all forgeries derived from it
\*   r.roundtrip       Open(k, Seal(k, n, p)) = p (in every buffer mode the driver used)
\*   r.sealed_len      length of nonce || ciphertext || tag
\*   r.flip_all        every single-bit flip was tried (else a sample of r.flips_tried)
\*   r.flips_accepted  bit positions whose flip the real Open accepted
\*   r.trunc_*         Open of the first j bytes of ciphertext||tag, j = 0 .. L+15 (nonce kept); r.trunc_all: every j
\*   r.ext_*           Open with 1..r.ext_tried bytes appended
\*   r.other_*         other forgeries (zeroed tag, zeroed nonce, swapped blocks, tag of another message, ...)
BitsOf(len) == 8 * (NonceSize + len + TagSize)

MessageOK(r) ==
  /\ ~r.panic
  /\ r.roundtrip
  /\ r.sealed_len = r.len + Extension
  /\ r.flip_all => r.flips_tried = BitsOf(r.len)
  /\ r.flips_tried >= 1
  /\ r.flips_accepted = <<>>
  /\ r.trunc_all => r.trunc_tried = r.len + TagSize   \* all lengths 0 .. L+15; below Overhead "too short", above: bad tag
  /\ r.trunc_tried >= 1
  /\ r.trunc_accepted = <<>>
  /\ r.ext_accepted = <<>>
  /\ r.other_accepted = <<>>

\* ------------------------------------------------------------------ keys --
\* Open of an untouched sealed message with another key.  r.rel:
\*   "same"             the sealing key (copy)                          -> must open to p
\*   "independent"      an unrelated random key                         -> must fail
\*   "mac_k", "mac_r"   the MAC key differs (r: in a bit Poly1305 uses) -> must fail
\*   "kdf_same"         key derived again from the same password/salt/parameters   -> must open
\*   "kdf_password", "kdf_salt", "kdf_params"   derived from different inputs      -> must fail
\*   "enc_only"         only the AES key differs: Encrypt-then-MAC authenticates the ciphertext, the tag still
\*                      verifies -- not a forgery the construction can see; left open
\*   "mac_r_clamped"    the MAC key differs only in bits Poly1305 ignores by definition; left open
MustOpen == {"same", "kdf_same"}
MustFail == {"independent", "mac_k", "mac_r", "kdf_password", "kdf_salt", "kdf_params"}
LeftOpen == {"enc_only", "mac_r_clamped"}

KeyOK(r) ==
  /\ ~r.panic
  /\ r.rel \in MustOpen \cup MustFail \cup LeftOpen
  /\ r.rel \in MustOpen => (r.ok /\ r.same_plain)
  /\ r.rel \in MustFail => ~r.ok

\* a key handed out by the KDF is a valid key (r.err: the KDF refused the inputs)
KdfOK(r) == ~r.panic /\ (~r.err => r.key_valid)

RecOK(r) ==
  CASE r.op = "seal"    -> SealOK(r)
    [] r.op = "message" -> MessageOK(r)
    [] r.op = "key"     -> KeyOK(r)
    [] r.op = "kdf"     -> KdfOK(r)
    [] OTHER            -> FALSE

\* ------------------------------------------------------------------------
\* the ideal functionality itself, as a tiny model TLC checks with every run: with 2 keys, 2 nonces, 2 plaintexts
\* the sealed messages are pairwise distinct for distinct (k, n, p), and Open inverts Seal exactly
Keys == {"k1", "k2"}  Nonces == {"n1", "n2"}  Plains == {"p1", "p2"}
SealT(k, n, p) == <<k, n, p>>                       \* an injective token for the ciphertext
OpenT(k, x) == IF \E n \in Nonces, p \in Plains : x = SealT(k, n, p) THEN x[3] ELSE "fail"
ASSUME \A k \in Keys, n \in Nonces, p \in Plains :
          /\ OpenT(k, SealT(k, n, p)) = p
          /\ \A k2 \in Keys \ {k} : OpenT(k2, SealT(k, n, p)) = "fail"
=============================================================================
