SPECIFICATION Spec
CONSTANT Twin = "suffix"
INVARIANTS Safe
CHECK_DEADLOCK FALSE
