---------------------------- MODULE Fn_PruneIndex ----------------------------
(***************************************************************************)
(* C10, the index after a completed full prune (no unused-space tolerance, *)
(* no repack limit), as a freshly opened repository loads it.  Unlike the  *)
(* set-valued storage model of RepoTrace.tla this judge sees index entries *)
(* WITH multiplicity (a blob listed twice for one pack, or once for each   *)
(* of two packs).                                                          *)
(*   r.entries  index entries <<blob, pack>> as enumerated by the real     *)
(*              index of a reopened repository, one per entry              *)
(*   r.needed   blobs reachable from the snapshots that remain             *)
(*   r.packs    pack files present in the storage                          *)
(*   r.remain   Blobs.Remain of the statistics the prune reported          *)
(* Statement: the index contains exactly the blobs the remaining snapshots *)
(* need, no blob twice, no pack without entry, no entry for a missing      *)
(* pack, and the reported statistics agree with the repository.            *)
(***************************************************************************)
EXTENDS Naturals, Sequences, FiniteSets

Elems(s) == {s[k] : k \in DOMAIN s}
BlobSeq(es) == [k \in DOMAIN es |-> es[k][1]]

IndexOK(entries, needed, packs, remain) ==
  LET blobs == {e[1] : e \in Elems(entries)}
      pks   == {e[2] : e \in Elems(entries)}
  IN /\ Cardinality(blobs) = Len(entries)        \* no blob twice (neither in two packs nor twice in one)
     /\ blobs = Elems(needed)                     \* exactly the needed blobs
     /\ pks = Elems(packs)                        \* no pack without entry, no entry for a missing pack
     /\ remain = Len(entries)                     \* reported number of remaining blobs

RecOK(r) == IndexOK(r.entries, r.needed, r.packs, r.remain)

\* vacuity control
ASSUME IndexOK(<<<<"b1", "p1">>, <<"b2", "p1">>>>, <<"b1", "b2">>, <<"p1">>, 2)
ASSUME ~IndexOK(<<<<"b1", "p1">>, <<"b2", "p1">>, <<"b1", "p1">>>>, <<"b1", "b2">>, <<"p1">>, 2)
ASSUME ~IndexOK(<<<<"b1", "p1">>, <<"b2", "p1">>, <<"b1", "p2">>>>, <<"b1", "b2">>, <<"p1", "p2">>, 3)
ASSUME ~IndexOK(<<<<"b1", "p1">>, <<"b2", "p1">>>>, <<"b1">>, <<"p1">>, 2)
ASSUME ~IndexOK(<<<<"b1", "p1">>>>, <<"b1">>, <<"p1", "p2">>, 1)
ASSUME ~IndexOK(<<<<"b1", "p1">>>>, <<"b1">>, <<"p1">>, 2)
=============================================================================
