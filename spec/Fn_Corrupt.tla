----------------------------- MODULE Fn_Corrupt -----------------------------
(***************************************************************************)
(* C03: one record = one corruption of one stored file and what the real   *)
(* code did with the damaged repository.                                   *)
(*   r.class   site class of the damaged file / region                      *)
(*   r.kind    flip | truncate | extend | delete                           *)
(*   r.check_err  check --read-data reported an error                      *)
(*   r.outcomes   for every snapshot read back (LoadBlob walk, sampled     *)
(*                restore and dump): "fail" | "same" | "different" |       *)
(*                "different-unreported" (restore ended with "There were N *)
(*                errors" but an item whose content differs from the       *)
(*                backup was not among the items it named)                 *)
(* Every generated file is needed by a snapshot (packs, index, snapshot,   *)
(* config) or needed to open the repository (key), so check must complain. *)
(***************************************************************************)
EXTENDS Sequences, Naturals

SetOf(s) == {s[i] : i \in DOMAIN s}

\* A modified (flipped / truncated / extended) file is still there and is read by check
\* --read-data, so the damage must be reported.  A deleted file is reported when a snapshot
\* depends on it, i.e. when some snapshot can no longer be read without it (a deleted index
\* file whose entries are all duplicated elsewhere is not missed by anybody; a deleted
\* snapshot file leaves no trace that check could notice).
MustReport(r) ==
  \/ r.kind # "delete"
  \/ (r.class # "snapshot" /\ "fail" \in SetOf(r.outcomes))

RecOK(r) ==
  /\ MustReport(r) => r.check_err                  \* the damage is reported
  /\ "different" \notin SetOf(r.outcomes)          \* never other plaintext than what was backed up
  /\ "different-unreported" \notin SetOf(r.outcomes)   \* restore fails FOR THE AFFECTED DATA: every item it got wrong is named
  /\ SetOf(r.outcomes) \subseteq {"fail", "same", "different", "different-unreported"}
=============================================================================
