----------------------------- MODULE Fn_TreeEnc -----------------------------
(***************************************************************************)
(* C41: trees are encoded deterministically and without loss.              *)
(*                                                                         *)
(* A tree is a list of entries strictly sorted by name.  The model works   *)
(* on abstractions the Go driver computes from bytes:                      *)
(*   rank   position of an entry's name in the bytewise order of all names *)
(*          of the case (bytes.Compare, independent of restic), 1..n;      *)
(*          equal names have equal ranks                                   *)
(*   diffs  for a decoded entry: the names of the fields that differ from  *)
(*          the entry that was encoded (Go comparison field by field)      *)
(*   token  identity of an encoded byte string within a case ("o1", ...)   *)
(* What TLA+ decides: which insertions a strictly sorted tree admits, that *)
(* the decoded tree is exactly the admitted entries, in order, without any *)
(* differing field, and that every schedule / repetition of an encoding    *)
(* yields one single byte string.                                          *)
(***************************************************************************)
EXTENDS Naturals, Sequences, FiniteSets

RECURSIVE LastAcc(_, _)
\* rank of the last admitted entry among the first k insertions (0 = none): an insertion is admitted iff its
\* name is strictly greater than the last admitted one
LastAcc(ranks, k) ==
  IF k = 0 THEN 0
  ELSE IF ranks[k] > LastAcc(ranks, k - 1) THEN ranks[k] ELSE LastAcc(ranks, k - 1)

Admitted(ranks) == [k \in DOMAIN ranks |-> ranks[k] > LastAcc(ranks, k - 1)]

RECURSIVE Filter(_, _, _)
Filter(ranks, flags, k) ==
  IF k = 0 THEN <<>>
  ELSE IF flags[k] THEN Append(Filter(ranks, flags, k - 1), ranks[k]) ELSE Filter(ranks, flags, k - 1)

StrictlySorted(s) == \A i \in 1..(Len(s) - 1) : s[i] < s[i + 1]

NoDiffs(d) == \A i \in DOMAIN d : d[i] = <<>>

Range(s) == {s[i] : i \in DOMAIN s}

\* r.ranks      ranks of the names in insertion order (AddNode calls)
\* r.accepted   AddNode returned no error
\* r.dec_ranks  ranks of the names of the decoded tree, in decoding order
\* r.diffs      per decoded entry: differing fields w.r.t. the admitted entry at the same position
\* r.outs       tokens of the byte strings of: the encoding, a second encoding of the same insertions, the
\*              re-encoding of the decoded entries
TreeOK(r) ==
  /\ ~r.panic
  /\ r.accepted = Admitted(r.ranks)
  /\ ~r.fin_err /\ ~r.dec_err
  /\ r.dec_ranks = Filter(r.ranks, r.accepted, Len(r.ranks))
  /\ StrictlySorted(r.dec_ranks)
  /\ Len(r.diffs) = Len(r.dec_ranks) /\ NoDiffs(r.diffs)
  /\ Cardinality(Range(r.outs)) = 1

\* one entry alone: Unmarshal(Marshal(n)) = n, Marshal deterministic
NodeOK(r) ==
  /\ ~r.panic /\ ~r.enc_err /\ ~r.dec_err
  /\ r.diffs = <<>>
  /\ Cardinality(Range(r.outs)) = 1

\* a tree document with unknown keys injected (r.level, r.kind describe where and what): decoding skips them
UnknownOK(r) ==
  /\ ~r.panic /\ ~r.dec_err
  /\ r.count_same
  /\ NoDiffs(r.diffs)

\* the archiver's tree saver: the entries of one directory complete in the order r.schedule (a permutation);
\* r.outs = tokens of the saved tree blob for every schedule plus the directly built tree
SchedOK(r) ==
  /\ ~r.panic /\ ~r.err
  /\ Cardinality(Range(r.outs)) = 1
  /\ r.dec_ranks = [i \in 1..r.n |-> i]        \* all entries, sorted
  /\ NoDiffs(r.diffs)

RecOK(r) ==
  CASE r.op = "tree"    -> TreeOK(r)
    [] r.op = "node"    -> NodeOK(r)
    [] r.op = "unknown" -> UnknownOK(r)
    [] r.op = "sched"   -> SchedOK(r)
    [] OTHER            -> FALSE

\* ------------------------------------------------------------------------
\* model sanity, evaluated by TLC with every check: over all insertion sequences of length <= 4 over 3 names the
\* admitted subsequence is strictly sorted, and a sequence is admitted completely iff it is strictly sorted
Seqs(S, n) == UNION {[1..k -> S] : k \in 0..n}
ASSUME \A s \in Seqs(1..3, 4) :
          /\ StrictlySorted(Filter(s, Admitted(s), Len(s)))
          /\ (\A k \in DOMAIN s : Admitted(s)[k]) <=> StrictlySorted(s)
=============================================================================
