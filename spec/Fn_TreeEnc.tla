----------------------------- MODULE Fn_TreeEnc -----------------------------
(***************************************************************************)
(* C41: trees are encoded deterministically and without loss.              *)
(*                                                                         *)
(* A tree is a list of entries strictly sorted by name.  The model works   *)
(* on abstractions the Go driver computes from bytes:                      *)
(*   rank   position of an entry's name in the bytewise order of all names *)
(*          of the case (bytes.Compare, independent of restic), 1..n;      *)
(*          equal names have equal ranks                                   *)
(*   diffs  for a decoded entry: the names of the fields that differ from  *)
(*          the entry that was encoded (Go comparison field by field)      *)
(*   token  identity of an encoded byte string within a case ("o1", ...)   *)
(* What TLA+ decides: which insertions a strictly sorted tree admits, that *)
(* the decoded tree is exactly the admitted entries, in order, without any *)
(* differing field, and that every schedule / repetition of an encoding    *)
(* yields one single byte string.                                          *)
(***************************************************************************)
EXTENDS Integers, Sequences, FiniteSets

RECURSIVE LastAccB(_, _, _)
\* rank of the last admitted entry among the first k insertions (bottom = none yet): an insertion is admitted iff
\* its name is strictly greater than the last admitted one.
\* Ranks of non-empty names are 1..n; the EMPTY name has rank 0 (it is the least byte string).  The statement does
\* not say whether a listing may contain an entry with an empty name, so both readings are admitted:
\*   bottom = 0    the empty name is never admitted (what restic's builder does: "" is not greater than the
\*                 initial last name ""), every other entry as if it had not been inserted;
\*   bottom = -1   the empty name is an ordinary least name (admitted iff nothing was admitted before it).
\* In both readings everything that WAS admitted must come back from the decoder, unchanged and in order.
LastAccB(ranks, k, bottom) ==
  IF k = 0 THEN bottom
  ELSE IF ranks[k] > LastAccB(ranks, k - 1, bottom) THEN ranks[k] ELSE LastAccB(ranks, k - 1, bottom)

AdmittedB(ranks, bottom) == [k \in DOMAIN ranks |-> ranks[k] > LastAccB(ranks, k - 1, bottom)]
Admitted(ranks) == AdmittedB(ranks, 0)
AdmissionOK(ranks, accepted) == accepted = AdmittedB(ranks, 0) \/ accepted = AdmittedB(ranks, -1)

RECURSIVE Filter(_, _, _)
Filter(ranks, flags, k) ==
  IF k = 0 THEN <<>>
  ELSE IF flags[k] THEN Append(Filter(ranks, flags, k - 1), ranks[k]) ELSE Filter(ranks, flags, k - 1)

StrictlySorted(s) == \A i \in 1..(Len(s) - 1) : s[i] < s[i + 1]

NoDiffs(d) == \A i \in DOMAIN d : d[i] = <<>>

Range(s) == {s[i] : i \in DOMAIN s}

\* r.ranks      ranks of the names in insertion order (AddNode calls); 0 = the empty name
\* r.accepted   AddNode returned no error
\* r.dec_ranks  ranks of the names of the decoded tree, in decoding order (1000000 = a name that was never inserted)
\* r.diffs      per decoded entry: differing fields w.r.t. the admitted entry at the same position
\* r.outs       tokens of the byte strings of: the encoding, a second encoding of the same insertions, the
\*              re-encoding of the decoded entries
TreeOK(r) ==
  /\ ~r.panic
  /\ AdmissionOK(r.ranks, r.accepted)
  /\ ~r.fin_err /\ ~r.dec_err
  /\ r.dec_ranks = Filter(r.ranks, r.accepted, Len(r.ranks))
  /\ StrictlySorted(r.dec_ranks)
  /\ Len(r.diffs) = Len(r.dec_ranks) /\ NoDiffs(r.diffs)
  /\ Cardinality(Range(r.outs)) = 1

\* one entry alone: Unmarshal(Marshal(n)) = n, Marshal deterministic
NodeOK(r) ==
  /\ ~r.panic /\ ~r.enc_err /\ ~r.dec_err
  /\ r.diffs = <<>>
  /\ Cardinality(Range(r.outs)) = 1

\* a tree document with unknown keys injected (r.level, r.kind describe where and what): decoding skips them
UnknownOK(r) ==
  /\ ~r.panic /\ ~r.dec_err
  /\ r.count_same
  /\ NoDiffs(r.diffs)

\* the archiver's tree saver: the entries of one directory complete in the order r.schedule (a permutation);
\* r.outs = tokens of the saved tree blob for every schedule plus the directly built tree
SchedOK(r) ==
  /\ ~r.panic /\ ~r.err
  /\ Cardinality(Range(r.outs)) = 1
  /\ r.dec_ranks = [i \in 1..r.n |-> i]        \* all entries, sorted
  /\ NoDiffs(r.diffs)

RecOK(r) ==
  CASE r.op = "tree"    -> TreeOK(r)
    [] r.op = "node"    -> NodeOK(r)
    [] r.op = "unknown" -> UnknownOK(r)
    [] r.op = "sched"   -> SchedOK(r)
    [] OTHER            -> FALSE

\* ------------------------------------------------------------------------
\* model sanity, evaluated by TLC with every check: over all insertion sequences of length <= 4 over 3 names the
\* admitted subsequence is strictly sorted, and a sequence is admitted completely iff it is strictly sorted
Seqs(S, n) == UNION {[1..k -> S] : k \in 0..n}
ASSUME \A s \in Seqs(1..3, 4) :
          /\ StrictlySorted(Filter(s, Admitted(s), Len(s)))
          /\ (\A k \in DOMAIN s : Admitted(s)[k]) <=> StrictlySorted(s)
\* with the empty name (rank 0) in the alphabet: both readings admit a strictly sorted subsequence; they agree on
\* every sequence without the empty name; the strict reading never admits it, the lenient one only in first place
ASSUME \A s \in Seqs(0..2, 4) :
          /\ StrictlySorted(Filter(s, AdmittedB(s, 0), Len(s))) /\ StrictlySorted(Filter(s, AdmittedB(s, -1), Len(s)))
          /\ (\A k \in DOMAIN s : s[k] # 0) => AdmittedB(s, 0) = AdmittedB(s, -1)
          /\ \A k \in DOMAIN s : s[k] = 0 => /\ ~AdmittedB(s, 0)[k]
                                             /\ AdmittedB(s, -1)[k] <=> k = 1
=============================================================================
