SPECIFICATION Spec
CONSTANTS
  N = 1
  MaxTime = 11
  MaxSkew = 1
  Budget = 0
  Variant = "f2ignore"
  Faults <- SaveFault
  MaxToggle = 3
  Removal = TRUE
  Remotes <- RemotesNone
  MaxWaits = 99
  HistMax = 0
  Emit = FALSE
  MaxAtt = 2
  Crashes = FALSE
  StartBy = 0
  StartFrom = 0
  HealOdds = 3
  ListLag = FALSE
  FixSkew = FALSE
  MaxMods = 0
  Edge = FALSE
VIEW View
INVARIANTS TypeOK InvHolderHasFile InvFresh InvNoWriteAfterCancel
CHECK_DEADLOCK FALSE
