------------------------------ MODULE Fn_Verify ------------------------------
(***************************************************************************)
(* C21: `restore --verify` (Restorer.VerifyFiles) succeeds iff every       *)
(* restored regular file has the snapshot's size and content; every file   *)
(* that differs -- in any byte or in its length -- is reported, and no     *)
(* other file is.                                                          *)
(*                                                                         *)
(* One record = one freshly restored tree, a set of tamperings applied to  *)
(* it, and what the real VerifyFiles reported (a) with an error callback   *)
(* that collects and continues, (b) in the default fail-fast mode.         *)
(***************************************************************************)
EXTENDS Sequences, Naturals, FiniteSets

\* tampering kinds and whether they make the file differ from the snapshot
\*   flip      one byte at position pos replaced by a different value   (size unchanged, mtime reset
\*             to the value the restore had set = the snapshot's mtime)
\*   flipnow   like flip, but the mtime is left at the time of the change
\*   truncate  file cut to length len                                   (differs iff len < size)
\*   extend    len bytes appended (zeros or data)                       (differs iff len > 0)
\*   remove    file deleted
\*   touch     only the modification time changed                       (does not differ)
\*   rewrite   identical bytes written again                            (does not differ)
Differs(m) ==
  CASE m.kind \in {"flip", "flipnow"} -> m.pos < m.size
    [] m.kind = "truncate" -> m.len < m.size
    [] m.kind = "extend"   -> m.len > 0
    [] m.kind = "remove"   -> TRUE
    [] m.kind = "touch"    -> FALSE
    [] m.kind = "rewrite"  -> FALSE

SetOf(s) == {s[i] : i \in DOMAIN s}

\* A tampering of one path changes every snapshot path that shares its inode (m.group: the hard-link group,
\* the path itself included; <<path>> for a file with a single link inside the snapshot).
DiffFiles(r) == UNION {SetOf(r.muts[i].group) : i \in {j \in DOMAIN r.muts : Differs(r.muts[j])}}

\*  r.muts       sequence of [file, kind, pos, len, size, group]
\*  r.reported   files for which the collecting run reported an error
\*  r.collect_err the collecting run itself returned an error (it must not: all errors were swallowed)
\*  r.failfast_err the default (abort on first error) run returned an error
\*  r.differs_actual  files whose bytes really differ from the snapshot (harness byte comparison)
\* The demand does not depend on r.overwrite (the --overwrite mode the restore ran with).
\* Exactly the differing files are reported; of a hard-link group it suffices that one path is reported
\* (the difference is reported; all paths are the same inode).
RecOK(r) ==
  /\ SetOf(r.differs_actual) = DiffFiles(r)           \* the harness applied what the spec describes
  /\ SetOf(r.reported) \subseteq DiffFiles(r)          \* no file that equals the snapshot is reported
  /\ \A i \in DOMAIN r.muts : Differs(r.muts[i]) => SetOf(r.reported) \cap SetOf(r.muts[i].group) # {}
  /\ r.failfast_err <=> (DiffFiles(r) # {})           \* verification succeeds iff nothing differs
=============================================================================
