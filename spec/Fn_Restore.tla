----------------------------- MODULE Fn_Restore -----------------------------
(***************************************************************************)
(* C19: what `restic restore` must leave at the path of one selected       *)
(* regular file, as a function of the snapshot file, the pre-existing      *)
(* state of that path, the --overwrite mode and --sparse.                  *)
(*                                                                         *)
(* Taken from the property statement and doc/050_restore.rst:              *)
(*   always, if-changed : after a successful restore the file has exactly  *)
(*                        the snapshot content and size;                   *)
(*   if-newer           : an existing file is overwritten only if the      *)
(*                        snapshot's mtime is newer, otherwise untouched;  *)
(*   never              : an existing item is never overwritten;           *)
(*   a missing file is always restored.                                    *)
(*                                                                         *)
(* File contents are abstracted by the harness to sequences of blob        *)
(* letters (one letter per snapshot blob, "?" for a segment whose bytes    *)
(* differ from the snapshot blob at that offset); sizes are exact.         *)
(***************************************************************************)
EXTENDS Sequences, Naturals, FiniteSets

Modes == {"always", "if-changed", "if-newer", "never"}

\* blob letters (concretised by the harness):
\*  A 100 B data, B 3000 B data, C 70 KiB data, Z the repository's zero chunk (512 KiB zeros),
\*  z 200 zero bytes, P 2048 zeros + 500 data, S 500 data + 2000 zeros, M data-zeros-data
BigSnap == <<"A","B","C","A","B","A","Z","A","B","C","B","B","A","z","P","A","B","S","A","A",
             "B","A","C","A","B","M","A","B","A","B">>          \* > 25 blobs: "large file" path
SnapFiles == { <<>>, <<"A">>, <<"z">>, <<"Z">>, <<"P">>, <<"S">>,
               <<"A","Z","B">>, <<"A","A","A">>, <<"A","B","C">>, <<"A","B","A">>,
               <<"Z","A">>, <<"A","Z">>, <<"Z","Z">>, <<"z","A">>, <<"P","Z","S">>, <<"M","z">>,
               BigSnap }

\* pre-existing states of the path (concretised by the harness relative to the snapshot bytes)
FilePre  == {"identical", "empty", "shorter-mid", "shorter-boundary", "shorter-diff",
             "longer", "longer-zero", "longer-diff",
             "same-diff-first", "same-diff-last", "same-diff-all", "same-diff-zero",
             "hardlink-identical", "hardlink-diff", "hardlink-longer", "hardlink-shorter"}
UnprivPre == {"unreadable-identical", "unreadable-diff", "unreadable-longer-diff", "unreadable-shorter",
              "readonly-diff", "readonly-longer"}
OtherPre == {"missing", "dir-empty", "dir-nonempty", "symlink-file", "symlink-dangling", "symlink-dir"}
\* a symlink in the way whose pointee is a readable regular file related to the snapshot file: identical content,
\* only the first / only the last blob identical (at the same offset), identical prefix but longer; the pointee
\* lives outside ("-out") or inside ("-in") the restore target.  The item AT THE PATH is the symlink, whatever it
\* points to: the demand is the same as for any other symlink in the way.
SymPre   == {"symlink-same-out", "symlink-same-in", "symlink-first-out", "symlink-first-in",
             "symlink-last-out", "symlink-last-in", "symlink-longer-out", "symlink-longer-in"}
Mtimes   == {"older", "equal", "newer"}

PreKind(p) ==
  IF p = "missing" THEN "missing"
  ELSE IF p \in {"dir-empty", "dir-nonempty"} THEN "dir"
  ELSE IF p \in {"symlink-file", "symlink-dangling", "symlink-dir"} \cup SymPre THEN "symlink"
  ELSE "file"

\* what the statement demands for the path: "restored" | "untouched" | "either"
\* ("either": if-newer with a directory or symlink in the way -- the documentation speaks of the
\*  mtime of an existing *file*; both outcomes are accepted)
Demand(mode, kind, mtime) ==
  IF kind = "missing" THEN "restored"
  ELSE IF mode \in {"always", "if-changed"} THEN "restored"
  ELSE IF mode = "never" THEN "untouched"
  ELSE IF kind = "file" THEN (IF mtime = "older" THEN "restored" ELSE "untouched")
  ELSE "either"

\* the table of cells (TLC serialises it; the harness replays every cell into the real restorer)
Cell(s, p, mt, m, sp, del, un) ==
  [snap |-> s, pre |-> p, kind |-> PreKind(p), mtime |-> mt, mode |-> m, sparse |-> sp, delete |-> del,
   unpriv |-> un, exp |-> Demand(m, PreKind(p), mt)]

Cells ==
  {Cell(s, p, mt, m, sp, FALSE, FALSE) : s \in SnapFiles, p \in FilePre, mt \in Mtimes, m \in Modes, sp \in BOOLEAN}
  \cup {Cell(s, p, "older", m, sp, del, FALSE) : s \in SnapFiles, p \in OtherPre, m \in Modes, sp \in BOOLEAN, del \in BOOLEAN}
  \cup {Cell(s, p, mt, m, sp, FALSE, FALSE) : s \in SnapFiles, p \in SymPre, mt \in {"older", "equal"}, m \in Modes, sp \in BOOLEAN}
  \cup {Cell(s, p, mt, m, sp, FALSE, TRUE) : s \in SnapFiles, p \in UnprivPre \cup {"missing", "same-diff-all", "longer-diff"},
                                            mt \in {"older", "equal"}, m \in Modes, sp \in BOOLEAN}

\* ---- judging one recorded execution of the real restorer -------------------------------------
\*  r.snap       blob letters of the snapshot file        r.snap_size  its size in bytes
\*  r.kind/mtime pre-existing state (kind, mtime class relative to the snapshot's mtime)
\*  r.ok         the restore reported no error at all
\*  r.post       [kind, size, segs, bytes_equal]: what is at the path afterwards; segs[i] is the
\*               i-th snapshot letter iff the bytes at that blob's offset equal the blob
\*  r.untouched  the path still holds the pre-existing item, bit for bit (content, size, mtime,
\*               permissions, inode / link target / directory listing)
Restored(r) ==
  /\ r.post.kind = "file"
  /\ r.post.size = r.snap_size
  /\ r.post.segs = r.snap
  /\ r.post.bytes_equal

RecOK(r) ==
  LET d == Demand(r.mode, r.kind, r.mtime) IN
  /\ r.exp = d
  /\ (d = "untouched") => r.untouched
  /\ r.ok => /\ (d = "restored") => Restored(r)
             /\ (d = "either") => (Restored(r) \/ r.untouched)
=============================================================================
