---------------------------- MODULE Fn_PolicyEmit ----------------------------
(* C22: emits the table of abstract instants of Fn_Policy for the Go driver *)
EXTENDS Fn_Policy, Json, TLC
ASSUME ndJsonSerialize("instants.ndjson", Instants)
ASSUME PrintT(<<"VERIF_INSTANTS", Len(Instants)>>)
VARIABLE emitDummy
Init == emitDummy = 0
Next == emitDummy' = emitDummy
Spec == Init /\ [][Next]_emitDummy
=============================================================================
