--------------------------- MODULE Fn_RoundTripCov ---------------------------
(* C01: TLC checks that the table of generated node descriptors reaches the coverage Fn_RoundTrip
   demands for the tier (VerifParams!Tier). *)
EXTENDS Fn_RoundTrip, Json, TLC, VerifParams
Tab == ndJsonDeserialize("nodes.ndjson")
ASSUME PrintT(<<"cov1", Covers1(Tab)>>)
ASSUME PrintT(<<"cov2", Covers2(Tab)>>)
ASSUME PrintT(<<"covcfg", CoversCfg(Tab)>>)
ASSUME PrintT(<<"nodes", Len(Tab)>>)
ASSUME Covers1(Tab)
ASSUME Tier = "thorough" => (Covers2(Tab) /\ CoversCfg(Tab))
VARIABLE covDummy
Init == covDummy = 0
Next == covDummy' = covDummy
Spec == Init /\ [][Next]_covDummy
=============================================================================
