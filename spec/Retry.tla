-------------------------------- MODULE Retry --------------------------------
(***************************************************************************)
(* C35: design model of retry.Backend (internal/backend/retry).            *)
(* One operation (Save | Load | Stat | Remove | List) runs against a       *)
(* wrapped backend that applies a fault script: the k-th attempt gets the  *)
(* k-th fault of `script`; after the script every attempt succeeds         *)
(* (tail "ok") or the last fault repeats for ever (tail "repeat": beyond   *)
(* any retry budget).  The retry loop stops on success, on a permanent     *)
(* error, or when the budget is used up.  Save rewinds its reader before   *)
(* every attempt and removes the file after a failed attempt on a backend  *)
(* without atomic replace; List remembers the names it has reported.       *)
(* A fault may also be a permanent error that strikes after part of the    *)
(* data went over ("ppartial"), and the wrapped backend's listing may      *)
(* differ from attempt to attempt (`vary`: sizes that change while a file  *)
(* is being written or replaced, a different order) - the set of names     *)
(* stays the same.                                                         *)
(* Init chooses operation, backend kind, feature flag and the whole script *)
(* so one TLC run covers all scripts up to MaxLen.                         *)
(***************************************************************************)
EXTENDS RetryProps, TLC

CONSTANTS MaxLen,   \* scripts have 0..MaxLen explicit faults
          Budget,   \* attempts the retry loop makes before giving up
          Ops,      \* subset of {"save","load","stat","remove","list"}
          Twin,     \* "none" | "no_rewind" | "no_cleanup" | "retry_perm" | "no_dedup" |
                    \* "no_cleanup_perm" (no cleanup after a permanent error) | "dedup_info" (List remembers name+size)
          Record

Names == <<1, 2, 3>>      \* files the wrapped backend lists

Faults(op) == CASE op = "save"   -> {"before", "partial", "after", "perm", "ppartial"}
                [] op = "load"   -> {"before", "partial", "after", "perm", "ppartial", "notexist"}
                [] op = "stat"   -> {"before", "perm", "notexist"}
                [] op = "remove" -> {"before", "after", "perm"}
                [] op = "list"   -> {"mid0", "mid1", "mid2", "after", "perm"}

SeqsUpTo(S, k) == UNION {[1..m -> S] : m \in 0..k}

\* how the listing of the wrapped backend differs between attempts (list only)
Varies == {"same", "size", "order", "both"}

VARIABLES op, flag, atomic, script, tail, vary,
          tries,      \* attempts made
          faults,     \* faults applied so far
          file,       \* save/remove: "absent" | "full" | "partial" under the final name
          seen,       \* load: what the last consumer call read / stat: info
          reported,   \* list: names handed to fn
          infos,      \* list: <<name, size>> pairs handed to fn (what the "dedup_info" twin remembers)
          phase,      \* "try" | "cleanup" | "done"
          ok
vars == <<op, flag, atomic, script, tail, vary, tries, faults, file, seen, reported, infos, phase, ok>>

Init ==
  /\ op \in Ops /\ flag \in BOOLEAN /\ atomic \in BOOLEAN
  /\ script \in SeqsUpTo(Faults(op), MaxLen) /\ tail \in {"ok", "repeat"}
  /\ (tail = "repeat" => script # <<>>)
  /\ (op # "save" => atomic)             \* atomic replace only matters for Save
  /\ vary \in Varies /\ (op # "list" => vary = "same")
  /\ infos = {}
  /\ tries = 0 /\ faults = <<>>
  /\ file = IF op = "remove" THEN "full" ELSE "absent"
  /\ seen = "none" /\ reported = <<>> /\ phase = "try" /\ ok = FALSE

FaultAt(k) == IF k <= Len(script) THEN script[k] ELSE IF tail = "ok" THEN "ok" ELSE script[Len(script)]

Rec == [op |-> op, flag |-> flag, atomic |-> atomic, vary |-> vary, faults |-> faults, ok |-> ok,
        final |-> IF op \in {"save", "remove"} THEN file ELSE seen,
        reported |-> reported, names |-> Names, second |-> "n/a", third |-> "n/a"]

\* the listing the wrapped backend produces at attempt k: order and sizes may differ between attempts
OrderAt(k) == IF vary \in {"order", "both"} /\ k % 2 = 0 THEN [i \in 1..Len(Names) |-> Names[Len(Names) + 1 - i]] ELSE Names
SizeAt(k)  == IF vary \in {"size", "both"} THEN k ELSE 1
Fresh(n, k) == CASE Twin = "no_dedup"   -> TRUE
                 [] Twin = "dedup_info" -> <<n, SizeAt(k)>> \notin infos
                 [] OTHER               -> n \notin Range(reported)
\* names attempt k hands to fn: the first j entries of its listing, minus those already reported
ListNew(j, k)  == SelectSeq(SubSeq(OrderAt(k), 1, j), LAMBDA n : Fresh(n, k))
ListSome(j, k) == reported \o ListNew(j, k)

Attempt ==
  /\ phase = "try"
  /\ LET f == FaultAt(tries + 1)
         \* what Save sends: the reader is rewound before every attempt
         content == IF Twin = "no_rewind" /\ tries > 0 THEN "partial" ELSE "full"
         failed == f # "ok"
         stop == \/ ~failed
                 \/ (Permanent(Rec, f) /\ Twin # "retry_perm")
                 \/ tries + 1 >= Budget
     IN
     /\ tries' = tries + 1 /\ faults' = Append(faults, f)
     /\ file' = CASE op = "save" /\ f \in {"ok", "after"}  -> content
                  [] op = "save" /\ f \in {"partial", "ppartial"} /\ ~atomic -> "partial"
                  [] op = "remove" /\ f \in {"ok", "after"} -> "absent"
                  [] OTHER -> file
     /\ seen' = CASE op = "load" /\ f \in {"ok", "after"} -> "full"
                  [] op = "load" /\ f \in {"partial", "ppartial"} -> "partial"
                  [] op = "stat" /\ f = "ok" -> "right"
                  [] OTHER -> seen
     /\ LET j == CASE f \in {"ok", "after"} -> 3 [] f = "mid1" -> 1 [] f = "mid2" -> 2 [] OTHER -> 0
        IN IF op # "list" THEN UNCHANGED <<reported, infos>>
           ELSE /\ reported' = ListSome(j, tries + 1)
                /\ infos' = infos \cup {<<n, SizeAt(tries + 1)>> : n \in Range(ListNew(j, tries + 1))}
     /\ ok' = ~failed
     /\ phase' = IF failed /\ op = "save" /\ ~atomic /\ Twin # "no_cleanup"
                     /\ ~(Twin = "no_cleanup_perm" /\ Permanent(Rec, f)) THEN "cleanup"
                 ELSE IF stop THEN "done" ELSE "try"
  /\ UNCHANGED <<op, flag, atomic, script, tail, vary>>

\* after a failed Save attempt on a backend without atomic replace the file is removed
Cleanup ==
  /\ phase = "cleanup"
  /\ file' = "absent"
  /\ phase' = IF (Permanent(Rec, faults[Len(faults)]) /\ Twin # "retry_perm") \/ tries >= Budget THEN "done" ELSE "try"
  /\ UNCHANGED <<op, flag, atomic, script, tail, vary, tries, faults, seen, reported, infos, ok>>

Finished == phase = "done" /\ UNCHANGED vars
Next == Attempt \/ Cleanup \/ Finished
Spec == Init /\ [][Next]_vars

---------------------------------------------------------------------------
\* the statement, on the record of the finished operation (and on every prefix for the at-most-once rule)
Conforms  == phase = "done" => RecOK(Rec)
InvSame      == phase = "done" => SameResult(Rec)
InvNoPartial == phase = "done" => NoPartial(Rec)
InvPerm      == phase = "done" => PermNotRetried(Rec)
ListNever == ListOnce(Rec)
\* within the budget a transient fault script ends well (not demanded by the statement; sanity of the model)
Progress  == (phase = "done" /\ tail = "ok" /\ Len(script) < Budget /\ \A i \in DOMAIN script : ~Permanent(Rec, script[i])) => ok

EmitVec == (Record /\ phase = "done" /\ flag) => PrintT("VEC " \o ToString(<<op, atomic, script, tail, vary>>))
=============================================================================
