-------------------------------- MODULE Retry --------------------------------
(***************************************************************************)
(* C35: design model of retry.Backend (internal/backend/retry).            *)
(* One operation (Save | Load | Stat | Remove | List) runs against a       *)
(* wrapped backend that applies a fault script: the k-th attempt gets the  *)
(* k-th fault of `script`; after the script every attempt succeeds         *)
(* (tail "ok") or the last fault repeats for ever (tail "repeat": beyond   *)
(* any retry budget).  The retry loop stops on success, on a permanent     *)
(* error, or when the budget is used up.  Save rewinds its reader before   *)
(* every attempt and removes the file after a failed attempt on a backend  *)
(* without atomic replace; List remembers the names it has reported.       *)
(* Init chooses operation, backend kind, feature flag and the whole script *)
(* so one TLC run covers all scripts up to MaxLen.                         *)
(***************************************************************************)
EXTENDS RetryProps, TLC

CONSTANTS MaxLen,   \* scripts have 0..MaxLen explicit faults
          Budget,   \* attempts the retry loop makes before giving up
          Ops,      \* subset of {"save","load","stat","remove","list"}
          Twin,     \* "none" | "no_rewind" | "no_cleanup" | "retry_perm" | "no_dedup"
          Record

Names == <<1, 2, 3>>      \* files the wrapped backend lists

Faults(op) == CASE op = "save"   -> {"before", "partial", "after", "perm"}
                [] op = "load"   -> {"before", "partial", "after", "perm", "notexist"}
                [] op = "stat"   -> {"before", "perm", "notexist"}
                [] op = "remove" -> {"before", "after", "perm"}
                [] op = "list"   -> {"mid0", "mid1", "mid2", "after", "perm"}

SeqsUpTo(S, k) == UNION {[1..m -> S] : m \in 0..k}

VARIABLES op, flag, atomic, script, tail,
          tries,      \* attempts made
          faults,     \* faults applied so far
          file,       \* save/remove: "absent" | "full" | "partial" under the final name
          seen,       \* load: what the last consumer call read / stat: info
          reported,   \* list: names handed to fn
          phase,      \* "try" | "cleanup" | "done"
          ok
vars == <<op, flag, atomic, script, tail, tries, faults, file, seen, reported, phase, ok>>

Init ==
  /\ op \in Ops /\ flag \in BOOLEAN /\ atomic \in BOOLEAN
  /\ script \in SeqsUpTo(Faults(op), MaxLen) /\ tail \in {"ok", "repeat"}
  /\ (tail = "repeat" => script # <<>>)
  /\ (op # "save" => atomic)             \* atomic replace only matters for Save
  /\ tries = 0 /\ faults = <<>>
  /\ file = IF op = "remove" THEN "full" ELSE "absent"
  /\ seen = "none" /\ reported = <<>> /\ phase = "try" /\ ok = FALSE

FaultAt(k) == IF k <= Len(script) THEN script[k] ELSE IF tail = "ok" THEN "ok" ELSE script[Len(script)]

Rec == [op |-> op, flag |-> flag, atomic |-> atomic, faults |-> faults, ok |-> ok,
        final |-> IF op \in {"save", "remove"} THEN file ELSE seen,
        reported |-> reported, names |-> Names, second |-> "n/a", third |-> "n/a"]

\* names a listing attempt hands to fn: the first j entries, minus those already reported
ListSome(j) == LET cand == SubSeq(Names, 1, j)
               IN  reported \o SelectSeq(cand, LAMBDA n : Twin = "no_dedup" \/ n \notin Range(reported))

Attempt ==
  /\ phase = "try"
  /\ LET f == FaultAt(tries + 1)
         \* what Save sends: the reader is rewound before every attempt
         content == IF Twin = "no_rewind" /\ tries > 0 THEN "partial" ELSE "full"
         failed == f # "ok"
         stop == \/ ~failed
                 \/ (Permanent(Rec, f) /\ Twin # "retry_perm")
                 \/ tries + 1 >= Budget
     IN
     /\ tries' = tries + 1 /\ faults' = Append(faults, f)
     /\ file' = CASE op = "save" /\ f \in {"ok", "after"}  -> content
                  [] op = "save" /\ f = "partial" /\ ~atomic -> "partial"
                  [] op = "remove" /\ f \in {"ok", "after"} -> "absent"
                  [] OTHER -> file
     /\ seen' = CASE op = "load" /\ f \in {"ok", "after"} -> "full"
                  [] op = "load" /\ f = "partial" -> "partial"
                  [] op = "stat" /\ f = "ok" -> "right"
                  [] OTHER -> seen
     /\ reported' = IF op # "list" THEN reported
                    ELSE CASE f \in {"ok", "after"} -> ListSome(3)
                           [] f = "mid0" -> ListSome(0) [] f = "mid1" -> ListSome(1) [] f = "mid2" -> ListSome(2)
                           [] OTHER -> reported
     /\ ok' = ~failed
     /\ phase' = IF failed /\ op = "save" /\ ~atomic /\ Twin # "no_cleanup" THEN "cleanup"
                 ELSE IF stop THEN "done" ELSE "try"
  /\ UNCHANGED <<op, flag, atomic, script, tail>>

\* after a failed Save attempt on a backend without atomic replace the file is removed
Cleanup ==
  /\ phase = "cleanup"
  /\ file' = "absent"
  /\ phase' = IF (Permanent(Rec, faults[Len(faults)]) /\ Twin # "retry_perm") \/ tries >= Budget THEN "done" ELSE "try"
  /\ UNCHANGED <<op, flag, atomic, script, tail, tries, faults, seen, reported, ok>>

Finished == phase = "done" /\ UNCHANGED vars
Next == Attempt \/ Cleanup \/ Finished
Spec == Init /\ [][Next]_vars

---------------------------------------------------------------------------
\* the statement, on the record of the finished operation (and on every prefix for the at-most-once rule)
Conforms  == phase = "done" => RecOK(Rec)
InvSame      == phase = "done" => SameResult(Rec)
InvNoPartial == phase = "done" => NoPartial(Rec)
InvPerm      == phase = "done" => PermNotRetried(Rec)
ListNever == ListOnce(Rec)
\* within the budget a transient fault script ends well (not demanded by the statement; sanity of the model)
Progress  == (phase = "done" /\ tail = "ok" /\ Len(script) < Budget /\ \A i \in DOMAIN script : ~Permanent(Rec, script[i])) => ok

EmitVec == (Record /\ phase = "done" /\ flag) => PrintT("VEC " \o ToString(<<op, atomic, script, tail>>))
=============================================================================
