------------------------ MODULE Fn_BackupStatusGen ------------------------
(***************************************************************************)
(* C55 script generator: TLC enumerates source-tree shapes and fault       *)
(* assignments and predicts status / snapshot contents with the operators  *)
(* of Fn_BackupStatus.  The Go driver replays every script into the real   *)
(* backup command.  Written to vec.ndjson by the ASSUME below.             *)
(***************************************************************************)
EXTENDS Fn_BackupStatus, Json, SequencesExt, TLC

\* all shapes with n items: item 1 is the target directory, parents precede children and are
\* directories, only the last item may be a second command-line target
ShapesN(n) ==
  {s \in [1..n -> [parent : 0..(n-1), kind : Kinds]] :
      /\ s[1] = [parent |-> 0, kind |-> "dir"]
      /\ \A i \in 2..n : /\ s[i].parent < i
                         /\ (s[i].parent = 0 => i = n)
                         /\ (s[i].parent # 0 => s[s[i].parent].kind = "dir")}

It(p, k) == [parent |-> p, kind |-> k]
\* hand-made larger shapes: depth 3, several files per directory, second target directory
Big6 == <<It(0,"dir"), It(1,"file"), It(1,"dir"), It(3,"file"), It(3,"symlink"), It(0,"file")>>
Big8 == <<It(0,"dir"), It(1,"file"), It(1,"dir"), It(3,"dir"), It(4,"file"), It(3,"file"), It(1,"symlink"), It(0,"dir")>>
Big8b == <<It(0,"dir"), It(1,"dir"), It(2,"file"), It(2,"file"), It(1,"dir"), It(5,"file"), It(5,"dir"), It(7,"file")>>

SmallShapes == ShapesN(2) \cup ShapesN(3) \cup ShapesN(4)
BigShapes   == {Big6, Big8, Big8b}

\* a listing can only break in the middle when there is something to list
HasChild(s, i) == \E j \in DOMAIN s : s[j].parent = i
FChoices(s, i) == (FaultsOf(s[i].kind, s[i].parent = 0) \ (IF i = 1 THEN AllClasses \ {"none"} ELSE {}))
                  \ (IF HasChild(s, i) THEN {} ELSE {"readdir_partial"})

NoFault(s) == [i \in DOMAIN s |-> "none"]
Singles(s) == UNION {{[NoFault(s) EXCEPT ![i] = f] : f \in FChoices(s, i) \ {"none"}} : i \in DOMAIN s}
\* pairs: the call-numbered read faults and the on-disk swaps are represented by a few members each
\* (every member appears in the single-fault scripts)
PairClasses == (AllClasses \ (ReadCallClasses \cup SwapClasses))
               \cup {"read_k2_once_short", "read_k2_once_whole", "read_k3_pers_short", "swap_symlink_same", "swap_file"}
PChoices(s, i) == (FChoices(s, i) \cap PairClasses) \ {"none"}
Pairs(s)   == UNION {UNION {{[NoFault(s) EXCEPT ![i] = f, ![j] = g] :
                               f \in PChoices(s, i), g \in PChoices(s, j)}
                            : j \in {k \in DOMAIN s : k > i}} : i \in DOMAIN s}

RECURSIVE AncFault(_, _, _)
AncFault(s, fl, i) == s[i].parent # 0 /\ (fl[s[i].parent] # "none" \/ AncFault(s, fl, s[i].parent))

\* predicted delivery when no parent snapshot is used: every fault whose item is reached
Items(s, fl) == [i \in DOMAIN s |-> [parent |-> s[i].parent, kind |-> s[i].kind, fault |-> fl[i],
                                     delivered |-> fl[i] # "none" /\ ~AncFault(s, fl, i)]]

ExpStatus(items) == IF MustBeIncomplete(items) THEN 3 ELSE IF Unspecified(items) THEN 99 ELSE 0

Script(s, fl, grp) ==
  LET it == Items(s, fl) IN
  [group |-> grp, parent |-> [i \in DOMAIN s |-> s[i].parent], kind |-> [i \in DOMAIN s |-> s[i].kind],
   fault |-> fl, exp_status |-> ExpStatus(it), exp_snap |-> SetToSortSeq(ReadableItems(it), <)]

Scripts ==
  {Script(s, NoFault(s), "clean") : s \in SmallShapes \cup BigShapes}
  \cup UNION {{Script(s, fl, "single") : fl \in Singles(s)} : s \in SmallShapes \cup BigShapes}
  \cup UNION {{Script(s, fl, "pair") : fl \in Pairs(s)} : s \in ShapesN(3) \cup {Big6}}

ASSUME ndJsonSerialize("vec.ndjson", SetToSeq(Scripts))
ASSUME PrintT(<<"VERIF_SCRIPTS", Cardinality(Scripts)>>)

\* sanity of the model itself (vacuity control): both statuses and the unspecified case are predicted,
\* and a faulted directory hides its children
ASSUME \E x \in Scripts : x.exp_status = 0 /\ x.group = "single"
ASSUME \E x \in Scripts : x.exp_status = 3
ASSUME \E x \in Scripts : x.exp_status = 99
ASSUME \E x \in Scripts : x.group = "single" /\ \E i \in DOMAIN x.fault : x.fault[i] = "read_k2_once_short"
ASSUME \E x \in Scripts : x.group = "single" /\ \E i \in DOMAIN x.fault : x.fault[i] = "swap_symlink_same" /\ x.kind[i] = "dir"
ASSUME Cardinality(ReadCallClasses) = 12
ASSUME LET it == Items(Big6, <<"none", "none", "readdir_err", "read_eio", "none", "none">>)
       IN ReadableItems(it) = {1, 2, 6} /\ MustBeIncomplete(it) /\ ~it[4].delivered

VARIABLE genDummy
Init == genDummy = 0
Next == genDummy' = genDummy
Spec == Init /\ [][Next]_genDummy
=============================================================================
