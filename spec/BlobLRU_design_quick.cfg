SPECIFICATION Spec
CONSTANTS
  Procs = {1,2}
  NIds = 3
  Cost <- Cost112
  Size = 2
  MaxCalls = 3
  MaxPerProc = 2
  Twin = "none"
  Record = FALSE
INVARIANTS
  Budget
  Accounting
  NoDup
  CacheVal
  ResultOK

