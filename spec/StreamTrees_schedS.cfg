SPECIFICATION SpecQS
CONSTANTS
  NT = 5
  MaxKids = 2
  W = 3
  MaxRoots = 1
  WithBad = FALSE
  Twin = "none"
  Record = TRUE
INVARIANTS
  Once
  Exact
  ErrorIff
  EmitSched
