SPECIFICATION SpecQS
CONSTANTS
  NT = 6
  MaxKids = 3
  W = 3
  MaxRoots = 3
  WithBad = TRUE
  Twin = "none"
  Record = TRUE
INVARIANTS
  Once
  Exact
  ErrorIff
  EmitSched
