SPECIFICATION Spec
CONSTANT Twin = "none"
INVARIANTS NeverInstalls
CHECK_DEADLOCK FALSE
