----------------------------- MODULE Fn_Policy -----------------------------
(***************************************************************************)
(* C22: reference model of restic's retention policies (`forget --keep-*`) *)
(*                                                                         *)
(* Declarative definition taken from the property statement and the user   *)
(* manual (doc/060_forget.rst), NOT from the loop in ApplyPolicy.          *)
(*                                                                         *)
(* A snapshot list is a sequence sn, NEWEST FIRST (position 1 = newest,    *)
(* position Len(sn) = oldest).  Each element is a record                   *)
(*    [id, t, y, mo, d, h, iy, iw, fut, tags, inst]                        *)
(* t = minutes since 2020-01-01T00:00Z (an order-preserving integer),      *)
(* y/mo/d/h = calendar fields, iy/iw = ISO-8601 year and week, fut = the   *)
(* timestamp lies in the future, tags = sequence of strings, inst = index  *)
(* into Instants (0 = not a table instant).                                *)
(***************************************************************************)
EXTENDS Integers, Sequences, FiniteSets

SetOf(s) == {s[i] : i \in DOMAIN s}

(* ------------------------------------------------------------------ *)
(* Table of abstract instants (UTC) used by the design run and by the  *)
(* bounded-exhaustive part of the driver.  The calendar fields are     *)
(* constants of the specification; the Go driver cross-checks them     *)
(* against Go's standard library (not against restic) at start-up.     *)
(* They straddle hour/day/ISO-week/month/year borders; 2021-01-03 and  *)
(* 2024-12-30 have an ISO year different from the calendar year;       *)
(* 16/18, 14/16, 9/16, 4/16 are exactly 1h, 1d, 1m, 1y apart, 21 is    *)
(* 22 minus one (normalised) month; 23 and 24 lie in the future.       *)
(* ------------------------------------------------------------------ *)
Instants == <<
  [ts |-> "2020-12-31T12:00:00Z", t |-> 526320, y |-> 2020, mo |-> 12, d |-> 31, h |-> 12, iy |-> 2020, iw |-> 53, fut |-> FALSE],
  [ts |-> "2021-01-03T12:00:00Z", t |-> 530640, y |-> 2021, mo |-> 1, d |-> 3, h |-> 12, iy |-> 2020, iw |-> 53, fut |-> FALSE],
  [ts |-> "2021-01-04T00:00:00Z", t |-> 531360, y |-> 2021, mo |-> 1, d |-> 4, h |-> 0, iy |-> 2021, iw |-> 1, fut |-> FALSE],
  [ts |-> "2024-01-01T00:00:00Z", t |-> 2103840, y |-> 2024, mo |-> 1, d |-> 1, h |-> 0, iy |-> 2024, iw |-> 1, fut |-> FALSE],
  [ts |-> "2024-02-28T23:30:00Z", t |-> 2188770, y |-> 2024, mo |-> 2, d |-> 28, h |-> 23, iy |-> 2024, iw |-> 9, fut |-> FALSE],
  [ts |-> "2024-02-29T00:30:00Z", t |-> 2188830, y |-> 2024, mo |-> 2, d |-> 29, h |-> 0, iy |-> 2024, iw |-> 9, fut |-> FALSE],
  [ts |-> "2024-02-29T12:00:00Z", t |-> 2189520, y |-> 2024, mo |-> 2, d |-> 29, h |-> 12, iy |-> 2024, iw |-> 9, fut |-> FALSE],
  [ts |-> "2024-03-01T00:00:00Z", t |-> 2190240, y |-> 2024, mo |-> 3, d |-> 1, h |-> 0, iy |-> 2024, iw |-> 9, fut |-> FALSE],
  [ts |-> "2024-12-01T00:00:00Z", t |-> 2586240, y |-> 2024, mo |-> 12, d |-> 1, h |-> 0, iy |-> 2024, iw |-> 48, fut |-> FALSE],
  [ts |-> "2024-12-28T10:00:00Z", t |-> 2625720, y |-> 2024, mo |-> 12, d |-> 28, h |-> 10, iy |-> 2024, iw |-> 52, fut |-> FALSE],
  [ts |-> "2024-12-29T23:30:00Z", t |-> 2627970, y |-> 2024, mo |-> 12, d |-> 29, h |-> 23, iy |-> 2024, iw |-> 52, fut |-> FALSE],
  [ts |-> "2024-12-30T00:30:00Z", t |-> 2628030, y |-> 2024, mo |-> 12, d |-> 30, h |-> 0, iy |-> 2025, iw |-> 1, fut |-> FALSE],
  [ts |-> "2024-12-30T00:45:00Z", t |-> 2628045, y |-> 2024, mo |-> 12, d |-> 30, h |-> 0, iy |-> 2025, iw |-> 1, fut |-> FALSE],
  [ts |-> "2024-12-31T00:00:00Z", t |-> 2629440, y |-> 2024, mo |-> 12, d |-> 31, h |-> 0, iy |-> 2025, iw |-> 1, fut |-> FALSE],
  [ts |-> "2024-12-31T23:59:00Z", t |-> 2630879, y |-> 2024, mo |-> 12, d |-> 31, h |-> 23, iy |-> 2025, iw |-> 1, fut |-> FALSE],
  [ts |-> "2025-01-01T00:00:00Z", t |-> 2630880, y |-> 2025, mo |-> 1, d |-> 1, h |-> 0, iy |-> 2025, iw |-> 1, fut |-> FALSE],
  [ts |-> "2025-01-01T00:59:00Z", t |-> 2630939, y |-> 2025, mo |-> 1, d |-> 1, h |-> 0, iy |-> 2025, iw |-> 1, fut |-> FALSE],
  [ts |-> "2025-01-01T01:00:00Z", t |-> 2630940, y |-> 2025, mo |-> 1, d |-> 1, h |-> 1, iy |-> 2025, iw |-> 1, fut |-> FALSE],
  [ts |-> "2025-01-05T23:00:00Z", t |-> 2638020, y |-> 2025, mo |-> 1, d |-> 5, h |-> 23, iy |-> 2025, iw |-> 1, fut |-> FALSE],
  [ts |-> "2025-01-06T00:00:00Z", t |-> 2638080, y |-> 2025, mo |-> 1, d |-> 6, h |-> 0, iy |-> 2025, iw |-> 2, fut |-> FALSE],
  [ts |-> "2025-03-03T12:00:00Z", t |-> 2719440, y |-> 2025, mo |-> 3, d |-> 3, h |-> 12, iy |-> 2025, iw |-> 10, fut |-> FALSE],
  [ts |-> "2025-03-31T12:00:00Z", t |-> 2759760, y |-> 2025, mo |-> 3, d |-> 31, h |-> 12, iy |-> 2025, iw |-> 14, fut |-> FALSE],
  [ts |-> "2099-06-01T00:00:00Z", t |-> 41768640, y |-> 2099, mo |-> 6, d |-> 1, h |-> 0, iy |-> 2099, iw |-> 23, fut |-> TRUE],
  [ts |-> "2099-06-01T00:30:00Z", t |-> 41768670, y |-> 2099, mo |-> 6, d |-> 1, h |-> 0, iy |-> 2099, iw |-> 23, fut |-> TRUE]
>>

(* ------------------------------------------------------------------ *)
(* Periods ("natural time boundaries": hours :00-:59, days, ISO weeks  *)
(* Monday-Sunday, months, years)                                       *)
(* ------------------------------------------------------------------ *)
PeriodKinds == <<"hourly", "daily", "weekly", "monthly", "yearly">>

Key(p, s) == CASE p = "hourly"  -> <<s.y, s.mo, s.d, s.h>>
               [] p = "daily"   -> <<s.y, s.mo, s.d>>
               [] p = "weekly"  -> <<s.iy, s.iw>>
               [] p = "monthly" -> <<s.y, s.mo>>
               [] p = "yearly"  -> <<s.y>>

\* the newest snapshot of every period among the positions W (sn is newest first)
NewestOfPeriod(sn, p, W) ==
  {i \in W : \A j \in W : j < i => Key(p, sn[j]) # Key(p, sn[i])}

\* keep-last N: the N newest; -1 = unlimited
KeepLast(sn, N) == {i \in 1..Len(sn) : N = -1 \/ i <= N}

\* keep-<period> N: the newest snapshot of each of the N most recent periods that contain
\* snapshots, plus the oldest snapshot while a count remains (fewer periods than N, or unlimited)
KeepCount(sn, p, N) ==
  LET n == Len(sn)
      F == NewestOfPeriod(sn, p, 1..n)        \* one position per period that contains snapshots
      Rank(i) == Cardinality({j \in F : j < i})
  IN IF N = 0 \/ n = 0 THEN {}
     ELSE {i \in F : N = -1 \/ Rank(i) < N}
          \cup (IF N = -1 \/ Cardinality(F) < N THEN {n} ELSE {})

\* the newest snapshot that is not in the future ("latest")
NonFuture(sn) == {i \in 1..Len(sn) : ~sn[i].fut}
LatestPos(sn) == CHOOSE i \in NonFuture(sn) : \A j \in NonFuture(sn) : sn[j].t <= sn[i].t

\* A duration rule w = [on, sub]: sub[i] = (time of sn[i]) minus the duration, in minutes
\* (calendar arithmetic done by the driver with Go's time.AddDate, independently of restic).
\* Window = every snapshot newer than (latest minus duration).  If every snapshot lies in the
\* future the statement defines no window: WinOpen.
WinOpen(sn, w) == w.on /\ NonFuture(sn) = {}
Window(sn, w)  == IF ~w.on \/ NonFuture(sn) = {} THEN {}
                  ELSE {i \in 1..Len(sn) : sn[i].t > w.sub[LatestPos(sn)]}

\* keep-tag: all tags of one of the lists; the list <<"">> selects untagged snapshots (manual)
HasAll(s, l) == IF l = <<"">> THEN s.tags = <<>>
                ELSE \A k \in DOMAIN l : l[k] \in SetOf(s.tags)
KeepTag(sn, lists) == {i \in 1..Len(sn) : \E k \in DOMAIN lists : HasAll(sn[i], lists[k])}

CountOf(pol, p) == CASE p = "hourly" -> pol.hourly [] p = "daily" -> pol.daily [] p = "weekly" -> pol.weekly
                     [] p = "monthly" -> pol.monthly [] p = "yearly" -> pol.yearly
WinOf(pol, p)   == CASE p = "hourly" -> pol.wh [] p = "daily" -> pol.wd [] p = "weekly" -> pol.ww
                     [] p = "monthly" -> pol.wm [] p = "yearly" -> pol.wy
WTok(p)         == CASE p = "hourly" -> "wh" [] p = "daily" -> "wd" [] p = "weekly" -> "ww"
                     [] p = "monthly" -> "wm" [] p = "yearly" -> "wy"
PK == SetOf(PeriodKinds)

(* What each rule demands (Req...) and what it additionally permits (Opt...):        *)
(*  - keep-within-<period> keeps the newest snapshot of every period inside the      *)
(*    window; the manual adds that the oldest snapshot may be kept additionally      *)
(*    ("oldest ... within"), the statement does not demand it: permitted.            *)
(*  - all snapshots in the future: no window is defined: everything permitted.       *)
ReqRule(sn, pol, tok) ==
  CASE tok = "last"   -> KeepLast(sn, pol.last)
    [] tok = "within" -> Window(sn, pol.within)
    [] tok = "tag"    -> KeepTag(sn, pol.tags)
    [] tok \in PK     -> KeepCount(sn, tok, CountOf(pol, tok))
    [] OTHER          -> LET p == CHOOSE q \in PK : WTok(q) = tok
                         IN NewestOfPeriod(sn, p, Window(sn, WinOf(pol, p)))
OptRule(sn, pol, tok) ==
  CASE tok = "within" -> IF WinOpen(sn, pol.within) THEN 1..Len(sn) ELSE {}
    [] tok \in {"last", "tag"} \cup PK -> {}
    [] OTHER          -> LET p == CHOOSE q \in PK : WTok(q) = tok
                             w == WinOf(pol, p)
                         IN IF WinOpen(sn, w) THEN 1..Len(sn) ELSE {Len(sn)} \cap Window(sn, w)

Tokens == {"last", "within", "tag"} \cup PK \cup {WTok(p) : p \in PK}

\* the rules a policy switches on (a rule that is off keeps nothing)
Active(pol) ==
  (IF pol.last # 0 THEN {"last"} ELSE {}) \cup (IF pol.within.on THEN {"within"} ELSE {})
  \cup (IF pol.tags # <<>> THEN {"tag"} ELSE {})
  \cup {p \in PK : CountOf(pol, p) # 0} \cup {WTok(p) : p \in {q \in PK : WinOf(pol, q).on}}

\* rule -> positions demanded / additionally permitted
ReqMap(sn, pol) == [tok \in Active(pol) |-> ReqRule(sn, pol, tok)]
OptMap(sn, pol) == [tok \in Active(pol) |-> OptRule(sn, pol, tok)]
Req(sn, pol) == UNION {ReqRule(sn, pol, tok) : tok \in Active(pol)}
Opt(sn, pol) == UNION {OptRule(sn, pol, tok) : tok \in Active(pol)}

(* ------------------------------------------------------------------ *)
(* "Raising any count or duration, or adding a tag set"                *)
(* ------------------------------------------------------------------ *)
CountLE(a, b) == b = -1 \/ (a # -1 /\ a <= b)
WinLE(a, b)   == ~a.on \/ (b.on /\ Len(a.sub) = Len(b.sub) /\ \A i \in DOMAIN a.sub : b.sub[i] <= a.sub[i])
PolLE(a, b) ==
  /\ CountLE(a.last, b.last)
  /\ \A p \in PK : CountLE(CountOf(a, p), CountOf(b, p)) /\ WinLE(WinOf(a, p), WinOf(b, p))
  /\ WinLE(a.within, b.within)
  /\ SetOf(a.tags) \subseteq SetOf(b.tags)

(* ------------------------------------------------------------------ *)
(* Records written by the drivers                                      *)
(*  kind "apply": one application of the real ApplyPolicy / real       *)
(*     `forget --dry-run --json`: r.n input snapshots, r.sn the list   *)
(*     in the order the code left it (ids 1..n), r.pol the policy,     *)
(*     r.keep / r.remove ids, r.reasons = <<[id, m]>> with m the       *)
(*     reason tokens the code gave                                     *)
(*  kind "mono": the keep sets of the real code for two policies       *)
(*     pa <= pb on the same list                                       *)
(* ------------------------------------------------------------------ *)
InstOK(s) == s.inst = 0 \/
  (s.inst \in DOMAIN Instants /\
   LET I == Instants[s.inst] IN
     s.t = I.t /\ s.y = I.y /\ s.mo = I.mo /\ s.d = I.d /\ s.h = I.h /\ s.iy = I.iy /\ s.iw = I.iw /\ s.fut = I.fut)

ListOK(r) ==
  /\ Len(r.sn) = r.n
  /\ {r.sn[i].id : i \in 1..r.n} = 1..r.n                          \* a permutation of the input
  /\ \A i \in 1..r.n : \A j \in 1..r.n : i < j => r.sn[i].t >= r.sn[j].t   \* newest first
  /\ \A i \in 1..r.n : InstOK(r.sn[i])

PartitionOK(r) ==
  /\ Len(r.keep) + Len(r.remove) = r.n
  /\ SetOf(r.keep) \cup SetOf(r.remove) = 1..r.n                   \* hence disjoint and duplicate free

IdsAt(r, P) == {r.sn[i].id : i \in P}
PosOf(r, id) == CHOOSE i \in 1..r.n : r.sn[i].id = id

ApplyOK(r) ==
  /\ ListOK(r) /\ PartitionOK(r)
  /\ LET RM  == ReqMap(r.sn, r.pol)
         OM  == OptMap(r.sn, r.pol)
         req == UNION {RM[tok] : tok \in DOMAIN RM}
         opt == UNION {OM[tok] : tok \in DOMAIN OM}
         \* the rules that justify keeping position i
         App(i) == {tok \in DOMAIN RM : i \in RM[tok] \cup OM[tok]}
     IN \* exactly the documented snapshots are kept
        /\ IdsAt(r, req) \subseteq SetOf(r.keep)
        /\ SetOf(r.keep) \subseteq IdsAt(r, req \cup opt)
        \* a reason entry for each kept snapshot (none for others); every reason given names a rule
        \* that really selects the snapshot ("other" = a text the driver could not classify)
        /\ {r.reasons[k].id : k \in DOMAIN r.reasons} = SetOf(r.keep)
        /\ \A k \in DOMAIN r.reasons :
             /\ r.reasons[k].m # <<>>
             /\ r.reasons[k].id \in 1..r.n =>
                  SetOf(r.reasons[k].m) \subseteq App(PosOf(r, r.reasons[k].id)) \cup {"other"}

MonoOK(r) == PolLE(r.pa, r.pb) /\ SetOf(r.ka) \subseteq SetOf(r.kb)

RecOK(r) == IF r.kind = "mono" THEN MonoOK(r) ELSE ApplyOK(r)
=============================================================================
