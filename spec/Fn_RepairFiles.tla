--------------------------- MODULE Fn_RepairFiles ---------------------------
(***************************************************************************)
(* C34: what `repair snapshots` has to make of ONE file of a snapshot.     *)
(*                                                                         *)
(* A record describes a file that could be reached (every tree on its path *)
(* loadable) in the repository as it was when `repair snapshots` started:  *)
(*   before   content list of the file (blob tokens, in order)             *)
(*   ok[i]    entry i could be loaded then (decrypts, hashes to its id)    *)
(*   idx[i]   entry i was listed by the index then                         *)
(*   present  the snapshot that replaces the file's snapshot (or the same  *)
(*            snapshot if it was not rewritten) still has the file         *)
(*   after    its content list there                                       *)
(*                                                                         *)
(* The repaired file is the original with exactly the unavailable entries  *)
(* removed: every entry that was available survives, in order and as often *)
(* as it occurred; no entry that the index does not know remains (check    *)
(* would fail).  A fully available file is therefore unchanged.  An entry  *)
(* that is indexed but not loadable (damage nobody told restic about) may  *)
(* stay or go.                                                             *)
(***************************************************************************)
EXTENDS Naturals, Sequences, FiniteSets

\* the subsequence of s at the positions in P
Keep(s, P) ==
  LET F[i \in 0..Len(s)] == IF i = 0 THEN <<>>
                            ELSE IF i \in P THEN Append(F[i - 1], s[i]) ELSE F[i - 1]
  IN F[Len(s)]

Pos(r)   == 1..Len(r.before)
Must(r)  == {i \in Pos(r) : r.ok[i]}
Maybe(r) == {i \in Pos(r) : r.idx[i] /\ ~r.ok[i]}

FileOK(r) ==
  /\ r.present
  /\ \E P \in SUBSET Maybe(r) : r.after = Keep(r.before, Must(r) \cup P)

\* (hand-made accepted / rejected records: ASSUMEs of Fn_RepairFilesRec.tla)
=============================================================================
