SPECIFICATION Spec
CONSTANTS
  NT = 3
  MaxKids = 2
  W = 2
  MaxRoots = 2
  WithBad = TRUE
  Twin = "none"
  Record = FALSE
INVARIANTS
  Once
  Exact
  ErrorIff
PROPERTIES
  Termination
