SPECIFICATION Spec
CONSTANTS
  MaxDamage = 1
  Variant = "ri_keep_missing"
CONSTRAINT Bound
INVARIANTS
  NoNewLoss
  RepairIndexPost
PROPERTIES
  SalvageRule
CHECK_DEADLOCK FALSE
