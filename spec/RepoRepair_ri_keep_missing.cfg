\* negative twin: only the property it must violate is checked (TLC reports the first violation it meets)
SPECIFICATION Spec
CONSTANTS
  MaxDamage = 1
  Variant = "ri_keep_missing"
CONSTRAINT Bound
INVARIANT RepairIndexPost
CHECK_DEADLOCK FALSE
