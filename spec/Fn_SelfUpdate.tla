---------------------------- MODULE Fn_SelfUpdate ----------------------------
(* C51 verdict on recorded executions: SelfUpdate!RecOK (statement predicates over the script). *)
EXTENDS Naturals, Sequences, FiniteSets
S == INSTANCE SelfUpdate WITH Twin <- "none", script <- 0, pc <- 0, binary <- 0
RecOK(r) == S!RecOK(r)
==============================================================================
