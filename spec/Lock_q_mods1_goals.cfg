SPECIFICATION Spec
CONSTANTS
  N = 1
  MaxTime = 9
  MaxSkew = 1
  Budget = 0
  Variant = "design"
  Faults <- WriteFaults
  MaxToggle = 2
  Removal = TRUE
  Remotes <- RemotesNone
  MaxWaits = 99
  HistMax = 100000
  Emit = TRUE
  MaxAtt = 1
  Crashes = FALSE
  StartBy = 0
  StartFrom = 0
  HealOdds = 3
  ListLag = FALSE
  FixSkew = FALSE
  MaxMods = 1
  Edge = FALSE
VIEW View
INVARIANTS TypeOK InvHolderHasFile InvFresh InvNoWriteAfterCancel InvGoal2 InvGoal3 InvGoal4 InvGoal9 InvGoal11 InvGoal12 InvGoal13
CHECK_DEADLOCK FALSE
