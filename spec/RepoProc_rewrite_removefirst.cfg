\* negative twin: only the property it must violate is checked (TLC reports the first violation it meets)
SPECIFICATION Spec
CONSTANTS
  Proc = {"w1", "x"}
  Roots <- Roots2
  Kids <- KidsC
  MaxPacks = 2
  MaxIdx = 2
  MaxSnaps = 3
  CanBackup = {"w1"}
  CanRead = {}
  CanPrune = {}
  CanForget = {}
  CanRewrite = {"x"}
  CanTag = {}
  Budget <- Budget2
  Variant = "rewrite_remove_first"
VIEW View
INVARIANT RewriteNeverLoses
CHECK_DEADLOCK FALSE
