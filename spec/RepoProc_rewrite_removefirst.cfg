SPECIFICATION Spec
CONSTANTS
  Proc = {"w1", "x"}
  Roots <- Roots2
  Kids <- KidsC
  MaxPacks = 2
  MaxIdx = 2
  MaxSnaps = 3
  CanBackup = {"w1"}
  CanRead = {}
  CanPrune = {}
  CanForget = {}
  CanRewrite = {"x"}
  CanTag = {}
  Budget <- Budget2
  Variant = "rewrite_remove_first"
VIEW View
INVARIANTS
  SnapshotData
  SnapshotIndexed
  IndexSound
  ReaderOK
  TagNeverLoses
  RewriteNeverLoses
PROPERTIES
  W1
  W2
  D1
  D2
CHECK_DEADLOCK FALSE
