SPECIFICATION Spec
CONSTANTS
  N = 1
  MaxTime = 9
  MaxSkew = 1
  Budget = 0
  Variant = "ctxcheckfirst"
  Faults <- WriteFaults
  MaxToggle = 2
  Removal = TRUE
  Remotes <- RemotesNone
  MaxWaits = 99
  HistMax = 0
  Emit = FALSE
  MaxAtt = 1
  Crashes = FALSE
  StartBy = 0
  StartFrom = 0
  HealOdds = 3
  ListLag = FALSE
  FixSkew = FALSE
  MaxMods = 1
  Edge = FALSE
VIEW View
INVARIANTS TypeOK InvHolderHasFile InvFresh InvNoWriteAfterCancel
CHECK_DEADLOCK FALSE
