SPECIFICATION Spec
CONSTANTS
  K = 4
  N = 2
  MaxFreeze = 0
  MaxCancel = 0
  Twin = "release_twice"
  Record = FALSE
INVARIANTS
  Limit
  FrozenNoStart
  LockNeverBlocked
  TokensOK

