SPECIFICATION SpecQS
CONSTANTS
  Procs = {1,2,3}
  NIds = 4
  Cost <- Cost1123
  Size = 2
  MaxCalls = 6
  MaxPerProc = 2
  Twin = "none"
  Record = TRUE
INVARIANTS
  Budget
  Accounting
  NoDup
  CacheVal
  ResultOK
  EmitSched
