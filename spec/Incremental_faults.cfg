SPECIFICATION Spec
CONSTANTS
  Paths = {"a", "b"}
  EditPlan <- Plan11
  Twin = FALSE
  Modes = {"inc", "incskip", "force"}
  FlagSet = {"none", "ignore-inode"}
  Targets = {"dir", "dot"}
  Bigs = {FALSE}
  FaultKinds = {"readerr", "treeloss", "dataloss"}
  MaxVictim = 1
  Emit = FALSE
INVARIANT IncEqualsFull
VIEW View
CHECK_DEADLOCK FALSE
