------------------------- MODULE Fn_ContentAddrVec -------------------------
(* emits the fault scripts of Fn_ContentAddr as vectors for the Go driver (B2a) *)
EXTENDS Fn_ContentAddr, SequencesExt, VerifParams
Vecs == {[script |-> s] : s \in Scripts(MaxAttempts)}
ASSUME ndJsonSerialize("vectors.ndjson", SetToSeq(Vecs))
ASSUME PrintT(<<"vectors", Cardinality(Vecs)>>)
VARIABLE vecDummy
Init == vecDummy = 0
Next == vecDummy' = vecDummy
Spec == Init /\ [][Next]_vecDummy
=============================================================================
