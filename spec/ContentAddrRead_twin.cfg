SPECIFICATION Spec
CONSTANTS MaxAttempts = 3
          UnverifiedAttempt = 2
INVARIANTS Safe
