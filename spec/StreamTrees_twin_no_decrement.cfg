SPECIFICATION Spec
CONSTANTS
  NT = 3
  MaxKids = 2
  W = 2
  MaxRoots = 1
  WithBad = FALSE
  Twin = "no_decrement"
  Record = FALSE
INVARIANTS
  Once
  Exact
  ErrorIff

