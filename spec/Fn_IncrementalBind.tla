------------------------- MODULE Fn_IncrementalBind -------------------------
(* C40 binding control: the reference (parentless) backup of every replayed backup point contains exactly the
   source state the model predicted - i.e. the Go driver realised the model's edit operations faithfully. *)
EXTENDS Naturals, Sequences, FiniteSets
I == INSTANCE Fn_Incremental
RecOK(r) == I!ReplayOK(r)
=============================================================================
