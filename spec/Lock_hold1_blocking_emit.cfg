SPECIFICATION Spec
CONSTANTS
  N = 1
  MaxTime = 22
  MaxSkew = 1
  Budget = 1
  Variant = "blockinghandover"
  Faults <- WriteFaults
  MaxToggle = 1
  Removal = FALSE
  Remotes <- RemotesNone
  MaxWaits = 99
  HistMax = 100000
  Emit = TRUE
  MaxAtt = 2
  Crashes = FALSE
  StartBy = 0
  StartFrom = 0
  HealOdds = 3
  ListLag = FALSE
  FixSkew = FALSE
  MaxMods = 0
  Edge = FALSE
VIEW View
INVARIANTS InvNotStaleEmit
CHECK_DEADLOCK FALSE
