SPECIFICATION Spec
CONSTANTS
 MaxLen = 2
 MonoLen = 1
 Twin = "ge"
INVARIANTS Conforms
CHECK_DEADLOCK FALSE
