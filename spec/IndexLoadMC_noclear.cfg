SPECIFICATION Spec
CONSTANTS
  Variant = "noclear"
  MaxOps = 7
INVARIANT LoadedMatchesFiles
CHECK_DEADLOCK FALSE
