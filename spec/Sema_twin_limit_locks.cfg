SPECIFICATION Spec
CONSTANTS
  K = 3
  N = 1
  MaxFreeze = 1
  Twin = "limit_locks"
  Record = FALSE
INVARIANTS
  Limit
  FrozenNoStart
  LockNeverBlocked
  TokensOK

