SPECIFICATION Spec
CONSTANTS
  K = 3
  N = 1
  MaxFreeze = 1
  MaxCancel = 0
  Twin = "limit_locks"
  Record = FALSE
INVARIANTS
  Limit
  FrozenNoStart
  LockNeverBlocked
  TokensOK

