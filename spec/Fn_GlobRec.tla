----------------------------- MODULE Fn_GlobRec -----------------------------
(***************************************************************************)
(* C28: the judge for the records of the Go driver                         *)
(* (harness/pkg/internal/filter/zz_verif_c28_test.go), in terms of the     *)
(* declarative pattern semantics of Fn_Glob.                               *)
(***************************************************************************)
EXTENDS Fn_Glob

(* one record of the C28 driver: the real Match / ChildMatch / List / ListWithChild /      *)
(* ValidatePatterns (and the Include/Reject closures of include.go / exclude.go) evaluated *)
(* for one pattern list on EVERY path of a universe                                        *)
(*   r.pats     the patterns [neg, abs, parts] in list order                               *)
(*   r.alpha, r.depth   the universe: paths of <= depth components over alpha, abs and rel *)
(*   r.fold     the case-insensitive closures were used (patterns and paths are compared   *)
(*              in lower case)                                                             *)
(*   r.single   TRUE when Match/ChildMatch were run too (one un-negated pattern)           *)
(*   r.m        paths for which Match returned true                                        *)
(*   r.c        paths of < depth components for which ChildMatch returned true            *)
(*   r.l, r.lw  paths for which List / ListWithChild returned matched                      *)
(*   r.lc       paths of < depth components for which ListWithChild said children may match*)
(*   r.deep     paths of < depth components below which the REAL List accepted a path one  *)
(*              or two levels below the universe                                           *)
(*   r.err      some call returned an error;  r.panic  some call panicked                  *)
(*   r.valerr   ValidatePatterns rejected the list                                         *)
\* (written so that TLC enumerates the universe once per derived set: operator arguments are
\* evaluated once, LET-bound sets would be re-evaluated at every use)
Judge(r, LStr, Need, MStr) ==
  /\ ~r.err
  /\ ToSet(r.l) = LStr
  /\ ToSet(r.lw) = LStr
  /\ Need \subseteq ToSet(r.lc)            \* children-may-match is never false above a match
  /\ ToSet(r.deep) \subseteq ToSet(r.lc)
  /\ r.single =>
       /\ ToSet(r.m) = MStr
       /\ Need \subseteq ToSet(r.c)
       /\ ToSet(r.deep) \subseteq ToSet(r.c)

EffPats(r) == IF r.fold THEN [i \in DOMAIN r.pats |-> [r.pats[i] EXCEPT !.parts = LowerSeq(@)]] ELSE r.pats
EffPath(r, q) == IF r.fold THEN [q EXCEPT !.comps = LowerSeq(@)] ELSE q

\* LSeq: the paths of the universe the pattern list accepts (a sequence, so that TLC holds it
\* evaluated); for one un-negated pattern Listed is Matches by definition
JudgeSeq(r, LSeq) ==
  Judge(r,
        {PathStr(LSeq[k]) : k \in DOMAIN LSeq},
        UNION {{PathStr(Prefix(LSeq[k], n)) : n \in 1..(Len(LSeq[k].comps) - 1)} : k \in DOMAIN LSeq},
        IF r.single THEN {PathStr(LSeq[k]) : k \in DOMAIN LSeq} ELSE {})

\* The entries of the universe each pattern names are computed once (NS[i], an explicit set); a
\* path matches pattern i when it or one of its ancestors is in NS[i] -- this is Matches/Listed
\* above, arranged so that TLC does the expensive part once per (pattern, entry).
NamedOf(pat, r, U) == ToSet(SetToSeq({q \in U : Names(pat, EffPath(r, q))}))
RECURSIVE NamedAll(_, _, _, _)
NamedAll(P, r, U, i) == IF i > Len(P) THEN <<>> ELSE <<NamedOf(P[i], r, U)>> \o NamedAll(P, r, U, i + 1)

InM(P, NS, i, p) ==
  \/ p.abs /\ P[i].abs /\ Exact(P[i].parts, <<>>)
  \/ \E n \in 1..Len(p.comps) : Prefix(p, n) \in NS[i]
ListedNS(P, NS, p) ==
  \E i \in 1..Len(P) :
     /\ ~P[i].neg
     /\ InM(P, NS, i, p)
     /\ \A j \in (i + 1)..Len(P) : P[j].neg => ~InM(P, NS, j, p)

JudgeNS(r, P, U, NS) == JudgeSeq(r, SetToSeq({p \in U : ListedNS(P, NS, p)}))
JudgeOn(r, P, U) == JudgeNS(r, P, U, NamedAll(P, r, U, 1))

\* the arrangement above is the declarative definition (checked by TLC in Fn_GlobDesign)
ArrangementOK(r, P, U) ==
  {p \in U : ListedNS(P, NamedAll(P, r, U, 1), p)} = {p \in U : Listed(P, EffPath(r, p))}

RecBad(r) == \E i \in DOMAIN r.pats : BadPat(r.pats[i])
RecU(r)   == Paths(ToSet(r.alpha), r.depth)

RecOK(r) ==
  /\ ~r.panic
  /\ r.valerr = RecBad(r)
  /\ RecBad(r) \/ JudgeOn(r, EffPats(r), RecU(r))

\* what the model expects for a record (for violation reports): accepted paths and the directories
\* above them
ExpectedL(r) ==
  IF RecBad(r) THEN {} ELSE {PathStr(p) : p \in {p \in RecU(r) : Listed(EffPats(r), EffPath(r, p))}}
ExpectedNeed(r) ==
  IF RecBad(r) THEN {}
  ELSE UNION {{PathStr(Prefix(p, n)) : n \in 1..(Len(p.comps) - 1)} :
                 p \in {p \in RecU(r) : Listed(EffPats(r), EffPath(r, p))}}
=============================================================================
