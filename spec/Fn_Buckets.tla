----------------------------- MODULE Fn_Buckets -----------------------------
(***************************************************************************)
(* C52: `check --read-data-subset`.                                        *)
(*                                                                         *)
(* Statement: for any accepted t, the packs read by n/t for n = 1..t are   *)
(* pairwise disjoint and together cover every pack; a percentage or size   *)
(* subset reads at least one pack when the repository has packs.           *)
(*                                                                         *)
(* A pack is a pair <<token, size>> (the driver numbers the pack IDs).     *)
(* Which group a pack belongs to is NOT fixed by the statement; only the   *)
(* partition is.                                                           *)
(***************************************************************************)
EXTENDS Sequences, FiniteSets, Naturals, FiniteSetsExt, SequencesExt

\* the documented maximum of t ("t must be at most 256")
MaxT == 256


\* S: sequence (indexed by group number n) of sets of packs
PairwiseDisjoint(S) == \A i, j \in DOMAIN S : i # j => S[i] \cap S[j] = {}
Cover(S, all)       == UNION {S[i] : i \in DOMAIN S} = all
Partition(S, all)   == PairwiseDisjoint(S) /\ Cover(S, all)

\* the same, evaluated in linear time: sets that cover `all` are pairwise
\* disjoint iff their cardinalities add up to |all| (equivalence checked by
\* TLC on a small universe in Fn_BucketsMC)
PartitionFast(S, all) ==
  /\ Cover(S, all)
  /\ FoldSeq(LAMBDA x, acc : Cardinality(x) + acc, 0, S) = Cardinality(all)

\* values the user documentation gives or describes as valid
MustAcceptFlags == {"2.5%", "10%", "1%", "50%", "100%", "50M", "10G", "1K", "1T"}

\* r.kind = "buckets": one t, one pack set, all n in 1..t
\*   r.accepted[n]  checkFlags accepted "n/t"
\*   r.sel[n]       packs selected for n/t (empty when not accepted)
BucketsOK(r) ==
  LET all == ToSet(r.packs)
      S   == [n \in 1..r.t |-> ToSet(r.sel[n])]
  IN
  /\ r.err = ""
  /\ (r.t <= MaxT => \A n \in 1..r.t : r.accepted[n])
  /\ ((\E n \in 1..r.t : r.accepted[n]) =>
         /\ \A n \in 1..r.t : r.accepted[n]
         /\ PartitionFast(S, all))

\* r.kind = "subset": one percentage / size flag applied to one pack set
SubsetOK(r) ==
  /\ (r.flag \in MustAcceptFlags => r.accepted)
  /\ (r.accepted =>
        /\ r.err = ""
        /\ ToSet(r.sel) \subseteq ToSet(r.packs)
        /\ (Len(r.packs) > 0 => Len(r.sel) > 0))

RecOK(r) == IF r.kind = "buckets" THEN BucketsOK(r) ELSE SubsetOK(r)
=============================================================================
