SPECIFICATION Spec
CONSTANTS
  Chunks = 2
  TempNames = "shared"
  Record = FALSE
INVARIANTS
  NoPartialFinal
  SuccessStored

