---------------------------- MODULE Fn_PolicyMC ----------------------------
(***************************************************************************)
(* C22 design run.                                                         *)
(*  (1) An operational transcription of the ApplyPolicy loop (one action   *)
(*      per loop iteration, the bucket counters / last-values as state) is *)
(*      model-checked against the declarative definition of Fn_Policy on   *)
(*      all lists of <= MaxLen table instants x all design policies:       *)
(*      invariant Conforms.  Twin # "none" breaks the transcription in a   *)
(*      realistic way; TLC must refute it (vacuity control).               *)
(*  (2) Monotonicity of the declarative definition (raising a count or a   *)
(*      duration, adding a tag set never removes a kept snapshot) is       *)
(*      checked as an ASSUME over the same bounded domain.                 *)
(***************************************************************************)
EXTENDS Fn_Policy, Json, TLC

CONSTANTS MaxLen, MonoLen, Twin

DI == <<11, 12, 13, 14, 15, 16, 17, 18, 19, 20, 23, 24>>     \* design instants (indices into Instants)
TagOf(k) == CASE k % 4 = 0 -> <<>> [] k % 4 = 1 -> <<"x">> [] k % 4 = 2 -> <<"y">> [] OTHER -> <<"x", "y">>

\* all newest-first lists (non-increasing instant index = non-increasing time) of length <= L
RECURSIVE ListsOf(_)
ListsOf(L) == IF L = 0 THEN {<<>>}
              ELSE LET S == ListsOf(L - 1)
                   IN S \cup UNION {{<<k>> \o x : x \in {x \in S : Len(x) = L - 1 /\ (x = <<>> \/ x[1] <= k)}} : k \in 1..Len(DI)}

Snap(k, id) == LET I == Instants[DI[k]] IN
  [id |-> id, t |-> I.t, y |-> I.y, mo |-> I.mo, d |-> I.d, h |-> I.h, iy |-> I.iy, iw |-> I.iw,
   fut |-> I.fut, tags |-> TagOf(k), inst |-> DI[k]]
SnOf(l) == [i \in 1..Len(l) |-> Snap(l[i], i)]

\* abstract policies: durations in minutes (0 = rule off)
Zero == [last |-> 0, hourly |-> 0, daily |-> 0, weekly |-> 0, monthly |-> 0, yearly |-> 0,
         within |-> 0, wh |-> 0, wd |-> 0, ww |-> 0, wm |-> 0, wy |-> 0, tags |-> <<>>]
Counts == {1, 2, -1}
Durs   == {60, 1440, 2880}
APols ==
  {Zero}
  \cup {[Zero EXCEPT !.last = c] : c \in Counts}   \cup {[Zero EXCEPT !.hourly = c] : c \in Counts}
  \cup {[Zero EXCEPT !.daily = c] : c \in Counts}  \cup {[Zero EXCEPT !.weekly = c] : c \in Counts}
  \cup {[Zero EXCEPT !.monthly = c] : c \in Counts} \cup {[Zero EXCEPT !.yearly = c] : c \in Counts}
  \cup {[Zero EXCEPT !.within = d] : d \in Durs} \cup {[Zero EXCEPT !.wh = d] : d \in Durs}
  \cup {[Zero EXCEPT !.wd = d] : d \in Durs} \cup {[Zero EXCEPT !.ww = d] : d \in Durs}
  \cup {[Zero EXCEPT !.wm = d] : d \in Durs} \cup {[Zero EXCEPT !.wy = d] : d \in Durs}
  \cup {[Zero EXCEPT !.tags = t] : t \in {<< <<"x">> >>, << <<"x", "y">> >>, << <<"x">>, <<"y">> >>, << <<"">> >>}}
  \cup {[Zero EXCEPT !.last = 1, !.daily = 2], [Zero EXCEPT !.hourly = 1, !.weekly = -1],
        [Zero EXCEPT !.daily = 1, !.yearly = 2, !.wh = 60], [Zero EXCEPT !.weekly = 2, !.within = 1440, !.tags = << <<"y">> >>],
        [Zero EXCEPT !.last = 2, !.hourly = 2, !.daily = 2, !.weekly = 2, !.monthly = 2, !.yearly = 2],
        [Zero EXCEPT !.wd = 2880, !.wm = 1440, !.monthly = 1]}

Win(sn, d) == [on |-> d # 0, sub |-> IF d = 0 THEN <<>> ELSE [i \in 1..Len(sn) |-> sn[i].t - d]]
Concrete(sn, ap) ==
  [last |-> ap.last, hourly |-> ap.hourly, daily |-> ap.daily, weekly |-> ap.weekly, monthly |-> ap.monthly,
   yearly |-> ap.yearly, within |-> Win(sn, ap.within), wh |-> Win(sn, ap.wh), wd |-> Win(sn, ap.wd),
   ww |-> Win(sn, ap.ww), wm |-> Win(sn, ap.wm), wy |-> Win(sn, ap.wy), tags |-> ap.tags]

(* ----------------------------------------------------------------------- *)
(* (1) transcription of the loop                                           *)
(* ----------------------------------------------------------------------- *)
VARIABLES sn, pol, i, cnt, lastv, wlast, kept
vars == <<sn, pol, i, cnt, lastv, wlast, kept>>

Buckets == {"last"} \cup PK
BCount(p, b) == IF b = "last" THEN p.last ELSE CountOf(p, b)
BVal(b, k)   == IF b = "last" THEN <<k>> ELSE Key(b, sn[k])
None == <<-1>>

\* findLatestTimestamp: newest snapshot not in the future; the zero time if there is none
LatestT == IF NonFuture(sn) = {} THEN -1000000000 ELSE sn[LatestPos(sn)].t
Thr(w)  == IF NonFuture(sn) = {} THEN -1000000000 ELSE w.sub[LatestPos(sn)]
After(a, b) == IF Twin = "ge" THEN a >= b ELSE a > b
IsOldest(k) == IF Twin = "nooldest" THEN FALSE ELSE k = Len(sn)

AllLists  == ListsOf(MaxLen)
MonoLists == ListsOf(MonoLen)

Init ==
  /\ \E l \in AllLists : sn = SnOf(l)
  /\ \E ap \in APols : pol = Concrete(sn, ap)
  /\ i = 1
  /\ cnt = [b \in Buckets |-> BCount(pol, b)]
  /\ lastv = [b \in Buckets |-> None]
  /\ wlast = [p \in PK |-> None]
  /\ kept = {}

Step ==
  /\ i <= Len(sn)
  /\ LET cur == sn[i]
         byTag == \E k \in DOMAIN pol.tags : HasAll(cur, pol.tags[k])
         byWithin == pol.within.on /\ After(cur.t, Thr(pol.within))
         hitB == {b \in Buckets : (cnt[b] > 0 \/ cnt[b] = -1) /\ (BVal(b, i) # lastv[b] \/ IsOldest(i))}
         hitW == {p \in PK : WinOf(pol, p).on /\ After(cur.t, Thr(WinOf(pol, p))) /\ (Key(p, cur) # wlast[p] \/ IsOldest(i))}
     IN /\ cnt' = [b \in Buckets |-> IF b \in hitB /\ cnt[b] > 0 THEN cnt[b] - 1 ELSE cnt[b]]
        /\ lastv' = [b \in Buckets |-> IF b \in hitB THEN BVal(b, i) ELSE lastv[b]]
        /\ wlast' = [p \in PK |-> IF p \in hitW THEN Key(p, cur) ELSE wlast[p]]
        /\ kept' = IF byTag \/ byWithin \/ hitB # {} \/ hitW # {} THEN kept \cup {i} ELSE kept
  /\ i' = i + 1
  /\ UNCHANGED <<sn, pol>>

Done == i > Len(sn) /\ UNCHANGED vars
Next == Step \/ Done
Spec == Init /\ [][Next]_vars

\* the loop ends with exactly the snapshots the declarative definition demands or permits
\* (when every snapshot lies in the future and a duration rule is on, the definition leaves the
\* choice open: then only Req <= kept <= Req + Opt is demanded)
AnyOpen == NonFuture(sn) = {} /\ (pol.within.on \/ \E p \in PK : WinOf(pol, p).on)
Conforms == i > Len(sn) =>
  /\ Req(sn, pol) \subseteq kept
  /\ kept \subseteq Req(sn, pol) \cup Opt(sn, pol)
  /\ ~AnyOpen => kept = Req(sn, pol) \cup Opt(sn, pol)
\* every prefix: nothing outside the definition is ever kept
Sound == kept \subseteq Req(sn, pol) \cup Opt(sn, pol)

(* ----------------------------------------------------------------------- *)
(* (2) monotonicity theorem on the bounded domain                          *)
(* ----------------------------------------------------------------------- *)
\* pairs a <= b of abstract policies (durations in minutes, 0 = off), computed once
DurLE(x, y) == x = 0 \/ (y # 0 /\ x <= y)
APolLE(a, b) ==
  /\ CountLE(a.last, b.last) /\ CountLE(a.hourly, b.hourly) /\ CountLE(a.daily, b.daily)
  /\ CountLE(a.weekly, b.weekly) /\ CountLE(a.monthly, b.monthly) /\ CountLE(a.yearly, b.yearly)
  /\ DurLE(a.within, b.within) /\ DurLE(a.wh, b.wh) /\ DurLE(a.wd, b.wd) /\ DurLE(a.ww, b.ww)
  /\ DurLE(a.wm, b.wm) /\ DurLE(a.wy, b.wy)
  /\ SetOf(a.tags) \subseteq SetOf(b.tags)
LEPairs == {pr \in APols \X APols : APolLE(pr[1], pr[2])}
MonoHolds ==
  \A l \in MonoLists :
    LET s  == SnOf(l)
        C  == [a \in APols |-> Concrete(s, a)]
        RQ == [a \in APols |-> Req(s, C[a])]
        RO == [a \in APols |-> RQ[a] \cup Opt(s, C[a])]
    IN \A pr \in LEPairs :
         /\ PolLE(C[pr[1]], C[pr[2]])     \* the record-level order used by RecOK agrees with the abstract one
         /\ RQ[pr[1]] \subseteq RQ[pr[2]]
         /\ RO[pr[1]] \subseteq RO[pr[2]]
MonoPairs == Cardinality({pr \in LEPairs : pr[1] # pr[2]})

ASSUME Twin # "none" \/ MonoHolds
ASSUME PrintT(<<"VERIF_MONO", Cardinality(MonoLists), Cardinality(APols), MonoPairs>>)
ASSUME PrintT(<<"VERIF_DOMAIN", Cardinality(AllLists), Cardinality(APols)>>)

=============================================================================
