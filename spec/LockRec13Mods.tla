---- MODULE LockRec13Mods ----
(* C13, classification of rejected records: only NoWriteAfterCancel *)
EXTENDS LockObs
RecOK(r) == NoWriteAfterCancel(r.mods)
====
