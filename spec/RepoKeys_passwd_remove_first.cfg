SPECIFICATION Spec
CONSTANTS
  Pw = {"a", "b"}
  MaxKeys = 4
  Atomic = TRUE
  Variant = "passwd_remove_first"
INVARIANTS
  SomeKeyWorks
  ConfigPresentAtomic

PROPERTIES
  KeyInUseKept
CHECK_DEADLOCK FALSE
