\* negative twin: only the property it must violate is checked
SPECIFICATION Spec
CONSTANTS
  Pw = {"a", "b"}
  MaxKeys = 4
  Atomic = TRUE
  Variant = "passwd_remove_first"
INVARIANT SomeKeyWorks
CHECK_DEADLOCK FALSE
