--------------------------- MODULE LocalSaveTrace ---------------------------
(***************************************************************************)
(* C36 binding: recs.ndjson holds, per save performed by the REAL          *)
(* local.Save under `strace -f`, the system calls it issued on the         *)
(* repository directory (in order, with results), translated 1:1 into the  *)
(* calls of LocalSave.tla.  The sequence is not assumed - it is whatever   *)
(* the code did.  TLC replays each sequence and, in every prefix state,    *)
(* takes Crash with every persistence choice; the property is evaluated in *)
(* every crashed state and (for a concurrent observer / process kill) in   *)
(* every running state.                                                    *)
(*                                                                         *)
(* Records of kind "kill" come from runs in which the process was really   *)
(* killed (SIGKILL) at a system call boundary: r.listed is what the real   *)
(* List/Load of a freshly opened backend then returned.                    *)
(*                                                                         *)
(* Findings are printed (PrintT) instead of stopping TLC so that one run   *)
(* judges all records; C36BAD = property violated, C36BIND = the model's   *)
(* state disagrees with the directory the real code left (machinery).      *)
(***************************************************************************)
EXTENDS LocalSave, Json, SequencesExt

Recs == ndJsonDeserialize("recs.ndjson")

VARIABLES ri,   \* record being replayed (0 = none yet)
          k     \* number of its operations consumed

tvars == <<vdir, ddir, vcon, dcon, mkd, fdt, mode, vis, want, final, reponames, ri, k>>

R == Recs[ri]
O == R.ops[k + 1]

TInit ==
  /\ ri = 0 /\ k = 0 /\ mode = "idle" /\ vis = EmptyFn
  /\ vdir = EmptyFn /\ ddir = EmptyFn /\ vcon = EmptyFn /\ dcon = EmptyFn /\ mkd = {} /\ fdt = EmptyFn
  /\ want = 0 /\ final = << >> /\ reponames = {}

AtEnd == ri > 0 /\ mode = "run" /\ k = Len(R.ops)

\* next save: a fresh directory, optionally with a complete file already under the final name
TBegin ==
  /\ IF ri = 0 THEN mode = "idle" ELSE AtEnd
  /\ ri < Len(Recs)
  /\ LET N == Recs[ri + 1] IN
       /\ ri' = ri + 1 /\ k' = 0 /\ mode' = "run" /\ vis' = EmptyFn
       /\ want' = N.want /\ final' = N.final /\ reponames' = ToSet(N.reponames)
       /\ vdir' = IF N.pre = "none" THEN EmptyFn ELSE (N.final :> 1)
       /\ ddir' = vdir'
       /\ vcon' = IF N.pre = "none" THEN EmptyFn ELSE (1 :> Old)
       /\ dcon' = vcon'
       /\ mkd' = {} /\ fdt' = EmptyFn

TOp ==
  /\ ri > 0 /\ mode = "run" /\ k < Len(R.ops)
  /\ k' = k + 1
  /\ UNCHANGED <<ri, mode, vis, want, final, reponames>>
  /\ CASE O.op = "open"      -> SysOpen(O.p, O.fd, O.creat, O.trunc, O.wr, O.app)
       [] O.op = "write"     -> SysWrite(O.fd, O.off, O.n)
       [] O.op = "seek"      -> SysSeek(O.fd, O.off)
       [] O.op = "fallocate" -> SysFallocate(O.fd, O.fmode, O.off, O.n)
       [] O.op = "truncate"  -> SysTruncate(O.fd, O.n)
       [] O.op = "fsync"     -> SysFsync(O.fd)
       [] O.op = "syncall"   -> SysSyncAll
       [] O.op = "close"     -> SysClose(O.fd)
       [] O.op = "rename"    -> SysRename(O.p, O.q)
       [] O.op = "link"      -> SysLink(O.p, O.q)
       [] O.op = "unlink"    -> SysUnlink(O.p)
       [] O.op = "mkdir"     -> SysMkdir(O.p)
       [] O.op \in {"meta", "nop"} -> SysMeta

TCrash == Crash /\ UNCHANGED <<ri, k>>

TDone ==
  /\ AtEnd /\ ri = Len(Recs)
  /\ PrintT(<<"C36DONE", ri>>)
  /\ mode' = "done"
  /\ UNCHANGED <<vdir, ddir, vcon, dcon, mkd, fdt, vis, want, final, reponames, ri, k>>

TNext == TBegin \/ TOp \/ TCrash \/ TDone

TraceSpec == TInit /\ [][TNext]_tvars

\* ----------------------------------------------------------------- reports
After    == IF k = 0 THEN "start" ELSE R.ops[k].what
Files(v) == SetToSeq({[p |-> n, size |-> v[n].size, valid |-> v[n].valid, kind |-> v[n].kind] : n \in DOMAIN v})
Witness(what, v) == ToJson([what |-> what, rec |-> R.id, k |-> k, after |-> After, files |-> Files(v)])

\* crash (power loss) at every point of the observed sequence
Rep_NoPartialFinal ==
  (mode = "crashed" /\ PartialFinal(vis)) => PrintT(<<"C36BAD", Witness("partial-final", vis)>>)
Rep_NoTempListed ==
  (mode = "crashed" /\ TempListed(vis))   => PrintT(<<"C36BAD", Witness("temp-listed", vis)>>)
\* concurrent observer / process kill at every point of the observed sequence
Rep_Live ==
  /\ (mode = "run" /\ ri > 0 /\ PartialFinal(KillView)) => PrintT(<<"C36BAD", Witness("partial-final-live", KillView)>>)
  /\ (mode = "run" /\ ri > 0 /\ TempListed(KillView))   => PrintT(<<"C36BAD", Witness("temp-listed-live", KillView)>>)

\* real kill: what the real List/Load of a fresh backend showed afterwards.  Every entry reported
\* under a well-formed repository file name must be a final name holding its complete content.
KillBad == {e \in ToSet(R.listed) : e.idok /\ ~(e.final /\ e.complete)}
Rep_Kill ==
  (AtEnd /\ R.kind = "kill" /\ KillBad # {}) =>
     PrintT(<<"C36BAD", ToJson([what |-> "kill-listing", rec |-> R.id, k |-> k, after |-> After,
                               files |-> SetToSeq(KillBad)])>>)

\* binding control: the directory the real code left (after the save returned, or after the kill)
\* is the one the model computed from the observed system calls
Agree ==
  LET kv == KillView
      ob == ToSet(R.end)
  IN /\ DOMAIN kv = {e.p : e \in ob}
     /\ \A e \in ob : e.p \in DOMAIN kv =>
           \/ kv[e.p].kind # "new"
           \/ (kv[e.p].size = e.size /\ (Complete(kv[e.p]) <=> e.complete))
Rep_Bind ==
  (AtEnd /\ ~Agree) => PrintT(<<"C36BIND", ToJson([rec |-> R.id, model |-> Files(KillView), observed |-> R.end])>>)
=============================================================================
