SPECIFICATION Spec
CONSTANTS
  NChunks = 3
  Variant = "fixed"
INVARIANTS
  TypeOK
  NoCrash
  NoSpuriousFatal
  StatusOK
PROPERTY Terminates
CHECK_DEADLOCK FALSE
