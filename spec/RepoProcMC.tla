---------------------------- MODULE RepoProcMC ----------------------------
(* Model-checking instance of RepoProc with a small fixed content universe. *)
EXTENDS RepoProc

\* t1 = {d1}, t2 = {d1, d2}, t3 = {t1, d2}: shared data blob, shared subtree
KidsC  == [t \in {"t1", "t2", "t3"} |->
             IF t = "t1" THEN {"d1"} ELSE IF t = "t2" THEN {"d1", "d2"} ELSE {"t1", "d2"}]
RootsC == {"t1", "t2", "t3"}
Roots2 == {"t2", "t3"}
\* smaller universe for the 3-process configurations: t1 = {d1}, t2 = {t1, d2}
KidsS  == [t \in {"t1", "t2"} |-> IF t = "t1" THEN {"d1"} ELSE {"t1", "d2"}]
RootsS == {"t1", "t2"}

View == <<storage, pc, role, goal, lst, mem, open, unsaved, have, seen, plan, newsnap, told, runs>>
Budget1 == [p \in Proc |-> 1]
Budget2 == [p \in Proc |-> 2]
Budget3 == [p \in Proc |-> 3]
BudgetP == [p \in Proc |-> IF p = "x" THEN 2 ELSE 2]
BudgetQ == [p \in Proc |-> IF p = "x" THEN 2 ELSE 1]
=============================================================================
