------------------------------ MODULE Fn_Keys ------------------------------
(***************************************************************************)
(* C29: which passwords open a repository.  One record = one storage state *)
(* (after a key command or at one of its crash points) on which the        *)
(* harness tried every password with the real SearchKey.                   *)
(*   r.expected  indices of the passwords some PRESENT key file was        *)
(*               created with (from the history)                           *)
(*   r.opens     indices of the passwords that opened the repository       *)
(*   r.nkeys     number of key files present                               *)
(*   r.masters   number of distinct master keys seen over all successful   *)
(*               openings; r.same_master: it is the repository's key       *)
(*   r.hint_ok   every present key opens with its password when named      *)
(*               with --key-hint                                           *)
(***************************************************************************)
EXTENDS Sequences, FiniteSets, Naturals

SetOf(s) == {s[i] : i \in DOMAIN s}

RecOK(r) ==
  /\ SetOf(r.opens) = SetOf(r.expected)     \* a password opens iff a current key was created with it
  /\ r.nkeys >= 1 /\ SetOf(r.opens) # {}     \* at least one working key at every interruption point
  /\ r.masters = 1 /\ r.same_master          \* every key unlocks the same master key
  /\ r.hint_ok
=============================================================================
