---------------------------- MODULE Fn_PackMerge ----------------------------
(***************************************************************************)
(* C44, flush merging (packerManager.mergePackers): at the end of an       *)
(* upload session the open packers are merged pairwise, left to right,     *)
(* while the result stays below the target pack size AND its header can    *)
(* still list all blobs.  A packer is <<size, count>>.                     *)
(*                                                                         *)
(* Design part (ASSUMEs, scaled constants): for every sequence of up to 3  *)
(* open packers that are individually legal, the merge rule of the code    *)
(* yields only legal packs and loses / duplicates no blob; the rule that   *)
(* compares sizes only (restic before f6afb7a4d) produces a pack whose     *)
(* header exceeds the limit - the twin is refuted.                         *)
(*                                                                         *)
(* Conformance part: RecOK judges what the real packer manager queued for  *)
(* upload after n tiny blobs were saved through two packers and flushed:   *)
(*   r.n        blobs accepted by SaveBlob                                 *)
(*   r.counts   number of blobs of every queued pack                       *)
(*   r.final    Finalize() of that pack succeeded                          *)
(*   r.limit    pack.MaxHeaderEntries                                      *)
(***************************************************************************)
EXTENDS Naturals, Sequences, FiniteSets

RECURSIVE SumSeq(_)
SumSeq(s) == IF s = <<>> THEN 0 ELSE Head(s) + SumSeq(Tail(s))

\* ---- design model, scaled
PackSize   == 6
MaxEntries == 3
Legal(p)   == p[1] \in 1..(PackSize - 1) /\ p[2] \in 1..MaxEntries
Packers    == {p \in (1..(PackSize - 1)) \X (1..MaxEntries) : TRUE}

MayMerge(rule, p, q) ==
  IF rule = "code" THEN p[1] + q[1] < PackSize /\ p[2] + q[2] <= MaxEntries
  ELSE p[1] + q[1] < PackSize                       \* "size-only"

\* mergePackers: cur is the packer being grown, out the packs already decided
RECURSIVE Merge(_, _, _, _)
Merge(rule, cur, rest, out) ==
  IF rest = <<>> THEN Append(out, cur)
  ELSE LET q == Head(rest) IN
       IF MayMerge(rule, cur, q)
       THEN Merge(rule, <<cur[1] + q[1], cur[2] + q[2]>>, Tail(rest), out)
       ELSE Merge(rule, q, Tail(rest), Append(out, cur))

Flush(rule, ps) == IF ps = <<>> THEN <<>> ELSE Merge(rule, Head(ps), Tail(ps), <<>>)

Inputs == UNION {[1..n -> Packers] : n \in 1..3}
Counts(ps) == [i \in DOMAIN ps |-> ps[i][2]]
Good(ps, out) ==
  /\ \A i \in DOMAIN out : out[i][2] <= MaxEntries
  /\ SumSeq(Counts(out)) = SumSeq(Counts(ps))

ASSUME \A ps \in Inputs : Good(ps, Flush("code", ps))
ASSUME \E ps \in Inputs : ~Good(ps, Flush("size-only", ps))     \* negative twin refuted

\* ---- conformance
RecOK(r) ==
  /\ SumSeq(r.counts) = r.n                                  \* every accepted blob is in exactly one queued pack
  /\ \A i \in DOMAIN r.counts : r.counts[i] <= r.limit       \* no pack exceeds the header limit
  /\ \A i \in DOMAIN r.final : r.final[i]                    \* every queued pack can be finalized
  /\ Len(r.final) = Len(r.counts)
=============================================================================
