SPECIFICATION Spec
CONSTANTS
  MaxDamage = 1
  Variant = "ok"
CONSTRAINT Bound
INVARIANTS
  NoNewLoss
  RepairIndexPost
PROPERTIES
  SalvageRule
CHECK_DEADLOCK FALSE
