SPECIFICATION Spec
CONSTANTS
  NChunks = 3
  Variant = "unregistered"
INVARIANT NoCrash
CHECK_DEADLOCK FALSE
