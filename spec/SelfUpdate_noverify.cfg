SPECIFICATION Spec
CONSTANT Twin = "noverify"
INVARIANTS Safe
CHECK_DEADLOCK FALSE
