SPECIFICATION SpecQ
CONSTANTS
  K = 3
  N = 1
  MaxFreeze = 1
  MaxCancel = 1
  Twin = "none"
  Record = TRUE
INVARIANTS
  Limit
  FrozenNoStart
  LockNeverBlocked
  TokensOK
  EmitSched
