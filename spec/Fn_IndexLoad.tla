---------------------------- MODULE Fn_IndexLoad ----------------------------
(***************************************************************************)
(* C08: the loaded index matches exactly the index files in the repository.*)
(*                                                                         *)
(* Declarative part (used to judge records of the real code, RecOK):       *)
(*   an index file is a bag of entries  <<blob, pack, offset, length,      *)
(*   uncompressed length, plaintext size>>  (numbers are decimal strings:  *)
(*   values go up to 2^32-1, beyond TLC integers);                         *)
(*   after a load, looking up blob b gives exactly the entries recorded    *)
(*   for b in the index files present in the repository, a (re)load on a   *)
(*   long-lived repository object gives the same lookups as a fresh load,  *)
(*   and decode(encode(index)) has exactly the entries of the index.       *)
(* Operational part (model-checked in IndexLoadMC): the documented         *)
(*   incremental load "keep what is loaded if every loaded file still      *)
(*   exists, otherwise start over" and a broken twin that never starts     *)
(*   over.                                                                 *)
(***************************************************************************)
EXTENDS Sequences, FiniteSets, Integers

Range(s) == {s[i] : i \in DOMAIN s}
Count(s, e) == Cardinality({i \in DOMAIN s : s[i] = e})
SameBag(s, t) == \A e \in Range(s) \cup Range(t) : Count(s, e) = Count(t, e)

\* entries recorded in the files S; content: file -> sequence (or set) of entries
EntriesOfSeq(content, S) == UNION {Range(content[f]) : f \in S}
EntriesOfSet(content, S) == UNION {content[f] : f \in S}

Blob(e) == e[1]
PSize(e) == e[6]

\* ---------------------------------------------------------------- history
\* steps:  add f | remove f | reload (with observation)
Present(steps, i) ==      \* files in the repository after step i
  {f \in {steps[j].f : j \in {q \in 1..i : steps[q].op = "add"}} :
     LET last == CHOOSE j \in 1..i : /\ steps[j].f = f /\ steps[j].op \in {"add", "remove"}
                                     /\ \A q \in (j+1)..i : ~(steps[q].f = f /\ steps[q].op \in {"add", "remove"})
     IN steps[last].op = "add"}

\* one lookup result L = <<entries found, found flag of the size lookup, size reported>> for blob b
LookupOK(E, b, L) ==
  LET Eb == {e \in E : Blob(e) = b}
  IN /\ Range(L[1]) = Eb                       \* exactly the recorded locations (as a set)
     /\ L[2] = (Eb # {})
     /\ (Eb # {} => L[3] \in {PSize(e) : e \in Eb})

\* o.inc / o.fresh: per blob of r.blobs the lookup on the long-lived / on a freshly loaded repository
\* o.inc_list / o.fresh_list: everything ListBlobs enumerates
ObsOK(r, i, o) ==
  LET E == EntriesOfSeq(r.files, Present(r.steps, i))
  IN /\ Len(o.inc) = Len(r.blobs) /\ Len(o.fresh) = Len(r.blobs)
     /\ \A x \in DOMAIN r.blobs :
          /\ LookupOK(E, r.blobs[x], o.inc[x])
          /\ LookupOK(E, r.blobs[x], o.fresh[x])
          /\ SameBag(o.inc[x][1], o.fresh[x][1])      \* re-load gives the same lookups as a fresh load
     /\ Range(o.inc_list) = E /\ Range(o.fresh_list) = E
     /\ SameBag(o.inc_list, o.fresh_list)

HistOK(r) ==
  /\ r.error = ""
  /\ \A i \in DOMAIN r.steps : \A k \in DOMAIN r.steps[i].obs : ObsOK(r, i, r.steps[i].obs[k])

\* encode then decode preserves every entry (r.in: entries stored, r.out: entries of the decoded index)
CodecOK(r) == r.error = "" /\ SameBag(r.in, r.out)

RecOK(r) == IF r.kind = "codec" THEN CodecOK(r) ELSE HistOK(r)

\* ------------------------------------------------------ incremental load
\* reader memory: ids = files merged into the in-memory index, ents = their entries (provenance is lost by merging)
EmptyMem == [ids |-> {}, ents |-> {}]

Reload(content, present, mem) ==
  IF mem.ids \subseteq present
  THEN [ids |-> present, ents |-> mem.ents \cup EntriesOfSet(content, present \ mem.ids)]
  ELSE [ids |-> present, ents |-> EntriesOfSet(content, present)]

ReloadNoClear(content, present, mem) ==
  [ids |-> mem.ids \cup present, ents |-> mem.ents \cup EntriesOfSet(content, present \ mem.ids)]

\* valid histories: add an absent file, remove a present file, reload
Enabled(files, P) == {[op |-> "add", f |-> f] : f \in files \ P} \cup {[op |-> "remove", f |-> f] : f \in P}
                       \cup {[op |-> "reload", f |-> ""]}
After(P, o) == IF o.op = "add" THEN P \cup {o.f} ELSE IF o.op = "remove" THEN P \ {o.f} ELSE P
=============================================================================
