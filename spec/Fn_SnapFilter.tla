--------------------------- MODULE Fn_SnapFilter ---------------------------
(***************************************************************************)
(* C24: reference model of snapshot filters (--host / --tag / --path),     *)
(* grouping (--group-by) and the pseudo id "latest".                       *)
(* Declarative, from the property statement and the manual:                *)
(*   --host  h1 --host h2   : the snapshot's host is one of them           *)
(*   --tag a,b --tag c      : (has a and b) or (has c); --tag '' = untagged*)
(*   --path p --path q      : the snapshot contains all given paths        *)
(* no value for an option = no restriction.                                *)
(*                                                                         *)
(* A snapshot is [id, host, paths, tags, t]; paths/tags are sequences in   *)
(* the stored order, t an integer time.  A filter is                       *)
(* [hosts, tags, paths, lim]: sequences as given on the command line,      *)
(* tags a sequence of tag lists, lim the time limit (0 = none).            *)
(***************************************************************************)
EXTENDS Integers, Sequences, FiniteSets

SetOf(s) == {s[i] : i \in DOMAIN s}

HostOK(s, hosts) == hosts = <<>> \/ s.host \in SetOf(hosts)
HasAll(s, l)     == IF l = <<"">> THEN s.tags = <<>>
                    ELSE \A k \in DOMAIN l : l[k] \in SetOf(s.tags)
TagOK(s, lists)  == lists = <<>> \/ \E k \in DOMAIN lists : HasAll(s, lists[k])
PathOK(s, paths) == SetOf(paths) \subseteq SetOf(s.paths)
Matches(s, f)    == HostOK(s, f.hosts) /\ TagOK(s, f.tags) /\ PathOK(s, f.paths)

Selected(sn, f) == {i \in DOMAIN sn : Matches(sn[i], f)}

\* "latest": a newest matching snapshot that is not after the time limit
Candidates(sn, f) == {i \in Selected(sn, f) : f.lim = 0 \/ sn[i].t <= f.lim}
Newest(sn, C)     == {i \in C : \A j \in C : sn[j].t <= sn[i].t}

IdsAt(sn, P) == {sn[i].id : i \in P}

LatestOK(sn, f, id, err) ==
  IF Candidates(sn, f) = {} THEN id = 0 /\ err = "notfound"
  ELSE err = "none" /\ id \in IdsAt(sn, Newest(sn, Candidates(sn, f)))

\* r.sel: ids FindAll yielded without explicit ids; r.lat/r.laterr: FindLatest("latest");
\* r.lat2/r.lat2err: FindAll(<<"latest">>)
FilterOK(r) ==
  /\ SetOf(r.sel) = IdsAt(r.sn, Selected(r.sn, r.f))
  /\ Len(r.sel) = Cardinality(SetOf(r.sel))            \* each selected snapshot is yielded once
  /\ LatestOK(r.sn, r.f, r.lat, r.laterr)
  /\ LatestOK(r.sn, r.f, r.lat2, r.lat2err)

(* ------------------------------------------------------------------ *)
(* grouping: r.by = [host, path, tag] booleans; r.groups = sequence of *)
(* [key |-> [hostname, paths, tags], ids |-> sequence of snapshot ids] *)
(* ------------------------------------------------------------------ *)
GKey(s, by) == << IF by.host THEN s.host ELSE "",
                  IF by.path THEN SetOf(s.paths) ELSE {},
                  IF by.tag  THEN SetOf(s.tags)  ELSE {} >>

GroupOK(r) ==
  LET G  == r.groups
      ById(id) == r.sn[CHOOSE i \in DOMAIN r.sn : r.sn[i].id = id]
      All == {r.sn[i].id : i \in DOMAIN r.sn}
  IN /\ \A g \in DOMAIN G : G[g].ids # <<>> /\ Len(G[g].ids) = Cardinality(SetOf(G[g].ids))
     \* a partition of the given snapshots
     /\ UNION {SetOf(G[g].ids) : g \in DOMAIN G} = All
     /\ \A g \in DOMAIN G : \A h \in DOMAIN G : g # h => SetOf(G[g].ids) \cap SetOf(G[h].ids) = {}
     \* two snapshots share a group exactly if they agree on the chosen keys (paths, tags as sets)
     /\ \A g \in DOMAIN G : \A h \in DOMAIN G :
          \A a \in SetOf(G[g].ids) : \A b \in SetOf(G[h].ids) :
            (g = h) <=> (GKey(ById(a), r.by) = GKey(ById(b), r.by))
     \* the group's label names the chosen keys of its members
     /\ \A g \in DOMAIN G : \A a \in SetOf(G[g].ids) :
          /\ r.by.host => G[g].key.hostname = ById(a).host
          /\ r.by.path => SetOf(G[g].key.paths) = SetOf(ById(a).paths)
          /\ r.by.tag  => SetOf(G[g].key.tags) = SetOf(ById(a).tags)
     /\ r.grouped = (r.by.host \/ r.by.path \/ r.by.tag)

RecOK(r) == IF r.kind = "group" THEN GroupOK(r) ELSE FilterOK(r)
=============================================================================
