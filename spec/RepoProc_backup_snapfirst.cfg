\* negative twin: only the property it must violate is checked (TLC reports the first violation it meets)
SPECIFICATION Spec
CONSTANTS
  Proc = {"w1", "w2", "r"}
  Roots <- RootsS
  Kids <- KidsS
  MaxPacks = 3
  MaxIdx = 3
  MaxSnaps = 2
  CanBackup = {"w1", "w2"}
  CanRead = {"r"}
  CanPrune = {}
  CanForget = {}
  CanRewrite = {}
  CanTag = {}
  Budget <- Budget1
  Variant = "snap_before_index"
VIEW View
INVARIANT SnapshotIndexed
CHECK_DEADLOCK FALSE
