----------------------------- MODULE BlobLRUMC -----------------------------
(* Model-checking instances of BlobLRU: cost vectors (TLC cfg files cannot write sequences). *)
EXTENDS BlobLRU
\* ids 1,2 small (both fit together), id 3 fills the whole cache (evicts everything), id 4 oversize (never cached)
Cost112  == <<1, 1, 2>>
Cost1123 == <<1, 1, 2, 3>>
Cost123  == <<1, 2, 3>>
Cost12   == <<1, 2>>
Cost1    == <<1>>
=============================================================================
