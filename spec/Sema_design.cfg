SPECIFICATION Spec
CONSTANTS
  K = 5
  N = 2
  MaxFreeze = 2
  MaxCancel = 0
  Twin = "none"
  Record = FALSE
INVARIANTS
  Limit
  FrozenNoStart
  LockNeverBlocked
  TokensOK

