----------------------------- MODULE Fn_Confine -----------------------------
(***************************************************************************)
(* C18: restore creates, modifies and deletes only paths inside the target *)
(* directory.                                                              *)
(*                                                                         *)
(* The sandbox of one scenario is a directory `base` holding `target/`     *)
(* (restore destination, with adversarial pre-existing content) and        *)
(* everything else (`outside/...`, `base` itself).  The harness records    *)
(* every path of `base` whose observable state differs before/after the    *)
(* real restore, as a sequence of path components relative to `base`.      *)
(* The property: every changed path lies inside `target`.                  *)
(*                                                                         *)
(* This module also defines the case space: adversarial snapshot trees     *)
(* (written directly into the repository: duplicate names, invalid names,  *)
(* symlinks to outside, hard-link groups) and adversarial environments     *)
(* (pre-existing items at every path position x restore options).          *)
(***************************************************************************)
EXTENDS Sequences, Naturals, FiniteSets

\* ---- snapshot nodes ----------------------------------------------------
\* t: file | dir | symlink;  n: name;  to: "outdir" | "outfile" | "" (symlink target, relative path to
\* the sentinel directory / file outside the target);  hl: member of the hard-link group (links=2, same inode)
\* kids: children of a directory (sequence of child letters, see Kid)
\* m: mode class -- "ok" = mode bits consistent with the type (what restic's backup writes); otherwise the node's
\* fields are mutually INCONSISTENT (only somebody with repository access can write that):
\*   "perm" 0777 without any type bit, "reg" 0644 without type bit, "dirbit" ModeDir|0755, "symbit" ModeSymlink|0777,
\*   "setuid" ModeSetuid|0755 without type bit
NM(t, n, to, hl, kids, m) == [t |-> t, n |-> n, to |-> to, hl |-> hl, kids |-> kids, m |-> m]
N(t, n, to, hl, kids) == NM(t, n, to, hl, kids, "ok")

\* children alphabet (by letter):
\*  "f"  file x          "s" symlink x -> outdir      "t" symlink x -> outfile
\*  "d"  dir x {file y}  "e" file named "../../esc"   "u" file named ".."
\*  "S"  symlink x -> outdir with mode 0777 (no symlink bit)   "T" symlink x -> outfile with mode 0777 (no symlink bit)
\*  "D"  dir x {dir y {file z}}    "q" dir x {symlink y -> outdir}    "Q" dir x {fifo y}    "p" fifo x
KidSeqs == { <<>>, <<"f">>, <<"s">>, <<"f","t">>, <<"s","f">>, <<"d">>, <<"s","d">>, <<"e">>, <<"u">> }

\* nodes that all use the name "a" (plus the hard-link partner "b"): sequences of them give every
\* duplicate-name / type-swap combination
SwapAlpha ==
  { N("file", "a", "", FALSE, <<>>), N("file", "a", "", TRUE, <<>>), N("file", "b", "", TRUE, <<>>),
    N("symlink", "a", "outdir", FALSE, <<>>), N("symlink", "a", "outfile", FALSE, <<>>) }
  \cup { N("dir", "a", "", FALSE, k) : k \in {<<>>, <<"f">>, <<"s">>, <<"f","t">>, <<"d">>, <<"s","d">>} }

InvalidNames == {"..", ".", "", "a/b", "/abs", "../esc", "a/../../esc", "../outside/dir", "../outside/file"}
InvalidAlpha ==
  { N("file", n, "", FALSE, <<>>) : n \in InvalidNames }
  \cup { N("dir", n, "", FALSE, <<"f">>) : n \in InvalidNames }
  \cup { N("symlink", n, "outdir", FALSE, <<>>) : n \in InvalidNames }

\* nodes whose type and mode disagree (and special types with odd modes), pointing at outside files AND dirs
InconsAlpha ==
  { NM("symlink", "a", to, FALSE, <<>>, m) : to \in {"outdir", "outfile"}, m \in {"perm", "reg", "dirbit", "setuid"} }
  \cup { NM("file", "a", "", FALSE, <<>>, m) : m \in {"symbit", "dirbit"} }
  \cup { NM("dir", "a", "", FALSE, k, m) : k \in {<<"f">>, <<"s">>, <<"S">>, <<"T">>}, m \in {"symbit", "perm", "ok"} }
  \cup { NM(t, "a", "", FALSE, <<>>, m) : t \in {"fifo", "chardev"}, m \in {"ok", "symbit", "dirbit"} }

\* honest-looking deeper trees (three levels, non-regular leaves): what include filters on directories and on
\* special files below unselected parents need
DeepAlpha == { N("dir", "a", "", FALSE, k) : k \in {<<"D">>, <<"q">>, <<"Q">>, <<"p">>, <<"d">>, <<"s">>, <<"f">>, <<"p", "d">>} }
DeepTrees ==
  { <<x>> : x \in DeepAlpha }
  \cup { <<N("file", "b", "", TRUE, <<>>), x>> : x \in DeepAlpha }
  \cup { <<x, N("symlink", "b", "outdir", FALSE, <<>>)>> : x \in DeepAlpha }

SeqsUpTo(S, k) == UNION {[1..n -> S] : n \in 1..k}

InconsTrees ==
  { <<x>> : x \in InconsAlpha }
  \cup { <<x, N("file", "b", "", FALSE, <<>>)>> : x \in InconsAlpha }
  \cup { <<N("file", "b", "", TRUE, <<>>), x>> : x \in InconsAlpha }

Trees ==
  SeqsUpTo(SwapAlpha, 3)
  \cup { <<x>> : x \in InvalidAlpha }
  \cup { <<x, N("file", "a", "", FALSE, <<>>)>> : x \in InvalidAlpha }
  \cup { <<N("dir", "a", "", FALSE, <<"f">>), x>> : x \in InvalidAlpha }
  \cup { <<N("dir", "a", "", FALSE, k)>> : k \in KidSeqs }
  \cup InconsTrees
  \cup DeepTrees


\* ---- environments --------------------------------------------------------
\* pre-existing item at target/a, and (if that is a directory) at target/a/x
PreItems == {"absent", "file", "symlink-dir", "symlink-file", "hardlink", "dir"}
Pres == { [a |-> p, x |-> "absent"] : p \in PreItems \ {"dir"} } \cup { [a |-> "dir", x |-> q] : q \in PreItems }
Overwrites == {"always", "if-changed", "if-newer", "never"}
\* selections (what --include would select; everything else is unselected, ancestors are only traversed):
\*   all       everything                  leaves   every non-directory (like --include of deep files)
\*   dir-ax    the directory /a/x and everything below it (a directory below an unselected parent)
\*   dir-axy   the directory /a/x/y and everything below it (two levels below)
\*   special   only the non-regular leaves (symlinks, fifos, devices), wherever they are
Selects == {"all", "leaves", "dir-ax", "dir-axy", "special"}
\* outx: the outside directory the symlinks point to already contains directories named like the snapshot's
\* (outside/dir/x, outside/dir/x/y, outside/dir/y); only meaningful with a pre-existing symlink to that directory
OutxOf(p) == IF p.a = "symlink-dir" \/ p.x = "symlink-dir" THEN BOOLEAN ELSE {FALSE}
Envs == UNION { { [pre |-> p, overwrite |-> o, delete |-> d, sparse |-> s, select |-> sel, outx |-> ox]
                    : o \in Overwrites, d \in BOOLEAN, s \in BOOLEAN, sel \in Selects, ox \in OutxOf(p) }
                : p \in Pres }

\* ---- the property ----------------------------------------------------------
Inside(path) == Len(path) >= 1 /\ path[1] = "target"

\* r.changes: sequence of [p |-> path components, w |-> what]
\*   w in created | removed | content (type, size, bytes or link target differ) | meta (mode, mtime, owner)
\*   | "meta-shared-inode": only metadata / link count of an inode that was hard-linked into the target
\*   before the restore (restoring the inside path necessarily shows on the shared inode) -- tolerated
RecOK(r) == \A i \in DOMAIN r.changes :
              Inside(r.changes[i].p) \/ r.changes[i].w = "meta-shared-inode"
=============================================================================
