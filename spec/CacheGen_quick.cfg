SPECIFICATION Spec
CONSTANTS
  ScriptLen = 4
  SchedLen = 4
