------------------------------ MODULE Fn_Dump ------------------------------
(***************************************************************************)
(* C45: reference model of `restic dump`.                                  *)
(*                                                                         *)
(* A dumped directory is a finite set of nodes.  Every node carries its    *)
(* path below the dumped directory as a sequence of name *ranks* (p; the   *)
(* rank of a name is its position in the byte order of all names used, so  *)
(* rank order = the order in which a restic tree stores its entries) and   *)
(* as the sequence of name strings (names).  File content is a sequence of *)
(* blob tokens (the driver maps the dumped bytes back to tokens; a byte    *)
(* range that is not a whole blob becomes token -1).                       *)
(*                                                                         *)
(* Statement: dumping a file writes exactly its content; dumping a         *)
(* directory yields, in tree order, exactly one entry per file, directory  *)
(* and symlink below it with correct type, permission bits, link target    *)
(* and content, and no entry for other node types.                         *)
(***************************************************************************)
EXTENDS Sequences, FiniteSets, Naturals, SequencesExt

Archived == {"file", "dir", "symlink"}

DMin(a, b) == IF a < b THEN a ELSE b

\* tree order = depth-first, a directory before its children, children by
\* name: the lexicographic order of the rank paths (a proper prefix first)
PathLess(p, q) ==
  \E i \in 1..(DMin(Len(p), Len(q)) + 1) :
     /\ \A j \in 1..(i - 1) : p[j] = q[j]
     /\ \/ (i > Len(p) /\ i <= Len(q))
        \/ (i <= Len(p) /\ i <= Len(q) /\ p[i] < q[i])

Eligible(nodes) == {i \in DOMAIN nodes : nodes[i].t \in Archived}

\* the nodes that must appear, in the order in which they must appear
Order(nodes) ==
  SetToSortSeq(Eligible(nodes), LAMBDA i, j : PathLess(nodes[i].p, nodes[j].p))

RECURSIVE JoinSlash(_)
JoinSlash(s) == IF Len(s) = 0 THEN ""
                ELSE IF Len(s) = 1 THEN s[1]
                ELSE s[1] \o "/" \o JoinSlash(Tail(s))

\* archive member name: path relative to "/", directories end in "/"
EntryName(prefix, n) ==
  prefix \o JoinSlash(n.names) \o (IF n.t = "dir" THEN "/" ELSE "")

EntryOK(prefix, n, e) ==
  /\ e.name = EntryName(prefix, n)
  /\ e.t = n.t
  /\ e.perm = n.perm
  /\ e.setuid = n.setuid /\ e.setgid = n.setgid /\ e.sticky = n.sticky
  /\ (n.t = "symlink" => e.link = n.target)
  /\ (n.t = "file" => e.content = n.content)
  /\ (n.t = "dir" => e.content = <<>>)

TreeOK(r) ==
  LET ord == Order(r.nodes) IN
  /\ r.err = ""
  /\ Len(r.entries) = Len(ord)
  /\ \A k \in 1..Len(ord) : EntryOK(r.prefix, r.nodes[ord[k]], r.entries[k])

\* r.fmt = "file": r.content tokens of the node, r.out tokens of the bytes written
FileOK(r) == r.err = "" /\ r.out = r.content

\* "dumping ... yields / writes": the dump completes.  r.noterm = TRUE when the
\* dump call did not return (every goroutine of the dump blocked for good, or
\* no return within the driver's real-time watchdog).
Terminates(r) == ~r.noterm

RecOK(r) == Terminates(r) /\ (IF r.fmt = "file" THEN FileOK(r) ELSE TreeOK(r))
=============================================================================
