SPECIFICATION SpecQ
CONSTANTS
  K = 5
  N = 2
  MaxFreeze = 1
  MaxCancel = 0
  Twin = "none"
  Record = TRUE
INVARIANTS
  Limit
  FrozenNoStart
  LockNeverBlocked
  TokensOK
  EmitSched
