SPECIFICATION TraceSpec
INVARIANTS
  Rep_NoPartialFinal
  Rep_NoTempListed
  Rep_Live
  Rep_Kill
  Rep_Bind
CHECK_DEADLOCK FALSE
