SPECIFICATION Spec
CONSTANTS
  MaxLen = 6
  MaxSnaps = 4
  CrashPoints = {1, 2, 3, 4, 6, 9}
  Family = "copyorig"
INVARIANT PrintComplete
CHECK_DEADLOCK FALSE
