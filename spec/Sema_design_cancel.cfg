SPECIFICATION Spec
CONSTANTS
  K = 3
  N = 1
  MaxFreeze = 1
  MaxCancel = 2
  Twin = "none"
  Record = FALSE
INVARIANTS
  Limit
  FrozenNoStart
  LockNeverBlocked
  TokensOK

