SPECIFICATION TraceSpec
INVARIANTS
  T_SnapshotData
  T_SnapshotIndexed
  T_IndexSound
  KeyAlive
  ContentAddressed
  NonceFresh
  NoLeak
  PackUnmixed
  Readable
  ReadOnlyRespected
  NoLockRespected
  ForgetMatchesReport
  NoWaste
  PruneStatsOK
  ReaderOrder
PROPERTIES
  R_PackBeforeIndex
  R_IndexBeforeSnapshot
  R_IndexGoneBeforePackDelete
  R_IndexDeleteKeepsNeeded
  R_LastKeyKept
  R_ConfigWriteOnce
  R_SnapshotNotLost
  R_OriginalKept
POSTCONDITION TraceAccepted
CHECK_DEADLOCK FALSE
