---------------------------- MODULE IndexLoadMC ----------------------------
(* C08 design run: a writer adds / removes index files, a long-lived reader reloads incrementally.
   Invariant: right after a reload the reader's lookups are exactly the entries of the present files.
   Variant "noclear" (negative twin, must be refuted): the reader never starts over. *)
EXTENDS Fn_IndexLoad, TLC
CONSTANTS Variant, MaxOps

Files == {"f1", "f2", "f3", "f4"}
\* entries as small numbers; files overlap (the same entry in two files, entries only in one file, an empty file)
Content == [f \in Files |-> CASE f = "f1" -> {1, 2} [] f = "f2" -> {1, 3} [] f = "f3" -> {2, 3, 4} [] OTHER -> {}]

VARIABLES present, mem, fresh, n
vars == <<present, mem, fresh, n>>

Init == present = {} /\ mem = EmptyMem /\ fresh = TRUE /\ n = 0

Add(f)    == f \notin present /\ present' = present \cup {f} /\ fresh' = FALSE /\ UNCHANGED mem
Remove(f) == f \in present /\ present' = present \ {f} /\ fresh' = FALSE /\ UNCHANGED mem
DoReload  == /\ mem' = IF Variant = "noclear" THEN ReloadNoClear(Content, present, mem) ELSE Reload(Content, present, mem)
             /\ fresh' = TRUE /\ UNCHANGED present

Next == n < MaxOps /\ n' = n + 1 /\ (DoReload \/ \E f \in Files : Add(f) \/ Remove(f))
Spec == Init /\ [][Next]_vars

\* `fresh` = the last step was a reload (or nothing happened yet)
LoadedMatchesFiles == fresh => mem.ents = EntriesOfSet(Content, present)
=============================================================================
