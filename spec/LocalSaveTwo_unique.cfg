SPECIFICATION Spec
CONSTANTS
  Chunks = 2
  TempNames = "unique"
  Record = TRUE
INVARIANTS
  NoPartialFinal
  SuccessStored
  EmitSched
