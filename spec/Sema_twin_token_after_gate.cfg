SPECIFICATION Spec
CONSTANTS
  K = 3
  N = 1
  MaxFreeze = 1
  Twin = "token_after_gate"
  Record = FALSE
INVARIANTS
  Limit
  FrozenNoStart
  LockNeverBlocked
  TokensOK

