SPECIFICATION Spec
CONSTANTS
  K = 3
  N = 1
  MaxFreeze = 1
  MaxCancel = 0
  Twin = "token_after_gate"
  Record = FALSE
INVARIANTS
  Limit
  FrozenNoStart
  LockNeverBlocked
  TokensOK

