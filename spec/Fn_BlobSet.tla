---------------------------- MODULE Fn_BlobSet ----------------------------
(***************************************************************************)
(* C48: reference model of the blob sets used by prune, check, copy and    *)
(* diff (index.AssociatedSet / repository.associatedBlobSet).              *)
(*                                                                         *)
(* A blob set is a finite map  blob handle -> small value  (the plain set  *)
(* is the map with the unit value).  Nothing in the model mentions the     *)
(* repository index: the statement says the set reports its distinct       *)
(* members once "whatever the repository index contains", so index         *)
(* contents and index growth are invisible to the model (ops that only     *)
(* change the index are no-ops here).                                      *)
(***************************************************************************)
EXTENDS Sequences, FiniteSets, Integers

AnyVal == -1                      \* "value not fixed by the documentation"

Range(s) == {s[i] : i \in DOMAIN s}

EmptyMap == [x \in {} |-> 0]

Put(f, b, v) == [x \in (DOMAIN f) \cup {b} |-> IF x = b THEN v ELSE f[x]]
Del(f, b)    == [x \in (DOMAIN f) \ {b} |-> f[x]]
Restrict(f, S) == [x \in S |-> f[x]]

\* environment: set name -> map
Bind(m, name, f) == [n \in (DOMAIN m) \cup {name} |-> IF n = name THEN f ELSE m[n]]

\* one step of the reference model
\*  new s            s := {}
\*  insert s b       b becomes a member (value of a new member: zero value; of an existing member: not fixed)
\*  set s b v        b becomes a member with value v
\*  delete s b       b is no member
\*  setmany/insertmany/deletemany s bs [v]   the same for every blob of the list bs (large scenarios)
\*  intersect s o res   res := members of s that o has (values of s)
\*  sub s o res         res := members of s that o has not (values of s)
\*  abort/abortq s   an enumeration (Keys/All) of s that the consumer leaves after v items: no set changes
\*  nested s         an enumeration of s whose loop body enumerates s again: no set changes (the outer
\*                   enumeration is what the observation of s reports as keys / allk)
\*  anything else    (index-only steps: storepack, flush, file, merge) no set changes
Apply(m, st) ==
  CASE st.op = "new"       -> Bind(m, st.s, EmptyMap)
    [] st.op = "insert"    -> Bind(m, st.s, Put(m[st.s], st.b, IF st.b \in DOMAIN m[st.s] THEN AnyVal ELSE 0))
    [] st.op = "set"       -> Bind(m, st.s, Put(m[st.s], st.b, st.v))
    [] st.op = "delete"    -> Bind(m, st.s, Del(m[st.s], st.b))
    [] st.op = "setmany"    -> Bind(m, st.s, [x \in (DOMAIN m[st.s]) \cup Range(st.bs) |-> IF x \in Range(st.bs) THEN st.v ELSE m[st.s][x]])
    [] st.op = "insertmany" -> Bind(m, st.s, [x \in (DOMAIN m[st.s]) \cup Range(st.bs) |->
                                               IF x \in DOMAIN m[st.s] THEN (IF x \in Range(st.bs) THEN AnyVal ELSE m[st.s][x]) ELSE 0])
    [] st.op = "deletemany" -> Bind(m, st.s, Restrict(m[st.s], (DOMAIN m[st.s]) \ Range(st.bs)))
    [] st.op = "intersect" -> Bind(m, st.res, Restrict(m[st.s], (DOMAIN m[st.s]) \cap (DOMAIN m[st.o])))
    [] st.op = "sub"       -> Bind(m, st.res, Restrict(m[st.s], (DOMAIN m[st.s]) \ (DOMAIN m[st.o])))
    [] OTHER               -> m

ValOK(spec, got) == spec = AnyVal \/ spec = got

\* what the real set reported after a step, judged against the model map f:
\*  o.len            Len()
\*  o.keys           the handles yielded by Keys(), in order
\*  o.allk, o.allv   the pairs yielded by All(), in order
\*  o.has            the handles of the universe for which Has() is true
\*  o.getk, o.getv   the handles of the universe for which Get() reports ok, with the value
ObsOK(f, o) ==
  LET D == DOMAIN f
      n == Cardinality(D)
  IN /\ o.len = n                                           \* length = number of distinct members
     /\ Len(o.keys) = n /\ Range(o.keys) = D                \* every member exactly once, nothing else
     /\ Len(o.allk) = n /\ Range(o.allk) = D /\ Len(o.allv) = Len(o.allk)
     /\ \A i \in DOMAIN o.allk : o.allk[i] \in D => ValOK(f[o.allk[i]], o.allv[i])
     /\ Range(o.has) = D
     /\ Range(o.getk) = D /\ Len(o.getv) = Len(o.getk)
     /\ \A i \in DOMAIN o.getk : o.getk[i] \in D => ValOK(f[o.getk[i]], o.getv[i])

ObsAllOK(m, obs) ==
  \A i \in DOMAIN obs : obs[i].name \in DOMAIN m /\ ObsOK(m[obs[i].name], obs[i])

RECURSIVE Run(_, _, _)
Run(m, steps, i) ==
  IF i > Len(steps) THEN TRUE
  ELSE LET m2 == Apply(m, steps[i])
       IN ObsAllOK(m2, steps[i].obs) /\ Run(m2, steps, i + 1)

\* one recorded scenario of the real code: r.steps (each with op, s, o, res, b, v, obs), r.panic
RecOK(r) == r.panic = "" /\ Run(EmptyMap, r.steps, 1)
=============================================================================
