SPECIFICATION Spec
CONSTANTS
  N = 3
  MaxTime = 0
  MaxSkew = 0
  Budget = 0
  Variant = "design"
  Faults <- NoFaults
  MaxToggle = 0
  Removal = FALSE
  Remotes <- RemotesNone
  MaxWaits = 99
  HistMax = 0
  Emit = FALSE
  MaxAtt = 1
  Crashes = FALSE
  StartBy = 0
  StartFrom = 0
  HealOdds = 3
  ListLag = TRUE
  FixSkew = FALSE
  MaxMods = 0
  Edge = FALSE
VIEW View
INVARIANTS TypeOK InvExclusion InvHolderHasFile InvNotStale InvFresh
CHECK_DEADLOCK FALSE
