SPECIFICATION Spec
