#!/bin/sh
# Offline setup: warm the Go build cache for the harness packages (no network needed).
set -e
cd "$(dirname "$0")"
export GOFLAGS=-mod=mod GOPROXY=off
mkdir -p work evidence replays
python3 lib/warm.py || true
exit 0
