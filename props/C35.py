"""C35 Retried backend operations return correct results or fail.

Retry.tla (design model of retry.Backend: retry loop with budget, permanent errors - also after partial data -, Save
rewind + remove, List dedup over listings whose sizes / order change between attempts) is model-checked over all
fault scripts up to the bound (every operation x backend kind x feature flag x listing variation x script x tail),
six negative twins must be refuted; TLC emits the scripts, the Go driver replays each into the real
retry.Backend over a scripted backend (testing/synctest: real back-off timers in virtual time, fast and regular
settings, feature flag on and off) and TLC judges every record with RetryProps!RecOK."""
import concurrent.futures as cf
import json, os, re
import verif

TWINS = {"twin_no_rewind": "InvSame", "twin_no_cleanup": "InvNoPartial", "twin_retry_perm": "InvPerm",
         "twin_no_dedup": "ListNever", "twin_no_cleanup_perm": "InvNoPartial", "twin_dedup_info": "ListNever"}


def parse_tla(s):
    s = s.replace('\\"', '"')
    s = s.replace("<<", "[").replace(">>", "]").replace("TRUE", "true").replace("FALSE", "false")
    return json.loads(s)


def run(ctx):
    th = ctx.thorough()
    os.environ["JAVA_TOOL_OPTIONS"] = (os.environ.get("JAVA_TOOL_OPTIONS", "") + (" -XX:ParallelGCThreads=4" if th else
                                                                                  " -XX:TieredStopAtLevel=1 -XX:ParallelGCThreads=2")).strip()
    jobs = {}
    ex = cf.ThreadPoolExecutor(max_workers=8)
    vcfg = "vec5" if th else "vec3"
    jobs["vec:" + vcfg] = ex.submit(ctx.tlc, "Retry", cfg="Retry_%s.cfg" % vcfg, workers=2, name="gen_" + vcfg, timeout=1800, heap="2g")
    for c in (["design", "design5"] if th else ["design"]):
        jobs["design:" + c] = ex.submit(ctx.tlc, "Retry", cfg="Retry_%s.cfg" % c, workers=4 if th else 2, name="design_" + c,
                                        timeout=3000, heap="4g" if th else "2g")
    for c in TWINS:
        jobs["twin:" + c] = ex.submit(ctx.tlc, "Retry", cfg="Retry_%s.cfg" % c, workers=1, name=c, timeout=900,
                                      allow_violation=True, heap="1g")
    r = jobs["vec:" + vcfg].result()
    vecs = sorted(set(re.findall(r'^"VEC (.*)"\s*$', r["out"], re.M)))
    if not vecs:
        raise verif.MachineryError("TLC produced no fault scripts, see %s" % r["dir"])
    vec = os.path.join(ctx.work, "vectors.ndjson")
    with open(vec, "w") as fh:
        for s in vecs:
            op, atomic, script, tail, vary = parse_tla(s)
            fh.write(json.dumps({"op": op, "atomic": atomic, "script": script, "tail": tail, "vary": vary}) + "\n")
    out = ctx.go_test("internal/backend/retry", "^TestVerif_C35$", timeout=2400, env={"VERIF_VECTORS": vec})
    n, bad, lines = ctx.check_records("RetryProps", os.path.join(out, "recs.ndjson"), shard=25000 if th else 5000)
    if bad:
        sub = [lines[i - 1] for i in bad[:300]]
        parts = {}
        for op in ("SameResult", "ListOnce", "NoPartial", "PermNotRetried", "LaterLoads"):
            wrapper = ("---- MODULE C35Why ----\nEXTENDS RetryProps, Json, TLC\nRecs == ndJsonDeserialize(\"recs.ndjson\")\n"
                       "ASSUME PrintT(\"WHY \" \\o ToString({k \\in 1..Len(Recs) : ~%s(Recs[k])}))\nVARIABLE x\nInit == x = 0\nNext == x' = x\n"
                       "Spec == Init /\\ [][Next]_x\n====\n" % op)
            rr = ctx.tlc("C35Why", cfg="C35Why.cfg", files={"C35Why.tla": wrapper, "C35Why.cfg": "SPECIFICATION Spec\n",
                                                             "recs.ndjson": "\n".join(sub) + "\n"},
                         workers=1, deadlock=False, name="why_" + op)
            for v in re.findall(r'^"WHY (.*)"\s*$', rr["out"], re.M):
                for k in re.findall(r"\d+", v):
                    parts.setdefault(int(k), []).append(op)
        names = {"SameResult": "success-with-wrong-result", "ListOnce": "file-listed-twice", "NoPartial": "partial-file-left",
                 "PermNotRetried": "permanent-error-retried", "LaterLoads": "later-load-wrong-data"}
        for j, ln in enumerate(sub[:200]):
            rec = json.loads(ln)
            why = [names[o] for o in parts.get(j + 1, [])] or ["rejected"]
            ctx.violate("c35/%s/%s/flag-%s" % (rec["op"], "+".join(why), "on" if rec["flag"] else "off"),
                        "retry.Backend %s rejected by RetryProps!RecOK (%s): script=%s tail=%s listing-varies=%s atomic=%s flag=%s fast=%s -> attempts=%s ok=%s final=%s reported=%s" % (
                            rec["op"], ",".join(why), rec["script"], rec["tail"], rec.get("vary", "same"), rec["atomic"], rec["flag"], rec["fast"],
                            rec["faults"], rec["ok"], rec["final"], rec["reported"]), rec)
    design = []
    for k, f in jobs.items():
        kind, c = k.split(":")
        if kind == "design":
            rr = f.result()
            design.append({"cfg": c, "states": rr["states"], "transitions": rr["transitions"], "result": "holds"})
        elif kind == "twin":
            rr = f.result()
            if TWINS[c] not in rr["violated"]:
                raise verif.MachineryError("negative twin %s was not refuted (expected %s, got %s)" % (c, TWINS[c], rr["violated"]))
            design.append({"cfg": c, "states": rr["states"], "transitions": rr["transitions"], "result": "refuted: " + TWINS[c]})
    ex.shutdown()
    gres = ctx.go_results[-1] if ctx.go_results else {}
    cov = {"evaluations": n, "distinct_nontrivial": gres.get("distinct_nontrivial", 0), "rule": gres.get("rule", ""),
           "samples": (gres.get("samples") or [])[:2] + verif.samples_from(lines, 2),
           "fault_scripts_generated_by_tlc": len(vecs), "records_checked_by_tlc": n, "records_rejected": len(bad),
           "design_model_runs": design, "counters": gres.get("counters", {}), "exhaustive": True,
           "states": sum(d["states"] for d in design if d["result"] == "holds"),
           "transitions": sum(d["transitions"] for d in design if d["result"] == "holds")}
    return verif.finish(ctx, "fault_enumeration", cov, [
        "faults hit the operation under test only; the Remove that Save issues to clean up after a failed attempt always succeeds (if it failed too, nothing could take the partial file away)",
        "Save goes to a name that does not exist yet",
        "a permanent error may strike before any effect or after part of the data went over (Save, Load); between the attempts of one List the wrapped backend may report other sizes and another order, the set of names is the same and no attempt reports a name twice by itself",
        "'permanent errors are not retried' is judged for the default configuration (feature backend-error-redesign on); with the flag off restic documents the deprecated behaviour (everything but Stat-not-found is retried) and only the other clauses are judged",
        "wrapped backend without HasFlakyErrors; back-off timers run in virtual time (testing/synctest) with both the fast test setting and the regular one (MaxElapsedTime 15 min)",
        "scripts: all sequences of <= %d faults per operation, followed by an error-free backend or by the last fault for ever" % (5 if th else 3)])
