"""C40 Incremental backups store the same tree as full backups."""
import json, os, re
import verif

SIM_CFG = """SPECIFICATION Spec
CONSTANTS
  Paths = {"a", "b", "d", "d/x"}
  EditPlan <- %s
  Twin = FALSE
  Modes = {"inc", "incskip", "force"}
  Emit = TRUE
INVARIANT IncEqualsFull
CHECK_DEADLOCK FALSE
"""

SINGLES_CFG = """SPECIFICATION Spec
CONSTANTS
  Paths = %s
  EditPlan <- Plan01
  Twin = FALSE
  Modes = {"inc"}
  Emit = TRUE
INVARIANT IncEqualsFull
CHECK_DEADLOCK FALSE
"""


def parse_hist(out):
    hs, seen = [], set()
    for m in re.finditer(r'^<<"HIST", (".*")>>\s*$', out, re.M):
        txt = json.loads(m.group(1))
        if txt in seen:
            continue
        seen.add(txt)
        json.loads(txt)
        hs.append(txt)
    return hs


def design(ctx):
    """Exhaustive runs of the history model: premise => incremental tree = full tree and a skipped snapshot hides no
    change; the negative twin (premise not enforced) must be refuted; omission must be reachable (vacuity)."""
    import concurrent.futures as cf
    jobs = [(c, None) for c in (["small", "full"] if ctx.thorough() else ["small"])] + [("twin", "IncEqualsFull"), ("vac", "NeverOmits")]

    def one(job):
        cfg, exp = job
        r = ctx.tlc("Incremental", cfg="Incremental_%s.cfg" % cfg, workers=4, name="design_" + cfg, timeout=2400, allow_violation=exp is not None)
        if exp is None:
            return {"cfg": cfg, "states": r["states"], "transitions": r["transitions"], "result": "holds"}
        if exp not in r["violated"]:
            raise verif.MachineryError("design run %s: expected TLC to refute %s, got %s" % (cfg, exp, r["violated"]))
        return {"cfg": cfg, "states": r["states"], "transitions": r["transitions"], "result": "refuted: " + exp}
    with cf.ThreadPoolExecutor(max_workers=4) as ex:
        return list(ex.map(one, jobs))


def histories(ctx):
    # (1) exhaustive: backup, every single enabled edit operation, incremental backup - for every flag setting
    paths = ctx.pick('{"a"}', '{"a", "b", "d", "d/x"}')
    r1 = ctx.tlc("Incremental", cfg="Incremental_singlesrun.cfg", files={"Incremental_singlesrun.cfg": SINGLES_CFG % paths}, workers=1,
                 name="singles", timeout=1800)
    singles = parse_hist(r1["out"])
    if len(singles) < 30:
        raise verif.MachineryError("TLC enumerated only %d single-edit histories, see %s" % (len(singles), r1["dir"]))
    # (2) random walks of the history model
    n = ctx.pick(15, 150)
    r = ctx.tlc("Incremental", cfg="Incremental_simrun.cfg", files={"Incremental_simrun.cfg": SIM_CFG % ctx.pick("Plan3333", "Plan33333")},
                workers=1, simulate="num=%d" % n, depth=80, extra=("-seed", str(1000 + ctx.seed)), name="simulate", timeout=1800)
    sims = parse_hist(r["out"])
    if len(sims) < n // 2:
        raise verif.MachineryError("TLC simulation printed only %d histories, see %s" % (len(sims), r["dir"]))
    p = os.path.join(ctx.work, "hist.ndjson")
    with open(p, "w") as fh:
        fh.write("\n".join(singles + sims) + "\n")
    return p, len(singles), len(sims)


def run(ctx):
    import concurrent.futures as cf
    with cf.ThreadPoolExecutor(max_workers=1) as bg:
        fut = bg.submit(design, ctx)      # design runs do not depend on /repo; they run beside the replay
        vec, nsingle, nsim = histories(ctx)
        out = ctx.go_test("cmd/restic", "^TestVerif_C40$", timeout=3000, env={"VERIF_VECTORS": vec})
        des = fut.result()
    recs = os.path.join(out, "recs.ndjson")
    nb, badb, lines = ctx.check_records("Fn_IncrementalBind", recs, name="bind")
    if badb:
        r = json.loads(lines[badb[0] - 1])
        raise verif.MachineryError("replay does not realise the model state at %d backup points, e.g. history %d point %d: model %s, reference backup %s"
                                   % (len(badb), r["hist"], r["point"], r["model_tree"], r["full_abs"]))
    n, bad, lines = ctx.check_records("Fn_Incremental", recs)
    for i in bad[:200]:
        r = json.loads(lines[i - 1])
        if r["omitted"] != (r["skip"] and r["has_parent"] and r["parent_tree"] == r["full_tree"]) or (not r["damaged"] and r["omitted"] != r["model_omitted"]):
            what = "snapshot-%s-wrongly" % ("omitted" if r["omitted"] else "written")
        elif not r["loadable"]:
            what = "blobs-missing"
        elif r["inc_tree"] != r["full_tree"]:
            what = "tree-differs"
        else:
            what = "content-differs"
        key = "incremental/%s/%s/%s/%s" % (r["flags"], r["mode"], what, "+".join(sorted(set(r["since"]))) or "no-edit")
        ctx.violate(key, "history %d backup point %d (flags %s, mode %s, edits since previous backup %s, parent %s): omitted=%s (model %s), incremental tree %s, parentless tree %s, parent tree %s, loadable=%s, snapshot content %s, source %s %s (Fn_Incremental!RecOK false)"
                    % (r["hist"], r["point"], r["flags"], r["mode"], r["since"], r["has_parent"], r["omitted"], r["model_omitted"], r["inc_tree"],
                       r["full_tree"], r["parent_tree"], r["loadable"], r["inc_abs"], r["model_tree"], r["detail"]), r)
    res = ctx.go_results[-1]
    cnt = res.get("counters", {})
    if cnt.get("premise_real_differs_from_model", 0) > max(2, n // 50):
        raise verif.MachineryError("the real file system left the model's premise at %d backup points" % cnt["premise_real_differs_from_model"])
    if cnt.get("points_with_parent", 0) < 10:
        raise verif.MachineryError("only %d backup points used a parent" % cnt.get("points_with_parent", 0))
    cov = {"evaluations": n, "distinct_nontrivial": res["distinct_nontrivial"], "rule": res["rule"], "samples": verif.samples_from(lines, 3),
           "single_edit_histories_enumerated_by_tlc": nsingle, "random_histories_simulated_by_tlc": nsim, "records_checked_by_tlc": n, "records_rejected": len(bad), "design_runs": des,
           "counters": cnt, "exhaustive": False}
    return verif.finish(ctx, "exploration", cov, [
        "edit operations are realised with real system calls (truncate+write keeps the inode, write+rename gives a new one, utimes restores mtime, ctime is the kernel's); the premise is measured on the real metadata at every backup point and must agree with the model",
        "the parentless backup of the same source state is taken with --force under another host name in the same repository (same chunker polynomial)",
        "relative target (cd base; restic backup src): metadata of directories above the target is not part of the tree",
        "at a few backup points the packs holding the parent's file data are removed and the index rebuilt before the incremental backup: the stored tree must still be loadable (as after a full backup)",
        "model bounds: paths {a, b, d, d/x}, 17 edit operations; all single-edit histories (backup, edit, incremental backup) per flag setting enumerated by TLC, plus TLC -simulate walks of 4-5 backups with 0-3 edits in between"])
