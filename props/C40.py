"""C40 Incremental backups store the same tree as full backups."""
import json, os, re
import verif

GEN_CFG = """SPECIFICATION Spec
CONSTANTS
  Paths = %(paths)s
  EditPlan <- %(plan)s
  Twin = FALSE
  Modes = %(modes)s
  FlagSet = %(flags)s
  Targets = %(targets)s
  Bigs = %(bigs)s
  FaultKinds = %(faults)s
  MaxVictim = %(maxv)d
  Emit = TRUE
INVARIANT IncEqualsFull
CHECK_DEADLOCK FALSE
"""

ALL_PATHS = '{"a", "b", "d", "d/x"}'
ALL_FLAGS = '{"none", "ignore-ctime", "ignore-inode"}'
ALL_TARGETS = '{"dir", "deep", "dot", "list"}'
ALL_FAULTS = '{"readerr", "treeloss", "dataloss"}'


def gen_cfg(**kw):
    d = dict(paths=ALL_PATHS, plan="Plan01", modes='{"inc"}', flags=ALL_FLAGS, targets='{"dir"}', bigs="{FALSE}", faults="{}", maxv=0)
    d.update(kw)
    return GEN_CFG % d


def parse_hist(out):
    hs, seen = [], set()
    for m in re.finditer(r'^<<"HIST", (".*")>>\s*$', out, re.M):
        txt = json.loads(m.group(1))
        if txt in seen:
            continue
        seen.add(txt)
        json.loads(txt)
        hs.append(txt)
    return hs


def design(ctx):
    """Exhaustive runs of the history model: premise => incremental tree = full tree and a skipped snapshot hides no
    change (also with every planned fault: read error during an earlier backup, lost tree / data blobs of the parent);
    the negative twin (premise not enforced) must be refuted; omission, a judged backup after a read-error backup and
    a judged backup with a damaged parent must be reachable (vacuity)."""
    import concurrent.futures as cf
    jobs = [(c, None) for c in (["small", "faults", "full"] if ctx.thorough() else ["small", "faults"])] + [
        ("twin", "IncEqualsFull"), ("vac", "NeverOmits"), ("vacfaults", "NeverAfterReadErr"), ("vacdamage", "NeverDamagedParent")]

    def one(job):
        cfg, exp = job
        r = ctx.tlc("Incremental", cfg="Incremental_%s.cfg" % cfg, workers=4 if exp is None else 2, name="design_" + cfg, timeout=2400, allow_violation=exp is not None)
        if exp is None:
            return {"cfg": cfg, "states": r["states"], "transitions": r["transitions"], "result": "holds"}
        if exp not in r["violated"]:
            raise verif.MachineryError("design run %s: expected TLC to refute %s, got %s" % (cfg, exp, r["violated"]))
        return {"cfg": cfg, "states": r["states"], "transitions": r["transitions"], "result": "refuted: " + exp}
    with cf.ThreadPoolExecutor(max_workers=3) as ex:
        return list(ex.map(one, jobs))


def histories(ctx):
    """TLC generates the histories; five classes (run side by side):
    singles   exhaustive: backup, every single enabled edit operation, incremental backup - for every flag setting
    rootonly  the same with --skip-if-unchanged for the target styles whose root tree lists the entries of the source
              themselves (dot, list; thorough also deep): changes that touch nothing but the root tree
    readerr   exhaustive: every file x every target style, big files: a backup that meets a read error in that file,
              then an incremental backup with that snapshot as parent
    damage    exhaustive: every tree of the parent (every target style) / the parent's data blobs lost before the
              incremental backup
    sim       random walks of the history model over everything at once"""
    import concurrent.futures as cf
    th = ctx.thorough()
    n = ctx.pick(16, 150)
    runs = [
        ("singles", gen_cfg(paths=ctx.pick('{"a"}', ALL_PATHS)), None, False),
        ("rootonly", gen_cfg(paths=ctx.pick('{"a", "d"}', ALL_PATHS), modes='{"incskip"}', flags='{"none"}',
                             targets=ctx.pick('{"dot", "list"}', '{"dot", "list", "deep"}')), None, False),
        ("readerr", gen_cfg(plan="Plan00", modes=ctx.pick('{"inc"}', '{"inc", "incskip"}'), flags='{"none"}', targets=ALL_TARGETS,
                            bigs="{TRUE}", faults='{"readerr"}', maxv=2), None, True),
        ("damage", gen_cfg(plan="Plan00", modes=ctx.pick('{"inc"}', '{"inc", "incskip"}'), flags='{"none"}', targets=ALL_TARGETS,
                           bigs=ctx.pick("{FALSE}", "{FALSE, TRUE}"), faults='{"treeloss", "dataloss"}', maxv=5), None, True),
        ("readerr2", gen_cfg(paths='{"a", "b"}', plan="Plan01", modes='{"inc"}', flags='{"none"}', targets='{"dir", "dot"}',
                             bigs="{TRUE}", faults='{"readerr"}', maxv=1), None, True),
        ("sim", gen_cfg(plan=ctx.pick("Plan3333", "Plan33333"), modes='{"inc", "incskip", "force"}', targets=ALL_TARGETS, bigs="{FALSE, TRUE}",
                        faults=ALL_FAULTS, maxv=5), n, False),
    ]

    def one(run):
        cls, cfg, nsim, only_faulty = run
        name = "Incremental_%srun.cfg" % cls
        if nsim is None:
            r = ctx.tlc("Incremental", cfg=name, files={name: cfg}, workers=1, name="gen_" + cls, timeout=1800)
        else:
            r = ctx.tlc("Incremental", cfg=name, files={name: cfg}, workers=1, simulate="num=%d" % nsim, depth=80,
                        extra=("-seed", str(1000 + ctx.seed)), name="gen_" + cls, timeout=1800)
        hs = parse_hist(r["out"])
        if only_faulty:
            hs = [h for h in hs if any(o["op"] == "backup" and o["fault"] != "none" for o in json.loads(h)["ops"])]
        return cls, hs, r["dir"]
    if not th:
        runs = [r for r in runs if r[0] != "readerr2"]   # thorough only: read error x every single edit (two files, two styles)
    with cf.ThreadPoolExecutor(max_workers=5) as ex:
        got = list(ex.map(one, runs))
    counts, out, seen = {}, [], set()
    for cls, hs, d in got:
        if len(hs) < {"singles": 30, "rootonly": 20, "readerr": 8, "readerr2": 20, "damage": 10, "sim": n // 2}[cls]:
            raise verif.MachineryError("TLC produced only %d %s histories, see %s" % (len(hs), cls, d))
        k = 0
        for h in hs:
            if h in seen:
                continue
            seen.add(h)
            o = json.loads(h)
            o["cls"] = cls
            out.append(json.dumps(o))
            k += 1
        counts[cls] = k
    p = os.path.join(ctx.work, "hist.ndjson")
    with open(p, "w") as fh:
        fh.write("\n".join(out) + "\n")
    return p, counts


def replay(ctx, vec, shards):
    """The histories are independent of each other: `shards` go test processes replay them side by side (history i in
    process i mod shards).  Returns the merged record file and the merged result (counters summed, distinct cases
    counted over all records)."""
    import concurrent.futures as cf, time

    def one(i):
        time.sleep(3 * i)      # the processes share one overlay file: do not write it at the same moment
        n0 = len(ctx.go_results)
        out = ctx.go_test("cmd/restic", "^TestVerif_C40$", timeout=3000, out=os.path.join(ctx.work, "go_shard%d" % i),
                          env={"VERIF_VECTORS": vec, "VERIF_SHARD": "%d/%d" % (i, shards)})
        return out
    with cf.ThreadPoolExecutor(max_workers=shards) as ex:
        outs = list(ex.map(one, range(shards)))
    recs = os.path.join(ctx.work, "recs_all.ndjson")
    counters, samples, rule = {}, [], ""
    cases = {}
    with open(recs, "w") as fh:
        for o in outs:
            for ln in open(os.path.join(o, "recs.ndjson")):
                fh.write(ln)
                r = json.loads(ln)
                key = (r["flags"], r["target"], r["big"], r["fault"], r["mode"], tuple(r["since"]), r["has_parent"])
                cases[key] = cases.get(key, False) or r["has_parent"]
            rj = json.load(open(os.path.join(o, "result.json")))
            rule = rj.get("rule", rule)
            samples += rj.get("samples") or []
            for k, v in (rj.get("counters") or {}).items():
                counters[k] = counters.get(k, 0) + v
    return recs, {"counters": counters, "rule": rule, "samples": samples, "distinct_nontrivial": sum(1 for v in cases.values() if v),
                  "distinct_cases": len(cases)}


def run(ctx):
    import concurrent.futures as cf
    with cf.ThreadPoolExecutor(max_workers=1) as bg:
        vec, nhist = histories(ctx)
        fut = bg.submit(design, ctx)      # design runs do not depend on /repo; they run beside the replay
        recs, res = replay(ctx, vec, ctx.pick(2, 4))
        des = fut.result()
    with cf.ThreadPoolExecutor(max_workers=2) as ex:
        fb = ex.submit(ctx.check_records, "Fn_IncrementalBind", recs, name="bind")
        fj = ex.submit(ctx.check_records, "Fn_Incremental", recs)
        nb, badb, lines = fb.result()
        n, bad, lines = fj.result()
    if badb:
        r = json.loads(lines[badb[0] - 1])
        raise verif.MachineryError("replay does not realise the model state at %d backup points, e.g. history %d point %d: model %s, reference backup %s"
                                   % (len(badb), r["hist"], r["point"], r["model_tree"], r["full_abs"]))
    for i in bad[:200]:
        r = json.loads(lines[i - 1])
        if r["failed"]:
            what = "backup-failed"
        elif r["omitted"] != (r["skip"] and r["has_parent"] and r["parent_tree"] == r["full_tree"]) or (not r["damaged"] and r["omitted"] != r["model_omitted"]):
            what = "snapshot-%s-wrongly" % ("omitted" if r["omitted"] else "written")
        elif not r["loadable"]:
            what = "blobs-missing"
        elif r["inc_tree"] != r["full_tree"]:
            what = "tree-differs"
        else:
            what = "content-differs"
        key = "incremental/%s/%s/%s/%s" % (r["flags"], r["mode"], what, "+".join(sorted(set(r["since"]))) or "no-edit")
        if r["target"] != "dir" or r["fault"] != "none":
            key += "/%s/%s" % (r["target"], r["fault"])
        ctx.violate(key, "history %d backup point %d (flags %s, target style %s, big files %s, fault %s %s, mode %s, edits since previous backup %s, parent %s): failed=%s omitted=%s (model %s), incremental tree %s, parentless tree %s, parent tree %s, loadable=%s, snapshot content %s, source %s %s (Fn_Incremental!RecOK false)"
                    % (r["hist"], r["point"], r["flags"], r["target"], r["big"], r["fault"], r["lost"], r["mode"], r["since"], r["has_parent"], r["failed"], r["omitted"], r["model_omitted"], r["inc_tree"],
                       r["full_tree"], r["parent_tree"], r["loadable"], r["inc_abs"], r["model_tree"], r["detail"]), r)
    cnt = res.get("counters", {})
    if cnt.get("premise_real_differs_from_model", 0) > max(2, n // 50):
        raise verif.MachineryError("the real file system left the model's premise at %d backup points" % cnt["premise_real_differs_from_model"])
    if cnt.get("points_with_parent", 0) < 10:
        raise verif.MachineryError("only %d backup points used a parent" % cnt.get("points_with_parent", 0))
    if not ctx.violations:
        for k in ("points_parent_tree_lost", "points_parent_data_lost", "points_with_read_error", "points_target_dot", "points_target_list", "points_target_deep", "points_big_files"):
            if cnt.get(k, 0) < 2:
                raise verif.MachineryError("input class %s was replayed at %d backup points only" % (k, cnt.get(k, 0)))
        if cnt.get("read_error_not_triggered", 0) or cnt.get("read_error_snapshot_differs_from_model", 0):
            raise verif.MachineryError("read-error backups did not behave as the model assumes (not triggered %d, snapshot differs %d)"
                                       % (cnt.get("read_error_not_triggered", 0), cnt.get("read_error_snapshot_differs_from_model", 0)))
    cov = {"evaluations": n, "distinct_nontrivial": res["distinct_nontrivial"], "rule": res["rule"], "samples": verif.samples_from(lines, 3),
           "histories_generated_by_tlc": nhist, "records_checked_by_tlc": n, "records_rejected": len(bad), "design_runs": des,
           "counters": cnt, "exhaustive": False}
    return verif.finish(ctx, "exploration", cov, [
        "edit operations are realised with real system calls (truncate+write keeps the inode, write+rename gives a new one, utimes restores mtime, ctime is the kernel's); the premise is measured on the real metadata at every backup point and must agree with the model",
        "the parentless backup of the same source state is taken with --force under another host name in the same repository (same chunker polynomial)",
        "relative targets only (cd base; restic backup src | i1/i2/i3/src, cd src; restic backup . | <top-level entries>): metadata of directories above the working directory is not part of the tree; the 'list' style selects the parent by host only (the target list changes with the source)",
        "faults are planned by the model, at most one per history: (a) a transient read error (EIO once, in the middle of the file; fs hook of the backup command; --read-concurrency 1 in the enumerated histories) during one backup - that backup is not judged (it is no backup of the same source as the parentless one), its snapshot is the parent of the next, judged backup; (b) one tree blob of the parent lost (byte flipped inside the pack, then the real `repair packs`), every directory of the snapshot in turn incl. root and intermediate directories; (c) the packs holding the parent's file data removed + `repair index`. After (b)/(c) the stored tree must equal the parentless one and be loadable, and the backup must not fail",
        "big files: 600 KiB + token-dependent length, 1 KiB of zero bytes then random bytes (more than one read buffer / minimal chunk)",
        "model bounds: paths {a, b, d, d/x}, 17 edit operations; enumerated by TLC: all single-edit histories per flag setting, all single-edit histories with --skip-if-unchanged for the dot/list styles, every (file, style) read error and every (tree | data, style) loss; plus TLC -simulate walks of 4-5 backups with 0-3 edits in between over all styles, sizes and faults"])
