"""C40 Incremental backups store the same tree as full backups."""
import json, os, re
import verif

SIM_CFG = """SPECIFICATION Spec
CONSTANTS
  Paths = {"a", "b", "d", "d/x"}
  Rounds = %d
  MaxEdits = 3
  Twin = FALSE
  Modes = {"inc", "incskip", "force"}
  Emit = TRUE
INVARIANT IncEqualsFull
CHECK_DEADLOCK FALSE
"""


def design(ctx):
    """Exhaustive runs of the history model: premise => incremental tree = full tree and a skipped snapshot hides no
    change; the negative twin (premise not enforced) must be refuted; omission must be reachable (vacuity)."""
    out = []
    for cfg in (["small", "full"] if ctx.thorough() else ["small"]):
        r = ctx.tlc("Incremental", cfg="Incremental_%s.cfg" % cfg, workers=8, name="design_" + cfg, timeout=2400)
        out.append({"cfg": cfg, "states": r["states"], "transitions": r["transitions"], "result": "holds"})
    for cfg, exp in (("twin", "IncEqualsFull"), ("vac", "NeverOmits")):
        r = ctx.tlc("Incremental", cfg="Incremental_%s.cfg" % cfg, workers=4, name="design_" + cfg, timeout=900, allow_violation=True)
        if exp not in r["violated"]:
            raise verif.MachineryError("design run %s: expected TLC to refute %s, got %s" % (cfg, exp, r["violated"]))
        out.append({"cfg": cfg, "states": r["states"], "transitions": r["transitions"], "result": "refuted: " + exp})
    return out


def histories(ctx):
    n = ctx.pick(25, 250)
    rounds = ctx.pick(4, 5)
    r = ctx.tlc("Incremental", cfg="Incremental_simrun.cfg", files={"Incremental_simrun.cfg": SIM_CFG % rounds}, workers=1,
                simulate="num=%d" % n, depth=80, extra=("-seed", str(1000 + ctx.seed)), name="simulate", timeout=1800)
    hs = []
    seen = set()
    for m in re.finditer(r'^<<"HIST", (".*")>>\s*$', r["out"], re.M):
        txt = json.loads(m.group(1))
        if txt in seen:
            continue
        seen.add(txt)
        json.loads(txt)
        hs.append(txt)
    if len(hs) < n // 2:
        raise verif.MachineryError("TLC simulation printed only %d histories, see %s" % (len(hs), r["dir"]))
    p = os.path.join(ctx.work, "hist.ndjson")
    with open(p, "w") as fh:
        fh.write("\n".join(hs) + "\n")
    return p, len(hs)


def run(ctx):
    des = design(ctx)
    vec, nh = histories(ctx)
    out = ctx.go_test("cmd/restic", "^TestVerif_C40$", timeout=3000, env={"VERIF_VECTORS": vec})
    recs = os.path.join(out, "recs.ndjson")
    nb, badb, lines = ctx.check_records("Fn_IncrementalBind", recs, name="bind")
    if badb:
        r = json.loads(lines[badb[0] - 1])
        raise verif.MachineryError("replay does not realise the model state at %d backup points, e.g. history %d point %d: model %s, reference backup %s"
                                   % (len(badb), r["hist"], r["point"], r["model_tree"], r["full_abs"]))
    n, bad, lines = ctx.check_records("Fn_Incremental", recs)
    for i in bad[:200]:
        r = json.loads(lines[i - 1])
        if r["omitted"] != (r["skip"] and r["has_parent"] and r["parent_tree"] == r["full_tree"]) or (not r["damaged"] and r["omitted"] != r["model_omitted"]):
            what = "snapshot-%s-wrongly" % ("omitted" if r["omitted"] else "written")
        elif not r["loadable"]:
            what = "blobs-missing"
        elif r["inc_tree"] != r["full_tree"]:
            what = "tree-differs"
        else:
            what = "content-differs"
        key = "incremental/%s/%s/%s/%s" % (r["flags"], r["mode"], what, "+".join(sorted(set(r["since"]))) or "no-edit")
        ctx.violate(key, "history %d backup point %d (flags %s, mode %s, edits since previous backup %s, parent %s): omitted=%s (model %s), incremental tree %s, parentless tree %s, parent tree %s, loadable=%s, snapshot content %s, source %s %s (Fn_Incremental!RecOK false)"
                    % (r["hist"], r["point"], r["flags"], r["mode"], r["since"], r["has_parent"], r["omitted"], r["model_omitted"], r["inc_tree"],
                       r["full_tree"], r["parent_tree"], r["loadable"], r["inc_abs"], r["model_tree"], r["detail"]), r)
    res = ctx.go_results[-1]
    cnt = res.get("counters", {})
    if cnt.get("points_with_parent", 0) < 10:
        raise verif.MachineryError("only %d backup points used a parent" % cnt.get("points_with_parent", 0))
    cov = {"evaluations": n, "distinct_nontrivial": res["distinct_nontrivial"], "rule": res["rule"], "samples": verif.samples_from(lines, 3),
           "histories_generated_by_tlc": nh, "records_checked_by_tlc": n, "records_rejected": len(bad), "design_runs": des,
           "counters": cnt, "exhaustive": False}
    return verif.finish(ctx, "exploration", cov, [
        "edit operations are realised with real system calls (truncate+write keeps the inode, write+rename gives a new one, utimes restores mtime, ctime is the kernel's); the premise is measured on the real metadata at every backup point and must agree with the model",
        "the parentless backup of the same source state is taken with --force under another host name in the same repository (same chunker polynomial)",
        "relative target (cd base; restic backup src): metadata of directories above the target is not part of the tree",
        "at a few backup points the packs holding the parent's file data are removed and the index rebuilt before the incremental backup: the stored tree must still be loadable (as after a full backup)",
        "model bounds: paths {a, b, d, d/x}, 17 edit operations, histories of 4-5 backups with 0-3 edits in between, TLC -simulate"])
