"""Shared logic of C12 / C13 (spec/Lock.tla, LockObs.tla; harness zz_verif_c12_test.go / zz_verif_c13_test.go):
design runs of the lock model with negative twins, TLC-generated schedules, replay, TLC judgement of the records."""
import concurrent.futures as cf
import json, os, re
import verif

TAGS = ["c12", "c13", "common"]


def parse_scheds(out):
    res = []
    for m in re.finditer(r'^<<"SCHED", "(.*)">>\s*$', out, re.M):
        try:
            res.append(json.loads(json.loads('"' + m.group(1) + '"')))
        except Exception:
            raise verif.MachineryError("cannot parse a schedule printed by TLC")
    return res


def parse_goals(out, max_per_goal=4):
    """schedules printed by the goal "invariants" of Lock.tla (BFS runs with Emit = TRUE): list of (goal name, steps);
    every TLC worker prints its first witness of a goal, the distinct ones are kept (shortest first)"""
    per = {}
    for m in re.finditer(r'^<<"GOAL", "([^"]*)", "(.*)">>\s*$', out, re.M):
        try:
            steps = json.loads(json.loads('"' + m.group(2) + '"'))
        except Exception:
            raise verif.MachineryError("cannot parse a goal schedule printed by TLC")
        per.setdefault(m.group(1), [])
        if steps not in per[m.group(1)]:
            per[m.group(1)].append(steps)
    res = []
    for g in sorted(per):
        for steps in sorted(per[g], key=lambda st: (len(st), json.dumps(st, sort_keys=True)))[:max_per_goal]:
            res.append((g, steps))
    return res


def goal_suffix(n, mods=False):
    """steps appended to a goal witness so that the real code has time to react: every process gets turns, the short
    timers fire, and more than the excusable margin (1 min + stall) passes"""
    st = lambda p: {"op": "step", "p": p, "x": False, "k": ""}
    w = {"op": "wait", "p": 0, "x": False, "k": ""}
    t = {"op": "tick", "p": 0, "x": False, "k": ""}
    turns = [st(p) for _ in range(2) for p in range(1, n + 1)]
    m = [{"op": "mod", "p": p, "x": False, "k": ""} for p in range(1, n + 1)] if mods else []
    return turns + [w] + turns + m + [w] + turns + [w] + turns + m + [t] + turns + [w] + turns + [t] + turns + m + [w]


def gen_cfg(n, maxtime, budget, faults, toggles, removal, remotes, histmax, maxatt, crashes, startby, healodds=3,
            maxskew=0, listlag="FALSE", fixskew="FALSE", edge="FALSE", startfrom=0, maxmods=0):
    return ("SPECIFICATION Spec\nCONSTANTS\n N = %d\n MaxTime = %d\n MaxSkew = %d\n Budget = %d\n Variant = \"code\"\n"
            " Faults <- %s\n MaxToggle = %d\n Removal = %s\n Remotes <- %s\n MaxWaits = 4\n HistMax = %d\n Emit = TRUE\n"
            " MaxAtt = %d\n Crashes = %s\n StartBy = %d\n StartFrom = %d\n HealOdds = %d\n ListLag = %s\n FixSkew = %s\n Edge = %s\n MaxMods = %d\n"
            "CHECK_DEADLOCK FALSE\n"
            % (n, maxtime, maxskew, budget, faults, toggles, removal, remotes, histmax, maxatt, crashes, startby, startfrom,
               healodds, listlag, fixskew, edge, maxmods))


def generate(ctx, families, per_family, jobs=6):
    """families: list of (name, n, cfg text).  Runs `tlc -simulate` per family (split over several seeds, in
    parallel) and returns the list of schedule dicts for the harness (deduplicated)."""
    tasks = []
    attrs = {}
    for fi, fam in enumerate(families):
        name, n, cfg = fam[:3]
        attrs[name] = fam[3] if len(fam) > 3 else {}
        parts = max(1, min(4, per_family // 150))
        for k in range(parts):
            tasks.append((name, n, cfg, per_family // parts + 1, ctx.seed * 1000 + fi * 10 + k))

    def one(t):
        name, n, cfg, num, seed = t
        cfgname = "LockGen_%s_%d.cfg" % (name, seed)
        r = ctx.tlc("LockMC", cfg=cfgname, files={cfgname: cfg}, workers=1, deadlock=False,
                    simulate="num=%d" % num, depth=400, extra=["-seed", str(seed)], name="gen_%s_%d" % (name, seed),
                    timeout=1500)
        return name, n, seed, parse_scheds(r["out"])
    scheds, seen = [], set()
    with cf.ThreadPoolExecutor(max_workers=jobs) as ex:
        for name, n, seed, ss in ex.map(one, tasks):
            for i, steps in enumerate(ss):
                key = json.dumps(steps, sort_keys=True)
                if key in seen or len(steps) < 4:
                    continue
                seen.add(key)
                scheds.append(dict({"id": "%s-%d-%d" % (name, seed, i), "fam": name, "n": n, "steps": steps}, **attrs[name]))
    if not scheds:
        raise verif.MachineryError("TLC generated no schedules")
    return scheds


def design_runs(ctx, positive, twins, jobs=4):
    """positive: list of cfg names that must pass; twins: dict cfg -> set of acceptable refuted invariants.
    Returns summary list; raises MachineryError if a positive run fails or a twin is not refuted."""
    def one(c):
        twin = c in twins
        r = ctx.tlc("LockMC", cfg="Lock_%s.cfg" % c, workers=4, deadlock=False, allow_violation=twin, name="design_" + c,
                    timeout=3000)
        return c, r
    out = []
    with cf.ThreadPoolExecutor(max_workers=jobs) as ex:
        for c, r in ex.map(one, list(positive) + list(twins)):
            if c in twins:
                if not (set(r["violated"]) & set(twins[c])):
                    raise verif.MachineryError("negative twin Lock_%s.cfg was not refuted (%s), see %s" % (c, r["violated"], r["dir"]))
            out.append({"cfg": "Lock_%s.cfg" % c, "states": r["states"], "transitions": r["transitions"], "depth": r["depth"],
                        "refuted": r["violated"], "twin": c in twins, "goals": parse_goals(r["out"])})
    return out


def goal_scheds(design, attrs):
    """the goal witnesses printed by the design runs `design` (list returned by design_runs) as schedules for the
    harness; attrs: cfg name -> extra schedule attributes (n, lag, budget)"""
    res = []
    for d in design:
        a = dict(attrs.get(d["cfg"], {}))
        n = a.pop("n", 2)
        for j, (g, steps) in enumerate(d["goals"]):
            res.append(dict({"id": "goal-%s-%s-%d" % (d["cfg"][5:-4], g, j), "fam": "goal", "n": n, "steps": steps + goal_suffix(n, a.get("sema", False))}, **a))
        d["goals"] = [g for g, _ in d["goals"]]
    return res


def write_scheds(ctx, scheds, name="scheds.ndjson"):
    p = os.path.join(ctx.work, name)
    with open(p, "w") as fh:
        for s in scheds:
            fh.write(json.dumps(s) + "\n")
    return p


def holders(o):
    return [i for i, p in enumerate(o["p"]) if p[0] == 1 and p[1] == 1]


def slim(r, k=None):
    """replayable case: the schedule and the offending observation"""
    c = {"id": r["id"], "fam": r["fam"], "n": r["n"], "sched": r["sched"], "out": r["out"], "probe": r["probe"], "logs": r.get("logs"), "errs": r.get("errs"), "mods": r.get("mods")}
    if k is not None:
        c["observation"] = r["obs"][k]
        c["observation_index"] = k
    return c
