"""Design runs of spec/Uploader.tla (upload session life cycle: asynchronous blob saves, early resolution of a
failed file's future, the archiver's context cancellation, flush).  The fixed design holds; the two designs restic
had before dea305c86 / 37e2786c3 are refuted (vacuity control).  Independent of /repo."""
import verif


def design_runs(ctx):
    out = []
    r = ctx.tlc("Uploader", cfg="Uploader_fixed.cfg", workers=1, name="uploader_fixed", timeout=600)
    out.append({"cfg": "Uploader_fixed", "states": r["states"], "transitions": r["transitions"], "result": "holds (NoCrash, NoSpuriousFatal, StatusOK, Terminates)"})
    for c, exp in {"unregistered": "NoCrash", "ctxerr": "NoSpuriousFatal"}.items():
        r = ctx.tlc("Uploader", cfg="Uploader_%s.cfg" % c, workers=1, name="uploader_twin_" + c, timeout=600, allow_violation=True)
        if exp not in r["violated"]:
            raise verif.MachineryError("negative twin Uploader_%s was not refuted (expected %s, got %s)" % (c, exp, r["violated"]))
        out.append({"cfg": "Uploader_" + c, "states": r["states"], "transitions": r["transitions"], "result": "refuted: " + exp})
    return out
