"""C13 Lock holders stop before their lock can be considered stale.

Design: Lock.tla model-checked exhaustively (HolderHasFile, FreshWhileActive, NotStale under clock skew) with
backend faults; negative twins: refresh that removes before it creates (must violate HolderHasFile) and the blocking
refresher / expiry-monitor hand-over (restic before 0bbee0d26, found by this check; TLC's counterexample schedule is
replayed into the real code, which must not show the deadlock).
Further twins: forced refresh that ignores the vanished lock file (must violate FreshWithin: a robbed holder is judged
by the newest lock file it saved and did not remove itself), context looked at before the freeze gate of the
connection limiting backend (must violate NoWriteAfterCancel).
Conformance: TLC-generated fault scripts and TARGETED schedules (TLC in BFS mode prints the shortest behaviour reaching
rarely visited branches: lock file removed between the two existence checks of the forced refresh, Remove fault in
the forced refresh, a modification waiting at the freeze gate while the forced refresh fails / succeeds, ...) replayed
into real lockers in virtual time, in family sema1 and the targeted schedules through the real sema backend with a
worker issuing non-lock modifications; every observation (after each schedule step, after each mutating lock
operation, at the instant a lock context is cancelled) and every non-lock modification reaching the store is judged
by TLC with LockRec13!RecOK = HolderHasFile /\\ FreshWhileActive /\\ ReleasedClean /\\ NoWriteAfterCancel (LockObs.tla)."""
import concurrent.futures as cf
import json, os, re
import verif
from props import lock_common as lc


def families(ctx):
    g = lc.gen_cfg
    return [
        ("hold1f", 1, g(1, 26, 1, "C13Faults", 3, "TRUE", "RemotesNone", 170, 2, "FALSE", 0)),
        ("hold1w", 1, g(1, 26, 0, "WriteFaults", 2, "FALSE", "RemotesNone", 170, 2, "FALSE", 0, 12)),
        ("down1", 1, g(1, 26, 0, "C13Faults", 1, "FALSE", "RemotesNone", 170, 2, "FALSE", 0, 60)),
        ("hold2f", 2, g(2, 24, 1, "C13Faults", 3, "TRUE", "RemotesNone", 200, 2, "TRUE", 8)),
        ("quiet1", 1, g(1, 26, 0, "NoFaults", 0, "TRUE", "RemotesNone", 170, 2, "FALSE", 0)),
        # through the real sema backend, with a worker issuing non-lock modifications (also into the frozen backend)
        ("sema1", 1, g(1, 26, 1, "C13Faults", 3, "TRUE", "RemotesNone", 170, 2, "FALSE", 0, maxmods=5), {"sema": True}),
    ]


GOAL_ATTRS = {"Lock_q_mods1_goals.cfg": {"n": 1, "sema": True}}


def signature(r, diag, i, k):
    """what the lock code of process i (0-based) did before observation k: used only to give the violation a
    stable class key"""
    o = r["obs"][k]
    ev = []
    for e in diag.get("trace", []):
        m = re.match(r"(\d+)@(\d+):P(\d+):(\w+):(\w+)", e)
        if m and int(m.group(3)) == i + 1 and int(m.group(2)) <= o["now"]:
            ev.append((int(m.group(2)), m.group(4), m.group(5)))
    if not ev:
        return "no-lock-operations"
    last_t = ev[-1][0]
    silent = o["now"] - last_t > 15 * 60 * 1000
    arr = [e for e in ev if e[2] == "arrive"]
    tail = [e[1] for e in arr[-2:]]
    if silent and tail == ["Save", "Remove"]:
        # a complete refresh (create + remove) was the last thing the process did
        a = [e for e in ev if e[1] == "Save" and e[2] == "arrive"][-1][0]
        slow = last_t - a >= 60 * 1000
        return "refresh-machinery-silent-after-%s-successful-refresh" % ("slow" if slow else "fast")
    if silent:
        return "refresh-machinery-silent"
    return "context-cancelled-too-late"


def run(ctx):
    per_family = ctx.pick(70, 1200)
    with cf.ThreadPoolExecutor(max_workers=2) as ex:
        fd = ex.submit(lc.design_runs, ctx, ctx.pick(["q_mods1_goals", "hold1_long"], ["q_mods1_goals", "hold1_long", "hold1", "hold1_del", "mods1"]),
                       {"hold1_removefirst": ["InvHolderHasFile"], "hold1_blocking_emit": ["InvNotStaleEmit"],
                        "hold1_del_f2ignore": ["InvFresh"], "mods1_ctxcheckfirst": ["InvNoWriteAfterCancel"]})
        fg = ex.submit(lc.generate, ctx, families(ctx), per_family)
        scheds = fg.result()
        design = fd.result()
    # the counterexample TLC found for the blocking hand-over twin is replayed as well
    cex = []
    for tr in ctx.tlc_runs:
        if tr["cfg"] == "Lock_hold1_blocking_emit.cfg":
            outp = open(os.path.join(tr["dir"], "tlc.out")).read()
            for j, steps in enumerate(lc.parse_scheds(outp)[:1]):
                # run on after the violating state so that the real code has time to (not) react
                steps = steps + [{"op": "tick", "p": 0, "x": False, "k": ""}] * 4
                cex.append({"id": "cex-blockinghandover-%d" % j, "fam": "cex", "n": 1, "steps": steps})
    if not cex:
        raise verif.MachineryError("no counterexample schedule printed by the blocking-handover twin")
    goals = lc.goal_scheds([d for d in design if d["cfg"] in GOAL_ATTRS], GOAL_ATTRS)
    need = ["robbed-before-f2", "modification-waits-while-forced-refresh-fails", "modification-waits-while-forced-refresh-succeeds"]
    if not all(any(g in s["id"] for s in goals) for g in need):
        raise verif.MachineryError("TLC did not reach the goal states (targeted schedules missing): %s" % [s["id"] for s in goals])
    scheds = cex + goals + scheds
    vec = lc.write_scheds(ctx, scheds)
    out = ctx.go_test("internal/repository", "^TestVerif_C13$", tags=lc.TAGS, env={"VERIF_VECTORS": vec}, timeout=3000)
    recs = os.path.join(out, "recs.ndjson")
    n, bad, lines = ctx.check_records("LockRec13", recs, shard=ctx.pick(300, 500))
    classes = {}
    if bad:
        sub = os.path.join(ctx.work, "bad.ndjson")
        with open(sub, "w") as fh:
            for i in bad:
                fh.write(lines[i - 1] + "\n")
        for mod in ("LockRec13HasFile", "LockRec13Fresh", "LockRec13Clean", "LockRec13Mods"):
            _, b2, _ = ctx.check_records(mod, sub, name=mod)
            for j in b2:
                classes.setdefault(bad[j - 1], []).append(mod[len("LockRec13"):])
        diags = {}
        for l in open(os.path.join(out, "diag.ndjson")):
            d = json.loads(l)
            diags[d["id"]] = d
    for i in bad[:200]:
        r = json.loads(lines[i - 1])
        d = diags.get(r["id"], {})
        for cl in classes.get(i, ["unclassified"]):
            k, who = None, None
            for j, o in enumerate(r["obs"]):
                for x, p in enumerate(o["p"]):
                    own = [f for f in o["f"] if f[0] == x + 1]
                    holds = p[0] == 1 and p[1] == 1
                    if cl == "HasFile" and holds and p[3] == 0 and not own:
                        k, who = j, x
                    elif cl == "Clean" and p[5] == 1 and own:
                        k, who = j, x
                    elif cl == "Fresh" and holds:
                        lim = 1350000 + 60000 + p[4]
                        ok = (o["now"] - p[9] <= lim) if p[3] == 1 else any(o["now"] - f[1] <= lim for f in own)
                        if not ok:
                            k, who = j, x
                    if k is not None:
                        break
                if k is not None:
                    break
            if cl == "Mods":
                bad_m = [m for m in r["mods"] if m[2] == 1]
                key = "lock/modification-after-context-cancelled" + ("/waited-at-freeze-gate" if any(m[3] == 1 for m in bad_m) else "")
                det = "a non-lock modification of the lock holder reached the storage (below the sema backend) although its lock context was already cancelled: %s" % bad_m[:3]
            elif cl == "HasFile":
                key = "lock/holder-without-lock-file"
                det = "a process that believes to hold its lock (context alive, nobody removed its files) has no lock file"
            elif cl == "Clean":
                key = "lock/lock-file-left-after-unlock"
                det = "Unlock() returned without faults but a lock file of the process is still there"
            elif cl == "Fresh":
                sig = signature(r, d, who, k) if k is not None else "unknown"
                if k is not None and r["obs"][k]["p"][who][3] == 1:
                    sig = "lock-file-removed-by-others/" + sig
                key = "lock/not-stopped-before-stale/" + sig
                det = "the lock context is alive although the newest lock file of the process (for a process whose lock file was removed by others: the newest one it saved and did not remove itself) is older than the refreshability timeout (22.5 min + 1 min slack + time stalled)"
            else:
                key, det = "lock/c13-unclassified", "LockRec13!RecOK false"
            ctx.violate(key, "%s: schedule %s, observation %s; lock code said: %s" % (det, r["sched"], r["obs"][k] if k is not None else "?", d.get("logs")),
                        lc.slim(r, k))
    res = ctx.go_results[-1]
    pos = [d for d in design if not d["twin"]]
    cov = {"states": sum(d["states"] for d in pos), "transitions": sum(d["transitions"] for d in pos),
           "traces_validated_against_impl": n, "records_rejected": len(bad),
           "design_runs": design, "schedules_generated_by_tlc": len(scheds), "counterexample_schedules_replayed": len(cex),
           "targeted_schedules": [s["id"] for s in goals],
           "evaluations": n, "distinct_nontrivial": res["distinct_nontrivial"], "rule": res["rule"],
           "counters": res.get("counters", {}), "samples": res.get("samples", [])[:3]}
    return verif.finish(ctx, "model_checking", cov, [
        "'before its lock could be judged stale by others' is read with the documented drift margin: a live context needs an own lock file younger than 22.5 min (30 min - 7.5 min) + 1 min slack + the time the harness stalled the process (at most 5 min in total)",
        "all lockers share the virtual clock of the synctest bubble (skew is explored in the design model only); host standby (wall clock jumps while timers sleep) cannot be produced inside synctest",
        "a holder whose lock file was removed by somebody else is judged by the newest lock file it saved and did not remove itself (the file its lock handle points to is one of them; the replacement a failed forced refresh cleans up is not)",
        "'stops issuing modifications' is observed as cancellation of the context returned by Lock() and, in family sema1 and the targeted schedules (real sema backend between repository and store), as: no Save/Remove of a non-lock file issued by a worker with the lock context reaches the layer below the sema backend with that context cancelled; binding limits: a worker waiting at the freeze gate sits on a sync.Mutex (not durably blocked for synctest), so a modification is issued into a frozen backend only where the forced refresh can finish without virtual time passing (after its 200 ms wait, or when the next lock operation is made to fail), and no virtual time passes while one waits",
        "in-memory backend, atomic operations, one connection",
    ], exhaustive=False)
