"""C07 Index, snapshot, lock and config files decode to what was saved."""
import json, os
import verif


def symptom(r):
    if r.get("panic"):
        return "panic"
    if r["op"] == "roundtrip":
        if r["save_err"]:
            return "save-failed"
        if r["load_err"]:
            return "load-failed"
        if not r["same"]:
            return "different-bytes"
        return "stored-form-%s" % r["stored"]
    if r["load_err"]:
        return "readable-file-rejected"
    if not r["expect_same"]:
        return "unknown-encoding-accepted" if r["first"] == "other" else "wrong-bytes"
    return "unknown-encoding-accepted"


def run(ctx):
    out = ctx.go_test("internal/repository", "^TestVerif_C07$", timeout=2400)
    n, bad, lines = ctx.check_records("Fn_Unpacked", os.path.join(out, "recs.ndjson"), shard=ctx.pick(3000, 8000))
    seen = set()
    for i in bad[:500]:
        r = json.loads(lines[i - 1])
        if r["op"] == "roundtrip":
            key = "unpacked/roundtrip/v%d/%s/%s/%s" % (r["version"], r["type"], r["pfirst"], symptom(r))
        else:
            key = "unpacked/load/v%d/%s/%s-%s/%s" % (r["version"], r["type"], r["first"], r["body"], symptom(r))
        if key in seen:
            continue
        seen.add(key)
        ctx.violate(key, "Fn_Unpacked!RecOK false: %s" % json.dumps(r)[:500], r)
    res = ctx.go_results[-1]
    cov = {"evaluations": n, "distinct_nontrivial": res["distinct_nontrivial"], "rule": res["rule"],
           "samples": verif.samples_from(lines, 3), "records_checked_by_tlc": n, "records_rejected": len(bad),
           "counters": res.get("counters", {}), "exhaustive": ctx.thorough()}
    return verif.finish(ctx, "exploration", cov, [
        "Fn_Unpacked.tla states the documented unpacked-file encoding (doc/design.rst): the decision table for a stored plaintext and the legal stored forms; TLC evaluates RecOK on every recorded round trip / load and checks the table is consistent with the round-trip claim (ASSUME Consistent)",
        "byte fidelity is abstracted by the Go driver: first-byte classes (empty, '[', '{', 0x02, other), 'same bytes' is a Go byte comparison, the stored form is classified by decrypting the stored file with the repository key and decompressing with the driver's own zstd decoder (klauspost/zstd with default options, trusted)",
        "a 0x02 file whose zstandard stream is damaged is not judged (the statement does not say); AES/Poly1305 and zstd themselves are trusted",
        "hand-stored files enumerate all 256 values of the first plaintext byte (quick: full table for index files, a seed-dependent quarter plus 0x02/0x03/'['/'{' for snapshot and lock files)",
    ])
