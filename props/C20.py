"""C20 Restore includes/excludes and --delete select exactly the matching paths."""
import json, os
import verif


def pstr(p):
    return ("/" if p["abs"] else "") + "/".join(p["comps"])


def run(ctx):
    out = ctx.go_test("cmd/restic", "^TestVerif_C20$", timeout=1700)
    n, bad, lines = ctx.check_records("Fn_Select", os.path.join(out, "recs.ndjson"), shard=ctx.pick(300, 1600), timeout=1500)
    for i in bad[:100]:
        r = json.loads(lines[i - 1])
        sel = r["sel"]
        pats = [("!" if p["neg"] else "") + ("/" if p["abs"] else "") + "/".join(p["parts"]) for p in sel["pats"]]
        ipats = [("!" if p["neg"] else "") + ("/" if p["abs"] else "") + "/".join(p["parts"]) for p in sel["ipats"]]
        kind = sel["mode"] + ("+delete" if r["delete"] else "") + ("+insensitive" if ipats else "") + \
            ("+negation" if any(p["neg"] for p in sel["pats"] + sel["ipats"]) else "") + ("/error" if r["err"] else "")
        ctx.violate("restore-select/" + kind,
                    "restore --%s %s i%s%s of snapshot {%s} into target with {%s} left {%s}%s: not what Fn_Select!RestoreOK allows"
                    % (sel["mode"], pats, ipats, " --delete" if r["delete"] else "",
                       ", ".join(pstr(e["p"]) + ":" + e["t"] for e in r["snap"]),
                       ", ".join(pstr(e["p"]) + ":" + e["t"] for e in r["pre"]),
                       ", ".join(pstr(e["p"]) + ":" + e["t"] + ":" + e.get("c", "") for e in r["after"]),
                       (" error: " + r.get("errmsg", "")) if r["err"] else ""), r)
    res = ctx.go_results[-1]
    cov = {"evaluations": n, "distinct_nontrivial": res["distinct_nontrivial"], "rule": res["rule"],
           "samples": verif.samples_from(lines, 3), "records_checked_by_tlc": n, "records_rejected": len(bad),
           "counters": res.get("counters", {}), "exhaustive": False}
    return verif.finish(ctx, "exploration", cov,
                        ["oracle = Fn_Select.tla (RestoreOK) on top of the pattern semantics Fn_Glob.tla (checked against the real matcher by C28); TLC evaluates it on every recorded restore",
                         "exclude mode follows the documented rule that nothing below an excluded directory can be re-included",
                         "--delete: removal is demanded for entries whose whole chain (top-most ancestor not in the snapshot .. entry) is selected and whose parent directory restore works in (is selected or holds a restored entry); it is forbidden for entries with no selected element in that chain; in between (e.g. a selected entry inside a directory that restore does not visit) both outcomes are accepted",
                         "pre-existing entries have a type conflicting with the snapshot entry of the same path only where the snapshot has a socket, fifo or device node (sockets are part of the snapshot but never created; a selected socket need not appear); content is abstracted to snap/pre/other by the Go driver",
                         "device nodes are only generated when mknod is permitted in the sandbox (probed at run time)",
                         "trees of depth <= 3 over names {a,b,ab,A,Ab}; patterns from fixed pools (40 globs, 10 negated, 10 case-insensitive)"])
