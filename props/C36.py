"""C36 The local backend never exposes a partially written file."""
import json, os, re
import concurrent.futures as cf
import verif

TWINS = {  # deliberately broken save procedures and the invariants that must refute them
    "nofsync": {"NoPartialFinal"},
    "renamefirst": {"NoPartialFinal", "NoPartialFinalLive"},
    "direct": {"NoPartialFinal", "NoPartialFinalLive"},
    "ignoresyncerr": {"NoPartialFinal"},
    "nolencheck": {"NoPartialFinal", "NoPartialFinalLive"},
    "tmpvalid": {"NoTempListed", "NoTempListedLive"},
}


def design_one(ctx, v):
    """positive configuration must hold; every negative twin must be refuted (vacuity control)"""
    if v == "ok":
        r = ctx.tlc("LocalSaveProc", cfg="LocalSaveProc_ok.cfg", workers=2, name="design_ok", timeout=900)
        return {"cfg": "ok", "states": r["states"], "transitions": r["transitions"], "result": "holds"}
    exp = TWINS[v]
    r = ctx.tlc("LocalSaveProc", cfg="LocalSaveProc_%s.cfg" % v, workers=2, name="twin_" + v, timeout=900, allow_violation=True)
    if not (set(r["violated"]) & exp):
        raise verif.MachineryError("negative twin %s was not refuted (expected one of %s, got %s)" % (v, sorted(exp), r["violated"]))
    return {"cfg": v, "states": r["states"], "transitions": r["transitions"],
            "result": "refuted: " + ",".join(sorted(set(r["violated"]) & exp))}


def printed(res, tag):
    vals = []
    for raw in ctx_printed(res["out"], tag):
        try:
            vals.append(json.loads(json.loads(raw)))
        except Exception:
            raise verif.MachineryError("cannot parse TLC output %s: %s" % (tag, raw[:200]))
    return vals


def ctx_printed(out, tag):
    return [m.group(1) for m in re.finditer(r'^<<"%s", (.*)>>\s*$' % re.escape(tag), out, re.M)]


def two_savers(ctx, fut_unique, fut_shared):
    """overlapping saves of one handle: LocalSaveTwo.tla (unique temporary names hold, shared name refuted) enumerates
    the interleavings, the Go driver replays them into the real Local.Save, LocalSaveTwoProps!RecOK judges the records"""
    r = fut_unique.result()
    design = [{"cfg": "two_savers_unique_temp", "states": r["states"], "transitions": r["transitions"], "result": "holds"}]
    chunks = int(re.search(r"\bChunks = (\d+)", open(os.path.join(verif.SPEC, "LocalSaveTwo_unique.cfg")).read()).group(1))
    scheds = sorted({tuple(int(x) for x in re.findall(r"\d+", m.group(1)))
                     for m in re.finditer(r'^<<"SCHED2", <<(.*?)>>>>\s*$', r["out"], re.M)})
    if not scheds:
        raise verif.MachineryError("LocalSaveTwo produced no schedules, see %s" % r["dir"])
    t = fut_shared.result()
    if "NoPartialFinal" not in t["violated"]:
        raise verif.MachineryError("negative twin 'shared temporary name' was not refuted (got %s)" % t["violated"])
    design.append({"cfg": "two_savers_shared_temp", "states": t["states"], "transitions": t["transitions"], "result": "refuted: NoPartialFinal"})
    vec = os.path.join(ctx.work, "two_schedules.ndjson")
    with open(vec, "w") as fh:
        for s in scheds:
            fh.write(json.dumps({"sched": list(s), "chunks": chunks}) + "\n")
    out = ctx.go_test("internal/backend/local", "^TestVerif_C36_Two$", timeout=1500, env={"VERIF_VECTORS": vec})
    n, bad, lines = ctx.check_records("LocalSaveTwoProps", os.path.join(out, "recs_two.ndjson"), shard=2000)
    seen = set()
    for i in bad:
        rec = json.loads(lines[i - 1])
        o = next((o for o in rec["obs"] if o["final"] == "partial" or o["others"]), None)
        if o is None:
            raise verif.MachineryError("LocalSaveTwoProps rejected a record without a failing observation: %s" % lines[i - 1][:300])
        key = "local-save/overlapping-saves/%s" % ("partial-final" if o["final"] == "partial" else "temporary-file-listed")
        if key in seen:
            continue
        seen.add(key)
        names = {0: "opens its temporary file", 1: "writes a chunk", 2: "finishes (sync, close, rename)", 3: "is aborted by a reader error"}
        ctx.violate(key, "two overlapping saves of one %s file, steps %s: after saver %d %s (Save result %r) the final name holds %d bytes of which the first %d are correct (payload %d bytes); %d other repository files listed" % (
            rec["type"], rec["sched"], o["step"] // 10, names[o["step"] % 10], o["ret"], o["size"], o["prefix"], chunks * 12288, o["others"]), rec)
    res = ctx.go_results[-1]
    return {"design": design, "schedules": len(scheds), "records": n, "rejected": len(bad),
            "distinct_nontrivial": res.get("distinct_nontrivial", 0), "counters": res.get("counters", {}),
            "samples": verif.samples_from(lines, 1)}


def run(ctx):
    with cf.ThreadPoolExecutor(max_workers=9) as ex:
        futs = [ex.submit(design_one, ctx, v) for v in ["ok"] + sorted(TWINS)]
        fu = ex.submit(ctx.tlc, "LocalSaveTwo", cfg="LocalSaveTwo_unique.cfg", workers=1, name="two_unique", timeout=900)
        fs = ex.submit(ctx.tlc, "LocalSaveTwo", cfg="LocalSaveTwo_shared.cfg", workers=1, name="two_shared", timeout=900, allow_violation=True)
        out = ctx.go_test("internal/backend/local", "^TestVerif_C36$", timeout=3000)
        des = [f.result() for f in futs]
    two = two_savers(ctx, fu, fs)
    des += two["design"]
    recs_path = os.path.join(out, "recs.ndjson")
    lines = open(recs_path).read().splitlines()
    if not lines:
        raise verif.MachineryError("no records")
    by_id = {}
    for ln in lines:
        r = json.loads(ln)
        by_id[r["id"]] = r
    shard = 250
    chunks = [lines[i:i + shard] for i in range(0, len(lines), shard)]

    def one(ix):
        ch = chunks[ix]
        r = ctx.tlc("LocalSaveTrace", cfg="LocalSaveTrace.cfg", files={"recs.ndjson": "\n".join(ch) + "\n"},
                    workers=1, name="trace_%d" % ix, timeout=2400)
        done = ctx_printed(r["out"], "C36DONE")
        if not done or int(done[-1]) != len(ch):
            raise verif.MachineryError("LocalSaveTrace did not replay all %d records of shard %d (binding broken?), see %s" % (len(ch), ix, r["dir"]))
        return r
    with cf.ThreadPoolExecutor(max_workers=6) as ex:
        runs = list(ex.map(one, range(len(chunks))))
    bad, bind = [], []
    for r in runs:
        bad += printed(r, "C36BAD")
        bind += printed(r, "C36BIND")
    if bind:
        raise verif.MachineryError("model and real directory disagree for %d records, e.g. %s" % (len(bind), json.dumps(bind[0])[:600]))
    states = sum(r["states"] for r in runs)
    trans = sum(r["transitions"] for r in runs)

    # real kills: the listing itself is the observation
    for w in [b for b in bad if b["what"] == "kill-listing"][:20]:
        rec = by_id.get(w["rec"], {})
        ctx.violate("local-save/kill/%s" % ("temporary-file-listed" if any(not f["final"] for f in w["files"]) else "partial-final"),
                    "process killed (SIGKILL) %s, system call #%d (%s): the real List/Load of a fresh backend reports %s" % (
                        rec.get("inject"), w["k"], w["after"], json.dumps(w["files"])[:400]),
                    {"scenario": rec.get("scen"), "inject": rec.get("inject"), "listed": w["files"]})
    # model crash states: materialise and confirm with the real List/Load (B4)
    model_bad = [b for b in bad if b["what"] != "kill-listing"]
    if model_bad:
        pick, seen = [], set()
        for b in model_bad:
            k = (b["rec"], b["what"])
            if k in seen:
                continue
            seen.add(k)
            b = dict(b)
            b["record"] = by_id[b["rec"]]
            pick.append(b)
        # at most 3 records per (class, syscall) and 40 in total
        per, sel = {}, []
        for b in pick:
            c = (b["what"], b["after"])
            per[c] = per.get(c, 0) + 1
            if per[c] <= 3 and len(sel) < 40:
                sel.append(b)
        wf = os.path.join(ctx.work, "witness.json")
        json.dump(sel, open(wf, "w"))
        nv = len(ctx.violations)
        ctx.go_test("internal/backend/local", "^TestVerif_C36_Confirm$", timeout=1200, env={"VERIF_C36_WITNESS": wf})
        if len(ctx.violations) == nv:
            raise verif.MachineryError("TLC reported %d violating crash states but none could be confirmed with the real List/Load" % len(model_bad))
    res = ctx.go_results[0]
    cnt = res.get("counters", {})
    cov = {"states": states, "transitions": trans, "traces_validated_against_impl": len(lines),
           "samples": (res.get("samples") or [])[:4],
           "evaluations": res.get("evaluations", 0), "distinct_nontrivial": res.get("distinct_nontrivial", 0), "rule": res.get("rule", ""),
           "counters": cnt, "design_runs": des,
           "records_kill": cnt.get("records_kill", 0), "records_save": cnt.get("records_save", 0),
           "violating_crash_states_reported_by_tlc": len(bad),
           "invariants_evaluated_in_every_crash_state": ["Rep_NoPartialFinal", "Rep_NoTempListed", "Rep_Live", "Rep_Kill"],
           "overlapping_saves": {k: two[k] for k in ("schedules", "records", "rejected", "distinct_nontrivial", "counters", "samples")},
           "binding_control": "Rep_Bind: directory left by the real code == model state after the observed calls (every record)"}
    return verif.finish(ctx, "model_checking", cov, [
        "file system model (LocalSave.tla): an un-fsynced write may be lost, kept or torn; an un-fsynced create/rename/unlink may be lost or kept, independently per name; fsync(file) makes content durable, fsync(dir) its entries; the file system does not reorder beyond these rules",
        "the system call sequence is observed with strace -f on the real local.Save (Linux, ext4); calls touching the repository directory are translated 1:1, unknown ones stop the check (exit 2)",
        "content is abstracted to (size, length of the correct prefix); bytes are compared on the real directory after the save / after the kill",
        "file systems without fsync support (ENOTSUP is ignored by design) are outside the premise; injected errors are EIO/ENOSPC/EACCES/... per call",
        "overlapping saves: two Save calls of the same handle with the same content (restic never saves different data under one name) in one process, no crash; every interleaving of {open temp, write chunk 1, write chunk 2, finish | abort} of the two calls (LocalSaveTwo.tla, 526 schedules) is enforced with parking readers and the live directory is read after every step",
        "temporary file = any file in a listed directory other than the final name; 'appears as a repository file' = the real List reports it and its name is a well-formed repository file name"])
