"""C36 The local backend never exposes a partially written file."""
import json, os, re
import concurrent.futures as cf
import verif

TWINS = {  # deliberately broken save procedures and the invariants that must refute them
    "nofsync": {"NoPartialFinal"},
    "renamefirst": {"NoPartialFinal", "NoPartialFinalLive"},
    "direct": {"NoPartialFinal", "NoPartialFinalLive"},
    "ignoresyncerr": {"NoPartialFinal"},
    "nolencheck": {"NoPartialFinal", "NoPartialFinalLive"},
    "tmpvalid": {"NoTempListed", "NoTempListedLive"},
}


def design_one(ctx, v):
    """positive configuration must hold; every negative twin must be refuted (vacuity control)"""
    if v == "ok":
        r = ctx.tlc("LocalSaveProc", cfg="LocalSaveProc_ok.cfg", workers=2, name="design_ok", timeout=900)
        return {"cfg": "ok", "states": r["states"], "transitions": r["transitions"], "result": "holds"}
    exp = TWINS[v]
    r = ctx.tlc("LocalSaveProc", cfg="LocalSaveProc_%s.cfg" % v, workers=2, name="twin_" + v, timeout=900, allow_violation=True)
    if not (set(r["violated"]) & exp):
        raise verif.MachineryError("negative twin %s was not refuted (expected one of %s, got %s)" % (v, sorted(exp), r["violated"]))
    return {"cfg": v, "states": r["states"], "transitions": r["transitions"],
            "result": "refuted: " + ",".join(sorted(set(r["violated"]) & exp))}


def printed(res, tag):
    vals = []
    for raw in ctx_printed(res["out"], tag):
        try:
            vals.append(json.loads(json.loads(raw)))
        except Exception:
            raise verif.MachineryError("cannot parse TLC output %s: %s" % (tag, raw[:200]))
    return vals


def ctx_printed(out, tag):
    return [m.group(1) for m in re.finditer(r'^<<"%s", (.*)>>\s*$' % re.escape(tag), out, re.M)]


def run(ctx):
    with cf.ThreadPoolExecutor(max_workers=7) as ex:
        futs = [ex.submit(design_one, ctx, v) for v in ["ok"] + sorted(TWINS)]
        out = ctx.go_test("internal/backend/local", "^TestVerif_C36$", timeout=3000)
        des = [f.result() for f in futs]
    recs_path = os.path.join(out, "recs.ndjson")
    lines = open(recs_path).read().splitlines()
    if not lines:
        raise verif.MachineryError("no records")
    by_id = {}
    for ln in lines:
        r = json.loads(ln)
        by_id[r["id"]] = r
    shard = 250
    chunks = [lines[i:i + shard] for i in range(0, len(lines), shard)]

    def one(ix):
        ch = chunks[ix]
        r = ctx.tlc("LocalSaveTrace", cfg="LocalSaveTrace.cfg", files={"recs.ndjson": "\n".join(ch) + "\n"},
                    workers=1, name="trace_%d" % ix, timeout=2400)
        done = ctx_printed(r["out"], "C36DONE")
        if not done or int(done[-1]) != len(ch):
            raise verif.MachineryError("LocalSaveTrace did not replay all %d records of shard %d (binding broken?), see %s" % (len(ch), ix, r["dir"]))
        return r
    with cf.ThreadPoolExecutor(max_workers=6) as ex:
        runs = list(ex.map(one, range(len(chunks))))
    bad, bind = [], []
    for r in runs:
        bad += printed(r, "C36BAD")
        bind += printed(r, "C36BIND")
    if bind:
        raise verif.MachineryError("model and real directory disagree for %d records, e.g. %s" % (len(bind), json.dumps(bind[0])[:600]))
    states = sum(r["states"] for r in runs)
    trans = sum(r["transitions"] for r in runs)

    # real kills: the listing itself is the observation
    for w in [b for b in bad if b["what"] == "kill-listing"][:20]:
        rec = by_id.get(w["rec"], {})
        ctx.violate("local-save/kill/%s" % ("temporary-file-listed" if any(not f["final"] for f in w["files"]) else "partial-final"),
                    "process killed (SIGKILL) %s, system call #%d (%s): the real List/Load of a fresh backend reports %s" % (
                        rec.get("inject"), w["k"], w["after"], json.dumps(w["files"])[:400]),
                    {"scenario": rec.get("scen"), "inject": rec.get("inject"), "listed": w["files"]})
    # model crash states: materialise and confirm with the real List/Load (B4)
    model_bad = [b for b in bad if b["what"] != "kill-listing"]
    if model_bad:
        pick, seen = [], set()
        for b in model_bad:
            k = (b["rec"], b["what"])
            if k in seen:
                continue
            seen.add(k)
            b = dict(b)
            b["record"] = by_id[b["rec"]]
            pick.append(b)
        # at most 3 records per (class, syscall) and 40 in total
        per, sel = {}, []
        for b in pick:
            c = (b["what"], b["after"])
            per[c] = per.get(c, 0) + 1
            if per[c] <= 3 and len(sel) < 40:
                sel.append(b)
        wf = os.path.join(ctx.work, "witness.json")
        json.dump(sel, open(wf, "w"))
        nv = len(ctx.violations)
        ctx.go_test("internal/backend/local", "^TestVerif_C36_Confirm$", timeout=1200, env={"VERIF_C36_WITNESS": wf})
        if len(ctx.violations) == nv:
            raise verif.MachineryError("TLC reported %d violating crash states but none could be confirmed with the real List/Load" % len(model_bad))
    res = ctx.go_results[0]
    cnt = res.get("counters", {})
    cov = {"states": states, "transitions": trans, "traces_validated_against_impl": len(lines),
           "samples": (res.get("samples") or [])[:4],
           "evaluations": res.get("evaluations", 0), "distinct_nontrivial": res.get("distinct_nontrivial", 0), "rule": res.get("rule", ""),
           "counters": cnt, "design_runs": des,
           "records_kill": cnt.get("records_kill", 0), "records_save": cnt.get("records_save", 0),
           "violating_crash_states_reported_by_tlc": len(bad),
           "invariants_evaluated_in_every_crash_state": ["Rep_NoPartialFinal", "Rep_NoTempListed", "Rep_Live", "Rep_Kill"],
           "binding_control": "Rep_Bind: directory left by the real code == model state after the observed calls (every record)"}
    return verif.finish(ctx, "model_checking", cov, [
        "file system model (LocalSave.tla): an un-fsynced write may be lost, kept or torn; an un-fsynced create/rename/unlink may be lost or kept, independently per name; fsync(file) makes content durable, fsync(dir) its entries; the file system does not reorder beyond these rules",
        "the system call sequence is observed with strace -f on the real local.Save (Linux, ext4); calls touching the repository directory are translated 1:1, unknown ones stop the check (exit 2)",
        "content is abstracted to (size, length of the correct prefix); bytes are compared on the real directory after the save / after the kill",
        "file systems without fsync support (ENOTSUP is ignored by design) are outside the premise; injected errors are EIO/ENOSPC/EACCES/... per call",
        "temporary file = any file in a listed directory other than the final name; 'appears as a repository file' = the real List reports it and its name is a well-formed repository file name"])
