"""C44 Every saved blob ends up in exactly one uploaded, indexed pack."""
import json, os
from props import repo_common


def run(ctx):
    out = ctx.go_test("internal/repository", "^TestVerif_C44(Header)?$", timeout=3000)
    # header entry limit: SaveBlob (HeaderFull) and the merge at Flush, judged by Fn_PackMerge.tla (its ASSUMEs
    # are the scaled design check of the merge rule with the size-only twin refuted)
    n, bad, lines = ctx.check_records("Fn_PackMerge", os.path.join(out, "recs_header.ndjson"), name="header")
    for i in bad:
        r = json.loads(lines[i - 1])
        over = [c for c in r["counts"] if c > r["limit"]]
        what = "pack-above-header-limit" if over else ("finalize-fails" if not all(r["final"]) else "blob-not-in-exactly-one-pack")
        ctx.violate("upload/header-limit/%s" % what,
                    "%d tiny blobs through the packer manager: queued packs hold %s blobs (limit %d), Finalize ok=%s, save_err=%s flush_err=%s" % (
                        r["n"], r["counts"], r["limit"], r["final"], r["save_err"], r["flush_err"]), r)
    return repo_common.finish_trace(ctx, out, "model_checking", extra_cov={"header_limit_sessions_checked_by_tlc": n})
