"""C44 Every saved blob ends up in exactly one uploaded, indexed pack."""
from props import repo_common


def run(ctx):
    out = ctx.go_test("internal/repository", "^TestVerif_C44$", timeout=3000)
    return repo_common.finish_trace(ctx, out, "model_checking")
