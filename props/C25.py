"""C25 Tag edits leave snapshots with exactly the requested tags."""
import json, os
import verif


def run(ctx):
    out = ctx.go_test("cmd/restic", "^TestVerif_C25$", timeout=1800)
    n, bad, lines = ctx.check_records("Fn_Tags", os.path.join(out, "recs.ndjson"))
    for i in bad[:200]:
        r = json.loads(lines[i - 1])
        dup = len(set(r["old"])) != len(r["old"])
        key = "tags/%s/%s" % (r["op"], "duplicate-tag-in-snapshot" if dup else "plain")
        if not r["others_same"]:
            key += "/other-fields-changed"
        if not r["count_same"]:
            key += "/snapshot-count-changed"
        ctx.violate(key, "tag edit: old=%s set=%s add=%s remove=%s -> new=%s (Fn_Tags!RecOK false)" % (r["old"], r["set"], r["add"], r["rem"], r["new"]), r)
    res = ctx.go_results[-1]
    cov = {"evaluations": n, "distinct_nontrivial": res["distinct_nontrivial"], "rule": res["rule"],
           "samples": verif.samples_from(lines, 3), "records_checked_by_tlc": n, "records_rejected": len(bad),
           "counters": res.get("counters", {}), "exhaustive": ctx.thorough()}
    return verif.finish(ctx, "exploration", cov,
                        ["the statement's set semantics of tags (Fn_Tags.tla) is the oracle; TLC evaluates RecOK on every recorded application",
                         "tag alphabet {a,b,c}, list lengths <= 3 (old) and <= 2 (arguments)"])
