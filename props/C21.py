"""C21 restore --verify reports exactly the files that differ."""
import json, os
import verif


def differs(m):
    return {"flip": m["pos"] < m["size"], "flipnow": m["pos"] < m["size"], "truncate": m["len"] < m["size"], "extend": m["len"] > 0, "remove": True,
            "touch": False, "rewrite": False}[m["kind"]]


def classify(r):
    exp = set()
    for m in r["muts"]:
        if differs(m):
            exp |= set(m.get("group") or [m["file"]])
    kinds = "+".join(sorted({m["kind"] for m in r["muts"]})) or "none"
    kinds = "overwrite-%s/%s" % (r.get("overwrite", "always"), kinds)
    if any(len(m.get("group") or []) > 1 for m in r["muts"]) or r["set"] == "links":
        kinds += "/hard-linked"
    if sorted(r["differs_actual"]) != sorted(exp):
        return None
    rep = set(r["reported"])
    if any(differs(m) and not (rep & set(m.get("group") or [m["file"]])) for m in r["muts"]):
        return "verify/%s/difference-not-reported" % kinds
    if rep - exp:
        return "verify/%s/unchanged-file-reported" % kinds
    if r["failfast_err"] != bool(exp):
        return "verify/%s/%s" % (kinds, "fail-fast-run-succeeds-despite-difference" if exp else "fail-fast-run-fails-without-difference")
    return "verify/%s/other" % kinds


def run(ctx):
    out = ctx.go_test("internal/restorer", "^TestVerif_C21$", timeout=3000)
    n, bad, lines = ctx.check_records("Fn_Verify", os.path.join(out, "recs.ndjson"), shard=ctx.pick(1500, 5000))
    keys = {}
    for i in bad:
        r = json.loads(lines[i - 1])
        k = classify(r)
        if k is None:
            raise verif.MachineryError("harness applied a tampering that does not match its description: %s" % lines[i - 1][:400])
        keys.setdefault(k, []).append(r)
    for k, rs in sorted(keys.items()):
        r = rs[0]
        ctx.violate(k, "VerifyFiles after a restore with --overwrite %s and tampering %s (snapshot '%s'): reported=%s, fail-fast error=%s (%s); %d records of this class"
                    % (r.get("overwrite"), ["%s %s pos=%d len=%d size=%d" % (m["file"], m["kind"], m["pos"], m["len"], m["size"]) for m in r["muts"]], r["set"],
                       r["reported"], r["failfast_err"], r["failfast_msg"], len(rs)), r)
    res = ctx.go_results[-1]
    cov = {"evaluations": n, "distinct_nontrivial": res["distinct_nontrivial"], "rule": res["rule"],
           "samples": verif.samples_from(lines, 3), "records_checked_by_tlc": n, "records_rejected": len(bad),
           "counters": res.get("counters", {}), "exhaustive": ctx.thorough()}
    return verif.finish(ctx, "fault_enumeration", cov,
                        ["Fn_Verify.tla: a tampering makes a file differ iff flip / truncate below size / extend by > 0 / remove; the set of files VerifyFiles reports (collecting Error callback) must equal that set and the default fail-fast run must fail iff the set is non-empty; TLC evaluates RecOK on every record; the harness' own byte comparison must agree with the spec's Differs",
                         "files <= 3.2 KB: every byte position (single-bit change) and every truncation length in the thorough tier, 64 seeded positions + blob boundaries in the quick tier; large files (zero chunk, 30 blobs): blob boundaries +-1, first/last/middle, seeded positions",
                         "tampering keeps the mtime (except 'touch'/'rewrite' controls), so nothing but the content distinguishes the file",
                         "a third snapshot holds hard-link groups (2 and 3 links, single- and multi-blob, across directories), a file whose other link is not in the snapshot and files that get one more hard link outside the target after the restore; tampering goes in place through any one link; of a group one reported path suffices",
                         "fresh restore into an empty directory (every file is 'restored', none skipped) under each of --overwrite always / if-changed / if-newer / never (modes rotate over the tamperings; content-only changes additionally always run under if-changed); the demand does not depend on the mode",
                         "'flip' resets the mtime to the snapshot's mtime (what restore had set), 'flipnow' leaves the new mtime"])
