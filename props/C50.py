"""C50 Repository passwords embedded in locations are never displayed."""
import json, os
import verif


def s(b):
    return bytes(b).decode("utf-8", "replace")


def run(ctx):
    out = ctx.go_test("cmd/restic", "^TestVerif_C50$", timeout=2400)
    n, bad, lines = ctx.check_records("Fn_StripPw", os.path.join(out, "recs.ndjson"), shard=ctx.pick(4000, 8000), timeout=1500)
    seen = {}
    for i in bad:
        r = json.loads(lines[i - 1])
        loc, shown, c = s(r["loc"]), s(r["shown"]), r["c"]
        pw = s(c["pw"])
        asm = s(c["pre"]) + ((s(c["user"]) + ((":" + pw) if c["haspw"] else "") + "@") if c["hasuser"] else "") + s(c["rest"])
        if asm != loc or (c["haspw"] and (not r["forms"] or r["forms"][0] != c["pw"])):
            raise verif.MachineryError("C50 driver wrote an inconsistent record for %r" % loc)
        if r["err"]:
            key = "strip-password/%s/%s" % (r["site"], "panic" if "panic" in r["err"] else "error")
        else:
            leaked = [s(f) for f in r["forms"] if f and s(f) in shown]
            special = [ch for ch in "@:%" if ch in pw]
            cls = "plain-password" if not special else "password-with-" + "".join(special).replace("@", "at").replace(":", "colon").replace("%", "escape")
            key = "strip-password/%s/password-displayed/%s" % (r["site"], cls)
        seen[key] = seen.get(key, 0) + 1
        if seen[key] > 1:
            continue
        ctx.violate(key, "location %r shown at %s as %r (password %r; err=%r)" % (loc, r["site"], shown[:400], pw, r["err"]),
                    {"location": loc, "site": r["site"]})
    res = ctx.go_results[-1]
    smp = []
    for l in (lines[10], lines[len(lines) // 2], lines[-1]):
        r = json.loads(l)
        smp.append({"site": r["site"], "location": s(r["loc"]), "accepted": r["accepted"], "shown": s(r["shown"])[:300]})
    cov = {"evaluations": n, "distinct_nontrivial": res["distinct_nontrivial"], "rule": res["rule"], "samples": smp,
           "records_checked_by_tlc": n, "records_rejected": len(bad), "rejected_by_class": seen, "counters": res.get("counters", {}),
           "exhaustive": True}
    return verif.finish(ctx, "exploration", cov,
                        ["Fn_StripPw.tla is the oracle: a REST location is pre user[:password]@ rest (the documented syntax); the record must be assembled from exactly these components, and for an accepted location no spelling of the password (as typed, percent-decoded, Go-canonical / query / path / full-hex percent-encoded) may occur in what is displayed",
                         "accepted = the real location.Parse succeeds (premise of the statement); passwords whose raw form breaks the URL (space, bad escape, non-ASCII) are in the table but carry no demand",
                         "every password contains marker letters (Z, q) that occur in no other component and in no restic message, so an occurrence is a leak and not a coincidence; passwords equal to the user name or to '***' are therefore not in the table",
                         "displayed forms: rest.StripPassword, location.StripPassword (real registry), and the complete stdout+stderr+error text of global.OpenRepository (open error, no repository, stat error, missing config), of `restic init` failing (create error, key error) and succeeding (text and JSON); the REST transport is replaced by a scripted in-memory backend behind the real rest.ParseConfig/StripPassword",
                         "only the REST backend documents a password in the location; URL userinfo given to other schemes (sftp://u:pw@host, s3:https://u:pw@host) is accepted and displayed verbatim by restic - counted in counters.other_scheme_url_userinfo_displayed_verbatim, not judged"])
