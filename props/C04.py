"""C04 Repository contents leak no plaintext and never reuse a nonce."""
from props import repo_common


def run(ctx):
    out = ctx.go_test("cmd/restic", "^TestVerif_C04$", timeout=3000)
    return repo_common.finish_trace(ctx, out, "exploration")
