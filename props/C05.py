"""C05 Authenticated encryption round-trips and rejects every forgery."""
import json, os
import verif


def key_of(r):
    op = r["op"]
    if r.get("panic"):
        return "aead/%s/panic" % op
    if op == "seal":
        if r["rejected"]:
            return "aead/seal/valid-input-rejected"
        return "aead/seal/accepted/%s%s" % (r["key_class"], "/zero-nonce" if r["nonce_zero"] else "")
    if op == "message":
        if not r["roundtrip"]:
            return "aead/message/roundtrip-failed"
        for f, name in (("flips_accepted", "bit-flip"), ("trunc_accepted", "truncation"), ("ext_accepted", "extension"), ("other_accepted", "other")):
            if r[f]:
                return "aead/message/forgery-accepted/%s" % name
        return "aead/message/coverage-arithmetic"
    if op == "key":
        return "aead/key/%s/%s" % (r["rel"], "opened" if r["ok"] else "rejected")
    if op == "kdf":
        return "aead/kdf/invalid-key-returned"
    return "aead/unknown-record"


def run(ctx):
    out = ctx.go_test("internal/repository/crypto", "^TestVerif_C05$", timeout=2400)
    n, bad, lines = ctx.check_records("Fn_Aead", os.path.join(out, "recs.ndjson"), shard=2000)
    seen = set()
    for i in bad[:500]:
        r = json.loads(lines[i - 1])
        key = key_of(r)
        if key in seen:
            continue
        seen.add(key)
        ctx.violate(key, "Fn_Aead!RecOK false: %s" % json.dumps(r)[:500], r)
    res = ctx.go_results[-1]
    cov = {"evaluations": n, "distinct_nontrivial": res["distinct_nontrivial"], "rule": res["rule"],
           "samples": verif.samples_from(lines, 3), "records_checked_by_tlc": n, "records_rejected": len(bad),
           "counters": res.get("counters", {}), "exhaustive": ctx.thorough()}
    return verif.finish(ctx, "exploration", cov, [
        "Fn_Aead.tla is the ideal AEAD functionality and the oracle only: TLA+ cannot reason about AES-CTR or Poly1305; it states which Seal calls must be refused, that an untouched message opens under the same key, that no forgery opens, and the arithmetic of how many single-bit flips (8*(16+L+16)) and truncation lengths (L+16) exist, which the recorded counts must equal",
        "byte fidelity is abstracted by the Go driver: forgeries are described by kind and position, the record lists the positions the real Open accepted (must be empty); keys by their relation to the sealing key",
        "left open (not judged): a key that differs only in the AES key (Encrypt-then-MAC: the tag over the ciphertext still verifies, Open returns other bytes), a key whose Poly1305 r differs only in bits the algorithm clears, and r for an empty message (r does not enter the tag)",
        "'different key' otherwise means an independent random key, a key whose MAC part differs, or a key derived by the real KDF from a different password / salt / parameters; invalid key = an all-zero component (crypto.Key.Valid)",
        "quick: every bit flip for plaintext lengths 0..80 and the single-bit / all-ones / counter-wrap nonces, samples for 1 KiB..64 KiB; thorough: every bit flip for 0..300, 1 KiB, 4 KiB and 64 KiB",
    ])
