"""C08 The loaded index matches exactly the index files in the repository."""
import json, os
import verif


def _present(steps, i):
    p = set()
    for st in steps[:i + 1]:
        if st["op"] == "add":
            p.add(st["f"])
        elif st["op"] == "remove":
            p.discard(st["f"])
    return p


def classify(r):
    """Words the first difference of a record TLC rejected (python mirror, for key/detail only)."""
    if r["kind"] == "codec":
        if r["error"]:
            return "index-codec/%s/error" % r["via"], r["error"]
        a, b = sorted(map(tuple, r["in"])), sorted(map(tuple, r["out"]))
        lost = [e for e in a if e not in b]
        extra = [e for e in b if e not in a]
        what = "entry-lost-or-altered" if lost else ("entry-invented" if extra else "entry-multiplicity")
        return "index-codec/%s/%s" % (r["via"], what), "stored %s, decoded %s; lost/altered %s, extra %s" % (a[:6], b[:6], lost[:3], extra[:3])
    if r["error"]:
        return "index-load/error", r["error"]
    hist = " ".join("%s %s" % (s["op"], s["f"]) if s["f"] else s["op"] for s in r["steps"])
    for i, st in enumerate(r["steps"]):
        for o in st["obs"]:
            pres = _present(r["steps"], i)
            E = set(tuple(e) for f in pres for e in r["files"][f])
            for side in ("inc", "fresh"):
                name = "incremental-reload" if side == "inc" else "fresh-load"
                for x, b in enumerate(r["blobs"]):
                    ents, found, size = o[side][x]
                    Eb = set(e for e in E if e[0] == b)
                    got = set(map(tuple, ents))
                    if got - Eb:
                        stale = any(tuple(e) in set(tuple(e2) for f in r["files"] for e2 in r["files"][f]) for e in got - Eb)
                        return "index-load/%s/lookup-%s" % (name, "stale-entry" if stale else "foreign-entry"), "layout %s, history [%s], step %d: present files %s, LookupBlob(%s) = %s, recorded %s" % (r["layout"], hist, i + 1, sorted(pres), b, sorted(got), sorted(Eb))
                    if Eb - got:
                        return "index-load/%s/lookup-misses-entry" % name, "layout %s, history [%s], step %d: present files %s, LookupBlob(%s) = %s, recorded %s" % (r["layout"], hist, i + 1, sorted(pres), b, sorted(got), sorted(Eb))
                    if found != bool(Eb) or (Eb and size not in set(e[5] for e in Eb)):
                        return "index-load/%s/lookup-size" % name, "layout %s, history [%s], step %d: LookupBlobSize(%s) = (%s, %s), recorded %s" % (r["layout"], hist, i + 1, b, size, found, sorted(Eb))
                lst = set(map(tuple, o[side + "_list"]))
                if lst != E:
                    return "index-load/%s/listblobs" % name, "layout %s, history [%s], step %d: present files %s, ListBlobs differs: extra %s, missing %s" % (r["layout"], hist, i + 1, sorted(pres), sorted(lst - E)[:4], sorted(E - lst)[:4])
            bags_differ = sorted(map(tuple, o["inc_list"])) != sorted(map(tuple, o["fresh_list"])) or any(
                sorted(map(tuple, o["inc"][x][0])) != sorted(map(tuple, o["fresh"][x][0])) for x in range(len(r["blobs"])))
            if bags_differ:
                return "index-load/incremental-differs-from-fresh", "layout %s, history [%s], step %d: same sets but different multiplicities: incremental %s, fresh %s" % (r["layout"], hist, i + 1, sorted(map(tuple, o["inc_list"])), sorted(map(tuple, o["fresh_list"])))
    return "index-load/unclassified", "TLC rejected the record, python mirror found no difference"


def run(ctx):
    # 1. design runs: the documented incremental load meets the property, the never-clearing twin is refuted
    d_ok = ctx.tlc("IndexLoadMC", cfg="IndexLoadMC.cfg", name="design", workers=4)
    d_twin = ctx.tlc("IndexLoadMC", cfg="IndexLoadMC_noclear.cfg", name="twin_noclear", workers=1, allow_violation=True)
    if "LoadedMatchesFiles" not in d_twin["violated"]:
        raise verif.MachineryError("negative twin IndexLoadMC_noclear was not refuted: %s" % d_twin["violated"])
    # 2. TLC enumerates the histories
    gmax = ctx.pick(6, 7)
    gen = ctx.tlc("IndexLoadGen", cfg="IndexLoadGen.cfg", name="gen", workers=1, deadlock=False, timeout=1500,
                  defines={"GenFiles": '{"f1", "f2", "f3", "f4"}', "GenMax": str(gmax)})
    hist = os.path.join(gen["dir"], "hist.ndjson")
    nh = sum(1 for _ in open(hist))
    # 3. replay into the real code, 4. TLC judges the records
    out = ctx.go_test("internal/repository", "^TestVerif_C08$", timeout=2400, env={"VERIF_VECTORS": hist, "GOMAXPROCS": "2"})
    res = ctx.go_results[-1]
    n, bad, lines = ctx.check_records("Fn_IndexLoad", os.path.join(out, "recs.ndjson"), shard=ctx.pick(260, 2500), timeout=1500)
    seen = {}
    for i in bad:
        r = json.loads(lines[i - 1])
        key, detail = classify(r)
        if key not in seen or len(lines[i - 1]) < seen[key][0]:
            seen[key] = (len(lines[i - 1]), detail, r)
    for key, (_, detail, r) in sorted(seen.items()):
        small = dict(r)
        if "steps" in small:
            small["steps"] = [{"op": s["op"], "f": s["f"]} for s in r["steps"]]
        ctx.violate(key, detail, small)

    def brief(s):
        if s["kind"] == "codec":
            return {"kind": "codec", "via": s["via"], "in": s["in"][:4], "out": s["out"][:4]}
        last = [o for st in s["steps"] for o in st["obs"]]
        return {"kind": "hist", "layout": s["layout"], "history": ["%s %s" % (t["op"], t["f"]) for t in s["steps"]],
                "last_listblobs_incremental": last[-1]["inc_list"][:6] if last else None}
    cov = {"states": d_ok["states"], "transitions": d_ok["transitions"],
           "traces_validated_against_impl": n, "samples": [brief(s) for s in verif.samples_from(lines, 3)],
           "histories_generated_by_tlc": nh, "history_max_len": gmax,
           "negative_twin": {"cfg": "IndexLoadMC_noclear.cfg", "refuted_invariant": "LoadedMatchesFiles", "states": d_twin["states"]},
           "records_checked_by_tlc": n, "records_rejected": len(bad), "violation_classes": sorted(seen),
           "distinct_nontrivial": res["distinct_nontrivial"], "rule": res["rule"], "counters": res.get("counters", {}),
           "exhaustive": ctx.thorough()}
    return verif.finish(ctx, "model_checking", cov,
                        ["lookups are judged as sets of recorded locations (exact duplicate entries may be merged); incremental vs fresh load additionally as bags",
                         "4 index files, 4 blobs (one tree blob sharing its ID with a data blob), 3 packs; histories up to %d steps, all of them in the thorough tier, a seed-dependent slice in the quick tier" % gmax,
                         "numbers travel as decimal strings (values up to 2^32-1 exceed TLC integers); plaintext size = uncompressed length, or length - 32 (crypto overhead) when uncompressed",
                         "index files are written and removed by a second Repository object on the same mem backend; no concurrent load while files change"])
