"""C12 An exclusive lock never coexists with another active lock.

Design: Lock.tla model-checked exhaustively (Exclusion and the C13 invariants) + negative twin without the second
check (must be refuted).  Conformance: TLC-generated schedules (simulation of Lock.tla: process starts, every
backend operation of every process as one step, waits/ticks, crashes, unlocks, List/Load faults, `unlock` stale
removal, remote lock files) are replayed into real lockers inside a synctest bubble; every recorded observation is
judged by TLC with LockObs!Exclusion (LockRec12!RecOK)."""
import concurrent.futures as cf
import json, os
import verif
from props import lock_common as lc


def families(ctx):
    g = lc.gen_cfg
    return [
        # name, N, cfg(n, maxtime, budget, faults, toggles, removal, remotes, histmax, maxatt, crashes, startby)
        ("race3", 3, g(3, 3, 1, "NoFaults", 0, "FALSE", "RemotesNone", 60, 2, "FALSE", 1)),
        ("mix3", 3, g(3, 16, 1, "ReadFaults", 2, "FALSE", "RemotesSome", 80, 3, "TRUE", 16)),
        ("pair", 2, g(2, 16, 1, "ReadFaults", 1, "FALSE", "RemotesSome", 90, 2, "TRUE", 14)),
        ("rem2", 2, g(2, 6, 1, "NoFaults", 0, "FALSE", "RemotesSome", 50, 2, "TRUE", 6)),
        ("stale2", 2, g(2, 16, 1, "NoFaults", 0, "FALSE", "RemotesSome", 90, 2, "TRUE", 2)),
    ]


def run(ctx):
    per_family = ctx.pick(75, 1200)
    with cf.ThreadPoolExecutor(max_workers=2) as ex:
        fd = ex.submit(lc.design_runs, ctx, ctx.pick(["q_acq", "q_hold"], ["acq3", "acq2", "hold2"]),
                       {"acq2_norecheck": ["InvExclusion"]})
        fg = ex.submit(lc.generate, ctx, families(ctx), per_family)
        scheds = fg.result()
        design = fd.result()
    vec = lc.write_scheds(ctx, scheds)
    out = ctx.go_test("internal/repository", "^TestVerif_C12$", tags=lc.TAGS, env={"VERIF_VECTORS": vec}, timeout=3000)
    n, bad, lines = ctx.check_records("LockRec12", os.path.join(out, "recs.ndjson"), shard=ctx.pick(200, 400))
    for i in bad[:200]:
        r = json.loads(lines[i - 1])
        k, key = None, "unclassified"
        for j, o in enumerate(r["obs"]):
            h = lc.holders(o)
            ex_ = [x for x in h if o["p"][x][2] == 1]
            rem = [m for m in o["r"] if o["now"] - m[0] < 1350000]
            if ex_ and len(h) > 1:
                other = [x for x in h if x != ex_[0]][0]
                kinds = "excl+" + ("excl" if o["p"][other][2] == 1 else "shared")
                probe = "/newcomer" if max(h) >= r["n"] else ""
                k, key = j, kinds + probe
                break
            if h and rem and (ex_ or any(m[1] == 1 for m in rem)):
                k, key = j, "with-remote-holder" + ("/newcomer" if max(h) >= r["n"] else "")
                break
        ctx.violate("lock/exclusion/" + key,
                    "two processes believe to hold conflicting locks (LockObs!Exclusion false): schedule %s, observation %s" % (r["sched"], r["obs"][k] if k is not None else "?"),
                    lc.slim(r, k))
    res = ctx.go_results[-1]
    pos = [d for d in design if not d["twin"]]
    cov = {"states": sum(d["states"] for d in pos), "transitions": sum(d["transitions"] for d in pos),
           "traces_validated_against_impl": n, "records_rejected": len(bad),
           "design_runs": design, "schedules_generated_by_tlc": len(scheds),
           "evaluations": n, "distinct_nontrivial": res["distinct_nontrivial"], "rule": res["rule"],
           "counters": res.get("counters", {}), "samples": res.get("samples", [])[:3]}
    return verif.finish(ctx, "model_checking", cov, [
        "all lockers of one schedule share the virtual clock of the synctest bubble (no skew in replays; skew <= 1 unit of 2.5 min is explored in the design model only)",
        "premise of the statement enforced by the harness: the gates stall one process for at most 5 minutes in total; removal of live lock files (unlock --remove-all) is not part of C12 schedules",
        "remote holders (other host) are scripted lock files: such a holder is taken to use the repository until its file is 22.5 min old",
        "in-memory backend with atomic, immediately visible operations; one connection (lock files are loaded one at a time)",
    ], exhaustive=False)
