"""C12 An exclusive lock never coexists with another active lock.

Design: Lock.tla model-checked exhaustively (Exclusion and the C13 invariants), also under LISTING DELAY (a new lock
file shows up in listings only after time has passed) and with a third party whose clock is ahead by the full
documented margin (7.5 min) running `unlock` (ExclusionMargin: a robbed holder may coexist with a newcomer only
while it is stalled on its way to the existence check of its forced refresh).  Negative twins that TLC must refute:
no second check; sleep before create (refuted only under listing delay); forced refresh that ignores the vanished
lock file.
Conformance: TLC-generated schedules (simulation of Lock.tla: process starts, every backend operation of every
process as one step, waits/ticks, crashes, unlocks, List/Load faults, Save/Remove faults, `unlock` stale removal by a
third party with / without clock skew, remote lock files, with / without listing delay) and TARGETED schedules (TLC
in BFS mode prints the shortest behaviour reaching rarely visited protocol branches: lock file removed between the
two existence checks of the forced refresh while a newcomer acquires, both lockers in the second check, ...) are
replayed into real lockers inside a synctest bubble; every recorded observation is judged by TLC with
LockObs!ExclusionWithinMargin (LockRec12!RecOK)."""
import concurrent.futures as cf
import json, os
import verif
from props import lock_common as lc

SKEW_BUDGET = 100   # s: total stall per process in schedules with a skewed third party (see assumptions)
GOAL_ATTRS = {"Lock_q_skew2_goals.cfg": {"n": 2, "budget": SKEW_BUDGET}, "Lock_q_lag_goals.cfg": {"n": 2, "lag": True}}


def families(ctx):
    g = lc.gen_cfg
    fams = [
        # name, N, cfg(n, maxtime, budget, faults, toggles, removal, remotes, histmax, maxatt, crashes, startby)
        ("race3", 3, g(3, 3, 1, "NoFaults", 0, "FALSE", "RemotesNone", 60, 2, "FALSE", 1)),
        ("mix3", 3, g(3, 16, 1, "ReadFaults", 2, "FALSE", "RemotesSome", 80, 3, "TRUE", 16)),
        ("pair", 2, g(2, 16, 1, "ReadFaults", 1, "FALSE", "RemotesSome", 90, 2, "TRUE", 14)),
        ("rem2", 2, g(2, 6, 1, "NoFaults", 0, "FALSE", "RemotesSome", 50, 2, "TRUE", 6)),
        ("stale2", 2, g(2, 16, 1, "NoFaults", 0, "FALSE", "RemotesSome", 90, 2, "TRUE", 2)),
        # listing delay: racing lockers
        ("lag2", 2, g(2, 3, 1, "NoFaults", 0, "FALSE", "RemotesSome", 50, 2, "FALSE", 1, listlag="TRUE"), {"lag": True}),
        ("lag3", 3, g(3, 3, 1, "NoFaults", 0, "FALSE", "RemotesNone", 70, 2, "TRUE", 1, listlag="TRUE"), {"lag": True}),
        # a third party whose clock is ahead by 7.5 min runs `unlock`; long Save/Remove faults make the regular
        # refreshes fail so that the expiry monitor forces a refresh; a newcomer arrives late
        ("skew2", 2, g(2, 14, 1, "WriteFaults", 2, "FALSE", "RemotesNone", 130, 2, "FALSE", 14, healodds=40,
                       maxskew=3, fixskew="TRUE", edge="TRUE", startfrom=9), {"budget": SKEW_BUDGET}),
    ]
    if not ctx.thorough():
        fams = [f for f in fams if f[0] != "lag2"]      # quick: lag3 + the targeted schedules
    return fams


def classify(r):
    """index of the first observation that violates LockObs!ExclusionWithinMargin and a stable class key (the verdict
    is TLC's; this only names it)"""
    for j, o in enumerate(r["obs"]):
        h = lc.holders(o)
        exc = lambda i: o["p"][i][3] == 1 and o["now"] - o["p"][i][8] <= 60000 + o["p"][i][4]
        for a in h:
            for b in h:
                if a != b and o["p"][a][2] == 1 and not exc(a) and not exc(b):
                    kinds = "excl+" + ("excl" if o["p"][b][2] == 1 else "shared")
                    rob = "/robbed-holder-keeps-believing" if (o["p"][a][3] == 1 or o["p"][b][3] == 1) else ""
                    probe = "/newcomer" if max(a, b) >= r["n"] else ""
                    return j, kinds + rob + probe
        rem = [m for m in o["r"] if o["now"] - m[0] < 1350000]
        ex_ = [x for x in h if o["p"][x][2] == 1]
        if h and rem and (ex_ or any(m[1] == 1 for m in rem)):
            return j, "with-remote-holder" + ("/newcomer" if max(h) >= r["n"] else "")
    return None, "unclassified"


def run(ctx):
    per_family = ctx.pick(60, 1000)
    early = ["q_skew2_goals", "q_lag_goals"]          # their goal witnesses become schedules
    late = ctx.pick(["q_hold"], ["q_acq", "acq3", "acq2", "hold2", "lag2", "lag3", "skew2", "skew2e"])
    twins = {"acq2_norecheck": ["InvExclusion"], "lag2_sleepfirst": ["InvExclusion"], "skew2_f2ignore": ["InvExclusionMargin"]}
    if ctx.thorough():
        # the premise matters: clock ahead by the full margin AND a stall of 2.5 min defeat the protocol
        twins["skew2e_budget1"] = ["InvExclusionMargin"]
    with cf.ThreadPoolExecutor(max_workers=3) as ex:
        fe = ex.submit(lc.design_runs, ctx, early, {}, 2)
        fg = ex.submit(lc.generate, ctx, families(ctx), per_family)
        fl = ex.submit(lc.design_runs, ctx, late, twins, ctx.pick(2, 4))
        design = fe.result()
        goals = lc.goal_scheds(design, GOAL_ATTRS)
        if not any("robbed-before-fsave-newcomer-holds" in s["id"] for s in goals) or not any("both-in-second-check" in s["id"] for s in goals):
            raise verif.MachineryError("TLC did not reach the goal states (targeted schedules missing): %s" % [s["id"] for s in goals])
        scheds = goals + fg.result()
        vec = lc.write_scheds(ctx, scheds)
        out = ctx.go_test("internal/repository", "^TestVerif_C12$", tags=lc.TAGS, env={"VERIF_VECTORS": vec}, timeout=3000)
        n, bad, lines = ctx.check_records("LockRec12", os.path.join(out, "recs.ndjson"), shard=ctx.pick(700, 700))
        design += fl.result()
    for i in bad[:200]:
        r = json.loads(lines[i - 1])
        k, key = classify(r)
        ctx.violate("lock/exclusion/" + key,
                    "two processes believe to hold conflicting locks (LockObs!ExclusionWithinMargin false): schedule %s, observation %s" % (r["sched"], r["obs"][k] if k is not None else "?"),
                    lc.slim(r, k))
    res = ctx.go_results[-1]
    pos = [d for d in design if not d["twin"]]
    cov = {"states": sum(d["states"] for d in pos), "transitions": sum(d["transitions"] for d in pos),
           "traces_validated_against_impl": n, "records_rejected": len(bad),
           "design_runs": design, "schedules_generated_by_tlc": len(scheds), "targeted_schedules": [s["id"] for s in goals],
           "evaluations": n, "distinct_nontrivial": res["distinct_nontrivial"], "rule": res["rule"],
           "counters": res.get("counters", {}), "samples": res.get("samples", [])[:3]}
    return verif.finish(ctx, "model_checking", cov, [
        "all lockers of one schedule share the virtual clock of the synctest bubble; the third party running `unlock` is the only skewed clock in replays (ahead by 0 or by the full margin of 7.5 min: the harness lists and loads the lock files with the real forAllLocks and applies the age test of lockHandle.stale() on the skewed clock); other skews are explored in the design model only",
        "the premise of the statement is read JOINTLY: clock difference + total stall of a lock holder stay within the staleness margin of 7.5 min; enforced by the harness: the gates stall one process for at most 5 minutes in total in schedules without clock skew, and for at most %d s in schedules with the third party whose clock is ahead by 7.5 min; removal of live lock files by `unlock --remove-all` is not part of C12 schedules" % SKEW_BUDGET,
        "boundary observation (documented, not judged): with the clock ahead by 7.5 min AND >= 2.5 min of total stall the regular refresh path (lockHandle.refresh creates the replacement without checking that the old lock file still exists) lets two exclusive lockers coexist for good on the unchanged tree: schedule and replay helper in /verif/findings/C12-boundary-skew-plus-stall/, model twin Lock_skew2e_budget1.cfg (refuted in the thorough tier)",
        "a holder whose lock file was removed by the skewed third party may coexist with a newcomer for at most 1 min (monitor poll, 200 ms waits, retry delays) + the time the harness stalled it (LockObs!ExclusionMargin); without such a removal no coexistence is accepted",
        "remote holders (other host) are scripted lock files: such a holder is taken to use the repository until its file is 22.5 min old",
        "in-memory backend with atomic operations; listing delay (families lag2/lag3 and targeted schedules): a new lock file is listed only 100 ms of virtual time after it was saved, removals are visible at once; one connection (lock files are loaded one at a time)",
    ], exhaustive=False)
