from props import repo_common


def run(ctx):
    design = repo_common.design_runs(ctx, "prune")
    out = ctx.go_test("cmd/restic", "^TestVerif_C09$", timeout=3000)
    return repo_common.finish_trace(ctx, out, "model_checking", extra_cov={"design_model_runs": design})
