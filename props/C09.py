"""C09 Prune never loses data still referenced by a remaining snapshot."""
import verif
from props import repo_common


def run(ctx):
    out = ctx.go_test("cmd/restic", "^TestVerif_C09$", timeout=3000)
    return repo_common.finish_trace(ctx, out, "model_checking")
