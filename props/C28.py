"""C28 Path patterns match per the documented glob semantics."""
import json, os, re, threading
import verif


def features(r):
    pats = r["pats"]
    parts = [a for p in pats for a in p["parts"]]
    k = []
    if r.get("fold"):
        k.append("insensitive")
    if any(p["neg"] for p in pats):
        k.append("negation")
    elif len(pats) > 1:
        k.append("list")
    if "**" in parts:
        k.append("doublestar")
    if any(p["abs"] for p in pats):
        k.append("absolute")
    return "+".join(k) or "plain"


def diagnose(ctx, bad_recs):
    """Ask the model (Fn_GlobDiag) what it expects for the rejected records."""
    res = ctx.tlc("Fn_GlobDiag", files={"bad.ndjson": "\n".join(json.dumps(r) for r in bad_recs) + "\n"}, workers=1,
                  deadlock=False, timeout=900, name="diag")
    exp = [json.loads(l) for l in open(os.path.join(res["dir"], "exp.ndjson")).read().splitlines() if l.strip()]
    if len(exp) != len(bad_recs):
        raise verif.MachineryError("Fn_GlobDiag wrote %d of %d expectations" % (len(exp), len(bad_recs)))
    return exp


def design(ctx, box):
    """Design run: the transcription of match/childMatch/list refines the declarative model on a bounded
    universe, children-may-match is sound, and the three negative twins are refuted."""
    try:
        res = ctx.tlc("Fn_GlobDesign", workers=1, deadlock=False, timeout=1500, name="design",
                      defines={"MaxParts": ctx.pick("3", "4"), "MaxDepth": ctx.pick("3", "4"), "ListParts": ctx.pick("1", "2"), "ListDepth": ctx.pick("2", "3"), "ListTriples": ctx.pick("FALSE", "TRUE")})
        got = dict(re.findall(r'<<"(\w+)", (TRUE|FALSE)>>', res["out"]))
        want = {"RefinesMatch": "TRUE", "ChildSound": "TRUE", "RefinesList": "TRUE", "ArrOK": "TRUE",
                "TwinMatch": "FALSE", "TwinChild": "FALSE", "TwinList": "FALSE"}
        if got != want:
            raise verif.MachineryError("Fn_GlobDesign: lemmas/twins evaluate to %s, expected %s" % (got, want))
        box["sizes"] = re.findall(r'<<"Sizes", (\d+), (\d+)>>', res["out"])[-1]
    except Exception as e:       # re-raised in the main thread
        box["error"] = e


def run(ctx):
    box = {}
    th = threading.Thread(target=design, args=(ctx, box))
    th.start()
    try:
        return run_conformance(ctx, box, th)
    finally:
        th.join()


def run_conformance(ctx, box, th):
    out = ctx.go_test("internal/filter", "^TestVerif_C28$", timeout=1700)
    n, bad, lines = ctx.check_records("Fn_GlobRec", os.path.join(out, "recs.ndjson"), shard=ctx.pick(420, 1100), timeout=1500)
    bad = bad[:150]
    bad_recs = [json.loads(lines[i - 1]) for i in bad]
    exps = diagnose(ctx, bad_recs) if bad_recs else []
    for r, e in zip(bad_recs, exps):
        real_l, exp_l = set(r["l"]), set(e["l"])
        dev = {}
        for name, real in (("List", set(r["l"])), ("ListWithChild", set(r["lw"]))) + ((("Match", set(r["m"])),) if r["single"] else ()):
            if real != exp_l and not e["bad"]:
                dev[name] = {"missing": sorted(exp_l - real)[:12], "extra": sorted(real - exp_l)[:12]}
        child = {}
        for name, real in (("ListWithChild.child", set(r["lc"])),) + ((("ChildMatch", set(r["c"])),) if r["single"] else ()):
            miss = (set(e["need"]) | set(r["deep"])) - real
            if miss and not e["bad"]:
                child[name] = sorted(miss)[:12]
        multi = any(p["parts"].count("**") >= 2 for p in r["pats"])
        if r["panic"]:
            key = "glob/panic"
        elif r["valerr"] != e["bad"]:
            key = "glob/validate-patterns"
        elif r["err"] and not e["bad"]:
            key = "glob/error-on-valid-pattern"
        elif multi and dev and not child and not any(p["neg"] for p in r["pats"]) and all(not d["extra"] for d in dev.values()):
            key = "glob/multi-doublestar-missed-match"
        else:
            kinds = []
            if any(d["missing"] for d in dev.values()):
                kinds.append("missed-match")
            if any(d["extra"] for d in dev.values()):
                kinds.append("extra-match")
            if child:
                kinds.append("child-unsound")
            key = "glob/%s/%s" % ("+".join(kinds) or "other", features(r))
        small = {k: r[k] for k in ("raw", "pats", "alpha", "depth", "fold", "via", "single", "err", "panic", "panicv", "valerr")}
        small.update({"deviation": dev, "children_may_match_false_above_a_match": child})
        ctx.violate(key, "pattern list %s (via %s%s) on all paths of <=%d components over %s: real results are not the ones Fn_GlobRec!RecOK "
                         "allows: %s%s%s" % (r["raw"], r["via"], ", case-insensitive" if r["fold"] else "", r["depth"], r["alpha"],
                                             json.dumps(dev)[:400], (" child-unsound " + json.dumps(child)[:300]) if child else "",
                                             " err=%s panic=%s %s valerr=%s" % (r["err"], r["panic"], r.get("panicv", ""), r["valerr"])), small)
    ctx.violations.sort(key=lambda v: v["key"] == "glob/multi-doublestar-missed-match")   # report other classes first
    th.join()
    if "error" in box:
        raise box["error"]
    res = ctx.go_results[-1]
    samples = []
    for l in (lines[0], lines[len(lines) // 2], lines[-1]):
        r = json.loads(l)
        samples.append({"raw": r["raw"], "alpha": r["alpha"], "depth": r["depth"], "via": r["via"], "fold": r["fold"],
                        "matched_paths": len(r["l"]), "first_matched": r["l"][:5], "child_may_match": len(r["lc"])})
    cov = {"evaluations": n, "distinct_nontrivial": res["distinct_nontrivial"], "rule": res["rule"], "samples": samples,
           "records_checked_by_tlc": n, "records_rejected": len(bad), "counters": res.get("counters", {}),
           "exhaustive": ctx.thorough(),
           "design_run": {"pattern_path_pairs_checked": int(box["sizes"][0]), "list_path_pairs_checked": int(box["sizes"][1]),
                          "lemmas": ["RefinesMatch", "ChildSound", "RefinesList", "ArrOK"],
                          "negative_twins_refuted": ["TwinMatch", "TwinChild", "TwinList"]}}
    return verif.finish(ctx, "exploration", cov,
                        ["oracle = Fn_Glob.tla (judge of records: Fn_GlobRec.tla), written from doc/040_backup.rst and the filepath.Match documentation; TLC evaluates RecOK on every record",
                         "the Go driver composes the pattern text from [neg, abs, components] (with the equivalent spellings trailing '/', '//', './', '/.') and the spec judges the structured form",
                         "glob syntax of components and characters of path components come from the finite tables AtomTab/CompTab of the spec",
                         "for malformed patterns only 'ValidatePatterns rejects' and 'no panic' are demanded; for children-may-match only the soundness direction",
                         "paths outside the universe ('', '/', '//', 'a/', 'a//b', ...) are only checked for panics"])
