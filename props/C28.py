"""C28 Path patterns match per the documented glob semantics."""
import json, os
import verif


def classify(r):
    pats = r["pats"]
    parts = [a for p in pats for a in p["parts"]]
    k = []
    if r.get("panic"):
        k.append("panic")
    if r.get("fold"):
        k.append("insensitive")
    if len(pats) > 1 or any(p["neg"] for p in pats):
        k.append("list-negation" if any(p["neg"] for p in pats) else "list")
    if "**" in parts:
        k.append("doublestar")
    if any(p["abs"] for p in pats):
        k.append("absolute")
    return "+".join(k) or "plain"


def run(ctx):
    out = ctx.go_test("internal/filter", "^TestVerif_C28$", timeout=1700)
    n, bad, lines = ctx.check_records("Fn_Glob", os.path.join(out, "recs.ndjson"), shard=ctx.pick(150, 250), timeout=1500)
    for i in bad[:200]:
        r = json.loads(lines[i - 1])
        small = {k: r[k] for k in ("raw", "pats", "alpha", "depth", "fold", "via", "single", "err", "panic", "panicv", "valerr")}
        for k in ("m", "c", "l", "lw", "lc", "deep"):
            small[k] = r[k][:40]
        ctx.violate("glob/" + classify(r),
                    "pattern list %s (via %s%s): real Match/ChildMatch/List/ListWithChild/ValidatePatterns results on the universe "
                    "(<=%d components over %s) are not the ones Fn_Glob!RecOK allows (err=%s panic=%s %s valerr=%s)"
                    % (r["raw"], r["via"], ", case-insensitive" if r["fold"] else "", r["depth"], r["alpha"], r["err"], r["panic"],
                       r.get("panicv", ""), r["valerr"]), small)
    res = ctx.go_results[-1]
    samples = []
    for l in (lines[0], lines[len(lines) // 2], lines[-1]):
        r = json.loads(l)
        samples.append({"raw": r["raw"], "alpha": r["alpha"], "depth": r["depth"], "via": r["via"], "fold": r["fold"],
                        "matched_paths": len(r["l"]), "first_matched": r["l"][:5], "child_may_match": len(r["lc"])})
    cov = {"evaluations": n, "distinct_nontrivial": res["distinct_nontrivial"], "rule": res["rule"], "samples": samples,
           "records_checked_by_tlc": n, "records_rejected": len(bad), "counters": res.get("counters", {}),
           "exhaustive": ctx.thorough()}
    return verif.finish(ctx, "exploration", cov,
                        ["oracle = Fn_Glob.tla, written from doc/040_backup.rst and the filepath.Match documentation; TLC evaluates RecOK on every record",
                         "the Go driver splits nothing: it composes the pattern text from [neg, abs, components] (with equivalent spellings: trailing '/', '//', './', '/.') and the spec judges the structured form",
                         "glob syntax of components and characters of path components come from the finite tables AtomTok/CompChars of the spec",
                         "for malformed patterns only 'ValidatePatterns rejects' and 'no panic' are demanded; for children-may-match only the soundness direction",
                         "paths outside the universe ('', '/', '//', 'a/', 'a//b', ...) are only checked for panics"])
