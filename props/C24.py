"""C24 Snapshot filters, grouping and 'latest' select the right snapshots."""
import json, os
import verif


def _key(r):
    if r["kind"] == "group":
        by = "+".join(k for k in ("host", "path", "tag") if r["by"][k]) or "none"
        return "snapfilter/group-by/%s" % by
    f = r["f"]
    parts = [k for k in ("hosts", "tags", "paths") if f[k]]
    if f["lim"]:
        parts.append("limit")
    return "snapfilter/filter/%s" % ("+".join(parts) or "none")


def run(ctx):
    out = ctx.go_test("internal/data", "^TestVerif_C24$", timeout=1800)
    n, bad, lines = ctx.check_records("Fn_SnapFilter", os.path.join(out, "recs.ndjson"), shard=ctx.pick(4000, 15000), timeout=2400)
    bykey = {}
    seen, order = set(), []
    for i in bad:
        k = _key(json.loads(lines[i - 1]))
        bykey[k] = bykey.get(k, 0) + 1
        if k not in seen:
            seen.add(k)
            order.append(i)
    first = set(order)
    order += [i for i in bad if i not in first][:100]
    for i in order[:300]:
        r = json.loads(lines[i - 1])
        sn = [(s["id"], s["host"], s["paths"], s["tags"], s["t"]) for s in r["sn"]]
        if r["kind"] == "group":
            d = "GroupSnapshots by %s on %s -> %s (Fn_SnapFilter!GroupOK false)" % (r["by"], sn, r["groups"])
        else:
            d = "filter %s on %s -> selected %s, latest %s/%s, FindAll([latest]) %s/%s (Fn_SnapFilter!FilterOK false)" % (
                r["f"], sn, r["sel"], r["lat"], r["laterr"], r["lat2"], r["lat2err"])
        ctx.violate(_key(r), d, r)
    res = ctx.go_results[-1]
    cov = {"evaluations": n, "distinct_nontrivial": res["distinct_nontrivial"], "rule": res["rule"],
           "samples": verif.samples_from(lines, 3), "records_checked_by_tlc": n, "records_rejected": len(bad),
           "rejected_by_class": bykey, "counters": res.get("counters", {}), "exhaustive": False}
    return verif.finish(ctx, "exploration", cov, [
        "oracle = declarative definition in Fn_SnapFilter.tla (statement + manual); TLC evaluates RecOK on every record of the real FindAll / FindLatest / GroupSnapshots",
        "the tag filter '' means 'untagged' (manual); tag lists mixing '' with other tags are excluded (the manual does not define them)",
        "filter paths are absolute; FindAll without ids gets clean paths; the 'latest' queries also get unclean spellings (trailing /, /., //, /zz/..) which findLatest cleans — the record carries the clean paths (f.paths) next to the spellings (f.spell), the driver's cleaning is the trusted part",
        "repeating a host, a tag, a tag list or a path in a filter changes nothing (the options are sets)",
        "ties among the newest matching snapshots: any of them is accepted as 'latest'",
        "snapshots carry no duplicate tags or paths; snapshot store = in-memory Lister/LoaderUnpacked (listing order shuffled by seed)",
    ])
