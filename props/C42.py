"""C42 Traversals visit exactly the reachable trees and blobs.

StreamTrees.tla (design model of data.StreamTrees/FindUsedBlobs: backlog, visited set, loader workers, outstanding
jobs) is model-checked over ALL small DAGs (chosen in Init) x root lists x one unreadable tree x all worker
interleavings (Once, Exact, ErrorIff, deadlock freedom, termination), three negative twins must be refuted; TLC
emits DAG + load-completion orders of the scheduler view; the Go driver replays them into the real code with LoadBlob
as gate (testing/synctest) and adds free-running runs on larger random DAGs; TLC judges every recorded run with
StreamTreesProps!RecOK (reachability computed by TLC from the DAG)."""
import concurrent.futures as cf
import json, os, re, random
import verif

TWINS = {"twin_mark_after_load": "Once", "twin_exit_early": "Exact", "twin_no_decrement": "deadlock"}


def cfg_w(cfg):
    txt = open(os.path.join(verif.SPEC, cfg)).read()
    return int(re.search(r"\bW = (\d+)", txt).group(1))


def parse_tla(s):
    return json.loads(s.replace("<<", "[").replace(">>", "]").replace("{", "[").replace("}", "]"))


def scheds_of(res):
    out = set(re.findall(r'^"SCHED (.*)"\s*$', res["out"], re.M))
    return sorted(out)


def run(ctx):
    th = ctx.thorough()
    if not th:
        os.environ["JAVA_TOOL_OPTIONS"] = (os.environ.get("JAVA_TOOL_OPTIONS", "") + " -XX:TieredStopAtLevel=1 -XX:ParallelGCThreads=2").strip()
    jobs = {}
    ex = cf.ThreadPoolExecutor(max_workers=4 if th else 8)
    for c in (["schedQ", "schedA"] if th else ["schedQ"]):
        jobs["sched:" + c] = ex.submit(ctx.tlc, "StreamTrees", cfg="StreamTrees_%s.cfg" % c, workers=4 if th else 2,
                                       name="gen_" + c, timeout=3000, heap="4g" if th else "2g")
    jobs["sim:schedS"] = ex.submit(ctx.tlc, "StreamTrees", cfg="StreamTrees_schedS.cfg", workers=4 if th else 2, name="gen_schedS",
                                   heap="2g", simulate="num=%d" % (3000 if th else 200), depth=200, deadlock=False,
                                   extra=["-seed", str(ctx.seed)], timeout=3000)
    for c in (["live", "design_quick", "design3w"] if th else ["live"]):
        jobs["design:" + c] = ex.submit(ctx.tlc, "StreamTrees", cfg="StreamTrees_%s.cfg" % c, workers=6 if th else 3,
                                        name="design_" + c, timeout=3000, heap="6g" if th else "2g")
    for c in TWINS:
        jobs["twin:" + c] = ex.submit(ctx.tlc, "StreamTrees", cfg="StreamTrees_%s.cfg" % c, workers=1, name=c,
                                      timeout=900, allow_violation=True, heap="1g")
    vec = os.path.join(ctx.work, "vectors.ndjson")
    nsched = {}
    with open(vec, "w") as fh:
        for k, f in jobs.items():
            kind, c = k.split(":")
            if kind not in ("sched", "sim"):
                continue
            r = f.result()
            w = cfg_w("StreamTrees_%s.cfg" % c)
            ss = scheds_of(r)
            if not ss:
                raise verif.MachineryError("TLC produced no schedules for %s, see %s" % (c, r["dir"]))
            nsched[c] = len(ss)
            cap = 25000 if th else 1500
            if len(ss) > cap:
                ss = random.Random(ctx.seed).sample(ss, cap)
                nsched[c + "_replayed"] = cap
            for s in ss:
                kids, roots, bad, sched = parse_tla(s)
                fh.write(json.dumps({"src": c, "w": w, "kids": kids, "roots": roots, "bad": bad, "sched": sched}) + "\n")
    out = os.path.join(ctx.work, "go")
    fatal = None
    try:
        ctx.go_test("internal/data", "^TestVerif_C42$", timeout=2400, out=out, env={"VERIF_VECTORS": vec})
    except verif.MachineryError:
        fj = os.path.join(out, "fatal.json")
        if not os.path.exists(fj):
            raise
        fatal = json.load(open(fj))
        rj = os.path.join(out, "result.json")
        if os.path.exists(rj):
            ctx.go_results.append(json.load(open(rj)))
        ctx.violate("c42/never-terminates", "the traversal stayed blocked although every load had finished and the context was cancelled", fatal.get("case"))
    wpath = os.path.join(out, "recs_wide.ndjson")
    fw = None
    if os.path.exists(wpath) and os.path.getsize(wpath) > 0:
        # wide traversals (10^3..10^4 trees per record): few records per TLC run, evaluated beside the main file
        fw = ex.submit(ctx.check_records, "StreamTreesProps", wpath, name="wide", shard=3 if not th else 13, timeout=1800)
    n, bad, lines = ctx.check_records("StreamTreesProps", os.path.join(out, "recs.ndjson"), shard=3000 if not th else 8000)
    nwide = 0
    if fw is not None:
        nwide, badw, linesw = fw.result()
        bad = bad + [n + i for i in badw]
        lines = lines + linesw
        n += nwide
    elif not fatal and not ctx.violations:
        raise verif.MachineryError("the driver wrote no wide records")
    if bad:
        sub = [lines[i - 1] for i in bad[:300]]
        parts = {}
        for op in ("RecTerminates", "RecOnce", "RecError", "RecExact"):
            wrapper = ("---- MODULE C42Why ----\nEXTENDS StreamTreesProps, Json, TLC\nRecs == ndJsonDeserialize(\"recs.ndjson\")\n"
                       "ASSUME PrintT(\"WHY \" \\o ToString({k \\in 1..Len(Recs) : ~%s(Recs[k])}))\nVARIABLE x\nInit == x = 0\nNext == x' = x\n"
                       "Spec == Init /\\ [][Next]_x\n====\n" % op)
            r = ctx.tlc("C42Why", cfg="C42Why.cfg", files={"C42Why.tla": wrapper, "C42Why.cfg": "SPECIFICATION Spec\n",
                                                            "recs.ndjson": "\n".join(sub) + "\n"},
                        workers=1, deadlock=False, name="why_" + op)
            for v in re.findall(r'^"WHY (.*)"\s*$', r["out"], re.M):
                for k in re.findall(r"\d+", v):
                    parts.setdefault(int(k), []).append(op)
        names = {"RecTerminates": "never-terminates", "RecOnce": "tree-processed-twice-or-unreachable", "RecError": "wrong-error-result",
                 "RecExact": "result-not-exactly-reachable"}
        for j, ln in enumerate(sub[:200]):
            r = json.loads(ln)
            why = [names[o] for o in parts.get(j + 1, [])] or ["rejected"]
            small = {k: r[k] for k in r if k not in ("kids", "data") or len(r["kids"]) <= 12}
            ctx.violate("c42/%s/%s" % (r["mode"], "+".join(why)),
                        "real traversal rejected by StreamTreesProps!RecOK (%s): mode=%s src=%s kids=%s roots=%s bad=%s(%s) loaded=%s err=%s" % (
                            ",".join(why), r["mode"], r["src"], r["kids"] if len(r["kids"]) <= 12 else "(%d trees)" % len(r["kids"]),
                            r["roots"], r["bad"], r["badkind"], r["loaded"][:40], r["err"]), small if len(r["kids"]) <= 12 else r)
    design = []
    for k, f in jobs.items():
        kind, c = k.split(":")
        if kind == "design":
            r = f.result()
            design.append({"cfg": c, "states": r["states"], "transitions": r["transitions"], "result": "holds"})
        elif kind == "twin":
            r = f.result()
            if TWINS[c] not in r["violated"]:
                raise verif.MachineryError("negative twin %s was not refuted (expected %s, got %s)" % (c, TWINS[c], r["violated"]))
            design.append({"cfg": c, "states": r["states"], "transitions": r["transitions"], "result": "refuted: " + TWINS[c]})
    ex.shutdown()
    gres = ctx.go_results[-1] if ctx.go_results else {}
    cov = {"states": sum(d["states"] for d in design if d["result"] == "holds"),
           "transitions": sum(d["transitions"] for d in design if d["result"] == "holds"),
           "traces_validated_against_impl": n, "design_model_runs": design, "vectors_generated_by_tlc": nsched,
           "records_checked_by_tlc": n, "wide_records_checked_by_tlc": nwide, "records_rejected": len(bad),
           "evaluations": gres.get("evaluations", 0), "distinct_nontrivial": gres.get("distinct_nontrivial", 0),
           "rule": gres.get("rule", ""), "counters": gres.get("counters", {}),
           "samples": (gres.get("samples") or [])[:2] + [s for s in verif.samples_from(lines, 3) if not isinstance(s, dict) or len(s.get("kids", [])) <= 12][:2]}
    return verif.finish(ctx, "model_checking", cov, [
        "the repository is a fake restic.Loader serving generated tree blobs (real tree JSON built with TreeJSONBuilder); ids are not content hashes, so the generator only builds DAGs (edges from lower to higher tree numbers)",
        "gated replay controls the order in which LoadBlob calls complete; the choices inside filterTrees' select and the worker that receives a job are made by the Go runtime (where they differ from the model behaviour the controller releases the next possible load of TLC's order)",
        "FindUsedBlobs aborts on an unreadable tree (error expected iff one is reachable); StreamTrees is also run with a callback that tolerates unreadable trees, as the checker does (an unreadable tree then has no children)",
        "model bounds: all DAGs on <= 4 trees with <= 2 subtree entries per tree (duplicates allowed), <= 2 roots, 2-3 workers; random DAGs up to 200 trees",
        "scale: wide inputs with width w around powers of two up to 10000 (quick: 2^k+1 for k=10..13 plus one seed-dependent neighbour, one mode each; thorough: 2^k-1, 2^k, 2^k+1, 10000, both modes) in four shapes: one directory with w subdirectories, w entries over w/2 distinct subtrees, w root trees with own + common subtrees, a depth-first path whose pending siblings add up to w; free-running workers; trees are tiny and synthetic"])
