"""C15 check reports no errors on any repository restic itself produced."""
from props import repo_common, ops_common


def run(ctx):
    p, hs, r = ops_common.gen_histories(ctx, "all", ctx.pick(12, 300))
    scripted = ops_common.gen_scripted(ctx) + ops_common.gen_scripted(ctx, "forgetfault", always=("forget-prune:2?2", "forget-prune:2?3"))
    import json
    hs = scripted + hs
    json.dump(hs, open(p, "w"))
    out = ctx.go_test("cmd/restic", "^TestVerif_C15$", timeout=3300, env={"VERIF_HISTORIES": p})
    return repo_common.finish_trace(ctx, out, "model_checking",
                                    extra_cov={"histories_generated_by_tlc": len(hs), "scripted_histories_enumerated_by_tlc": len(scripted), "generator": "RepoOps.tla -simulate, family all, depth 9; scripted families copydst and forgetfault enumerated by BFS"})
