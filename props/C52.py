"""C52 check --read-data-subset n/t buckets partition all packs."""
import json, os, threading
import verif


def classify(r):
    if r["kind"] == "buckets":
        if r["err"]:
            return "read-data-subset/n-of-t/" + ("panic" if "panic" in r["err"] else "error")
        t, acc = r["t"], r["accepted"]
        if t <= 256 and not all(acc):
            return "read-data-subset/n-of-t/valid-value-refused"
        if any(acc) and not all(acc):
            return "read-data-subset/n-of-t/some-groups-refused"
        allp = {tuple(p) for p in r["packs"]}
        seen, dup = set(), False
        for s in r["sel"]:
            for p in s:
                p = tuple(p)
                dup = dup or p in seen
                seen.add(p)
        if seen - allp:
            return "read-data-subset/n-of-t/selects-unknown-pack"
        if dup:
            return "read-data-subset/n-of-t/groups-overlap"
        if allp - seen:
            return "read-data-subset/n-of-t/packs-not-covered"
        return "read-data-subset/n-of-t/other"
    kind = "percentage" if r["flag"].endswith("%") else "size"
    base = "read-data-subset/%s/" % kind
    if not r["accepted"]:
        return base + "documented-value-refused"
    if r["err"]:
        return base + ("panic" if "panic" in r["err"] else "error")
    if not {tuple(p) for p in r["sel"]} <= {tuple(p) for p in r["packs"]}:
        return base + "selects-unknown-pack"
    if r["packs"] and not r["sel"]:
        return base + "no-pack-selected"
    return base + "other"


def run(ctx):
    # design checks of the spec itself (in the background while the Go driver runs)
    mc = {}

    def design(which):
        try:
            if which == "pos":
                mc["pos"] = ctx.tlc("Fn_BucketsMC", cfg="Fn_BucketsMC.cfg", workers=1, deadlock=False, timeout=900, name="mc")
            else:
                mc["neg"] = ctx.tlc("Fn_BucketsMC", cfg="Fn_BucketsMC_twin.cfg", workers=1, deadlock=False, timeout=900, name="mc_twin", allow_violation=True)
        except Exception as e:  # noqa
            mc["exc"] = e
    ths = [threading.Thread(target=design, args=(w,)) for w in ("pos", "neg")]
    for th in ths:
        th.start()
    try:
        out = ctx.go_test("cmd/restic", "^TestVerif_C52$", timeout=1800)
    finally:
        for th in ths:
            th.join()
    if "exc" in mc:
        raise mc["exc"]
    if "assumption" not in mc["neg"]["violated"]:
        raise verif.MachineryError("negative twin of Fn_BucketsMC (group = byte mod t = n) was not refuted by TLC")
    n, bad, lines = ctx.check_records("Fn_Buckets", os.path.join(out, "recs.ndjson"), shard=ctx.pick(1600, 1500))
    seen = {}
    for i in bad:
        r = json.loads(lines[i - 1])
        key = classify(r)
        seen[key] = seen.get(key, 0) + 1
        if seen[key] > 1:
            continue
        if r["kind"] == "buckets":
            detail = "--read-data-subset=n/%d on pack set %s (%d packs): accepted=%s, group sizes %s, err=%r" % (
                r["t"], r["set"], len(r["packs"]), sorted(set(r["accepted"])), [len(s) for s in r["sel"]][:40], r["err"])
            case = {"t": r["t"], "set": r["set"], "packs": r["packs"][:50]}
        else:
            detail = "--read-data-subset=%s on %d packs (%s): accepted=%s selected %d packs, err=%r" % (
                r["flag"], len(r["packs"]), r["set"], r["accepted"], len(r["sel"]), r["err"])
            case = {"flag": r["flag"], "set": r["set"], "packs": len(r["packs"])}
        ctx.violate(key, detail, case)
    res = ctx.go_results[-1]
    smp = []
    for l in (lines[4], lines[len(lines) // 3], lines[-1]):
        r = json.loads(l)
        if r["kind"] == "buckets":
            smp.append({"kind": "buckets", "set": r["set"], "t": r["t"], "packs": len(r["packs"]), "group_sizes": [len(s) for s in r["sel"]]})
        else:
            smp.append({"kind": "subset", "flag": r["flag"], "accepted": r["accepted"], "packs": len(r["packs"]), "selected": len(r["sel"])})
    cov = {"evaluations": n, "distinct_nontrivial": res["distinct_nontrivial"], "rule": res["rule"], "samples": smp,
           "records_checked_by_tlc": n, "records_rejected": len(bad), "rejected_by_class": seen, "counters": res.get("counters", {}),
           "negative_twin_refuted": True, "exhaustive": True}
    return verif.finish(ctx, "exploration", cov,
                        ["Fn_Buckets.tla is the oracle: for n/t the selections for n = 1..t must be pairwise disjoint and cover all packs (the grouping itself is left open), every documented n/t (1 <= n <= t <= 256) must be accepted; an accepted percentage/size flag must select a non-empty subset of a non-empty pack set; documented example values must be accepted",
                         "pack IDs are abstracted to tokens by the driver; selections are produced by the real checkFlags + buildPacksFilter pipeline",
                         "PartitionFast (cover + cardinalities add up) is what TLC evaluates on records; its equivalence with the declarative Partition is checked by TLC in Fn_BucketsMC, together with the reference grouping for all t in 1..256 and a refuted off-by-one twin",
                         "random selections are sampled (quick 2, thorough 25 repetitions per flag and pack set)"])
