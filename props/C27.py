"""C27 rewrite --exclude/--include removes exactly the matching paths."""
import json, os
import verif


def pstr(p):
    return ("/" if p["abs"] else "") + "/".join(p["comps"])


def pat(p):
    return ("!" if p["neg"] else "") + ("/" if p["abs"] else "") + "/".join(p["parts"])


def run(ctx):
    out = ctx.go_test("cmd/restic", "^TestVerif_C27$", tags=["c27", "c20", "common"], timeout=1700)
    n, bad, lines = ctx.check_records("Fn_Select", os.path.join(out, "recs.ndjson"), shard=ctx.pick(250, 1600), timeout=1500)
    for i in bad[:100]:
        r = json.loads(lines[i - 1])
        sel = r["sel"]
        kind = sel["mode"] + ("+insensitive" if sel["ipats"] else "") + \
            ("+negation" if any(p["neg"] for p in sel["pats"] + sel["ipats"]) else "") + \
            ("+identical-subtrees" if r.get("built") else "") + ("+several-snapshots-per-invocation" if r.get("invocation") else "") + ("/error" if r["err"] else "") + \
            ("/unchanged" if not r["changed"] else "")
        ctx.violate("rewrite-select/" + kind,
                    "rewrite%s --%s %s i%s of snapshot {%s} -> changed=%s {%s} summary files=%s bytes=%s origkept=%s%s: not what Fn_Select!RewriteOK allows"
                    % ((" (one invocation over %s)" % r["invocation"]) if r.get("invocation") else "", sel["mode"], [pat(p) for p in sel["pats"]], [pat(p) for p in sel["ipats"]],
                       ", ".join(pstr(e["p"]) + ":" + e["t"] for e in r["snap"]), r["changed"],
                       ", ".join(pstr(e["p"]) + ":" + e["t"] + ("" if e["same"] else ":ALTERED") for e in r["new"]),
                       r["sumfiles"], r["sumbytes"], r["origkept"], (" error: " + r.get("errmsg", "")) if r["err"] else ""), r)
    res = ctx.go_results[-1]
    cov = {"evaluations": n, "distinct_nontrivial": res["distinct_nontrivial"], "rule": res["rule"],
           "samples": verif.samples_from(lines, 3), "records_checked_by_tlc": n, "records_rejected": len(bad),
           "counters": res.get("counters", {}), "exhaustive": False}
    return verif.finish(ctx, "exploration", cov,
                        ["oracle = Fn_Select.tla (RewriteOK) on top of the pattern semantics Fn_Glob.tla (checked against the real matcher by C28); TLC evaluates it on every recorded rewrite",
                         "exclude mode follows the documented rule that nothing below an excluded directory can be re-included",
                         "'unchanged' means: no new snapshot is written and the original keeps its tree; demanded when no entry matches or when nothing would be removed",
                         "kept entries: node JSON (metadata, content ids, link target; subtree id blanked for directories) must be identical",
                         "snapshots carry a summary as backup writes it; --forget/--dry-run are not exercised here (C26)",
                         "invocations over 2-3 snapshots (no ids, or an id list): every selected snapshot is judged on its own by the same RewriteOK (tree, 'unchanged', summary statistics of ITS filtered tree)",
                         "trees of depth <= 3 over names {a,b,ab,A,Ab}; patterns from fixed pools plus exact entry paths"])
