"""C43 Streaming blobs from a pack delivers each requested blob exactly once."""
import json, os
import verif


def classify(r):
    """Words the first difference of a record TLC rejected (python mirror of Fn_StreamPack, for key/detail only)."""
    v = r["variant"]
    kind = r["fault"].split("/")[0]
    ctxt = "%s %s fault=%s fallback=%s cberr_at=%d: requested %s, downloads %s, callbacks %s, returned %s %s" % (
        v, r["layout"], r["fault"], r["fallback"], r["cberr_at"], r["req"], r["loads"], r["cbs"], r["ret"], r.get("retmsg", ""))
    if v == "repo":
        ctxt += "; stored copies [token, s=streamed pack/o=other pack, offset, length, damaged, pack unreadable] %s" % r["copies"]
    if r["panic"]:
        return "streampack/%s/panic" % v, r["panic"] + " :: " + ctxt
    req = {q[0]: q for q in r["req"]}
    toks = [c[0] for c in r["cbs"]]
    aborted = r["cberr_at"] > 0 and len(r["cbs"]) >= r["cberr_at"]
    failed = [l for l in r["loads"] if l[2] == "fail"]

    def infailed(q):
        return any(q[1] >= l[0] and q[1] + q[2] <= l[0] + l[1] for l in failed)
    def must_deliver(tok):
        cs = [c for c in r["copies"] if c[0] == tok]
        return (any(c[1] == "o" and not c[4] and not c[5] for c in cs)
                or (r["sfault"] != "packfail" and any(c[1] == "s" and not c[4] for c in cs))
                or (r["sfault"] == "packfail" and not any(c[1] == "s" and infailed([c[0], c[2], c[3]]) for c in cs)))
    what = None
    if any(t not in req for t in toks):
        what = "callback-for-unrequested-blob"
    elif len(set(toks)) != len(toks):
        what = "blob-delivered-twice"
    elif any(c[1] == "wrong" for c in r["cbs"]):
        what = "wrong-bytes-without-error"
    else:
        for t, st in r["cbs"]:
            q = req[t]
            if v == "repo":
                if st == "err" and must_deliver(t):
                    cs = [c for c in r["copies"] if c[0] == t]
                    what = "no-fallback-to-other-copy" if (q[4] or infailed(q) or len(cs) > 1) else "intact-blob-reported-as-error"
                    break
                continue
            exp = ("ok" if (r["fallback"] and q[3]) else "err") if (q[4] or infailed(q)) else "ok"
            if st != exp:
                what = "intact-blob-reported-as-error" if exp == "ok" and not (q[4] or infailed(q)) else ("no-fallback-to-other-copy" if exp == "ok" else "damaged-blob-delivered")
                break
    if not what:
        if aborted and (len(r["cbs"]) != r["cberr_at"] or r["ret"] != "err"):
            what = "continues-after-callback-error" if len(r["cbs"]) != r["cberr_at"] else "callback-error-lost"
        elif r["ret"] == "nil" and set(toks) != set(req):
            what = "blob-not-delivered"
        elif not aborted and not failed and r["ret"] != "nil":
            what = "spurious-error"
        elif failed and not r["fallback"] and r["ret"] != "err":
            what = "download-error-lost"
        elif r["fallback"] and not aborted and set(toks) != set(req):
            what = "blob-not-delivered"
        else:
            what = "unclassified"
    return "streampack/%s/%s/%s" % (v, what, kind), ctxt


def run(ctx):
    out = ctx.go_test("internal/repository", "^TestVerif_C43$", timeout=2700, env={"GOMAXPROCS": "4"})
    res = ctx.go_results[-1]
    n, bad, lines = ctx.check_records("Fn_StreamPack", os.path.join(out, "recs.ndjson"), shard=ctx.pick(400, 3000))
    seen = {}
    for i in bad:
        r = json.loads(lines[i - 1])
        key, detail = classify(r)
        if key not in seen or len(lines[i - 1]) < seen[key][0]:
            seen[key] = (len(lines[i - 1]), detail, r)
    for key, (_, detail, r) in sorted(seen.items()):
        ctx.violate(key, detail, r)
    cov = {"evaluations": n, "distinct_nontrivial": res["distinct_nontrivial"], "rule": res["rule"],
           "samples": verif.samples_from(lines, 3), "records_checked_by_tlc": n, "records_rejected": len(bad),
           "violation_classes": sorted(seen), "counters": res.get("counters", {}), "exhaustive": False}
    return verif.finish(ctx, "exploration", cov,
                        ["Fn_StreamPack.tla is the oracle: at most once, only requested blobs, correct plaintext or error, fallback to another copy, abort on callback error, exactly once on success or whenever a fallback loader exists; TLC evaluates RecOK on every recorded call",
                         "how the request is split into downloads is taken from the record (not specified); requests contain each blob once and no overlapping blobs",
                         "direct scenarios inject the download function and the fallback loader of the real streamPack; repo scenarios use the real LoadBlob on a store with persistent faults (byte flip in chosen stored copies, streamed pack unreadable from the k-th download on, other packs unreadable)",
                         "repo scenarios: repositories written in 1..3 upload sessions (same or reopened Repository, compression off/auto/fastest/max, 1 or 2 packers, every blob saved 0..2 times per session with storeDuplicate), so a blob may be stored several times in one pack and with different stored lengths in several packs; which stored copy is streamed is not specified: an error callback is rejected only when a usable copy exists whichever copy was streamed (undamaged copy in a readable other pack; undamaged copy in the streamed pack when that pack stays readable; no download covering a copy of the blob failed)",
                         "flip and unreadable are never combined on the streamed pack; the blobs of one repository are pairwise different; the order of the copies in the index (Lookup order) is whatever the real index yields (varied by reopening), so repo scenarios are not bit-reproducible per seed",
                         "seeded sampling of subsets/faults per layout, fixed layouts for the 1 MiB gap and 32 MiB range boundaries"])
