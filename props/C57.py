"""C57 ID prefixes resolve to the unique matching file or an error."""
import json, os
import verif


def _key(r):
    n = sum(1 for i in r["ids"] if i.startswith(r["prefix"]))
    if "intr" in r:
        return "find-prefix/%s/%s" % (r["via"], r["err"])
    return "find-prefix/%s/%s-matches/%s" % (r["via"], "no" if n == 0 else ("one" if n == 1 else "several"), r["err"])


def run(ctx):
    out1 = ctx.go_test("internal/restic", "^TestVerif_C57$", timeout=1200)
    res1 = ctx.go_results[-1]
    out2 = ctx.go_test("internal/data", "^TestVerif_C57$", timeout=1200)
    res2 = ctx.go_results[-1]
    allp = os.path.join(ctx.work, "recs_all.ndjson")
    with open(allp, "w") as fh:
        for o in (out1, out2):
            fh.write(open(os.path.join(o, "recs.ndjson")).read())
    n, bad, lines = ctx.check_records("Fn_FindPrefix", allp, shard=ctx.pick(5000, 20000), timeout=1800)
    bykey = {}
    seen, order = set(), []
    for i in bad:
        k = _key(json.loads(lines[i - 1]))
        bykey[k] = bykey.get(k, 0) + 1
        if k not in seen:
            seen.add(k)
            order.append(i)
    first = set(order)
    order += [i for i in bad if i not in first][:60]
    for i in order[:200]:
        r = json.loads(lines[i - 1])
        ctx.violate(_key(r), "%s%s: files %s, prefix %r -> result %r, outcome %s (Fn_FindPrefix!RecOK false)" % (
            r["via"], (" after %d entries" % r["intr"]) if "intr" in r else "",
            [x[:18] + ".." + x[-2:] for x in r["ids"]], r["prefix"], r["res"], r["err"]), r)
    counters = dict(res1.get("counters", {}))
    for k, v in res2.get("counters", {}).items():
        counters["FindSnapshot_" + k] = v
    cov = {"evaluations": n, "distinct_nontrivial": res1["distinct_nontrivial"] + res2["distinct_nontrivial"],
           "rule": res1["rule"] + " || " + res2["rule"], "samples": verif.samples_from(lines, 3),
           "records_checked_by_tlc": n, "records_rejected": len(bad), "rejected_by_class": bykey, "counters": counters,
           "exhaustive": ctx.thorough()}
    return verif.finish(ctx, "exploration", cov, [
        "oracle = Fn_FindPrefix.tla (unique textual prefix match, otherwise an error); TLC evaluates RecOK on every recorded call of the real restic.Find / data.FindSnapshot",
        "a listing that is interrupted after k delivered entries (backend error, or the caller's context cancelled and the lister returning ctx.Err()) must make restic.Find return an error, never an ID: the set of files is unknown then",
        "the memorized listing (restic.MemorizeList, used by SnapshotFilter.FindAll with explicit ids) must answer exactly like the live listing",
        "any error value counts as 'an error' (its kind is not demanded); a panic is not an error return",
        "prefixes with upper-case hex digits are not generated (the statement leaves open whether case matters: Find compares text, a full upper-case ID parses to the same ID)",
        "IDs are SHA-256 values; the all-zero ID (restic's internal 'null ID' sentinel) is not used as a file name",
        "key IDs are resolved by the same restic.Find (file type key); repository.SearchKey's hint path is not driven",
    ])
