"""C41 Trees are encoded deterministically and without loss."""
import json, os
import verif


def key_of(r):
    op = r["op"]
    if r.get("panic"):
        return "tree/%s/%s/panic" % (op, r.get("fam", r.get("level", "-")))
    if op == "tree":
        if r["fin_err"] or r["dec_err"]:
            return "tree/tree/%s/encode-or-decode-failed" % r["fam"]
        fields = sorted({f for d in r["diffs"] for f in d})
        if fields:
            return "tree/tree/%s/field-changed/%s" % (r["fam"], "+".join(fields))
        if len(set(r["outs"])) != 1:
            return "tree/tree/%s/encoding-not-deterministic" % r["fam"]
        return "tree/tree/%s/ordering-or-admission" % r["fam"]
    if op == "node":
        if r["enc_err"] or r["dec_err"]:
            return "tree/node/%s/encode-or-decode-failed" % r["fam"]
        if r["diffs"]:
            return "tree/node/%s/field-changed/%s" % (r["fam"], "+".join(sorted(r["diffs"])))
        return "tree/node/%s/encoding-not-deterministic" % r["fam"]
    if op == "unknown":
        if r["dec_err"]:
            return "tree/unknown-key/%s/rejected" % r["level"]
        return "tree/unknown-key/%s/entries-changed" % r["level"]
    if op == "sched":
        if r["err"]:
            return "tree/sched/save-failed"
        if len(set(r["outs"])) != 1:
            return "tree/sched/bytes-depend-on-schedule"
        return "tree/sched/wrong-entries"
    return "tree/unknown-record"


def run(ctx):
    out1 = ctx.go_test("internal/data", "^TestVerif_C41$", timeout=2400)
    res1 = ctx.go_results[-1]
    out2 = ctx.go_test("internal/archiver", "^TestVerif_C41Sched$", timeout=1800)
    res2 = ctx.go_results[-1]
    allp = os.path.join(ctx.work, "recs_all.ndjson")
    with open(allp, "w") as fh:
        for o in (out1, out2):
            fh.write(open(os.path.join(o, "recs.ndjson")).read())
    n, bad, lines = ctx.check_records("Fn_TreeEnc", allp, shard=ctx.pick(2500, 8000))
    seen = set()
    for i in bad[:500]:
        r = json.loads(lines[i - 1])
        key = key_of(r)
        if key in seen:
            continue
        seen.add(key)
        ctx.violate(key, "Fn_TreeEnc!RecOK false: %s" % json.dumps(r)[:600], r)
    counters = dict(res1.get("counters", {}))
    counters.update(res2.get("counters", {}))
    cov = {"evaluations": n, "distinct_nontrivial": res1["distinct_nontrivial"] + res2["distinct_nontrivial"],
           "rule": res1["rule"] + " || " + res2["rule"],
           "samples": verif.samples_from(lines, 3), "records_checked_by_tlc": n, "records_rejected": len(bad),
           "counters": counters, "exhaustive": ctx.thorough()}
    return verif.finish(ctx, "exploration", cov, [
        "Fn_TreeEnc.tla decides: which insertions a strictly name-sorted tree admits (greedy strictly-increasing filter over name ranks), decoded tree = admitted entries in order with no differing field, one single byte string for repeated encodings / re-encoding of the decoded entries / every completion schedule of the archiver's tree saver; TLC evaluates RecOK on every record and checks the admission model on all sequences of length <= 4 over 3 names",
        "byte fidelity is abstracted by the Go driver: name ranks by bytes.Compare, field-by-field comparison of decoded vs encoded entries (nil and empty slices/maps equal, generic attribute values compared as JSON values, times as instant + zone offset), byte strings as tokens",
        "premise of the statement kept by the generator: timestamps with years 0..9999 in their own zone and whole-minute zone offsets; user/group/error strings and extended attribute names are valid UTF-8 (only names and link targets are promised for arbitrary bytes)",
        "boundary names (the empty name = least byte string, \\x00, \\x00\\x00, single punctuation bytes, 0x7f/0x80/0xff, a 64 KiB name) are inserted in FIRST position with 0..5 further entries and in all insertion sequences of length <= 4 over {'', \\x00, a, \\x00\\x00}; the statement does not say whether an entry with an empty name is admissible, so the spec accepts both readings (never admitted, as restic's builder does / admitted as the least name in first position) and demands in both that the encoding decodes to exactly the admitted entries",
        "schedules = order in which the entries' futures complete, with and without a pause between completions, 1/2/4 tree workers; the Go scheduler itself is not controlled",
    ])
