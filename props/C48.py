"""C48 Blob sets report each member once."""
import json, os
import verif


def _model(steps, upto):
    """python mirror of Fn_BlobSet!Apply, used ONLY to word the violation key/detail (the verdict is TLC's)."""
    m = {}
    for st in steps[:upto + 1]:
        op = st["op"]
        if op == "new":
            m[st["s"]] = {}
        elif op == "insert":
            m[st["s"]][st["b"]] = -1 if st["b"] in m[st["s"]] else 0
        elif op == "set":
            m[st["s"]][st["b"]] = st["v"]
        elif op == "delete":
            m[st["s"]].pop(st["b"], None)
        elif op == "setmany":
            for b in st["bs"]:
                m[st["s"]][b] = st["v"]
        elif op == "insertmany":
            for b in st["bs"]:
                m[st["s"]][b] = -1 if b in m[st["s"]] else 0
        elif op == "deletemany":
            for b in st["bs"]:
                m[st["s"]].pop(b, None)
        elif op == "intersect":
            m[st["res"]] = {k: v for k, v in m[st["s"]].items() if k in m[st["o"]]}
        elif op == "sub":
            m[st["res"]] = {k: v for k, v in m[st["s"]].items() if k not in m[st["o"]]}
    return m


def classify(r):
    """Returns {key: detail} for a record TLC rejected: every failing observation, worded as a stable class
    (all classes of a record are reported, so one class never hides another)."""
    if r.get("panic"):
        return {"blobset/panic": "set operation panicked: %s" % r["panic"]}
    out = {}
    for i, st in enumerate(r["steps"]):
        m = _model(r["steps"], i)
        for o in st["obs"]:
            f = m.get(o["name"], {})
            D = set(f)
            ent = st.get("ent", {})
            what = []
            if set(o["has"]) != D:
                what.append("has")
            if set(o["getk"]) != D or any(f.get(k, -1) not in (-1, v) for k, v in zip(o["getk"], o["getv"])):
                what.append("get")
            if set(o["keys"]) - D or set(o["allk"]) - D:
                what.append("enumerates-non-member")
            if D - set(o["keys"]) or D - set(o["allk"]):
                what.append("member-not-enumerated")
            if any(f.get(k, -1) not in (-1, v) for k, v in zip(o["allk"], o["allv"])):
                what.append("all-value")
            multi = sorted(k for k in D if o["keys"].count(k) > 1 or o["allk"].count(k) > 1)
            once_per_entry = False
            if multi:
                # the class described in DESIGN.md section 6 item 3: a member is reported once per index entry
                if all(o["keys"].count(k) <= max(1, ent.get(k, 0)) and o["allk"].count(k) <= max(1, ent.get(k, 0)) for k in multi):
                    what.append("member-enumerated-once-per-index-entry")
                    once_per_entry = True
                else:
                    what.append("member-enumerated-repeatedly")
            if o["len"] != len(D):
                if once_per_entry and o["len"] == len(o["keys"]):
                    pass  # Len counts the same duplicated enumeration: same class
                else:
                    what.append("len")
            if len(o["keys"]) != len(D) and not multi and "enumerates-non-member" not in what and "member-not-enumerated" not in what:
                what.append("keys-count")
            if what:
                key = "blobset/%s" % "+".join(what)
                if key in out:
                    continue
                out[key] = ("%s: after step %d (%s %s %s) set %s has members %s but reports Len=%d Keys=%s All=%s Has=%s Get=%s; index entries per blob %s"
                            % (r.get("kind"), i + 1, st["op"], st.get("s", ""), st.get("b", ""), o["name"], sorted(D), o["len"], o["keys"],
                               list(zip(o["allk"], o["allv"])), o["has"], list(zip(o["getk"], o["getv"])), {k: v for k, v in ent.items() if v}))
    return out or {"blobset/unclassified": "TLC rejected the record, python mirror found no difference"}


def run(ctx):
    out1 = ctx.go_test("internal/repository/index", "^TestVerif_C48$", timeout=1800)
    res1 = ctx.go_results[-1]
    out2 = ctx.go_test("internal/repository", "^TestVerif_C48$", timeout=1800)
    res2 = ctx.go_results[-1]
    merged = os.path.join(ctx.work, "recs_all.ndjson")
    full = []
    with open(merged, "w") as fh:
        for o in (out1, out2):
            fh.write(open(os.path.join(o, "recs.ndjson")).read())
            full += open(os.path.join(o, "full.ndjson")).read().splitlines()
    n, bad, lines = ctx.check_records("Fn_BlobSet", merged, shard=ctx.pick(400, 2500))
    if len(full) != n:
        raise verif.MachineryError("full.ndjson has %d lines, recs.ndjson %d" % (len(full), n))
    seen = {}
    for i in bad:
        r = json.loads(full[i - 1])
        size = len(full[i - 1])
        for key, detail in classify(r).items():
            if key not in seen or size < seen[key][0]:
                seen[key] = (size, detail, r)          # keep the smallest reproducer per class
    for key, (_, detail, r) in sorted(seen.items()):
        small = {"kind": r["kind"], "steps": [{k: s[k] for k in ("op", "s", "o", "res", "b", "v", "bs", "idx") if k in s} for s in r["steps"]]}
        ctx.violate(key, detail, small)
    counters = dict(res1.get("counters", {}))
    for k, v in res2.get("counters", {}).items():
        counters["repository_" + k] = v
    cov = {"evaluations": n, "distinct_nontrivial": res1["distinct_nontrivial"] + res2["distinct_nontrivial"],
           "rule": res1["rule"] + " || repository level: " + res2["rule"],
           "samples": [{"kind": s["kind"], "ops": [" ".join(str(x) for x in (t["op"], t["s"], t["o"], t["res"], t["b"], t["v"] or "") if x != "") for t in s["steps"]][:14],
                        "last_obs": (s["steps"][-1]["obs"] or [None])[-1]} for s in verif.samples_from(lines, 3)],
           "records_checked_by_tlc": n, "records_rejected": len(bad), "violation_classes": sorted(seen),
           "counters": counters, "exhaustive": False}
    return verif.finish(ctx, "exploration", cov,
                        ["Fn_BlobSet.tla (finite map, index-free) is the oracle; TLC evaluates RecOK on every recorded scenario",
                         "index entries are only added while sets are alive (the documented premise of AssociatedSet); indexes are never cleared under a live set",
                         "value kept by Insert on an existing member is left open (accepted either way)",
                         "scenarios are seeded random + a fixed directed table, not exhaustive"])
