"""C54 stats restore-size reports what a restore would write."""
import json, os
import verif


def snap_size(sn):
    seen, total = set(), 0
    for e in sn:
        if e["t"] != "file":
            continue
        if e["g"] == 0:
            total += e["s"]
        elif e["g"] not in seen:
            seen.add(e["g"])
            total += e["s"]
    return total


def classify(r):
    exp_size = sum(snap_size(s) for s in r["snaps"])
    exp_count = sum(len(s) for s in r["snaps"])
    multi = "multi-snapshot" if len(r["snaps"]) > 1 else "single-snapshot"
    if r["stats_snapshots"] != len(r["snaps"]):
        return "stats/restore-size/wrong-snapshot-selection/%s" % r["selection"].split("-")[0], exp_size, exp_count
    if r["stats_count"] != exp_count:
        return "stats/restore-size/entry-count/%s" % multi, exp_size, exp_count
    if r["stats_size"] != exp_size:
        return "stats/restore-size/total-size/%s/%s" % (r["pattern"], multi), exp_size, exp_count
    return "stats/restore-size/differs-from-restore/%s/%s" % (r["pattern"], multi), exp_size, exp_count


def run(ctx):
    out = ctx.go_test("cmd/restic", "^TestVerif_C54$", timeout=3000)
    n, bad, lines = ctx.check_records("Fn_Stats", os.path.join(out, "recs.ndjson"), shard=ctx.pick(400, 400))
    keys = {}
    for i in bad:
        r = json.loads(lines[i - 1])
        k, es, ec = classify(r)
        keys.setdefault(k, []).append((r, es, ec))
    for k, rs in sorted(keys.items()):
        r, es, ec = rs[0]
        ctx.violate(k, "stats --mode restore-size for selection %s of scenario %d (hard-link pattern %s, history %s, %d snapshots): total_size=%d total_file_count=%d snapshots_count=%d; "
                       "source entries give size=%d count=%d; restore wrote %d bytes (%d on disk) (%d records of this class)"
                    % (r["selection"], r["scenario"], r["pattern"], "b" + r.get("plan", ""), len(r["snaps"]), r["stats_size"], r["stats_count"], r["stats_snapshots"], es, ec,
                       r["restore_bytes"], r["disk_bytes"], len(rs)), r)
    res = ctx.go_results[-1]
    cov = {"evaluations": n, "distinct_nontrivial": res["distinct_nontrivial"], "rule": res["rule"],
           "samples": res.get("samples", [])[:3], "records_checked_by_tlc": n, "records_rejected": len(bad),
           "counters": res.get("counters", {}), "exhaustive": False}
    return verif.finish(ctx, "exploration", cov,
                        ["Fn_Stats.tla computes entry count and restore size from the entries the harness found in the source tree by lstat (type, size, hard-link inode id), hard-link groups once per snapshot; TLC evaluates RecOK on every (history, selection)",
                         "histories follow a plan per scenario: after the first backup each step is a mutation + backup or a backup repeated with no change at all (identical root tree; 1 or 2 repeats, also mixed with differing snapshots); every selection is evaluated on every history",
                         "the tree is backed up as the relative target 'src' from its parent directory (no chain of ancestor directories, so that an unchanged repeat really has the identical root tree); the directory itself counts as one entry",
                         "'data a restore writes' = bytes_restored of the JSON summary of a real fresh `restic restore` of each selected snapshot, and the sizes of the distinct regular-file inodes on disk afterwards",
                         "file sizes <= 300 kB so that totals fit TLC's 32-bit integers; repository version 2, default options"])
