"""C34 repair packs and repair snapshots salvage all intact data."""
from concurrent.futures import ThreadPoolExecutor
from props import repo_common


def run(ctx):
    with ThreadPoolExecutor(1) as ex:
        fut = ex.submit(repo_common.repair_design_runs, ctx)
        # zz_verif_c03_shared_test.go provides vCraftSharedChunks (files that share blobs); the c03 driver needs the c09 files
        out = ctx.go_test("cmd/restic", "^TestVerif_C34$", timeout=3300, tags=["c34", "common", "c03", "c09"])
        design = fut.result()
    return repo_common.finish_trace(ctx, out, "model_checking", extra_cov={"design_model_runs": design})
