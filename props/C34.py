"""C34 repair packs and repair snapshots salvage all intact data."""
from props import repo_common


def run(ctx):
    design = repo_common.repair_design_runs(ctx)
    out = ctx.go_test("cmd/restic", "^TestVerif_C34$", timeout=3300)
    return repo_common.finish_trace(ctx, out, "model_checking", extra_cov={"design_model_runs": design})
