"""C34 repair packs and repair snapshots salvage all intact data."""
import json, os
from concurrent.futures import ThreadPoolExecutor
from props import repo_common


def run(ctx):
    # the design-model runs (RepoRepair.tla twins) do not depend on the driver: run them beside it
    with ThreadPoolExecutor(1) as ex:
        fut = ex.submit(repo_common.repair_design_runs, ctx)
        # zz_verif_c03_shared_test.go provides vCraftSharedChunks (files that share blobs); the c03 driver needs the c09 files
        out = ctx.go_test("cmd/restic", "^TestVerif_C34$", timeout=3300, tags=["c34", "common", "c03", "c09"])
        design = fut.result()
    # every reachable file of every snapshot: content after `repair snapshots` = content before minus the
    # unavailable entries (Fn_RepairFiles.tla)
    n, bad, lines = ctx.check_records("Fn_RepairFilesRec", os.path.join(out, "recs.ndjson"), shard=4000)
    for i in bad[:100]:
        r = json.loads(lines[i - 1])
        what = "file-vanished" if not r["present"] else "file-content-is-not-original-minus-unavailable-entries"
        ctx.violate("repair-snapshots/%s" % what,
                    "scenario %s snapshot %s file %s: content before %s available %s indexed %s; after `repair snapshots`: %s" % (
                        r["scenario"], r["snap"], r["path"], r["before"], r["ok"], r["idx"],
                        r["after"] if r["present"] else "file is gone"), r)
    return repo_common.finish_trace(ctx, out, "model_checking",
                                    extra_cov={"design_model_runs": design, "file_records_judged_by_Fn_RepairFilesRec": n},
                                    assumptions=["an entry of a file counts as available when the repository (after `repair packs`) can load the blob and the hash matches; which blobs of a damaged pack are still readable is decided by the harness by decrypting and hashing the stored bytes",
                                                 "a wrong index entry that makes two blobs of a pack overlap is not generated (restic aborts `repair packs` with 'overlapping blobs' before it looks at the pack header; nothing is removed then)"])
