"""C31 Upgrading a repository to format v2 preserves all data."""
import json, os
import verif
from props import repo_common, ops_common


def run(ctx):
    design = ops_common.keys_design_runs(ctx)
    out = ctx.go_test("cmd/restic", "^TestVerif_C31$", timeout=3300)
    n, bad, lines = ctx.check_records("Fn_Upgrade", os.path.join(out, "recs.ndjson"))
    for i in bad[:200]:
        r = json.loads(lines[i - 1])
        where = "final" if r["final"] else "crash-prefix"
        what = "no-config" if r["version"] == 0 else ("snapshots" if not r["snaps_ok"] else "version")
        ctx.violate("upgrade/%s/%s/%s/%s" % ("atomic" if r["atomic"] else "non-atomic", r["kind"], where, what),
                    "upgrade with fault %s@%s (atomic replace: %s), storage after backend op %s: version=%s snaps_ok=%s cmd_ok=%s %s" % (
                        r["kind"], r["k"], r["atomic"], r["seq"], r["version"], r["snaps_ok"], r["cmd_ok"], r["detail"]), r)
    # the trace rules: the config rule flags the documented remove-then-save of non-atomic backends as well
    invs = [i for i in repo_common.ALL_INV]
    rules = [r for r in repo_common.ALL_RULES if r != "R_ConfigWriteOnce"]
    return repo_common.finish_trace(ctx, out, "fault_enumeration", invs=invs, rules=rules,
                                    extra_cov={"design_model_runs": design, "state_records_checked_by_tlc": n, "records_rejected": len(bad), "exhaustive": True})
