"""C30 init never overwrites an existing repository."""
import json, os
import verif

KINDS = ("config", "key", "snapshot", "index", "pack", "lock")


def classify(r):
    if r["kind"] == "ids":
        return "init/config-id-not-fresh"
    holds = r["pre"]["config"] or r["pre"]["key"] or r["pre"]["snapshot"]
    what = "+".join(k for k in ("config", "key", "snapshot", "index", "pack") if r["pre"][k]) or "empty"
    base = "init/%s/" % r["level"] + ("probe-fault-%s/" % r["fault"] if r["kind"] == "initfault" else "")
    if not r["unchanged"]:
        return base + "existing-files-modified/" + what
    if holds and r["ok"]:
        return base + "existing-repository-initialised/" + what
    if not r["ok"] and any(r["added"][k] for k in KINDS):
        return base + "refused-but-wrote-files/" + what
    if not holds and r["version"] in (1, 2) and not r["ok"]:
        return base + "refused-empty-location/" + what
    if r["ok"]:
        c = r["cfg"]
        if r["added"]["config"] != 1 or r["added"]["key"] != 1 or any(r["added"][k] for k in KINDS if k not in ("config", "key")):
            return base + "wrong-files-created"
        if not c["loadable"] and r["version"] not in (1, 2):
            return base + "unsupported-version-accepted/v%d" % r["version"]
        if not c["loadable"]:
            return base + "config-not-loadable-with-password"
        if c["version"] not in (1, 2):
            return base + "unsupported-version-created/v%d" % r["version"]
        if r["version"] in (1, 2) and c["version"] != r["version"]:
            return base + "version-not-as-requested"
        if not c["irreducible"]:
            return base + "polynomial-not-irreducible"
        if r["given"] and not c["poly_as_given"]:
            return base + "given-polynomial-not-used"
        if not c["id_wellformed"]:
            return base + "malformed-id"
        if r["keys_pw"] != 1:
            return base + "not-exactly-one-key-for-password"
    return base + "other"


def run(ctx):
    out = ctx.go_test("cmd/restic", "^TestVerif_C30$", timeout=2400)
    n, bad, lines = ctx.check_records("Fn_Init", os.path.join(out, "recs.ndjson"))
    seen = {}
    for i in bad:
        r = json.loads(lines[i - 1])
        key = classify(r)
        seen[key] = seen.get(key, 0) + 1
        if seen[key] > 1:
            continue
        if r["kind"] == "ids":
            dup = sorted({x for x in r["ids"] if r["ids"].count(x) > 1})
            ctx.violate(key, "config IDs created in one run are not all distinct / differ from the donors: %s" % dup[:3], {"duplicates": dup[:5]})
            continue
        ctx.violate(key, "init (%s level, requested version %d, %s polynomial) on a location holding %s (%s files): ok=%s err=%r, existing files unchanged=%s, files added=%s, config=%s, keys opening with the password=%d" % (
            r["level"], r["version"], "given" if r["given"] else "random", [k for k, v in r["pre"].items() if v] or "nothing", r["flavour"],
            r["ok"], r["errmsg"], r["unchanged"], {k: v for k, v in r["added"].items() if v}, r.get("cfg"), r.get("keys_pw", 0)),
            {k: r[k] for k in ("level", "flavour", "pre", "version", "given", "fault") if k in r})
    res = ctx.go_results[-1]
    cov = {"evaluations": n, "distinct_nontrivial": res["distinct_nontrivial"], "rule": res["rule"],
           "samples": verif.samples_from(lines[:-1], 3), "records_checked_by_tlc": n, "records_rejected": len(bad),
           "rejected_by_class": seen, "counters": res.get("counters", {}), "exhaustive": True}
    return verif.finish(ctx, "exploration", cov,
                        ["Fn_Init.tla is the oracle (decision table of the statement): a location holding a config, a key or a snapshot must be refused; a refusal adds no file; pre-existing files are never modified; an otherwise empty-of-repository location with a supported version must be initialised with exactly one config (supported version, as requested; irreducible polynomial, the given one if given; well-formed ID) and exactly one key, which the given password opens; an unsupported version may be refused (or must yield a supported config)",
                         "locations are in-memory backends; 'real' pre-existing files are copied from a repository created by restic itself with a different password, 'junk' files have valid ID names and arbitrary content, 'empty-config' is a zero-length config file; key/snapshot files whose names are not IDs are not in the table",
                         "both levels: Repository.Init directly and `restic init` (--repository-version N|latest|stable, --copy-chunker-params from a second repository for the given polynomial)",
                         "fresh random ID = all IDs created in the run are pairwise distinct and differ from the donor repositories' IDs"])
