"""C47 The in-memory blob cache stays within its budget and returns correct blobs.

BlobLRU.tla (design model of bloblru.Cache, one action per critical section) is model-checked exhaustively
(invariants Budget, Accounting, NoDup, CacheVal, ResultOK + deadlock freedom), four negative twins must be
refuted, TLC enumerates / samples schedules of the scheduler view SpecQ, the Go driver replays them into the real
Cache with a gated compute function (testing/synctest), and TLC judges every recorded run with BlobLRUProps!RecOK."""
import concurrent.futures as cf
import json, os, re
import verif

COSTS = {"Cost112": [1, 1, 2], "Cost1123": [1, 1, 2, 3], "Cost123": [1, 2, 3], "Cost12": [1, 2]}
TWINS = {"twin_evict_once": "Budget", "twin_no_cleanup": "deadlock", "twin_waiter": "ResultOK",
         "twin_no_contains": "Accounting"}


def cfg_consts(cfg):
    txt = open(os.path.join(verif.SPEC, cfg)).read()
    cost = re.search(r"Cost <- (\w+)", txt).group(1)
    size = int(re.search(r"Size = (\d+)", txt).group(1))
    return COSTS[cost], size


def scheds_of(res):
    out = set()
    for m in re.finditer(r'^<<"SCHED", <<(.*?)>>>>\s*$', res["out"], re.M):
        out.add(tuple(int(x) for x in re.findall(r"\d+", m.group(1))))
    return sorted(out)


def run(ctx):
    th = ctx.thorough()
    if not th:
        # short TLC runs: JVM start-up dominates on a loaded machine; C1-only JIT and few GC threads start faster
        os.environ["JAVA_TOOL_OPTIONS"] = (os.environ.get("JAVA_TOOL_OPTIONS", "") + " -XX:TieredStopAtLevel=1 -XX:ParallelGCThreads=2").strip()
    jobs = {}
    ex = cf.ThreadPoolExecutor(max_workers=4 if th else 8)
    # schedules of the scheduler view: exhaustive for small bounds, sampled (seeded) for larger ones
    for c in (["schedA", "schedB", "schedC"] if th else ["schedB"]):
        jobs["sched:" + c] = ex.submit(ctx.tlc, "BlobLRUMC", cfg="BlobLRU_%s.cfg" % c, workers=4 if th else 2,
                                       name="gen_" + c, timeout=3000, heap="4g" if th else "2g")
    jobs["sim:schedS"] = ex.submit(ctx.tlc, "BlobLRUMC", cfg="BlobLRU_schedS.cfg", workers=4 if th else 2, name="gen_schedS", heap="2g",
                                   simulate="num=%d" % (5000 if th else 150), depth=100, deadlock=False,
                                   extra=["-seed", str(ctx.seed)], timeout=3000)
    # exhaustive design runs + negative twins (independent of /repo; they run while the replay is going on)
    for c in (["design_small", "design"] if th else ["design_quick"]):
        jobs["design:" + c] = ex.submit(ctx.tlc, "BlobLRUMC", cfg="BlobLRU_%s.cfg" % c, workers=8 if th else 3,
                                        name="design_" + c, timeout=3000, heap="4g" if th else "2g")
    for c in TWINS:
        jobs["twin:" + c] = ex.submit(ctx.tlc, "BlobLRUMC", cfg="BlobLRU_%s.cfg" % c, workers=1, name=c,
                                      timeout=900, allow_violation=True, heap="1g")
    vec = os.path.join(ctx.work, "schedules.ndjson")
    nsched = {}
    with open(vec, "w") as fh:
        for k, f in jobs.items():
            kind, c = k.split(":")
            if kind not in ("sched", "sim"):
                continue
            r = f.result()
            cost, size = cfg_consts("BlobLRU_%s.cfg" % c)
            ss = scheds_of(r)
            if not ss:
                raise verif.MachineryError("TLC produced no schedules for %s, see %s" % (c, r["dir"]))
            nsched[c] = len(ss)
            for s in ss:
                fh.write(json.dumps({"src": c, "cost": cost, "size": size, "sched": list(s)}) + "\n")

    out = os.path.join(ctx.work, "go")
    fatal = None
    try:
        ctx.go_test("internal/bloblru", "^TestVerif_C47$", timeout=2400, out=out, env={"VERIF_VECTORS": vec})
    except verif.MachineryError:
        fj = os.path.join(out, "fatal.json")
        if not os.path.exists(fj):
            raise
        fatal = json.load(open(fj))
        if fatal.get("kind") == "hang" and not fatal.get("in_cache_code"):
            raise
        rj = os.path.join(out, "result.json")
        if os.path.exists(rj):
            ctx.go_results.append(json.load(open(rj)))
    if fatal:
        if fatal["kind"] == "stuck":
            ctx.violate("c47/lookup-never-returns", "GetOrCompute calls stayed blocked although every computation had finished: %s" % fatal.get("run"), fatal)
        else:
            ctx.violate("c47/hang-inside-cache", "a goroutine keeps running inside bloblru.Cache and never returns (run %s)" % fatal.get("run"),
                        {"run": fatal.get("run"), "stacks": fatal.get("stacks", "")[:4000]})
    recs = os.path.join(out, "recs.ndjson")
    n, bad, lines = 0, [], []
    if os.path.exists(recs) and os.path.getsize(recs) > 0:
        n, bad, lines = ctx.check_records("BlobLRUProps", recs, shard=4000 if not th else 15000)
    elif not fatal:
        raise verif.MachineryError("no records written")
    if bad:
        # which conjunct failed: ask TLC again on the rejected records only
        sub = [lines[i - 1] for i in bad[:300]]
        parts = {}
        for op in ("RecBudget", "RecAccounting", "RecResults", "RecEntries", "RecReturns"):
            wrapper = ("---- MODULE C47Why ----\nEXTENDS BlobLRUProps, Json, TLC\nRecs == ndJsonDeserialize(\"recs.ndjson\")\n"
                       "ASSUME PrintT(\"WHY \" \\o ToString({k \\in 1..Len(Recs) : ~%s(Recs[k])}))\nVARIABLE x\nInit == x = 0\nNext == x' = x\n"
                       "Spec == Init /\\ [][Next]_x\n====\n" % op)
            r = ctx.tlc("C47Why", cfg="C47Why.cfg", files={"C47Why.tla": wrapper, "C47Why.cfg": "SPECIFICATION Spec\n",
                                                            "recs.ndjson": "\n".join(sub) + "\n"},
                        workers=1, deadlock=False, name="why_" + op)
            for v in re.findall(r'^"WHY (.*)"\s*$', r["out"], re.M):
                for k in re.findall(r"\d+", v):
                    parts.setdefault(int(k), []).append(op)
        names = {"RecBudget": "over-budget", "RecAccounting": "accounting", "RecResults": "wrong-result",
                 "RecEntries": "wrong-cached-bytes", "RecReturns": "lookup-never-returns"}
        for j, ln in enumerate(sub[:200]):
            r = json.loads(ln)
            why = [names[o] for o in parts.get(j + 1, [])] or ["rejected"]
            ctx.violate("c47/%s/%s" % (r["mode"], "+".join(why)),
                        "real bloblru.Cache run rejected by BlobLRUProps!RecOK (%s): mode=%s src=%s sched=%s size=%d" % (
                            ",".join(why), r["mode"], r["src"], r["sched"], r["size"]), r)
    design = []
    for k, f in jobs.items():
        kind, c = k.split(":")
        if kind == "design":
            r = f.result()
            design.append({"cfg": c, "states": r["states"], "transitions": r["transitions"], "result": "holds"})
        elif kind == "twin":
            r = f.result()
            if TWINS[c] not in r["violated"]:
                raise verif.MachineryError("negative twin %s was not refuted (expected %s, got %s)" % (c, TWINS[c], r["violated"]))
            design.append({"cfg": c, "states": r["states"], "transitions": r["transitions"], "result": "refuted: " + TWINS[c]})
    ex.shutdown()
    gres = ctx.go_results[-1] if ctx.go_results else {}
    dstates = sum(d["states"] for d in design if d["result"] == "holds")
    dtrans = sum(d["transitions"] for d in design if d["result"] == "holds")
    cov = {"states": dstates, "transitions": dtrans, "traces_validated_against_impl": n,
           "design_model_runs": design, "schedules_generated_by_tlc": nsched,
           "records_checked_by_tlc": n, "records_rejected": len(bad),
           "evaluations": gres.get("evaluations", 0), "distinct_nontrivial": gres.get("distinct_nontrivial", 0),
           "rule": gres.get("rule", ""), "counters": gres.get("counters", {}),
           "samples": (gres.get("samples") or [])[:2] + verif.samples_from(lines, 2) if lines else []}
    return verif.finish(ctx, "model_checking", cov, [
        "the gated replay interleaves goroutines at compute boundaries (scheduler view SpecQ: a controllable action fires only when every goroutine is parked); finer interleavings of the mutex-protected sections are covered by the exhaustive design run and, on the real code, only by the free-running stress runs",
        "bytes held = sum over entries of cap(blob) + the package's own per-entry overhead constant; accounting check reads Cache.free/size and the LRU in-package under the cache mutex",
        "a value is identified by its full byte content (unique per computation)",
        "model bounds: <= 3 goroutines, <= 4 ids, <= 6 calls; cost units scaled to bytes with 3 unit sizes and slack below one unit"])
