"""C51 self-update installs only a signed, hash-matching binary."""
import bz2, json, os
import verif

TWINS = {"noverify": "Safe", "suffix": "Safe", "early": "Safe", "prefixhash": "Safe", "vac": "NeverInstalls"}


def run(ctx):
    # design runs: the documented procedure is safe for every script; each broken twin is refuted; some script installs
    import concurrent.futures as cf

    def design_run(item):
        t, exp = item
        if exp is None:
            r = ctx.tlc("SelfUpdate", cfg="SelfUpdate.cfg", workers=2, name="design", timeout=900)
            return {"cfg": "SelfUpdate", "states": r["states"], "transitions": r["transitions"], "result": "holds"}
        rr = ctx.tlc("SelfUpdate", cfg="SelfUpdate_%s.cfg" % t, workers=1, name="twin_" + t, timeout=900, allow_violation=True)
        if exp not in rr["violated"]:
            raise verif.MachineryError("twin %s not refuted (expected %s, got %s)" % (t, exp, rr["violated"]))
        return {"cfg": "SelfUpdate_" + t, "states": rr["states"], "transitions": rr["transitions"], "result": "refuted: " + exp}
    pool = cf.ThreadPoolExecutor(max_workers=3)
    gen = ctx.tlc("SelfUpdateGen", cfg="SelfUpdateGen.cfg", workers=1, name="gen", timeout=600)
    vec = os.path.join(gen["dir"], "vec.ndjson")
    des_f = [pool.submit(design_run, it) for it in [("", None)] + list(TWINS.items())]   # beside the replay (independent of /repo)
    nscripts = sum(1 for _ in open(vec))
    payload = os.path.join(ctx.work, "payload.bin")
    archive = os.path.join(ctx.work, "payload.bz2")
    data = b"#!/bin/sh\necho new restic\n" + bytes((i * 37 + ctx.seed) % 251 for i in range(30000))
    open(payload, "wb").write(data)
    open(archive, "wb").write(bz2.compress(data))
    out = ctx.go_test("internal/selfupdate", "^TestVerif_C51$", timeout=1500,
                      env={"VERIF_VECTORS": vec, "VERIF_C51_PAYLOAD": payload, "VERIF_C51_ARCHIVE": archive})
    recs = os.path.join(out, "recs.ndjson")
    bind_f = pool.submit(ctx.check_records, "Fn_SelfUpdateBind", recs, "bind")
    n, bad, lines = ctx.check_records("Fn_SelfUpdate", recs)
    for i in bad[:200]:
        r = json.loads(lines[i - 1])
        s = r["script"]
        cls = "sig=%s/sums=%s/archive=%s/fault=%d%s/assets=%s/version=%s/key=%s" % (
            s["sig"], s["sums"], s["archive"], s["fault"]["req"], s["fault"]["kind"], s["assets"], s["version"], s["key"])
        what = "installed" if r["changed"] else "unchanged-without-error"
        if r["changed"] and not r["new_is_payload"]:
            what = "installed-other-bytes"
        ctx.violate("selfupdate/%s/%s" % (what, cls), "script %s: target changed=%s (new content is the signed payload: %s), error returned=%s %s (SelfUpdate!RecOK false)"
                    % (cls, r["changed"], r["new_is_payload"], r["err"], r["err_text"]), r)
    nb, badb, _ = bind_f.result()
    des = [f.result() for f in des_f]
    pool.shutdown()
    nonconf = [json.loads(lines[i - 1]) for i in badb if i not in set(bad)]
    res = ctx.go_results[-1]
    cnt = res.get("counters", {})
    if not ctx.violations:
        # positive control / binding: without it the safety verdict would be vacuous
        if cnt.get("installed", 0) == 0:
            raise verif.MachineryError("no script led to an installation (positive control failed)")
        if nonconf:
            raise verif.MachineryError("real code and documented procedure differ without violating the statement for %d scripts, e.g. %s -> changed=%s err=%s"
                                       % (len(nonconf), nonconf[0]["script"], nonconf[0]["changed"], nonconf[0]["err_text"]))
    cov = {"evaluations": n, "distinct_nontrivial": res["distinct_nontrivial"], "rule": res["rule"], "samples": res.get("samples") or verif.samples_from(lines, 3),
           "scripts_enumerated_by_tlc": nscripts, "records_checked_by_tlc": n, "records_rejected": len(bad), "nonconforming_but_allowed": len(nonconf),
           "design_runs": des, "counters": cnt, "exhaustive": True}
    return verif.finish(ctx, "fault_enumeration", cov, [
        "the trusted key variable is replaced by a harness-generated OpenPGP key so that valid signatures exist; verification code (GPGVerify, findHash, hash compare, extractToFile) is restic's; the genuine embedded key is exercised with (unforgeable) negative cases only",
        "the network is a scripted http.RoundTripper installed as http.DefaultClient's transport; error statuses carry garbage bodies",
        "a checksum line with a single blank between hash and name is accepted either way (the statement does not define the file format)",
        "that the all-valid scripts do install is a positive control (machinery error otherwise), not part of the verdict"])
