"""C18 Restore never touches anything outside the target directory."""
import json, os
import verif


KID = {"S": ("x", "symlink"), "T": ("x", "symlink"), "f": ("x", "file"), "s": ("x", "symlink"), "t": ("x", "symlink"), "d": ("x", "dir"), "e": ("../../esc", "file"), "u": ("..", "file")}


OUT = {"outdir": "outside/dir", "outfile": "outside/file", "symlink-dir": "outside/dir", "symlink-file": "outside/file"}
NODE_MODE = {"file": 0o640, "dir": 0o700}      # permission bits of the snapshot's file / dir nodes


def explain(r, c):
    """name of the known mechanism that explains outside change c of scenario r, or None.
    The only listed mechanism changes nothing but METADATA of the path a pre-existing symlink points to:
      skipped-hardlink-first-over-preexisting-symlink: hard-link group a,b; target/a pre-exists as symlink to
        this outside path and is skipped by --overwrite never/if-newer; b becomes a link of the symlink and
        gets the file node's mode
    (the duplicate-name swap was fixed in restic: duplicate child names are rejected; it is a hard violation)"""
    if c["w"] != "meta":
        return None
    path = "/".join(c["p"])
    has_hl = any(n["hl"] for n in r["nodes"])
    env, pre = r["env"], r["env"]["pre"]
    if has_hl and OUT.get(pre["a"]) == path and env["overwrite"] in ("never", "if-newer") and c["m"] == NODE_MODE["file"]:
        return "skipped-hardlink-first-over-preexisting-symlink"
    return None


def classify(r):
    outs = [c for c in r["changes"] if c["p"][0] != "target" and c["w"] != "meta-shared-inode"]
    names = set()
    for c in outs:
        e = explain(r, c)
        if e is None:
            return "confine/unexplained/%s/%s" % (c["w"], "/".join(c["p"]))
        names.add(e)
    return "confine/" + "+".join(sorted(names))


def run(ctx):
    vec = ctx.tlc("Fn_ConfineVec", workers=1, timeout=600)
    out = ctx.go_test("internal/restorer", "^TestVerif_C18$", timeout=3000, env={"VERIF_VECTORS": vec["dir"]})
    n, bad, lines = ctx.check_records("Fn_Confine", os.path.join(out, "recs.ndjson"), shard=ctx.pick(2000, 12000))
    keys = {}
    for i in bad:
        r = json.loads(lines[i - 1])
        keys.setdefault(classify(r), []).append(r)
    for k, rs in sorted(keys.items()):
        r = min(rs, key=lambda x: (len(x["nodes"]), len(x["tree"])))
        outs = [c for c in r["changes"] if c["p"][0] != "target" and c["w"] != "meta-shared-inode"]
        ctx.violate(k, "restore changed a path outside the target: %s; snapshot tree [%s], pre-existing target/a=%s target/a/x=%s, overwrite=%s delete=%s sparse=%s select=%s outside-dir-prefilled=%s (%d scenarios of this class)"
                    % ("; ".join("%s %s (%s)" % (c["w"], "/".join(c["p"]), c["d"]) for c in outs[:3]), r["tree"], r["env"]["pre"]["a"], r["env"]["pre"]["x"],
                       r["env"]["overwrite"], r["env"]["delete"], r["env"]["sparse"], r["env"]["select"], r["env"].get("outx"), len(rs)), r)
    res = ctx.go_results[-1]
    cov = {"evaluations": n, "distinct_nontrivial": res["distinct_nontrivial"], "rule": res["rule"],
           "samples": verif.samples_from(lines, 3), "records_checked_by_tlc": n, "records_rejected": len(bad),
           "counters": res.get("counters", {}), "exhaustive": ctx.thorough()}
    return verif.finish(ctx, "exploration", cov,
                        ["Fn_Confine.tla defines the adversarial trees/environments (TLC serialises them) and the property: every changed path of the sandbox lies under target/; TLC evaluates RecOK on the recorded change list of every scenario",
                         "observable state = type, size, sha256, link target, mode, mtime, owner, link count of every path of the sandbox (no atime/ctime); a metadata-only change of an outside inode that was hard-linked into the target before the restore is tolerated",
                         "errors reported by restore are ignored (the CLI continues after them)",
                         "symlink targets are relative paths to the sentinel directory/file next to the target; file system = the sandbox's ext4; root",
                         "the cross product trees x environments (non-'all' selections only for trees with a directory) is sampled with weights: three-node same-name sequences 0.25, trees with inconsistent fields 4, three-level trees 3, others 1; base probability 0.8% (quick) / 20% with --sparse chosen by parity (thorough)"])
