"""C18 Restore never touches anything outside the target directory."""
import json, os
import verif


KID = {"f": ("x", "file"), "s": ("x", "symlink"), "t": ("x", "symlink"), "d": ("x", "dir"), "e": ("../../esc", "file"), "u": ("..", "file")}


def features(r):
    """features of a scenario that are known to let the unchanged restic leave the target (stable names)"""
    paths = {}
    has_dir_a = has_dir_ax = has_hl = False
    for n in r["nodes"]:
        paths.setdefault(n["n"], set()).add(n["t"])
        has_hl = has_hl or n["hl"]
        if n["t"] == "dir":
            if n["n"] == "a":
                has_dir_a = True
            for k in n["kids"]:
                nm, ty = KID[k]
                paths.setdefault(n["n"] + "/" + nm, set()).add(ty)
                if n["n"] == "a" and k == "d":
                    has_dir_ax = True
    env, pre = r["env"], r["env"]["pre"]
    f = []
    if any("symlink" in ts and len(ts) > 1 for ts in paths.values()):
        f.append("dup-symlink-path")
    if env["select"] == "leaves" and ((pre["a"].startswith("symlink") and has_dir_a) or (pre["x"].startswith("symlink") and has_dir_ax)):
        f.append("unselected-dir-over-preexisting-symlink")
    if has_hl and pre["a"].startswith("symlink") and env["overwrite"] in ("never", "if-newer"):
        f.append("skipped-hardlink-first-over-preexisting-symlink")
    return f


def classify(r):
    outs = [c for c in r["changes"] if c["p"][0] != "target" and c["w"] != "meta-shared-inode"]
    f = features(r)
    if f:
        return "confine/" + "+".join(f)
    c = outs[0]
    return "confine/unexplained/%s/%s" % (c["w"], "/".join(c["p"]))


def run(ctx):
    vec = ctx.tlc("Fn_ConfineVec", workers=1, timeout=600)
    out = ctx.go_test("internal/restorer", "^TestVerif_C18$", timeout=3000, env={"VERIF_VECTORS": vec["dir"]})
    n, bad, lines = ctx.check_records("Fn_Confine", os.path.join(out, "recs.ndjson"), shard=ctx.pick(2000, 12000))
    keys = {}
    for i in bad:
        r = json.loads(lines[i - 1])
        keys.setdefault(classify(r), []).append(r)
    for k, rs in sorted(keys.items()):
        r = min(rs, key=lambda x: (len(x["nodes"]), len(x["tree"])))
        outs = [c for c in r["changes"] if c["p"][0] != "target" and c["w"] != "meta-shared-inode"]
        ctx.violate(k, "restore changed a path outside the target: %s; snapshot tree [%s], pre-existing target/a=%s target/a/x=%s, overwrite=%s delete=%s sparse=%s select=%s (%d scenarios of this class)"
                    % ("; ".join("%s %s (%s)" % (c["w"], "/".join(c["p"]), c["d"]) for c in outs[:3]), r["tree"], r["env"]["pre"]["a"], r["env"]["pre"]["x"],
                       r["env"]["overwrite"], r["env"]["delete"], r["env"]["sparse"], r["env"]["select"], len(rs)), r)
    res = ctx.go_results[-1]
    cov = {"evaluations": n, "distinct_nontrivial": res["distinct_nontrivial"], "rule": res["rule"],
           "samples": verif.samples_from(lines, 3), "records_checked_by_tlc": n, "records_rejected": len(bad),
           "counters": res.get("counters", {}), "exhaustive": ctx.thorough()}
    return verif.finish(ctx, "exploration", cov,
                        ["Fn_Confine.tla defines the adversarial trees/environments (TLC serialises them) and the property: every changed path of the sandbox lies under target/; TLC evaluates RecOK on the recorded change list of every scenario",
                         "observable state = type, size, sha256, link target, mode, mtime, owner, link count of every path of the sandbox (no atime/ctime); a metadata-only change of an outside inode that was hard-linked into the target before the restore is tolerated",
                         "errors reported by restore are ignored (the CLI continues after them)",
                         "symlink targets are relative paths to the sentinel directory/file next to the target; file system = the sandbox's ext4; root",
                         "thorough: full cross product with --sparse chosen by parity; quick: seeded 1.2% sample"])
