"""Shared logic for the properties decided by RepoTrace.tla (B1 trace validation
of recorded backend operations) + the Go-side prefix-state oracle (B4)."""
import json, os, re
import verif

ALL_INV = ["T_SnapshotData", "T_SnapshotIndexed", "T_IndexSound", "KeyAlive", "ContentAddressed", "NonceFresh",
           "NoLeak", "PackUnmixed", "Readable", "ReadOnlyRespected", "NoLockRespected", "ForgetMatchesReport", "NoWaste",
           "PruneStatsOK", "ReaderOrder", "PackNotOverfilled", "SessionComplete", "NoDuplicateUpload",
           "RepairIndexExact"]
ALL_RULES = ["R_PackBeforeIndex", "R_IndexBeforeSnapshot", "R_IndexGoneBeforePackDelete",
             "R_IndexDeleteKeepsNeeded", "R_LastKeyKept", "R_ConfigWriteOnce", "R_SnapshotNotLost", "R_OriginalKept",
             "R_RepairKeepsReadable"]


def write_cfg(invs, rules):
    s = "SPECIFICATION TraceSpec\nINVARIANTS\n" + "".join("  %s\n" % i for i in invs)
    if rules:
        s += "PROPERTIES\n" + "".join("  %s\n" % r for r in rules)
    s += "POSTCONDITION TraceAccepted\nCHECK_DEADLOCK FALSE\n"
    return s


def failing_line(out):
    """Line number (l) of the trace consumed by the violating step, from TLC's error trace."""
    ls = re.findall(r"^/\\ l = (\d+)", out, re.M)
    if not ls:
        return None
    return int(ls[-1]) - 1   # state after consuming line l-1


def validate(ctx, trace_path, invs=None, rules=None, name="trace", max_rounds=8):
    """Run RepoTrace on the ndjson trace.  Returns list of findings
    [{what: invariant/rule, line: n, event: {...}}].  After a violation the offending invariant is
    dropped and the run repeated so that other violations are still reported (TLC stops at the first)."""
    invs = list(invs if invs is not None else ALL_INV)
    rules = list(rules if rules is not None else ALL_RULES)
    lines = open(trace_path).read().splitlines()
    if not lines:
        raise verif.MachineryError("empty trace %s" % trace_path)
    findings = []
    for _ in range(max_rounds):
        r = ctx.tlc("RepoTrace", cfg="RepoTraceRun.cfg",
                    files={"trace.ndjson": trace_path, "RepoTraceRun.cfg": write_cfg(invs, rules)},
                    workers=1, name=name, allow_violation=True, timeout=1800)
        if r["ok"]:
            break
        v = r["violated"]
        if not v or v == ["postcondition"] or "deadlock" in v:
            raise verif.MachineryError("trace not accepted by RepoTrace (binding broken?) see %s" % r["dir"])
        what = v[0]
        ln = failing_line(r["out"])
        evt = None
        if ln and 1 <= ln <= len(lines):
            try:
                evt = json.loads(lines[ln - 1])
            except Exception:
                evt = lines[ln - 1][:200]
        findings.append({"what": what.replace("action:", ""), "line": ln, "event": evt, "dir": r["dir"]})
        w = what.replace("action:", "")
        if w in invs:
            invs.remove(w)
        elif w in rules:
            rules.remove(w)
        else:
            break
    return findings, len(lines), r


def context_of(lines, ln):
    """history seed of the Reset line preceding line ln."""
    for i in range(min(ln, len(lines)) - 1, -1, -1):
        try:
            e = json.loads(lines[i])
        except Exception:
            continue
        if e.get("ev") == "Reset":
            return e
    return {}


DESIGN = {
    # family: (quick positive cfgs, thorough positive cfgs, negative twins: cfg -> expected violated name)
    "backup": (["backup_small"], ["backup"], {"backup_snapfirst": "SnapshotIndexed", "backup_idxfirst": "IndexSound",
                                             "backup_readerfirst": "ReaderOK"}),
    "prune": (["prune_small"], ["prune"], {"prune_delfirst": "IndexSound", "prune_dropidx": "SnapshotIndexed"}),
    "tag": (["tag", "rewrite"], ["tag", "rewrite"], {"tag_removefirst": "TagNeverLoses",
                                                      "rewrite_removefirst": "RewriteNeverLoses"}),
}


def design_runs(ctx, family):
    """Model-check the RepoProc design model of a family: the positive configuration must satisfy all
    invariants and ordering rules, every negative twin (deliberately broken design) must be refuted by TLC.
    A failure here is a machinery error (the design model does not depend on /repo)."""
    quick, thorough, twins = DESIGN[family]
    out = []
    for c in (thorough if ctx.thorough() else quick):
        r = ctx.tlc("RepoProcMC", cfg="RepoProc_%s.cfg" % c, workers=12, name="design_" + c, timeout=2400, deadlock=True)
        out.append({"cfg": c, "states": r["states"], "transitions": r["transitions"], "result": "holds"})
    for c, exp in twins.items():
        r = ctx.tlc("RepoProcMC", cfg="RepoProc_%s.cfg" % c, workers=4, name="twin_" + c, timeout=900, allow_violation=True)
        if exp not in r["violated"]:
            raise verif.MachineryError("negative twin %s was not refuted (expected %s, got %s)" % (c, exp, r["violated"]))
        out.append({"cfg": c, "states": r["states"], "transitions": r["transitions"], "result": "refuted: " + exp})
    if ctx.thorough():
        out.append(protocol_proof(ctx))
    return out


def repair_design_runs(ctx):
    """RepoRepair.tla: repair index / repair packs after environment damage, crash anywhere.  Thorough: the
    positive configuration (one damage step, ~4.3 M states); both tiers: the four broken twins must be refuted."""
    out = []
    if ctx.thorough():
        r = ctx.tlc("RepoRepair", cfg="RepoRepair_small.cfg", workers=12, name="repair_design", timeout=3000)
        out.append({"cfg": "RepoRepair_small", "states": r["states"], "transitions": r["transitions"], "result": "holds"})
    twins = {"ri_delete_first": "NoNewLoss", "ri_keep_missing": "RepairIndexPost", "rp_remove_first": "NoNewLoss",
             "rp_first_blob_only": "NoNewLoss"}
    for c, exp in twins.items():
        r = ctx.tlc("RepoRepair", cfg="RepoRepair_%s.cfg" % c, workers=4, name="repair_twin_" + c, timeout=900, allow_violation=True)
        if exp not in r["violated"]:
            raise verif.MachineryError("negative twin %s was not refuted (expected %s, got %s)" % (c, exp, r["violated"]))
        out.append({"cfg": "RepoRepair_" + c, "states": r["states"], "transitions": r["transitions"], "result": "refuted: " + exp})
    return out


def protocol_proof(ctx):
    """TLAPS proof (spec/RepoProtocol.tla) that the ordering rules checked on recorded steps preserve
    SnapshotIndexed and IndexSound for repositories of any size.  Independent of /repo."""
    import shutil, subprocess
    d = os.path.join(ctx.work, "tlaps")
    os.makedirs(d, exist_ok=True)
    shutil.copy(os.path.join(verif.SPEC, "RepoProtocol.tla"), d)
    try:
        pr = subprocess.run(["tlapm", "--threads", "8", "--cleanfp", "RepoProtocol.tla"], cwd=d, stdout=subprocess.PIPE,
                            stderr=subprocess.STDOUT, text=True, timeout=1500)
    except subprocess.TimeoutExpired:
        raise verif.MachineryError("tlapm timed out on RepoProtocol.tla")
    m = re.search(r"All (\d+) obligations? proved", pr.stdout)
    if not m:
        raise verif.MachineryError("TLAPS proof of RepoProtocol.tla did not go through:\n" + pr.stdout[-1500:])
    return {"cfg": "RepoProtocol.tla (TLAPS)", "obligations": int(m.group(1)), "discharged": int(m.group(1)),
            "result": "Spec => []Inv proved (ordering rules imply SnapshotIndexed and IndexSound, unbounded)"}


def finish_trace(ctx, out, level, invs=None, rules=None, key_prefix=None, extra_cov=None, assumptions=None):
    trace = os.path.join(out, "trace.ndjson")
    findings, nlines, r = validate(ctx, trace, invs, rules)
    lines = open(trace).read().splitlines()
    for f in findings:
        rs = context_of(lines, f["line"] or 0)
        evn = (f["event"] or {}).get("ev") if isinstance(f["event"], dict) else None
        cmd = None
        # enclosing command
        for i in range((f["line"] or 1) - 1, -1, -1):
            try:
                e = json.loads(lines[i])
            except Exception:
                continue
            if e.get("ev") == "Cmd" and e.get("phase") == "begin":
                cmd = e.get("cmd")
                break
            if e.get("ev") == "Reset":
                break
        key = "%s/%s/%s/%s" % (key_prefix or "trace", cmd, f["what"], evn)
        ctx.violate(key, "RepoTrace: %s violated at trace line %s (%s) in command %s, history %s; TLC run in %s" % (
            f["what"], f["line"], json.dumps(f["event"])[:300], cmd, rs.get("history"), f["dir"]),
            {"history": rs.get("history"), "line": f["line"]})
    res = ctx.go_results[-1] if ctx.go_results else {}
    nreset = sum(1 for x in lines if '"ev":"Reset"' in x)
    cov = {
        "states": r.get("states", 0), "transitions": r.get("transitions", 0),
        "traces_validated_against_impl": nreset,
        "trace_lines": nlines,
        "samples": (res.get("samples") or [])[:3] + verif.samples_from(lines, 2),
        "evaluations": res.get("evaluations", 0), "distinct_nontrivial": res.get("distinct_nontrivial", 0),
        "rule": res.get("rule", ""), "counters": res.get("counters", {}),
        "invariants_checked_on_every_recorded_state": invs or ALL_INV,
        "step_rules_checked_on_every_recorded_step": rules if rules is not None else ALL_RULES,
    }
    if extra_cov:
        cov.update(extra_cov)
    a = ["backend operations are atomic and linearized by the harness store (in-memory backend)",
         "projection of stored bytes to abstract state uses restic's own crypto and pack-header decoder (trusted here; checked by C05/C06)",
         "crash = process stops between two backend operations; the storage left behind is the recorded prefix"]
    return verif.finish(ctx, level, cov, (assumptions or []) + a)
