"""C16 Identical content is stored once per repository."""
import concurrent.futures as cf
import json, os, shutil, time
from props import repo_common


def run(ctx):
    # the two drivers (different packages) are built and run side by side
    ex = cf.ThreadPoolExecutor(max_workers=1)
    tags = ["c16", "c44", "common"]   # the same overlay for both (ctx.go_test rewrites overlay.json)
    f2 = ex.submit(ctx.go_test, "cmd/restic", "^TestVerif_C16$", timeout=3000, tags=tags)
    try:
        time.sleep(5)   # the first go command has read the overlay and taken its output directory by now
        out1 = ctx.go_test("internal/repository", "^TestVerif_C16$", timeout=3000, tags=tags)
        return judge(ctx, out1, f2)
    finally:
        ex.shutdown(wait=True)


def judge(ctx, out1, f2):
    # every upload session as one record: header entries of the packs it uploaded (with multiplicity) against
    # what was known before and what SaveBlob reported; judged by Fn_StoredOnce.tla (also sees a blob stored
    # twice inside ONE pack, which the set-valued storage model of RepoTrace.tla cannot)
    n_once, bad, lines = ctx.check_records("Fn_StoredOnce", os.path.join(out1, "recs_once.ndjson"), name="once")
    for i in bad[:50]:
        r = json.loads(lines[i - 1])
        st = r["stored"]
        twice = sorted({b for b in st if st.count(b) > 1})
        again = sorted(set(st) & set(r["old"]))
        what = "stored-twice-in-one-run" if twice else ("known-blob-stored-again" if again else "report-or-accept-mismatch")
        ctx.violate("upload/stored-once/%s/%s" % (r["session"], what),
                    "scenario %s session %s: %d header entries in the packs uploaded by the session, stored twice: %s, already known before: %s, reported new: %d" % (
                        r["scenario"], r["session"], len(st), twice[:5], again[:5], len(r["fresh"])),
                    {"scenario": r["scenario"], "session": r["session"]})
    out2 = f2.result()
    # ctx.go_results is in completion order: put the repository-level result first
    with open(os.path.join(out1, "result.json")) as fh:
        rule1 = json.load(fh)["rule"]
    ctx.go_results.sort(key=lambda r: 0 if r.get("rule") == rule1 else 1)
    # one trace file: repository-level sessions followed by command-level backups
    with open(os.path.join(out2, "trace.ndjson"), "ab") as dst, open(os.path.join(out1, "trace.ndjson"), "rb") as src:
        shutil.copyfileobj(src, dst)
    r1, r2 = ctx.go_results[-2], ctx.go_results[-1]
    r2["evaluations"] += r1["evaluations"]
    r2["distinct_nontrivial"] += r1["distinct_nontrivial"]
    r2["samples"] = (r1.get("samples") or [])[:2] + (r2.get("samples") or [])[:2]
    r2["rule"] = r1["rule"] + " || " + r2["rule"]
    for k, v in (r1.get("counters") or {}).items():
        r2.setdefault("counters", {})[k] = v
    return repo_common.finish_trace(ctx, out2, "model_checking", extra_cov={"upload_sessions_judged_by_Fn_StoredOnce": n_once})
