"""C16 Identical content is stored once per repository."""
import os, shutil
from props import repo_common


def run(ctx):
    out1 = ctx.go_test("internal/repository", "^TestVerif_C16$", timeout=3000, tags=["c16", "c44", "common"])
    out2 = ctx.go_test("cmd/restic", "^TestVerif_C16$", timeout=3000)
    # one trace file: repository-level sessions followed by command-level backups
    with open(os.path.join(out2, "trace.ndjson"), "ab") as dst, open(os.path.join(out1, "trace.ndjson"), "rb") as src:
        shutil.copyfileobj(src, dst)
    r1, r2 = ctx.go_results[-2], ctx.go_results[-1]
    r2["evaluations"] += r1["evaluations"]
    r2["distinct_nontrivial"] += r1["distinct_nontrivial"]
    r2["samples"] = (r1.get("samples") or [])[:2] + (r2.get("samples") or [])[:2]
    r2["rule"] = r1["rule"] + " || " + r2["rule"]
    for k, v in (r1.get("counters") or {}).items():
        r2.setdefault("counters", {})[k] = v
    return repo_common.finish_trace(ctx, out2, "model_checking")
