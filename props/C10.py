"""C10 A full prune leaves no waste and reports accurate statistics."""
from props import repo_common


def run(ctx):
    out = ctx.go_test("cmd/restic", "^TestVerif_C10$", timeout=3000, tags=["c10", "c11", "common"])
    return repo_common.finish_trace(ctx, out, "model_checking")
