"""C10 A full prune leaves no waste and reports accurate statistics."""
import json, os
from props import repo_common


def run(ctx):
    out = ctx.go_test("cmd/restic", "^TestVerif_C10$", timeout=3000, tags=["c10", "c11", "common"])
    # the index after every completed full prune as a reopened repository enumerates it (entries with
    # multiplicity), judged by Fn_PruneIndex.tla: exactly the needed blobs, none twice, packs = indexed packs,
    # reported Blobs.Remain = number of entries
    n_idx, bad, lines = ctx.check_records("Fn_PruneIndex", os.path.join(out, "recs_index.ndjson"), name="index")
    for i in bad[:100]:
        r = json.loads(lines[i - 1])
        blobs = [e[0] for e in r["entries"]]
        twice = sorted({b for b in blobs if blobs.count(b) > 1})
        extra = sorted(set(blobs) - set(r["needed"]))
        lost = sorted(set(r["needed"]) - set(blobs))
        pk = {e[1] for e in r["entries"]}
        if twice:
            what = "blob-twice-in-index"
        elif extra:
            what = "unneeded-blob-in-index"
        elif lost:
            what = "needed-blob-not-in-index"
        elif pk != set(r["packs"]):
            what = "packs-differ-from-indexed-packs"
        else:
            what = "reported-remaining-blobs-wrong"
        ctx.violate("prune-full/after/index/%s" % what,
                    "history %s (%s): after a completed full prune the index has %d entries (reported remaining: %d); blobs listed twice: %s; not needed: %s; needed but missing: %s; packs without entry: %s; entries for missing packs: %s" % (
                        r["history"], r.get("waste"), len(blobs), r["remain"], twice[:5], extra[:5], lost[:5],
                        sorted(set(r["packs"]) - pk)[:5], sorted(pk - set(r["packs"]))[:5]),
                    {"history": r["history"]})
    return repo_common.finish_trace(ctx, out, "model_checking", extra_cov={"full_prune_indexes_judged_by_Fn_PruneIndex": n_idx})
