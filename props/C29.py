"""C29 A repository opens with exactly the passwords of its current keys."""
import json, os
import verif
from props import repo_common, ops_common


def run(ctx):
    design = ops_common.keys_design_runs(ctx)
    p, hs, r = ops_common.gen_histories(ctx, "keys", ctx.pick(16, 300), depth=8)
    out = ctx.go_test("cmd/restic", "^TestVerif_C29$", timeout=3300, env={"VERIF_HISTORIES": p})
    n, bad, lines = ctx.check_records("Fn_Keys", os.path.join(out, "recs.ndjson"))
    for i in bad[:100]:
        rec = json.loads(lines[i - 1])
        opn = rec["op"].split(":")[0].split("!")[0] + ("-crashed" if "!" in rec["op"] else "")
        why = "opens-mismatch" if set(rec["opens"]) != set(rec["expected"]) else ("no-working-key" if not rec["opens"] else ("master-key" if rec["masters"] != 1 or not rec["same_master"] else "key-hint"))
        ctx.violate("keys/%s/%s" % (opn, why), "history %s step %s op %s after backend op %s: opens=%s expected=%s keys=%s masters=%s hint_ok=%s" % (
            rec["history"], rec["step"], rec["op"], rec["seq"], rec["opens"], rec["expected"], rec["nkeys"], rec["masters"], rec["hint_ok"]), rec)
    n2, bad2, lines2 = ctx.check_records("Fn_KeysMany", os.path.join(out, "recs_many.ndjson"), name="many")
    for i in bad2[:100]:
        rec = json.loads(lines2[i - 1])
        ctx.violate("keys/limit/%s/%s-hint/%s" % (rec["kind"], rec["hint"], "not-opened" if not rec["opened"] else "opened-or-foreign-master"),
                    "repository with %s key files: password of kind %s with hint %s: opened=%s same_master=%s" % (
                        rec["nkeys"], rec["kind"], rec["hint"], rec["opened"], rec["same_master"]), rec)
    return repo_common.finish_trace(ctx, out, "model_checking",
                                    extra_cov={"design_model_runs": design, "histories_generated_by_tlc": len(hs), "password_probe_records_checked_by_tlc": n, "key_limit_probe_records_checked_by_tlc": n2,
                                               "records_rejected": len(bad) + len(bad2)})
