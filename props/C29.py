"""C29 A repository opens with exactly the passwords of its current keys."""
import json, os
import verif
from props import repo_common, ops_common


def run(ctx):
    design = ops_common.keys_design_runs(ctx)
    p, hs, r = ops_common.gen_histories(ctx, "keys", ctx.pick(16, 300), depth=8)
    out = ctx.go_test("cmd/restic", "^TestVerif_C29$", timeout=3300, env={"VERIF_HISTORIES": p})
    n, bad, lines = ctx.check_records("Fn_Keys", os.path.join(out, "recs.ndjson"))
    for i in bad[:100]:
        rec = json.loads(lines[i - 1])
        opn = rec["op"].split(":")[0].split("!")[0] + ("-crashed" if "!" in rec["op"] else "")
        why = "opens-mismatch" if set(rec["opens"]) != set(rec["expected"]) else ("no-working-key" if not rec["opens"] else ("master-key" if rec["masters"] != 1 or not rec["same_master"] else "key-hint"))
        ctx.violate("keys/%s/%s" % (opn, why), "history %s step %s op %s after backend op %s: opens=%s expected=%s keys=%s masters=%s hint_ok=%s" % (
            rec["history"], rec["step"], rec["op"], rec["seq"], rec["opens"], rec["expected"], rec["nkeys"], rec["masters"], rec["hint_ok"]), rec)
    return repo_common.finish_trace(ctx, out, "model_checking",
                                    extra_cov={"design_model_runs": design, "histories_generated_by_tlc": len(hs), "password_probe_records_checked_by_tlc": n,
                                               "records_rejected": len(bad)})
