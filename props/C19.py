"""C19 Restore leaves each selected file with exactly the snapshot content."""
import json, os
import verif

KNOWN_KEY = "restore/if-changed/equal-size-and-mtime/different-content"
HARDLINK_KEY = "restore/existing-hardlinked-file/partial-match/matched-blobs-lost"
UNREADABLE_SPARSE_KEY = "restore/sparse/unreadable-existing-file/stale-data-in-zero-regions"
ZERO_LETTERS = set("ZzPSM")      # blobs that contain a run of zeros


def classify(r):
    """stable class key of a rejected record"""
    post = r["post"]
    if (r["mode"] == "if-changed" and r["mtime"] == "equal" and r["kind"] == "file" and r["pre_differs"]
            and r["pre_size"] == r["snap_size"] and r["ok"] and r["untouched"] is False and post["kind"] == "file"
            and post["size"] == r["snap_size"] and not post["bytes_equal"] and r["exp"] == "restored"
            and not r["pre"].startswith(("unreadable-",))):
        return KNOWN_KEY
    snap, segs, pre = r["snap"], post["segs"], r["pre_segs"]
    shape_ok = (r["ok"] and r["exp"] == "restored" and post["kind"] == "file" and post["size"] == r["snap_size"]
                and len(segs) == len(snap) and not post["bytes_equal"])
    if shape_ok and r["pre"].startswith("hardlink-") and r["pre_differs"]:
        # wrong only where the replaced (hard-linked) file had matched the snapshot
        if all(segs[i] == snap[i] or (i < len(pre) and pre[i] == snap[i]) for i in range(len(snap))):
            return HARDLINK_KEY
    if shape_ok and r["pre"].startswith("unreadable-") and r["unpriv"] and r["sparse"]:
        # wrong only inside blobs that contain zeros (the sparse writer skipped them over stale data)
        if all(segs[i] == snap[i] or snap[i] in ZERO_LETTERS for i in range(len(snap))):
            return UNREADABLE_SPARSE_KEY
    d = r["exp"]
    if d == "untouched":
        what = "existing-item-modified"
    elif post["kind"] != "file":
        what = "not-a-regular-file-afterwards"
    elif post["size"] != r["snap_size"]:
        what = "wrong-size"
    else:
        what = "wrong-content"
    return "restore/%s/%s/%s/%s%s" % (r["mode"], r["pre"], "sparse" if r["sparse"] else "dense", what,
                                        "/unprivileged" if r["unpriv"] else "")


def run(ctx):
    vec = ctx.tlc("Fn_RestoreVec", workers=1, timeout=600)
    vpath = os.path.join(vec["dir"], "vec.ndjson")
    ncells = sum(1 for _ in open(vpath))
    out = ctx.go_test("internal/restorer", "^TestVerif_C19$", timeout=3000, env={"VERIF_VECTORS": vpath})
    n, bad, lines = ctx.check_records("Fn_Restore", os.path.join(out, "recs.ndjson"), shard=2500)
    keys = {}
    for i in bad:
        r = json.loads(lines[i - 1])
        k = classify(r)
        keys.setdefault(k, []).append(r)
    for k, rs in sorted(keys.items()):
        r = rs[0]
        if k == HARDLINK_KEY:
            detail = ("existing hard-linked file that partially matches the snapshot: the blobs that matched the old file are skipped "
                      "although createFile replaced the file by a fresh one -> %d file(s) with zeros in those ranges, restore reports success; "
                      "e.g. --overwrite %s sparse=%s, snapshot blobs %s, pre-existing %s (pre segs %s) -> post segs %s"
                      % (len(rs), r["mode"], r["sparse"], "".join(r["snap"]), r["pre"], "".join(r["pre_segs"]), "".join(r["post"]["segs"])))
        elif k == UNREADABLE_SPARSE_KEY:
            detail = ("unprivileged restore --sparse over an existing unreadable (mode 0000) file: it cannot be verified, is reopened after "
                      "ResetPermissions without truncation and the sparse writer skips zero runs -> stale bytes survive in %d file(s), "
                      "restore reports success; e.g. --overwrite %s, snapshot blobs %s, pre-existing %s -> post segs %s"
                      % (len(rs), r["mode"], "".join(r["snap"]), r["pre"], "".join(r["post"]["segs"])))
        elif k == KNOWN_KEY:
            # the mtime of an untouched file still equals the snapshot's: the content check was skipped
            detail = ("--overwrite if-changed left %d file(s) with different content but equal size and mtime unchanged "
                      "(documented: size+mtime are trusted); e.g. snapshot blobs %s, pre-existing class %s, sparse=%s"
                      % (len(rs), "".join(r["snap"]) or "<empty>", r["pre"], r["sparse"]))
        else:
            detail = ("restore --overwrite %s sparse=%s delete=%s unpriv=%s: snapshot blobs %s (size %d), pre-existing %s (mtime %s, size %d) "
                      "-> post kind=%s size=%d segs=%s bytes_equal=%s untouched=%s, restore ok=%s; demanded: %s (%d records of this class)"
                      % (r["mode"], r["sparse"], r["delete"], r["unpriv"], "".join(r["snap"]) or "<empty>", r["snap_size"], r["pre"], r["mtime"],
                         r["pre_size"], r["post"]["kind"], r["post"]["size"], "".join(r["post"]["segs"]), r["post"]["bytes_equal"],
                         r["untouched"], r["ok"], r["exp"], len(rs)))
        ctx.violate(k, detail, r)
    res = ctx.go_results[-1]
    cov = {"evaluations": n, "distinct_nontrivial": res["distinct_nontrivial"], "rule": res["rule"],
           "samples": verif.samples_from(lines, 3), "cells_in_table": ncells, "records_checked_by_tlc": n,
           "records_rejected": len(bad), "counters": res.get("counters", {}), "exhaustive": ctx.thorough()}
    return verif.finish(ctx, "exploration", cov,
                        ["Fn_Restore.tla states the demanded outcome per cell (restored / untouched / either) from the statement and doc/050_restore.rst; TLC emits the cell table and evaluates RecOK on every recorded execution",
                         "file bytes are abstracted by the harness to one letter per snapshot blob (letter iff the bytes at the blob's offset equal the blob) plus exact sizes and a whole-file byte comparison",
                         "'successful restore' = RestoreTo returned nil and the Error callback was never called during the run; runs with errors only have to leave untouched what the mode protects",
                         "unprivileged cells run with effective uid/gid 65534 (seteuid on all threads); scratch file system is the sandbox's ext4",
                         "if-newer with a directory or symlink in the way: both outcomes accepted (documentation speaks of files)",
                         "quick tier replays a seeded quarter of the systematic groups (one group = all snapshot files under one pre-state/mtime/mode/sparse/delete/privilege combination) plus every if-changed/equal-mtime/same-size-different-content group and 24 mixed groups"])
