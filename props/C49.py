"""C49 User-supplied durations, sizes and counts parse totally and exactly."""
import json, os
import verif

PKGS = ["internal/data", "internal/ui", "internal/options", "internal/backend", "cmd/restic"]
PARSER = {"dur": "parse-duration", "round": "duration-roundtrip", "bytes": "parse-bytes", "count": "forget-policy-count",
          "opt-parse": "options-parse", "opt-apply": "options-apply", "subset": "read-data-subset", "shell": "shell-split"}


def _num_class(s):
    digits = max((len(x) for x in "".join(c if c.isdigit() else " " for c in s).split()), default=0)
    return "overflow" if digits >= 19 else "plain"


def _key(r):
    k = r["kind"]
    if r["out"] == "panic":
        return "%s/%s-panics" % (PARSER[k], _num_class(json.dumps(r.get("s", r.get("value", "")))))
    nc = "long-number" if _num_class(json.dumps(r.get("s", r.get("value", "")))) == "overflow" else "plain"
    return "%s/%s/%s" % (PARSER[k], "wrongly-accepted-or-inexact" if r["out"] == "ok" else "wrongly-rejected", nc)


def run(ctx):
    allp = os.path.join(ctx.work, "recs_all.ndjson")
    results = []
    with open(allp, "w") as fh:
        for pkg in (os.environ.get("VERIF_C49_PKGS", "").split() or PKGS):   # (development aid: subset of the drivers)
            out = ctx.go_test(pkg, "^TestVerif_C49$", timeout=2400)
            results.append(ctx.go_results[-1])
            fh.write(open(os.path.join(out, "recs.ndjson")).read())
    n, bad, lines = ctx.check_records("Fn_Parsers", allp, shard=ctx.pick(4000, 20000), timeout=3000)
    bykey, first = {}, {}
    for i in bad:
        r = json.loads(lines[i - 1])
        k = _key(r)
        bykey[k] = bykey.get(k, 0) + 1
        # minimal failing input per class
        inp = r.get("s", r.get("value", json.dumps(r.get("inp", ""))))
        if k not in first or (len(inp), inp) < (len(first[k][0]), first[k][0]):
            first[k] = (inp, r)
    for k in sorted(first):
        inp, r = first[k]
        ctx.violate(k, "%s: input %r -> %s %s (Fn_Parsers!RecOK false; %d inputs of this class, this is the shortest)" % (
            PARSER[r["kind"]], inp, r["out"], {x: r[x] for x in r if x not in ("kind", "s", "out", "inp")}, bykey[k]), r)
    counters = {}
    for res in results:
        counters.update(res.get("counters", {}))
    kinds = {}
    for l in lines:
        k = json.loads(l)["kind"]
        kinds[k] = kinds.get(k, 0) + 1
    cov = {"evaluations": n, "distinct_nontrivial": sum(r["distinct_nontrivial"] for r in results),
           "rule": " || ".join(r["rule"] for r in results), "samples": verif.samples_from(lines, 3),
           "records_checked_by_tlc": n, "records_rejected": len(bad), "rejected_by_class": bykey,
           "records_by_parser": kinds, "counters": counters, "exhaustive": ctx.thorough()}
    return verif.finish(ctx, "exploration", cov, [
        "oracle = grammars/denotations in Fn_Parsers.tla written from the help texts and the manual; numbers are digit strings, ranges decided by digit-string comparison; TLC evaluates RecOK on every recorded call",
        "strings whose meaning the documentation leaves open (explicit '+', '-0', a duration unit given twice, -2^63, Go integer literals with prefixes/underscores/leading zeros for extended options, sizes without unit or with b/B for --read-data-subset, command strings mixing quotes/backslashes inside words) may be rejected or accepted with the candidate value; a panic is never accepted",
        "products value x unit are checked through quotients result/2^k computed by the driver with math/big; percentages are compared through Go's shortest decimal rendering of the parsed float (inputs have <= 8 significant digits)",
        "alphabets as listed in the rule texts (digits 0 1 9 (2 5 6), signs, unit letters, separators, blank); time.Duration option values from a literal table",
    ])
