"""C46 Reading a mounted file returns exactly the requested byte range."""
import json, os
import verif


def expected(content, off, n):
    return content[off:off + n] if off < len(content) else []


def bad_reads(r):
    """(diagnosis only) the reads of a rejected record that differ from the requested range."""
    out = []
    if r["kind"] == "small":
        content = [b for bl in r["blobs"] for b in bl]
        for rd in r["reads"]:
            if rd["err"] or rd["d"] != expected(content, rd["o"], rd["n"]):
                out.append((rd, expected(content, rd["o"], rd["n"])))
    else:
        total, m = sum(r["sizes"]), r["m"]
        for rd in r["reads"]:
            L = 0 if rd["o"] >= total else min(rd["n"], total - rd["o"])
            exp = [[rd["o"] % m, L]] if L else []
            if rd["err"] or rd["runs"] != exp:
                out.append((rd, exp))
    return out


def classify(r, rd, exp):
    if rd["err"]:
        return "fuse-read/%s" % ("panic" if rd["err"].startswith("panic") else "error")
    total = sum(r["sizes"])
    got = rd["d"] if r["kind"] == "small" else rd["runs"]
    glen = len(got) if r["kind"] == "small" else sum(x[1] for x in got)
    elen = len(exp) if r["kind"] == "small" else sum(x[1] for x in exp)
    where = "past-eof" if rd["o"] >= total else ("to-eof" if rd["o"] + rd["n"] >= total else "inside")
    what = "short" if glen < elen else ("long" if glen > elen else "wrong-bytes")
    extra = "/empty-blob" if 0 in r["sizes"] else ""
    return "fuse-read/%s/%s%s%s" % (what, where, "/concurrent" if r.get("conc") else "", extra)


def run(ctx):
    out = ctx.go_test("internal/fuse", "^TestVerif_C46$", timeout=2400)
    n, bad, lines = ctx.check_records("Fn_FuseRead", os.path.join(out, "recs.ndjson"), shard=ctx.pick(400, 1000), timeout=1500)
    seen = {}
    for i in bad:
        r = json.loads(lines[i - 1])
        br = bad_reads(r)
        if not br:
            ctx.violate("fuse-read/rejected-record", "Fn_FuseRead!RecOK rejected the record of layout %s" % r["sizes"], {"sizes": r["sizes"]})
            continue
        for rd, exp in br[:50]:
            key = classify(r, rd, exp)
            seen[key] = seen.get(key, 0) + 1
            if seen[key] > 1:
                continue
            ctx.violate(key, "file with blob sizes %s (declared size %s%s): Read(offset=%d, size=%d) returned %s, the range is %s %s" % (
                r["sizes"], r["declared"], ", 8 concurrent readers" if r.get("conc") else "", rd["o"], rd["n"],
                rd.get("d", rd.get("runs")), exp, rd["err"]), {"sizes": r["sizes"], "declared": r["declared"], "kind": r["kind"], "read": rd})
    res = ctx.go_results[-1]
    smp = []
    for l in (lines[0], lines[len(lines) // 2], lines[-1]):
        r = json.loads(l)
        smp.append({"kind": r["kind"], "sizes": r["sizes"], "declared": r["declared"], "reads": len(r["reads"]), "a_read": r["reads"][len(r["reads"]) // 2]})
    cov = {"evaluations": res["counters"].get("reads", 0), "distinct_nontrivial": res["distinct_nontrivial"], "rule": res["rule"],
           "samples": smp, "records_checked_by_tlc": n, "records_rejected": len(bad), "rejected_by_class": seen,
           "counters": res.get("counters", {}), "exhaustive": True}
    return verif.finish(ctx, "exploration", cov,
                        ["Fn_FuseRead.tla (content = concatenation of the blobs; Read(off,n) = content[off, min(off+n,len)), empty past the end) is the oracle; TLC evaluates RecOK on one record per opened file carrying all its reads",
                         "handler level: real file.Open + openFile.Read called like the FUSE server does (response buffer of capacity req.Size); no kernel mount",
                         "small layouts: every layout of <= 4 blobs with sizes 0..3 (thorough: <= 5 blobs with sizes 0..4), distinct and repeated blobs, all (offset,size) <= len+2; bytes passed to TLC verbatim",
                         "large layouts (<= 10 blobs up to 3000 bytes, and 512 KiB..2 MiB blobs): file byte p is p%251 and the response is passed to TLC as lossless run encoding",
                         "declared node sizes: exact, zero, larger, smaller (Open corrects it); concurrent case: 8 goroutines on one handle with a 4000-byte blob cache"])
