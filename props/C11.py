"""C11 An interrupted or failed backup leaves the repository consistent."""
from props import repo_common


def run(ctx):
    out = ctx.go_test("cmd/restic", "^TestVerif_C11$", timeout=3000)
    return repo_common.finish_trace(ctx, out, "model_checking")
