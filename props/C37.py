"""C37 Backend concurrency limits hold and lock operations are never blocked.

Sema.tla (design model of sema.connectionLimitedBackend: token semaphore, freeze gate, lock-file bypass) is
model-checked exhaustively (Limit, FrozenNoStart, LockNeverBlocked; the context of a held-back operation may be
cancelled), five negative twins must be refuted (among them: a cancelled waiter releases a token), TLC
enumerates / samples schedules of the scheduler view, the Go driver replays them into the real wrapper over a gated
fake backend, and TLC judges every recorded event trace with SemaProps!RecOK."""
import concurrent.futures as cf
import json, os, re
import verif

TWINS = {"twin_token_after_gate": "FrozenNoStart", "twin_limit_locks": "LockNeverBlocked",
         "twin_release_twice": "Limit", "twin_no_gate": "FrozenNoStart",
         "twin_cancel_releases": "Limit"}


def cfg_consts(cfg):
    txt = open(os.path.join(verif.SPEC, cfg)).read()
    return int(re.search(r"\bK = (\d+)", txt).group(1)), int(re.search(r"\bN = (\d+)", txt).group(1))


def scheds_of(res):
    out = set()
    for m in re.finditer(r'^<<"SCHED", <<(.*?)>>>>\s*$', res["out"], re.M):
        out.add(tuple(int(x) for x in re.findall(r"\d+", m.group(1))))
    return sorted(out)


def run(ctx):
    th = ctx.thorough()
    if not th:
        os.environ["JAVA_TOOL_OPTIONS"] = (os.environ.get("JAVA_TOOL_OPTIONS", "") + " -XX:TieredStopAtLevel=1 -XX:ParallelGCThreads=2").strip()
    jobs = {}
    ex = cf.ThreadPoolExecutor(max_workers=4 if th else 8)
    for c in (["schedA", "schedB"] if th else ["schedA"]):
        jobs["sched:" + c] = ex.submit(ctx.tlc, "Sema", cfg="Sema_%s.cfg" % c, workers=4 if th else 2,
                                       name="gen_" + c, timeout=3000, heap="4g" if th else "2g")
    jobs["sim:schedS"] = ex.submit(ctx.tlc, "Sema", cfg="Sema_schedS.cfg", workers=4 if th else 2, name="gen_schedS", heap="2g",
                                   simulate="num=%d" % (2500 if th else 200), depth=100, deadlock=False,
                                   extra=["-seed", str(ctx.seed)], timeout=3000)
    for c in (["design_quick", "design_cancel", "design", "design_cancel_big"] if th else ["design_quick", "design_cancel"]):
        jobs["design:" + c] = ex.submit(ctx.tlc, "Sema", cfg="Sema_%s.cfg" % c, workers=8 if th else 3,
                                        name="design_" + c, timeout=3000, heap="6g" if th else "2g")
    for c in TWINS:
        jobs["twin:" + c] = ex.submit(ctx.tlc, "Sema", cfg="Sema_%s.cfg" % c, workers=1, name=c,
                                      timeout=900, allow_violation=True, heap="1g")
    vec = os.path.join(ctx.work, "schedules.ndjson")
    nsched = {}
    with open(vec, "w") as fh:
        for k, f in jobs.items():
            kind, c = k.split(":")
            if kind not in ("sched", "sim"):
                continue
            r = f.result()
            kk, nn = cfg_consts("Sema_%s.cfg" % c)
            ss = scheds_of(r)
            if not ss:
                raise verif.MachineryError("TLC produced no schedules for %s, see %s" % (c, r["dir"]))
            nsched[c] = len(ss)
            cap = 30000 if th else 1200
            if kind == "sched" and len(ss) > cap:
                import random
                ss = random.Random(ctx.seed).sample(ss, cap)   # seeded sample of the exhaustive set
                nsched[c + "_replayed"] = len(ss)
            for s in ss:
                fh.write(json.dumps({"src": c, "k": kk, "n": nn, "sched": list(s)}) + "\n")
    out = ctx.go_test("internal/backend/sema", "^TestVerif_C37$", timeout=2400, env={"VERIF_VECTORS": vec})
    n, bad, lines = ctx.check_records("SemaProps", os.path.join(out, "recs.ndjson"), shard=4000 if not th else 15000)
    if bad:
        sub = [lines[i - 1] for i in bad[:300]]
        parts = {}
        for op in ("RecLimit", "RecFrozen", "RecLocks"):
            wrapper = ("---- MODULE C37Why ----\nEXTENDS SemaProps, Json, TLC\nRecs == ndJsonDeserialize(\"recs.ndjson\")\n"
                       "ASSUME PrintT(\"WHY \" \\o ToString({k \\in 1..Len(Recs) : ~%s(Recs[k])}))\nVARIABLE x\nInit == x = 0\nNext == x' = x\n"
                       "Spec == Init /\\ [][Next]_x\n====\n" % op)
            r = ctx.tlc("C37Why", cfg="C37Why.cfg", files={"C37Why.tla": wrapper, "C37Why.cfg": "SPECIFICATION Spec\n",
                                                            "recs.ndjson": "\n".join(sub) + "\n"},
                        workers=1, deadlock=False, name="why_" + op)
            for v in re.findall(r'^"WHY (.*)"\s*$', r["out"], re.M):
                for k in re.findall(r"\d+", v):
                    parts.setdefault(int(k), []).append(op)
        names = {"RecLimit": "limit-exceeded", "RecFrozen": "started-while-frozen", "RecLocks": "lock-op-blocked"}
        for j, ln in enumerate(sub[:200]):
            r = json.loads(ln)
            why = [names[o] for o in parts.get(j + 1, [])] or ["rejected"]
            ctx.violate("c37/%s/%s" % (r["mode"], "+".join(why)),
                        "real sema backend run rejected by SemaProps!RecOK (%s): mode=%s src=%s n=%d sched=%s ops=%s" % (
                            ",".join(why), r["mode"], r["src"], r["n"], r["sched"], r["ops"]), r)
    design = []
    for k, f in jobs.items():
        kind, c = k.split(":")
        if kind == "design":
            r = f.result()
            design.append({"cfg": c, "states": r["states"], "transitions": r["transitions"], "result": "holds"})
        elif kind == "twin":
            r = f.result()
            if TWINS[c] not in r["violated"]:
                raise verif.MachineryError("negative twin %s was not refuted (expected %s, got %s)" % (c, TWINS[c], r["violated"]))
            design.append({"cfg": c, "states": r["states"], "transitions": r["transitions"], "result": "refuted: " + TWINS[c]})
    ex.shutdown()
    gres = ctx.go_results[-1] if ctx.go_results else {}
    cov = {"states": sum(d["states"] for d in design if d["result"] == "holds"),
           "transitions": sum(d["transitions"] for d in design if d["result"] == "holds"),
           "traces_validated_against_impl": n, "design_model_runs": design, "schedules_generated_by_tlc": nsched,
           "records_checked_by_tlc": n, "records_rejected": len(bad),
           "evaluations": gres.get("evaluations", 0), "distinct_nontrivial": gres.get("distinct_nontrivial", 0),
           "rule": gres.get("rule", ""), "counters": gres.get("counters", {}),
           "samples": (gres.get("samples") or [])[:2] + verif.samples_from(lines, 2)}
    return verif.finish(ctx, "model_checking", cov, [
        "an operation 'starts' when the wrapper admits it (typeDependentLimit returns); the replay fires Freeze only when every goroutine is parked, so an operation admitted just before Freeze() returns cannot reach the wrapped backend afterwards (in free-running runs only the limit is checked)",
        "quiescence is detected from goroutine states (blocked on channel / mutex); the wrapped backend stamps start and end of every call with a global atomic clock",
        "where the real wrapper resolves a race (who gets a freed token or the freeze mutex) differently from the model behaviour that produced the schedule, the replay releases another parked operation (counted as adapted_events)",
        "a context is cancelled only while the wrapper holds the operation back (queued for a slot or at the freeze gate; replayed from the schedules: at most one cancellation per schedule); the model allows a cancelled waiter to give up at once (no token taken or returned) or to stay queued, pass token and gate and return without calling the wrapped backend",
        "model bounds: <= 6 operations, 1-2 connections, <= 2 freezes, <= 2 cancellations; stress runs: 1-3 connections, up to 28 operations, all 4 operation kinds x 6 file types"])
