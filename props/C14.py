"""C14 Readers never see a snapshot whose data is not yet indexed."""
from props import repo_common


def run(ctx):
    design = repo_common.design_runs(ctx, "backup")
    out = ctx.go_test("cmd/restic", "^TestVerif_C14$", timeout=3000, tags=["c14", "c11", "common"])
    return repo_common.finish_trace(ctx, out, "model_checking", extra_cov={"design_model_runs": design})
