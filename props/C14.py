"""C14 Readers never see a snapshot whose data is not yet indexed."""
import concurrent.futures as cf
import json, os
from props import repo_common


def run(ctx):
    # the design model runs (TLC, independent of /repo) go on while the Go driver runs
    ex = cf.ThreadPoolExecutor(max_workers=1)
    fdesign = ex.submit(repo_common.design_runs, ctx, "backup")
    try:
        out = ctx.go_test("cmd/restic", "^TestVerif_C14$", timeout=3000, tags=["c14", "c11", "common"])
        return judge(ctx, out, fdesign)
    finally:
        ex.shutdown(wait=True)


def judge(ctx, out, fdesign):
    # the long-running reader (mount): one record per run of the real mount code under a tick schedule; TLC
    # computes from the reader's own listing steps which index it holds when it serves and requires that index to
    # cover every snapshot the mountpoint showed, and that the real code could read every one of them
    n_mount, bad, lines = ctx.check_records("Fn_MountView", os.path.join(out, "recs_mount.ndjson"), name="mount")
    for i in bad[:100]:
        r = json.loads(lines[i - 1])
        idx_at = None
        what, detail = "listed-snapshot-not-in-loaded-index", ""
        first = {e["b"]: e["p"] for e in r["index"]}
        blobs = {s["s"]: s["blobs"] for s in r["snaps"]}
        for st in r["steps"]:
            if st["k"] == "listindex":
                idx_at = st["at"]
            if st["k"] != "serve":
                continue
            missing = {s: [b for b in blobs.get(s, []) if idx_at is None or first.get(b, 1 << 60) > idx_at][:3] for s in st["shown"]}
            missing = {s: m for s, m in missing.items() if m}
            if missing or st["failed"]:
                if not missing:
                    what = "shown-snapshot-unreadable"
                detail = "index listed at writer op %s; shown %s; blobs missing from that index %s; unreadable %s" % (
                    idx_at, st["shown"], missing, st["failed"])
                break
        ctx.violate("reader/mount/%s" % what,
                    "scenario %s, schedule %s (tick -> writer point %s): steps %s: %s" % (
                        r["scenario"], r.get("label"), r["sched"],
                        [(s["k"], s["at"]) for s in r["steps"]], detail),
                    {"scenario": r["scenario"], "reader": "mount", "label": r.get("label"), "schedule": r["sched"]})
    design = fdesign.result()
    return repo_common.finish_trace(ctx, out, "model_checking",
                                    extra_cov={"design_model_runs": design, "mount_runs_judged_by_Fn_MountView": n_mount})
