"""C02 Loaded data always matches its content address."""
import concurrent.futures as cf
import json, os
import verif


def key_of(r):
    op = r["op"]
    if r.get("panic"):
        return "address/%s/panic" % op
    if op == "stored":
        if r["ftype"] != "config" and not r["name_ok"]:
            return "address/stored/%s/name-is-not-hash-of-bytes" % r["ftype"]
        return "address/stored/pack/blob-id-is-not-hash-of-plaintext"
    if op == "save":
        if r["save_err"]:
            return "address/save/%s/failed" % r["what"]
        if not r["id_ok"]:
            return "address/save/%s/returned-id-is-not-hash" % r["what"]
        return "address/save/%s/not-stored" % r["what"]
    if op == "read":
        if r["api"] == "CheckPack" and any((not x["err"]) and (not x["hash_ok"]) for x in r["results"]):
            return "address/read/CheckPack/%s/mismatch-passes-verification" % r["target"]
        if any((not x["err"]) and (not x["hash_ok"]) for x in r["results"]):
            return "address/read/%s/%s/wrong-content-handed-out" % (r["api"], r["target"])
        return "address/read/%s/%s/undisturbed-read-failed" % (r["api"], r["target"])
    return "address/unknown-record"


def run(ctx):
    # short TLC runs on a shared machine: no C2 compiler threads (quick tier), few GC threads
    os.environ["JAVA_TOOL_OPTIONS"] = (os.environ.get("JAVA_TOOL_OPTIONS", "") + (" -XX:TieredStopAtLevel=1" if not ctx.thorough() else "")
                                       + " -XX:ParallelGCThreads=2").strip()
    # design model of a verified, retried content-addressed read: exhaustive, plus the refuted negative twin
    maxa = ctx.pick(2, 3)
    with cf.ThreadPoolExecutor(max_workers=4) as ex:
        warm = ex.submit(ctx.go_test, "internal/repository", "^TestVerif_C02Build$", timeout=1500, out=os.path.join(ctx.work, "gobuild"))
        fd = ex.submit(ctx.tlc, "ContentAddrRead", cfg="ContentAddrRead.cfg", deadlock=False, name="design")
        ft = ex.submit(ctx.tlc, "ContentAddrRead", cfg="ContentAddrRead_twin.cfg", deadlock=False, allow_violation=True, name="twin")
        # fault scripts enumerated by TLC
        fv = ex.submit(ctx.tlc, "Fn_ContentAddrVec", cfg="Fn_ContentAddrVec.cfg", deadlock=False, defines={"MaxAttempts": str(maxa)}, name="vectors")
        d, tw, v = fd.result(), ft.result(), fv.result()
        warm.result()
        ctx.go_results.clear()
    if "Safe" not in tw["violated"]:
        raise verif.MachineryError("negative twin (one read attempt left unverified) was not refuted by TLC")
    vec = os.path.join(v["dir"], "vectors.ndjson")
    nvec = sum(1 for _ in open(vec))
    if nvec < 56:
        raise verif.MachineryError("TLC produced only %d fault scripts" % nvec)
    out = ctx.go_test("internal/repository", "^TestVerif_C02$", timeout=3000, env={"VERIF_VECTORS": vec})
    n, bad, lines = ctx.check_records("Fn_ContentAddr", os.path.join(out, "recs.ndjson"), shard=ctx.pick(1500, 4000))
    seen = set()
    for i in bad[:500]:
        r = json.loads(lines[i - 1])
        key = key_of(r)
        if key in seen:
            continue
        seen.add(key)
        ctx.violate(key, "Fn_ContentAddr!RecOK false: %s" % json.dumps(r)[:600], r)
    res = ctx.go_results[-1]
    cov = {"evaluations": n, "distinct_nontrivial": res["distinct_nontrivial"], "rule": res["rule"],
           "samples": verif.samples_from(lines, 3), "records_checked_by_tlc": n, "records_rejected": len(bad),
           "fault_scripts_from_tlc": nvec, "max_attempts_in_scripts": maxa,
           "design_states": d["states"], "design_transitions": d["transitions"], "negative_twin_refuted": tw["violated"],
           "counters": res.get("counters", {}), "exhaustive": True}
    return verif.finish(ctx, "fault_enumeration", cov, [
        "Fn_ContentAddr.tla states the content-address relation (name = SHA-256 of stored bytes for pack/index/snapshot/lock/key files, blob id = SHA-256 of the decrypted, decompressed plaintext) and the read rule (whatever is handed out without an error has the requested hash; an undisturbed read succeeds); ContentAddrRead.tla is the design model of a verified, retried read, model-checked exhaustively with a refuted negative twin (one attempt left unverified)",
        "SHA-256 is abstracted: the Go driver computes it with crypto/sha256 and its own decrypt/decompress, independently of restic's checks, and records booleans; served contents are classes good/altered/truncated/extended/empty/foreign/error, 'foreign' = a valid file of the same kind with the same blob layout (stale or misdirected bytes)",
        "fault scripts are all sequences over the 7 classes of length <= 2 (thorough: <= 3), enumerated by TLC; attempt i of a read of the target is served script[i], the last class repeats; served through kit.Store.ReadFault",
        "LoadUnpacked returns decoded bytes: 'hash_ok' there means the returned document equals the document saved under that id; the retry policy itself (how many attempts) is not judged, only what is handed out",
        "checkPack (check --read-data) hands out a verdict instead of bytes: ending without an error counts as 'what was read matches its address' and is judged against the driver's own verification of the stored pack and the class of bytes served last; stored states: sound packs, and an intact pack holding one blob under an id that is not the hash of its plaintext (written with the extra verification off and a caller-supplied id) - every read of that blob has to report an error",
        "cache states: none / warm / warm with the cached file corrupted on disk, for the file kinds the cache keeps (snapshot, index, tree packs), scripts of length <= 2",
    ])
