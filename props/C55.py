"""C55 Backups that skip source items are reported as incomplete (exit status 3 / 0)."""
import json, os, subprocess, time
import verif
from props import uploader_common


def start_build(ctx):
    """Start building the restic binary of the working tree under test (the error -> exit status switch is inline
    in main()); runs while TLC enumerates the scripts."""
    out = os.path.join(ctx.work, "restic-bin")
    e = dict(os.environ)
    e.update(verif.GOENV)
    pr = subprocess.Popen(["go", "build", "-o", out, "./cmd/restic"], cwd=verif.REPO, env=e, stdout=subprocess.PIPE,
                          stderr=subprocess.STDOUT, text=True, errors="replace")
    return pr, out, time.time()


def finish_build(build):
    pr, out, t = build
    try:
        stdout, _ = pr.communicate(timeout=1500)
    except subprocess.TimeoutExpired:
        pr.kill()
        raise verif.MachineryError("go build ./cmd/restic timed out")
    verif.log("[go build cmd/restic] rc=%d %.1fs" % (pr.returncode, time.time() - t))
    if pr.returncode != 0 or not os.path.exists(out):
        raise verif.MachineryError("go build ./cmd/restic failed:\n" + (stdout or "")[-2000:])
    return out


def run(ctx):
    build = start_build(ctx)
    try:
        gen = ctx.tlc("Fn_BackupStatusGen", cfg="Fn_BackupStatusGen.cfg", workers=1, name="gen", timeout=600, deadlock=False)
    except BaseException:
        build[0].kill()
        raise
    vec = os.path.join(gen["dir"], "vec.ndjson")
    if not os.path.exists(vec):
        build[0].kill()
        raise verif.MachineryError("TLC wrote no vec.ndjson in %s" % gen["dir"])
    nscripts = sum(1 for _ in open(vec))
    binary = finish_build(build)
    out = ctx.go_test("cmd/restic", "^TestVerif_C55$", timeout=5400, env={"VERIF_VECTORS": vec, "VERIF_RESTIC_BIN": binary})
    n, bad, lines = ctx.check_records("Fn_BackupStatus", os.path.join(out, "recs.ndjson"))
    for i in bad[:200]:
        r = json.loads(lines[i - 1])
        mode = {"binary": "binary", "inproc-skip": "inproc-skip-if-unchanged"}.get(r["mode"], "inproc")
        what = "status%d" % r["status"]
        if r.get("panic"):
            what = "panic@%s" % (r.get("site") or "unknown")
        elif not r["saved"] and not r.get("skipped"):
            what = "no-snapshot"
        key = "backup-status/%s/%s/%s" % (mode, r["key"] or "no-fault", what)
        ctx.violate(key, "backup run (%s, script %d): delivered faults [%s] -> status %d, snapshot saved=%s skipped=%s, items in snapshot %s, extra paths %d, content_ok=%s; err=%s %s (Fn_BackupStatus!RecOK false)"
                    % (r["mode"], r["script"], r["key"], r["status"], r["saved"], r.get("skipped"), r["insnap"], r["extra"], r["content_ok"], r["err"][-160:], r["detail"]), r)
    res = ctx.go_results[-1]
    cnt = res.get("counters", {})
    if not ctx.violations:  # (a run cut short by crashes of the backup command is a verdict, not a machinery problem)
        if cnt.get("runs_binary", 0) < 3:
            raise verif.MachineryError("only %d runs of the restic binary" % cnt.get("runs_binary", 0))
        if res["distinct_nontrivial"] < 20:
            raise verif.MachineryError("only %d runs with a delivered fault" % res["distinct_nontrivial"])
    samples = verif.samples_from(lines, 3)
    cov = {"evaluations": n, "distinct_nontrivial": res["distinct_nontrivial"], "rule": res["rule"], "samples": samples,
           "scripts_enumerated_by_tlc": nscripts, "records_checked_by_tlc": n, "records_rejected": len(bad),
           "counters": cnt, "exhaustive": False,
           "selection": "quick: per (item kind, fault class) of the alphabet one single-fault script with the fault below the target directory and one with the fault on a second command-line target (seeded choice of shape/position, one of the two with a 3.1 MB file; a run whose read fault arrives after the first 512 KiB of the large file - chunks of it are still being saved asynchronously then - is repeated 7 times (thorough: 3) with other contents of that file: random data with other chunk boundaries, and 8.3 MiB of constant data stored uncompressed with the minimal pack size, i.e. one maximal chunk that is a pack of its own), 3 clean and 20 pair scripts; a quarter of the scripts additionally on top of a parent snapshot, a quarter additionally with --skip-if-unchanged on top of a parent taken under the same faults; thorough: all clean scripts, seeded 1/3 of the single-fault and 1/10 of the pair scripts (different seeds cover different parts)"}
    cov["upload_session_design_runs"] = uploader_common.design_runs(ctx)
    return verif.finish(ctx, "fault_enumeration", cov, [
        "faults are injected by a wrapping fs.FS behind the existing backupFSTestHook (in-process) and by permission bits / missing targets for an unprivileged run of the binary built from the tree",
        "a fault counts only when the file system really returned it to restic (delivered); items below a faulted directory are never reached",
        "read faults by call number: the k-th Read call (k = 1..3) on the open file answers EIO once or persistently while the wrapper serves the file whole or in short pieces (64 bytes per Read for small files, 64 KiB for the 3.1 MB file); every Read call that answered EIO is a delivered fault",
        "type changes on the real file system: the wrapper exchanges the item (symlink to a readable item of the old kind outside the source tree, dangling symlink, file<->directory) inside MakeReadable, i.e. after restic listed and lstat()ed it and before it reopens it for reading; such an item was not read as listed and must be reported",
        "--skip-if-unchanged runs that create no snapshot are judged by status and by the contents of the parent snapshot (which the run declared identical)",
        "ENOENT when opening a file for reading after a successful lstat (vanish_late) is accepted with status 0 or 3: the statement does not classify it",
        "in-process status = the switch of main() applied to the error returned by runBackup (identity comparison with ErrInvalidSourceData); the real exit status is observed on the binary subset",
        "the first target directory itself is never faulted (a backup without any readable item saves no snapshot and is outside the statement)"])
