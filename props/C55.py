"""C55 Backups that skip source items are reported as incomplete (exit status 3 / 0)."""
import json, os, subprocess, time
import verif


def build_restic(ctx):
    """The restic binary of the working tree under test (the error -> exit status switch is inline in main())."""
    out = os.path.join(ctx.work, "restic-bin")
    e = dict(os.environ)
    e.update(verif.GOENV)
    t = time.time()
    try:
        pr = subprocess.run(["go", "build", "-o", out, "./cmd/restic"], cwd=verif.REPO, env=e, stdout=subprocess.PIPE,
                            stderr=subprocess.STDOUT, timeout=1500, text=True, errors="replace")
    except subprocess.TimeoutExpired:
        raise verif.MachineryError("go build ./cmd/restic timed out")
    verif.log("[go build cmd/restic] rc=%d %.1fs" % (pr.returncode, time.time() - t))
    if pr.returncode != 0 or not os.path.exists(out):
        raise verif.MachineryError("go build ./cmd/restic failed:\n" + pr.stdout[-2000:])
    return out


def run(ctx):
    gen = ctx.tlc("Fn_BackupStatusGen", cfg="Fn_BackupStatusGen.cfg", workers=1, name="gen", timeout=600, deadlock=False)
    vec = os.path.join(gen["dir"], "vec.ndjson")
    if not os.path.exists(vec):
        raise verif.MachineryError("TLC wrote no vec.ndjson in %s" % gen["dir"])
    nscripts = sum(1 for _ in open(vec))
    binary = build_restic(ctx)
    out = ctx.go_test("cmd/restic", "^TestVerif_C55$", timeout=2400, env={"VERIF_VECTORS": vec, "VERIF_RESTIC_BIN": binary})
    n, bad, lines = ctx.check_records("Fn_BackupStatus", os.path.join(out, "recs.ndjson"))
    for i in bad[:200]:
        r = json.loads(lines[i - 1])
        mode = "binary" if r["mode"] == "binary" else "inproc"
        what = "status%d" % r["status"]
        if not r["saved"]:
            what = "no-snapshot"
        key = "backup-status/%s/%s/%s" % (mode, r["key"] or "no-fault", what)
        ctx.violate(key, "backup run (%s, script %d): delivered faults [%s] -> status %d, snapshot saved=%s, items in snapshot %s, extra paths %d, content_ok=%s; err=%s %s (Fn_BackupStatus!RecOK false)"
                    % (r["mode"], r["script"], r["key"], r["status"], r["saved"], r["insnap"], r["extra"], r["content_ok"], r["err"][-160:], r["detail"]), r)
    res = ctx.go_results[-1]
    cnt = res.get("counters", {})
    if cnt.get("runs_binary", 0) < 3:
        raise verif.MachineryError("only %d runs of the restic binary" % cnt.get("runs_binary", 0))
    if res["distinct_nontrivial"] < 20:
        raise verif.MachineryError("only %d runs with a delivered fault" % res["distinct_nontrivial"])
    samples = verif.samples_from(lines, 3)
    cov = {"evaluations": n, "distinct_nontrivial": res["distinct_nontrivial"], "rule": res["rule"], "samples": samples,
           "scripts_enumerated_by_tlc": nscripts, "records_checked_by_tlc": n, "records_rejected": len(bad),
           "counters": cnt, "exhaustive": False,
           "selection": "quick: seeded 1/40 of the table; thorough: all clean scripts, seeded 1/2 of the single-fault and 1/8 of the pair scripts (different seeds cover different parts)"}
    return verif.finish(ctx, "fault_enumeration", cov, [
        "faults are injected by a wrapping fs.FS behind the existing backupFSTestHook (in-process) and by permission bits / missing targets for an unprivileged run of the binary built from the tree",
        "a fault counts only when the file system really returned it to restic (delivered); items below a faulted directory are never reached",
        "ENOENT when opening a file for reading after a successful lstat (vanish_late) is accepted with status 0 or 3: the statement does not classify it",
        "in-process status = the switch of main() applied to the error returned by runBackup (identity comparison with ErrInvalidSourceData); the real exit status is observed on the binary subset",
        "the first target directory itself is never faulted (a backup without any readable item saves no snapshot and is outside the statement)"])
