"""C06 Pack files list back exactly the blobs written into them."""
import json, os
import verif


def symptom(r):
    if r.get("kind") == "bound":
        if r.get("panic"):
            return "panic"
        if r.get("fin_err") or r.get("list_err"):
            return "limit-pack-refused"
        if not r.get("equal"):
            return "limit-pack-wrong-listing"
        return "header-full-or-size"
    o = r["out"]
    if o["panic"]:
        return "panic"
    if r.get("kind") == "rt":
        if r.get("fin_err") and r["blobs"]:
            return "finalize-failed"
        if o["err"] and r["blobs"]:
            return "written-pack-rejected"
        return "written-pack-wrong-listing-or-layout"
    if o["err"]:
        return "valid-pack-rejected"
    f = r["f"]
    if not f["auth"] or f["lenfield"] < 32 or f["lenfield"] + 4 > f["size"]:
        return "unauthentic-header-accepted"
    return "wrong-listing-or-malformed-accepted"


def run(ctx):
    out = ctx.go_test("internal/repository/pack", "^TestVerif_C06$", timeout=1800)
    n, bad, lines = ctx.check_records("Fn_PackFormat", os.path.join(out, "recs.ndjson"), shard=ctx.pick(1500, 4000))
    seen = set()
    for i in bad[:400]:
        r = json.loads(lines[i - 1])
        key = "pack/%s/%s/%s" % (r.get("kind"), r.get("fam", "-"), symptom(r))
        if key in seen:
            continue
        seen.add(key)
        small = {k: v for k, v in r.items() if k not in ("full",)}
        ctx.violate(key, "Fn_PackFormat!RecOK false for %s %s: %s" % (r.get("kind"), r.get("fam"), json.dumps(small)[:600]), r)
    res = ctx.go_results[-1]
    cov = {"evaluations": n, "distinct_nontrivial": res["distinct_nontrivial"], "rule": res["rule"],
           "samples": verif.samples_from(lines, 3), "records_checked_by_tlc": n, "records_rejected": len(bad),
           "counters": res.get("counters", {}), "exhaustive": ctx.thorough()}
    return verif.finish(ctx, "exploration", cov, [
        "Fn_PackFormat.tla states the documented pack layout in byte units (entry 37/41 bytes, header = 16+entries+16, 4-byte length, offsets = prefix sums) and the accept/reject relation; TLC evaluates RecOK on every recorded List / Packer run",
        "byte fidelity is abstracted by the Go driver: the encrypted header is treated as an ideal AEAD message (auth = the bytes in front of the length field are byte-identical to a message sealed under the key; checked by byte comparison against every sealed message the driver or the Packer produced), blob ids are tokens (position in the case), the length-field value is clamped to 2^30",
        "the header the Packer wrote is decoded by the driver's own decoder of the documented layout (independent of pack.List); hand-built headers use the driver's own encoder",
        "left open by the statement and accepted either way: packs without entries, headers above pack.MaxHeaderSize, authentic well-formed headers whose lengths do not add up to the blob area (if listed, the listing must still be exact)",
        "entry lengths stay below 2^26 and uncompressed lengths below 2^24 (TLC integers are 32 bit)",
    ])
