"""C03 Any corruption of repository data is reported, never silently used."""
import json, os
import verif


def run(ctx):
    out = ctx.go_test("cmd/restic", "^TestVerif_C03$", timeout=3300, tags=["c03", "c09", "common"])
    n, bad, lines = ctx.check_records("Fn_Corrupt", os.path.join(out, "recs.ndjson"))
    for i in bad[:200]:
        r = json.loads(lines[i - 1])
        what = "different-plaintext-returned" if "different" in r["outcomes"] else ("restore-wrong-item-not-reported" if "different-unreported" in r["outcomes"] else "check-read-data-silent")
        ctx.violate("corruption/%s/%s/%s%s" % (r["class"], r["kind"], what, "/with-duplicate" if r["dup"] else ""),
                    "scenario %s: %s of %s at offset %s/%s: check_err=%s outcomes=%s" % (r["scenario"], r["kind"], r["class"], r["off"], r["size"], r["check_err"], r["outcomes"]), r)
    res = ctx.go_results[-1]
    cov = {"evaluations": n, "distinct_nontrivial": res["distinct_nontrivial"], "rule": res["rule"], "samples": verif.samples_from(lines, 3),
           "records_rejected": len(bad), "counters": res.get("counters", {})}
    return verif.finish(ctx, "fault_enumeration", cov,
                        ["in-memory backend; one corruption per case (multi-site corruption not enumerated)",
                         "key files: only truncation/deletion (their informational fields are not authenticated and do not influence what is read)",
                         "mount is not driven; dump is judged here only for fail/no-fail (its content is C45's)"])
