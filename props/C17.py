"""C17 Content-defined chunking is lossless, bounded, deterministic and shift-resistant."""
import json, os
import verif


def run(ctx):
    out = ctx.go_test("internal/archiver", "^TestVerif_C17$", timeout=2400)
    n, bad, lines = ctx.check_records("Fn_Chunks", os.path.join(out, "recs.ndjson"), shard=40)
    for i in bad[:200]:
        r = json.loads(lines[i - 1])
        if r["kind"] == "group":
            runs = r["runs"]
            ref = runs[0]
            what = "nondeterministic"
            culprit = ""
            for x in runs:
                if x["err"]:
                    what, culprit = "error", x["pattern"]
                    break
                if not x["hash_ok"] or (x["cuts"][-1:] or [0])[0] != r["size"]:
                    what, culprit = "lossy", x["pattern"]
                    break
                if x["cuts"] != ref["cuts"]:
                    culprit = x["pattern"] + ("/later-file" if x["pos"] > 0 else "/first-file")
            sizes_bad = any((c - p) > 8388608 or ((c - p) < 524288 and k < len(x["cuts"]) - 1)
                            for x in runs for k, (p, c) in enumerate(zip([0] + x["cuts"][:-1], x["cuts"])))
            if what == "nondeterministic" and not culprit and sizes_bad:
                what = "unbounded"
            key = "chunks/%s/%s/%s" % (what, r["class"], culprit or "-")
            ctx.violate(key, "file class %s size %d: %s; cut lists by run: %s (Fn_Chunks!GroupOK false)"
                        % (r["class"], r["size"], what, [(x["pattern"], x["pos"], x["cuts"][:6], x["hash_ok"], x.get("err_text", "")) for x in runs][:8]), r)
        elif r["kind"] == "edit":
            ctx.violate("chunks/edit-not-local/%s/%s" % (r["class"], r["edit"]),
                        "%s of %d/%d bytes at offset %d of a %s file (%d bytes): old cuts %s new cuts %s (Fn_Chunks!EditOK false)"
                        % (r["edit"], r["del"], r["ins"], r["off"], r["class"], r["size_old"], r["old"], r["new"]), r)
        else:
            ctx.violate("chunks/no-resynchronisation", "only %d of %d edits of random multi-chunk files left the chunks behind the edit unchanged" % (r["resynced"], r["edits"]), r)
    res = ctx.go_results[-1]
    cov = {"evaluations": res["evaluations"], "distinct_nontrivial": res["distinct_nontrivial"], "rule": res["rule"],
           "samples": res.get("samples") or verif.samples_from(lines, 2), "records_checked_by_tlc": n, "records_rejected": len(bad),
           "counters": res.get("counters", {}), "exhaustive": False}
    return verif.finish(ctx, "exploration", cov, [
        "the real fileSaver (saveFile / readNextChunk) with the repository's chunker factory and the fixed test polynomial; a recording uploader that hashes the buffers late (just before the callback)",
        "chunk contents are compared as sha256 tokens; Fn_Chunks states relations over cut lists, it does not model the Rabin fingerprint",
        "the chunker library's own reader loop (chunker.New/Next, not used by the fileSaver) on the same polynomial is one of the runs every group must agree with",
        "locality is judged per edit by the guaranteed relations (chunks before the edit kept, identical tails after a common cut) and in aggregate (at least half of the edits resynchronise)"])
