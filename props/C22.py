"""C22 Retention policies keep exactly the documented snapshots."""
import json, os, re
import concurrent.futures as cf
import verif


def _key(r):
    if r.get("kind") == "mono":
        return "policy/monotonicity/%s" % r.get("src", "data")
    pol = r["pol"]
    rules = [k for k in ("last", "hourly", "daily", "weekly", "monthly", "yearly") if pol.get(k, 0) != 0]
    rules += ["keep-" + k for k in ("within", "wh", "wd", "ww", "wm", "wy") if pol.get(k, {}).get("on")]
    if pol.get("tags"):
        rules.append("tag")
    # stable class key: the rule if exactly one is switched on, else "combined"
    return "policy/%s/%s" % (r.get("src", "data"), rules[0] if len(rules) == 1 else ("combined" if rules else "empty"))


def run(ctx):
    # 1. the instants table of the specification, for the drivers
    em = ctx.tlc("Fn_PolicyEmit", timeout=300, workers=1, deadlock=False)
    table = os.path.join(em["dir"], "instants.ndjson")
    if not os.path.exists(table):
        raise verif.MachineryError("Fn_PolicyEmit wrote no instants table")

    # 2. design runs (transcription of the loop refines the declarative definition; monotonicity theorem;
    #    two negative twins that TLC must refute) in the background while the drivers run
    ex = cf.ThreadPoolExecutor(max_workers=3)
    main_cfg = "Fn_PolicyMC_thorough.cfg" if ctx.thorough() else "Fn_PolicyMC_quick.cfg"
    f_main = ex.submit(ctx.tlc, "Fn_PolicyMC", cfg=main_cfg, timeout=3000, workers=4, deadlock=False, name="design")
    f_ge = ex.submit(ctx.tlc, "Fn_PolicyMC", cfg="Fn_PolicyMC_twin_ge.cfg", timeout=1500, workers=2, deadlock=False,
                     name="twin_ge", allow_violation=True)
    f_no = ex.submit(ctx.tlc, "Fn_PolicyMC", cfg="Fn_PolicyMC_twin_nooldest.cfg", timeout=1500, workers=2, deadlock=False,
                     name="twin_nooldest", allow_violation=True)

    # 3. the real code
    out1 = ctx.go_test("internal/data", "^TestVerif_C22$", timeout=1800, env={"VERIF_VECTORS": table})
    res1 = ctx.go_results[-1]
    out2 = ctx.go_test("cmd/restic", "^TestVerif_C22$", timeout=2400, env={"VERIF_VECTORS": table})
    res2 = ctx.go_results[-1]
    allp = os.path.join(ctx.work, "recs_all.ndjson")
    with open(allp, "w") as fh:
        for o in (out1, out2):
            fh.write(open(os.path.join(o, "recs.ndjson")).read())

    # 4. TLC judges every record
    n, bad, lines = ctx.check_records("Fn_Policy", allp, shard=ctx.pick(2500, 8000), timeout=2400)
    bykey = {}
    for i in bad:
        k = _key(json.loads(lines[i - 1]))
        bykey[k] = bykey.get(k, 0) + 1
    # report one violation per class first, so that every class shows up in the replay file
    seen, order = set(), []
    for i in bad:
        k = _key(json.loads(lines[i - 1]))
        if k not in seen:
            seen.add(k)
            order.append(i)
    first = set(order)
    order += [i for i in bad if i not in first][:100]
    for i in order[:300]:
        r = json.loads(lines[i - 1])
        if r.get("kind") == "mono":
            d = "raising the policy removed a kept snapshot: %s keeps %s, %s keeps %s" % (r["pas"], r["ka"], r["pbs"], r["kb"])
        else:
            d = "policy [%s] on %s: keep=%s remove=%s reasons=%s (Fn_Policy!RecOK false)" % (
                r["pols"], [(s["id"], s["t"], s["tags"]) for s in r["sn"]], r["keep"], r["remove"], r["reasons"])
        ctx.violate(_key(r), d, r)

    design = f_main.result()
    tw = [f_ge.result(), f_no.result()]
    for t in tw:
        if "Conforms" not in t["violated"]:
            raise verif.MachineryError("negative twin %s was not refuted by TLC (vacuous design run?)" % t["cfg"])
    mono = re.findall(r'<<"VERIF_MONO", (\d+), (\d+), (\d+)>>', design["out"])
    dom = re.findall(r'<<"VERIF_DOMAIN", (\d+), (\d+)>>', design["out"])

    kinds = {}
    for l in lines:
        k = "mono" if l.startswith('{"ka"') or '"kind":"mono"' in l else "apply"
        kinds[k] = kinds.get(k, 0) + 1
    counters = dict(res1.get("counters", {}))
    for k, v in res2.get("counters", {}).items():
        counters["cmd_" + k] = v
    cov = {"evaluations": n, "distinct_nontrivial": res1["distinct_nontrivial"] + res2["distinct_nontrivial"],
           "rule": res1["rule"] + " || command level: " + res2["rule"],
           "samples": verif.samples_from(lines, 3), "records_checked_by_tlc": n, "records_rejected": len(bad), "rejected_by_class": bykey,
           "record_kinds": kinds, "counters": counters,
           "design_run": {"cfg": main_cfg, "states": design["states"], "transitions": design["transitions"],
                          "lists_x_policies": [int(x) for x in dom[-1]] if dom else None,
                          "monotonicity_theorem_lists_policies_pairs": [int(x) for x in mono[-1]] if mono else None,
                          "negative_twins_refuted": [t["cfg"] for t in tw]},
           "exhaustive": False}
    return verif.finish(ctx, "exploration", cov, [
        "oracle = declarative definition in Fn_Policy.tla (statement + doc/060_forget.rst); TLC evaluates RecOK on every recorded application of the real ApplyPolicy / real `forget --dry-run --json`",
        "calendar arithmetic (timestamp minus duration, calendar fields of random timestamps) is done by the driver with Go's time package, independently of restic; the calendar fields of the 24 table instants are constants of the specification, cross-checked against Go's time package",
        "ties: 'the newest snapshot of a period' is the first one in the order the code itself established (any time-descending order is accepted)",
        "keep-within-<period>: the oldest snapshot inside the window may additionally be kept (manual: 'oldest ... within'); if every snapshot lies in the future any choice is accepted for duration rules",
        "reasons: each kept snapshot needs >= 1 reason and every reason must name a rule that selects it; completeness of the reason list is not demanded",
        "future = 2099, past = 2020..2025 (findLatestTimestamp reads the real clock); all snapshots of one list share one time zone",
    ])
