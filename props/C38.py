"""C38 The local cache never changes what restic reads."""
import json, os, random
import concurrent.futures as cf
import verif

TWINS = {  # broken designs of the read path and the invariants that must refute them
    "noverify": {"ResultOK"},
    "noforget": {"Replaced", "NoBadLeft"},
    "direct": {"RawOK", "NoBadLeft"},
    "keeppartial": {"RawOK", "NoBadLeft"},
    "armfirst": {"Replaced"},
}


def design_one(ctx, v):
    if v.startswith("ok"):
        r = ctx.tlc("CacheProc", cfg="CacheProc_%s.cfg" % v, workers=4, name="design_" + v, timeout=2400)
        return {"cfg": v, "states": r["states"], "transitions": r["transitions"], "result": "holds (4 invariants + termination)"}
    exp = TWINS[v]
    r = ctx.tlc("CacheProc", cfg="CacheProc_%s.cfg" % v, workers=2, name="twin_" + v, timeout=900, allow_violation=True)
    if not (set(r["violated"]) & exp):
        raise verif.MachineryError("negative twin %s was not refuted (expected one of %s, got %s)" % (v, sorted(exp), r["violated"]))
    return {"cfg": v, "states": r["states"], "transitions": r["transitions"],
            "result": "refuted: " + ",".join(sorted(set(r["violated"]) & exp))}


def symptom(r):
    """coarse, stable class of a rejected record (for the violation key)"""
    if r["kind"] == "script":
        if any(s["out"] == "wrong" for s in r["res"]):
            return "wrong-bytes-returned"
        gone = False
        for a, s in zip(r["script"], r["res"]):
            gone = gone or a == "delrepo"
            if a == "list" and gone and s["cache"] != "absent":
                return "stale-copy-survives-list"
        last = r["res"][-1] if r["res"] else {}
        if last.get("cache") == "bad":
            return "corrupt-copy-not-replaced"
        if last.get("cache") == "absent" and last.get("out") == "good":
            return "damaged-copy-dropped-but-not-replaced"
        if last.get("out") == "err":
            return "load-of-damaged-copy-fails"
        return "other"
    if any(l["out"] == "wrong" for l in r["loaders"]):
        return "wrong-bytes-returned"
    if r["final"] == "bad":
        return "bad-copy-left-in-cache"
    return "other"


def run(ctx):
    # short TLC runs on a shared machine: no C2 compiler threads (quick tier), few GC threads
    os.environ["JAVA_TOOL_OPTIONS"] = (os.environ.get("JAVA_TOOL_OPTIONS", "") + (" -XX:TieredStopAtLevel=1" if not ctx.thorough() else "")
                                       + " -XX:ParallelGCThreads=2").strip()
    # the design runs do not depend on anything: start them first, they finish while the driver is built and run
    designs = ["ok_small"] + (["ok_2l", "ok"] if ctx.thorough() else []) + sorted(TWINS)
    dex = cf.ThreadPoolExecutor(max_workers=6)
    futs = [dex.submit(design_one, ctx, v) for v in designs]
    with cf.ThreadPoolExecutor(max_workers=2) as ex:
        # compile the driver while TLC enumerates the scenarios
        warm = ex.submit(ctx.go_test, "internal/repository", "^TestVerif_C38Build$", timeout=1500,
                         out=os.path.join(ctx.work, "gobuild"))
        gen = ctx.tlc("CacheGen", cfg="CacheGen_%s.cfg" % ctx.tier, workers=1, name="gen", timeout=1800)
        warm.result()
        ctx.go_results.clear()
    scripts = open(os.path.join(gen["dir"], "vec_script.ndjson")).read().splitlines()
    concs = open(os.path.join(gen["dir"], "vec_conc.ndjson")).read().splitlines()
    rnd = random.Random(ctx.seed * 7919 + 38)
    if ctx.thorough():
        # thorough: every script of the larger bound, every schedule of the quick bound and a seeded sample of
        # the longer schedules
        short = [c for c in concs if len(json.loads(c)["schedule"]) <= 4]
        longer = [c for c in concs if len(json.loads(c)["schedule"]) > 4]
        pick_s = scripts
        pick_c = short + rnd.sample(longer, min(len(longer), 30000))
    else:
        # quick: the whole space of the quick bound (scripts of <= 4 steps, schedules of <= 4 steps) except
        # scenarios in which the cache cannot matter: 4-step scripts on data packs (never cached, damage steps find
        # nothing) and schedules over a good cached copy that nobody touches (every load is served from the cache)
        pick_s = [x for x in scripts if not ('"ftype":"datapack"' in x and len(json.loads(x)["script"]) > 3)]
        pick_c = [x for x in concs if not ('"init":"good"' in x and not any(e in x for e in ('"xrm"', '"xclear"', '"xflip"')))]
    vec = os.path.join(ctx.work, "vec.ndjson")
    open(vec, "w").write("\n".join(pick_s + pick_c) + "\n")

    out = ctx.go_test("internal/repository", "^TestVerif_C38$", timeout=3000, env={"VERIF_VECTORS": vec})

    n, bad, lines = ctx.check_records("Cache", os.path.join(out, "recs.ndjson"), shard=7000 if not ctx.thorough() else 12000)
    for i in bad[:200]:
        r = json.loads(lines[i - 1])
        if r["kind"] == "script":
            what = "script %s on %s/%s -> %s" % (r["script"], r["ftype"], r["op"],
                                                 [(s["out"], s["cache"]) for s in r["res"]])
        else:
            what = "schedule %s on %s (cache initially %s) -> loaders %s, cached file finally %s" % (
                r["schedule"], r["ftype"], r["init"], [(l["actor"], l["out"]) for l in r["loaders"]], r["final"])
        ctx.violate("cache/%s/%s/%s/%s" % (r["kind"], r["ftype"], r["op"], symptom(r)),
                    "Cache!RecOK false: " + what, r)
    des = [f.result() for f in futs]
    dex.shutdown()
    res = ctx.go_results[-1]
    cov = {"evaluations": n, "distinct_nontrivial": res["distinct_nontrivial"], "rule": res["rule"],
           "samples": (res.get("samples") or [])[:4], "records_checked_by_tlc": n, "records_rejected": len(bad),
           "scenario_space": {"scripts": len(scripts), "concurrent_schedules": len(concs)},
           "replayed": {"scripts": len(pick_s), "concurrent_schedules": len(pick_c)},
           "counters": res.get("counters", {}), "design_runs": des,
           "exhaustive": len(pick_s) == len(scripts) and len(pick_c) == len(concs),
           "exhaustive_parts": {"scripts": len(pick_s) == len(scripts), "concurrent_schedules": len(pick_c) == len(concs)},
           "left_out_as_vacuous": {"scripts_4_steps_on_never_cached_data_packs": len(scripts) - len(pick_s),
                                   "schedules_over_untouched_good_copy": len(concs) - len(pick_c)} if not ctx.thorough() else {},
           "bounds": {"script_steps": 5 if ctx.thorough() else 4, "schedule_steps": 5 if ctx.thorough() else 4}}
    return verif.finish(ctx, "fault_enumeration", cov, [
        "Cache.tla is the oracle: verified loads return the repository's bytes or fail; the first damaged copy a process meets is replaced by a good one; listing drops stale copies; restic itself never leaves a bad file under the final name; unverified backend-level reads are judged only while nobody corrupted the cache",
        "reads that never fill the cache (listPack and checkPack use a plain pack handle) must at least remove the damaged copy they met; checkPack reports the failed first attempt as an error by design ('check successful on second attempt'); a Forget that found nothing to delete (load retried while nothing was cached) does not use up the single eviction; when the re-download itself hits the injected transient error the load may fail",
        "second and later damage of the same file within one process may end in an error (documented circuit breaker: a cached file is deleted at most once per run)",
        "a file deleted from the repository may still be served from the cache until the type is listed (content addressed: same bytes)",
        "damage is placed inside the byte range the operation reads; positions and truncation lengths are seeded",
        "in-memory repository backend; processes sharing a cache directory are modelled by separate Cache objects; concurrent schedules are steered by gates in the inner backend inside a testing/synctest bubble (steps that do not apply are skipped and counted)"])
