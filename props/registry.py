"""Registry of claimed properties -> MANIFEST.json entries (lib/gen_manifest.py)."""

TRACE_NOTE = ("Trusted: the harness store linearizes backend operations (in-memory backend, atomic per operation); "
              "projection of stored bytes uses restic's crypto/pack-header decoder; TLC 1.8; a crash is a stop between two backend operations.")

CLAIMED = {
    "C09": dict(
        category="model_checking",
        text="Design: RepoProc.tla (prune/backup/forget processes with crash at every step) is model-checked exhaustively against the "
             "design.rst invariants and ordering rules of Repo.tla. Conformance: every backend operation of real prune runs over generated "
             "histories and option classes is recorded and replayed through RepoTrace.tla, TLC evaluating SnapshotIndexed/SnapshotData/IndexSound "
             "and the delete-ordering rules in every recorded state (= every crash point); sampled (quick) or all (thorough) crash prefixes are "
             "additionally judged by the real `check --read-data` and by loading every blob of every remaining snapshot, and prune is re-run on a crashed prefix.",
        design_ref="§4 C09",
        technique="TLA+ trace validation (RepoTrace.tla) of recorded prune runs + real-check oracle on every crash prefix",
        note=TRACE_NOTE,
    ),
    "C11": dict(
        category="model_checking",
        text="Design: RepoProc.tla backup family (writers, reader, crash anywhere; broken twins snapshot-before-index, index-before-pack, reader-index-first refuted). "
             "Conformance: real backups over generated trees (several packs, lowered index-full threshold so intermediate index files occur) are run to completion and under "
             "injected faults (Save/Remove error before or after effect at op k, context cancel at op k, process death at op k, Load error at read j); every recorded backend "
             "operation goes through RepoTrace.tla (all invariants + write-ordering rules in every state = every crash point); crash prefixes and post-fault states are judged by the "
             "real check --read-data, by loading every blob of every snapshot present, and by a follow-up backup + prune that must succeed.",
        design_ref="§4 C11",
        technique="TLA+ trace validation (RepoTrace.tla) of real backup runs under enumerated faults + real-check oracle on crash prefixes",
        note=TRACE_NOTE,
    ),
    "C23": dict(
        category="model_checking",
        text="Real `forget` invocations (policy and id mode, filters, group-by variants, dry-run, --unsafe-allow-remove-all) on generated repositories; the recorded backend "
             "operations are validated by RepoTrace.tla (ForgetMatchesReport: snapshot files removed during the command = the JSON report / named ids; ReadOnlyRespected for dry-run), "
             "and the harness compares deleted files with the report and with an independent grouping/filter implementation (no group emptied under a non-empty policy, empty policy removes nothing).",
        design_ref="§4 C23",
        technique="TLA+ trace validation (RepoTrace.tla: ForgetMatchesReport, ReadOnlyRespected) of real forget runs + independent grouping oracle",
        note=TRACE_NOTE,
    ),
    "C26": dict(
        category="model_checking",
        text="Design: RepoProc.tla tag family (save new then remove old, crash anywhere; remove-first twin refuted by TagNeverLoses). Conformance: real tag / rewrite (exclude, metadata, "
             "--forget on/off, no-match) / repair snapshots runs in multi-step histories (already rewritten snapshots), complete and with Save/Remove errors or process death at op k; "
             "RepoTrace.tla checks R_SnapshotNotLost and R_OriginalKept on every recorded step; the harness re-reads every prefix storage with the real code and checks that every "
             "lineage still has a snapshot and that Original/tree relations hold.",
        design_ref="§4 C26",
        technique="TLA+ trace validation (RepoTrace.tla: R_SnapshotNotLost, R_OriginalKept) of real tag/rewrite/repair runs at every crash prefix",
        note=TRACE_NOTE,
    ),
}
