"""Registry of claimed properties -> MANIFEST.json entries (lib/gen_manifest.py)."""

TRACE_NOTE = ("Trusted: the harness store linearizes backend operations (in-memory backend, atomic per operation); "
              "projection of stored bytes uses restic's crypto/pack-header decoder; TLC 1.8; a crash is a stop between two backend operations.")

CLAIMED = {
    "C09": dict(
        category="model_checking",
        text="Design: RepoProc.tla (prune/backup/forget processes with crash at every step) is model-checked exhaustively against the "
             "design.rst invariants and ordering rules of Repo.tla. Conformance: every backend operation of real prune runs over generated "
             "histories and option classes is recorded and replayed through RepoTrace.tla, TLC evaluating SnapshotIndexed/SnapshotData/IndexSound "
             "and the delete-ordering rules in every recorded state (= every crash point); sampled (quick) or all (thorough) crash prefixes are "
             "additionally judged by the real `check --read-data` and by loading every blob of every remaining snapshot, and prune is re-run on a crashed prefix.",
        design_ref="§4 C09",
        technique="TLA+ trace validation (RepoTrace.tla) of recorded prune runs + real-check oracle on every crash prefix",
        note=TRACE_NOTE,
    ),
}
