"""Registry of claimed properties: one JSON file per property under props/reg/ (category, text, design_ref,
technique, note).  lib/gen_manifest.py turns it into MANIFEST.json."""
import glob, json, os

HERE = os.path.dirname(os.path.abspath(__file__))
CLAIMED = {}
for f in sorted(glob.glob(os.path.join(HERE, "reg", "C*.json"))):
    CLAIMED[os.path.basename(f)[:-5]] = json.load(open(f))
NOT_APPLICABLE = {}
na = os.path.join(HERE, "reg", "not_applicable.json")
if os.path.exists(na):
    NOT_APPLICABLE = json.load(open(na))
