"""C45 dump writes exactly the snapshot's content."""
import json, os
import verif

ARCHIVED = ("file", "dir", "symlink")


def classify(r):
    """Stable class key of a rejected record (diagnosis only; the verdict is Fn_Dump!RecOK)."""
    if r.get("noterm"):
        return "dump/%s/does-not-terminate/connections=%d" % (r["fmt"], r["conns"])
    if r["fmt"] == "file":
        return "dump/file/content-differs" if not r["err"] else "dump/file/error"
    base = "dump/%s/" % r["fmt"]
    if r["err"]:
        return base + ("error" if r["err"].startswith("dump:") else "unparsable-output")
    nodes = sorted([n for n in r["nodes"] if n["t"] in ARCHIVED], key=lambda n: n["p"])
    entries = r["entries"]
    top_special = False
    if len(entries) != len(nodes):
        extra = len(entries) - len(nodes)
        special_top = [n for n in r["nodes"] if n["t"] not in ARCHIVED and len(n["p"]) == 1]
        names = {r["prefix"] + n["names"][0] for n in special_top}
        rest = [e for e in entries if e["name"] not in names]
        if r["cls"] != "plain" and extra == len(special_top) and len(rest) == len(nodes):
            top_special, entries = True, rest
        else:
            return base + ("extra-entries" if extra > 0 else "missing-entries")
    for n, e in zip(nodes, entries):
        exp = r["prefix"] + "/".join(n["names"]) + ("/" if n["t"] == "dir" else "")
        if e["name"] != exp:
            return base + "wrong-name-or-order"
        if e["t"] != n["t"]:
            return base + "wrong-type"
        if e["perm"] != n["perm"]:
            return base + "wrong-permission-bits"
        if (e["setuid"], e["setgid"], e["sticky"]) != (n["setuid"], n["setgid"], n["sticky"]):
            return base + "wrong-setuid-setgid-sticky"
        if n["t"] == "symlink" and e["link"] != n["target"]:
            return base + "wrong-link-target"
        if n["t"] != "symlink" and e["content"] != n["content"]:
            return base + "wrong-content"
    return base + ("entry-for-" + r["cls"] if top_special else "other")


def run(ctx):
    out = ctx.go_test("internal/dump", "^TestVerif_C45$", timeout=1800)
    n, bad, lines = ctx.check_records("Fn_Dump", os.path.join(out, "recs.ndjson"), shard=ctx.pick(300, 2500))
    seen = {}
    for i in bad:
        r = json.loads(lines[i - 1])
        key = classify(r)
        if key in seen:
            seen[key] += 1
            continue
        seen[key] = 1
        if r.get("noterm"):
            what = "a single file with blobs %s" % r["content"] if r["fmt"] == "file" else "tree %d as %s" % (r["tree"], r["fmt"])
            detail = "dump of %s with connections=%d (delay script %d) never returned: %s" % (what, r["conns"], r["delays"], r["err"])
        elif r["fmt"] == "file":
            detail = "dump of a single file with blobs %s wrote blobs %s (err=%r, connections=%d)" % (r["content"], r["out"], r["err"], r["conns"])
        else:
            want = [r["prefix"] + "/".join(x["names"]) for x in sorted([x for x in r["nodes"] if x["t"] in ARCHIVED], key=lambda x: x["p"])]
            detail = "%s dump (tree %d, connections=%d): expected members %s, archive has %s (err=%r)" % (
                r["fmt"], r["tree"], r["conns"], want, [(e["name"], e["t"], oct(e["perm"]), e["link"], e["content"]) for e in r["entries"]], r["err"])
        ctx.violate(key, detail[:1500], r)
    res = ctx.go_results[-1]
    cov = {"evaluations": n, "distinct_nontrivial": res["distinct_nontrivial"], "rule": res["rule"],
           "samples": verif.samples_from(lines, 3), "records_checked_by_tlc": n, "records_rejected": len(bad),
           "rejected_by_class": seen, "counters": res.get("counters", {}), "exhaustive": False}
    return verif.finish(ctx, "exploration", cov,
                        ["Fn_Dump.tla (tree order = lexicographic order of name-rank paths; one member per file/dir/symlink; name, type, permission and setuid/setgid/sticky bits, link target, content) is the oracle; TLC evaluates RecOK on every recorded dump",
                         "dumped bytes are mapped back to blob tokens by the driver (each blob is a self-delimiting byte string; anything else becomes token -1)",
                         "blob loads are served by an in-memory loader that completes them after scripted virtual delays (testing/synctest), 1..5 connections (connections=1 is exercised for tar, zip and single files on every run)",
                         "every dump runs under a watchdog: it counts as not terminating (RecOK false) when all its goroutines are blocked for good (the bubble's virtual clock reaches one hour; the delay scripts sum up to seconds) or when it has not returned after 45 s of real time",
                         "archives are parsed with archive/tar and archive/zip; timestamps, owners and xattrs are not part of the statement and not compared"])
