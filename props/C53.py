"""C53 diff reports exactly the paths that differ between two snapshots."""
import json, os
import verif


def run(ctx):
    out = ctx.go_test("cmd/restic", "^TestVerif_C53$", tags=["c53", "c20", "common"], timeout=1700)
    n, bad, lines = ctx.check_records("Fn_Diff", os.path.join(out, "recs.ndjson"), shard=ctx.pick(200, 1300), timeout=1500)
    for i in bad[:100]:
        r = json.loads(lines[i - 1])
        a = {"/".join(e["p"]): e for e in r["a"]}
        b = {"/".join(e["p"]): e for e in r["b"]}
        listed = {}
        for l in r["lines"]:
            listed.setdefault("/".join(l["p"]), set()).update(l["mods"])
        kinds = set()
        for p in sorted(set(a) | set(b) | set(listed)):
            m = listed.get(p, set())
            if p not in a and p not in b:
                kinds.add("unknown-path-listed")
            elif p in a and p not in b:
                if "-" not in m:
                    up = [q for q in a if p.startswith(q + "/") and q in b and a[q]["t"] == "dir" and b[q]["t"] != "dir"]
                    kinds.add("removed-not-listed-below-dir-that-became-nondir" if up else "removed-not-listed")
                if m - {"-"}:
                    kinds.add("removed-with-other-marker")
            elif p in b and p not in a:
                if "+" not in m:
                    up = [q for q in b if p.startswith(q + "/") and q in a and b[q]["t"] == "dir" and a[q]["t"] != "dir"]
                    kinds.add("added-not-listed-below-nondir-that-became-dir" if up else "added-not-listed")
                if m - {"+"}:
                    kinds.add("added-with-other-marker")
            else:
                if ("T" in m) != (a[p]["t"] != b[p]["t"]):
                    kinds.add("type-marker")
                if ("M" in m) != (a[p]["t"] == "file" and b[p]["t"] == "file" and a[p]["c"] != b[p]["c"]):
                    kinds.add("content-marker")
                if m & {"+", "-"}:
                    kinds.add("common-path-listed-as-added-or-removed")
        if r["err"]:
            kinds.add("error")
        if not kinds:
            kinds.add("listed-inside-identical-subtree")
        ctx.violate("diff/" + "+".join(sorted(kinds)),
                    "diff%s of {%s} and {%s} (edits %s%s) printed [%s]%s: not what Fn_Diff!DiffOK allows"
                    % (" --metadata" if r["meta"] else "",
                       ", ".join("/%s:%s:%s:%s" % (p, e["t"], e["c"], e["m"]) for p, e in sorted(a.items())),
                       ", ".join("/%s:%s:%s:%s" % (p, e["t"], e["c"], e["m"]) for p, e in sorted(b.items())),
                       r["edits"], ", reversed" if r["reverse"] else "", "; ".join(l["raw"] for l in r["lines"]),
                       (" error: " + r.get("errmsg", "")) if r["err"] else ""), r)
    known = ("added-not-listed-below-nondir-that-became-dir", "removed-not-listed-below-dir-that-became-nondir")
    ctx.violations.sort(key=lambda v: all(k in known for k in v["key"][len("diff/"):].split("+")))   # other classes first
    classes = {}
    for v in ctx.violations:
        classes[v["key"]] = classes.get(v["key"], 0) + 1
    res = ctx.go_results[-1]
    cov = {"violation_classes": classes, "evaluations": n, "distinct_nontrivial": res["distinct_nontrivial"], "rule": res["rule"],
           "samples": verif.samples_from(lines, 3), "records_checked_by_tlc": n, "records_rejected": len(bad),
           "counters": res.get("counters", {}), "exhaustive": False}
    return verif.finish(ctx, "exploration", cov,
                        ["oracle = Fn_Diff.tla (DiffOK), taken from the statement and the documented meaning of the diff modifiers; TLC evaluates it on every recorded diff",
                         "'U' and '?' modifiers are not constrained except that nothing may be listed inside identical subtrees; statistics are not judged",
                         "content identity = the generator's content key: files = list of chunk keys, one data blob per chunk (0-6 tiny blobs instead of real chunker output); symlinks = link target; metadata token = the generator's metadata variant",
                         "snapshots are hand-built with the real TreeWriter/SaveBlob/SaveSnapshot so that untouched subtrees are bit-identical and copies of a subtree / file share tree / content blobs; the driver confirms on every stored snapshot that directories share a tree blob exactly when the generator says they are identical (else MACHINERY-ERROR), and that every run contains diffs with a shared non-empty tree below an added/removed directory and a blob list extended on a blob boundary",
                         "trees of depth <= 5 over names {a, a.b, a-b, ab, b, B}; <= 3 edits per pair"])
