"""C01 Backup then restore reproduces the source tree exactly."""
import json, os, re
import verif

MUST = {"file": ["type", "size", "content", "perm", "mtime", "uid", "gid", "xattrs", "linkgroup"],
        "dir": ["type", "perm", "mtime", "uid", "gid", "xattrs"],
        "symlink": ["type", "target", "mtime", "uid", "gid"],
        "fifo": ["type", "perm", "mtime", "uid", "gid"],
        "chardev": ["type", "rdev", "perm", "mtime", "uid", "gid"],
        "blockdev": ["type", "rdev", "perm", "mtime", "uid", "gid"]}


def classify(r):
    if r["rec"] == "listing":
        extra = set(r["dst_names"]) - set(r["src_names"])
        return "roundtrip/listing/%s" % ("extra-entry" if extra else "missing-entry"), "directory listing differs"
    s, d = r["src"], r["dst"]
    if d["type"] == "missing":
        return "roundtrip/%s/not-restored" % s["type"], "entry missing after restore"
    diff = [f for f in MUST.get(s["type"], []) if s[f] != d[f]]
    if diff == ["xattrs"] and len(s["xattrs"]) == len(d["xattrs"]):
        # only the NAME of an attribute differs, and only by the replacement of invalid UTF-8 by U+FFFD
        def mangle(h):
            return bytes.fromhex(h).decode("utf-8", "replace").encode("utf-8").hex()
        sx = sorted((mangle(x["n"]), x["v"]) for x in s["xattrs"])
        dx = sorted((x["n"], x["v"]) for x in d["xattrs"])
        if sx == dx:
            return "roundtrip/xattrs/non-utf8-xattr-name-mangled", "xattr name with invalid UTF-8 restored with U+FFFD: %s -> %s" % (
                [bytes.fromhex(x["n"]) for x in s["xattrs"]], [bytes.fromhex(x["n"]) for x in d["xattrs"]])
    a = r.get("a") or {}
    cls = {"xattrs": a.get("xattr"), "mtime": a.get("mtime"), "perm": a.get("mode"), "content": a.get("content"), "size": a.get("content"),
           "target": a.get("target"), "rdev": a.get("rdev"), "uid": a.get("owner"), "gid": a.get("owner"), "linkgroup": "hardlink",
           "type": r.get("kind")}.get(diff[0] if diff else "", "")
    return "roundtrip/%s/%s/%s" % (s["type"], "+".join(diff) or "none", cls or "-"), "fields differ: %s" % ", ".join("%s %s -> %s" % (f, json.dumps(s[f])[:120], json.dumps(d[f])[:120]) for f in diff)


def run(ctx):
    out = ctx.go_test("cmd/restic", "^TestVerif_C01$", timeout=3300)
    cov = ctx.tlc("Fn_RoundTripCov", files={"nodes.ndjson": os.path.join(out, "nodes.ndjson")}, workers=1, timeout=1200,
                  defines={"Tier": '"%s"' % ctx.tier}, deadlock=False)
    n, bad, lines = ctx.check_records("Fn_RoundTrip", os.path.join(out, "recs.ndjson"), shard=ctx.pick(1500, 1500))
    keys = {}
    for i in bad:
        r = json.loads(lines[i - 1])
        k, why = classify(r)
        keys.setdefault(k, []).append((r, why))
    for k, rs in sorted(keys.items()):
        r, why = rs[0]
        name = bytes.fromhex(r["path"]).decode("utf-8", "backslashreplace")
        ctx.violate(k, "backup+restore did not reproduce %r (kind %s, classes %s, config %s): %s; run errors: %s (%d records of this class)"
                    % (name, r.get("kind"), r.get("a"), r["cfg"], why, r.get("errs") or "none", len(rs)), r)
    res = ctx.go_results[-1]
    covd = {"evaluations": n, "distinct_nontrivial": res["distinct_nontrivial"], "rule": res["rule"],
            "samples": verif.samples_from(lines, 3), "records_checked_by_tlc": n, "records_rejected": len(bad),
            "counters": res.get("counters", {}), "exhaustive": False,
            "coverage_checked_by_tlc": dict(re.findall(r'<<"(cov1|cov2|covcfg|nodes)", (\w+)>>', cov["out"]))}
    return verif.finish(ctx, "exploration", covd,
                        ["Fn_RoundTrip.tla defines the attribute classes per entry kind, the configuration space and the coverage the generated table must reach (checked by TLC: every class in both tiers; every pair of classes of one kind and every configuration in the thorough tier), and the relation: per entry type the projected fields that must be identical; TLC evaluates RecOK on every entry and every directory listing",
                         "projection by the harness: names/targets/xattrs as hex, content as sha256+size, mtime as sec.nsec, permission bits incl. setuid/setgid/sticky, uid/gid, device major:minor, hard-link groups as sets of paths; byte-level fidelity is decided on these tokens",
                         "each tree runs under one configuration; the 54 configurations are spread over the trees (attribute x configuration pairs are sampled, not enumerated)",
                         "file system: the sandbox's ext4, as root; ACLs, other operating systems and atime/ctime are out of scope; sockets are not generated (restore does not recreate them)",
                         "symlink permission bits and directory sizes are not compared; xattrs only on files and directories",
                         "every tree contains directories none of whose children is restored (empty top-level / nested, only an empty directory, only a socket) with non-default mode, old mtime and xattrs; sockets themselves are not compared (restore does not recreate them)"])
