"""C56 The index hash table behaves as a multimap."""
import json, os
import verif

def classify(r):
    """Words the first difference of a record TLC rejected (python mirror of Fn_IndexMap, for key/detail only)."""
    if r.get("panic"):
        return "indexmap/%s/panic" % r["mode"], "table operation panicked: %s" % r["panic"]
    ins = {k: [] for k in r["keys"]}
    c = 0
    prev = None
    cur = None
    for i, st in enumerate(r["steps"]):
        if st["op"] == "add":
            ins[st["k"]] += st["vs"]
        elif st["op"] == "burst":
            c = st["to"]
        for o in st["obs"]:
            # resolve "same as previous observation"
            row = o["look"] + o["fill"]
            cur = [row[x] if row[x] or prev is None else prev[x] for x in range(len(row))]
            total = sum(len(v) for v in ins.values()) + c
            where = "step %d (%s k=%s n=%s from=%s to=%s, %d entries)" % (i + 1, st["op"], st["k"], st["n"] or len(st.get("vs", [])), st["from"], st["to"], total)
            exp = [(k, ins[k]) for k in r["keys"]] + [("filler%d" % f, [f] if f <= c else []) for f in r["fsamp"]]
            exp = [(a, b, dict(zip(("codes", "get", "has", "first", "iter"), L))) for (a, b), L in zip(exp, cur)]
            for name, E, L in exp:
                what = None
                for col, w in (("codes", "lookup"), ("iter", "iteration")):
                    got = L[col]
                    if sorted(got) == sorted(E):
                        continue
                    if set(got) - set(E):
                        what = w + "-foreign-or-corrupt-entry"
                    elif len(got) < len(E):
                        what = w + "-misses-entry"
                    elif len(got) > len(E):
                        what = w + "-repeats-entry"
                    else:
                        what = w + "-wrong-multiplicity"
                    break
                if not what:
                    if (not E and L["get"] != -2) or (E and L["get"] not in E):
                        what = "single-lookup"
                    elif L["has"] != bool(E):
                        what = "has"
                    elif (not E and L["first"] != -1) or (E and not (0 <= L["first"] <= total)):
                        what = "first-position-range"
                if what:
                    return "indexmap/%s/%s" % (r["mode"], what), "%s: key %s expected value codes %s, got lookup=%s iteration=%s get=%s has=%s first=%s" % (
                        where, name, sorted(E)[:20], L["codes"][:20], L["iter"][:20], L["get"], L["has"], L["first"])
            firsts = [L["first"] for _, _, L in exp if L["first"] != -1]
            if len(firsts) != len(set(firsts)):
                return "indexmap/%s/first-position-shared" % r["mode"], "%s: two keys share a first-entry position: %s" % (where, firsts)
            fs = o["fs"]
            if fs[0] != c or fs[1] != c or fs[2]:
                return "indexmap/%s/iteration" % r["mode"], "%s: iteration met fillers seen=%d distinct=%d (expected %d), foreign/corrupt entries=%d" % (
                    where, fs[0], fs[1], c, fs[2])
            if o["len"] != total:
                return "indexmap/%s/len" % r["mode"], "%s: len=%d" % (where, o["len"])
            if prev is not None:
                for x in range(len(prev)):
                    if prev[x][3] != -1 and cur[x][3] != prev[x][3]:
                        return "indexmap/%s/first-position-changed" % r["mode"], "%s: first-entry position of key #%d changed %d -> %d" % (where, x, prev[x][3], cur[x][3])
            prev = cur
    return "indexmap/%s/unclassified" % r["mode"], "TLC rejected the record, python mirror found no difference"


def run(ctx):
    out = ctx.go_test("internal/repository/index", "^TestVerif_C56$", timeout=2400)
    res = ctx.go_results[-1]
    n, bad, lines = ctx.check_records("Fn_IndexMap", os.path.join(out, "recs.ndjson"), shard=ctx.pick(400, 1000), timeout=1500)
    seen = {}
    for i in bad:
        r = json.loads(lines[i - 1])
        key, detail = classify(r)
        if key not in seen or len(lines[i - 1]) < seen[key][0]:
            seen[key] = (len(lines[i - 1]), detail, r)
    for key, (_, detail, r) in sorted(seen.items()):
        small = {"mode": r["mode"], "family": r["family"], "keymode": r["keymode"], "fillmode": r["fillmode"],
                 "value_code": "((pack*1024)+offset)*8+length_variant",
                 "steps": [{k: (s[k] if k != "vs" or len(s[k]) <= 12 else s[k][:12] + ["... %d in all" % len(s[k])])
                            for k in ("op", "k", "vs", "from", "to", "n") if k in s} for s in r["steps"]]}
        ctx.violate(key, detail, small)

    def brief(s):
        last = s["steps"][-1]["obs"][-1] if s["steps"] and s["steps"][-1]["obs"] else {}
        return {"mode": s["mode"], "family": s["family"], "keymode": s["keymode"], "fillmode": s["fillmode"],
                "ops": ["%s %s" % (t["op"], ("%s %s" % (t["k"], t["vs"][:6])) if t["op"] == "add" else (t["n"] if t["op"] == "prealloc" else "%d..%d" % (t["from"], t["to"]) if t["op"] == "burst" else "")) for t in s["steps"]][:40],
                "final_len": last.get("len")}
    cov = {"evaluations": n, "distinct_nontrivial": res["distinct_nontrivial"], "rule": res["rule"],
           "samples": [brief(s) for s in verif.samples_from(lines, 3)],
           "records_checked_by_tlc": n, "records_rejected": len(bad), "violation_classes": sorted(seen),
           "counters": res.get("counters", {}), "exhaustive": False}
    return verif.finish(ctx, "exploration", cov,
                        ["Fn_IndexMap.tla (expected contents as a function of the operation list) is the oracle; TLC evaluates RecOK on every recorded sequence",
                         "bucket collisions cannot be steered (maphash seed is random per table): they come from volume (load factor 4) and from equal keys",
                         "filler entries are judged through per-iteration counts (seen, distinct, corrupt) and a fixed sample of 16 filler keys per sequence, tracked keys entry by entry (lookup and iteration compared as bags of value codes with the bag of inserted codes)",
                         "an entry is abstracted to its value code (pack number, offset number, length variant; 5 x 1024 x 8 codes, decoded from the stored pack/offset/length/uncompressed length, -1 if no such payload was ever handed in); the order in which lookup and iteration yield entries is left open (the driver sorts the codes)",
                         "record encoding: a per-key observation equal to the previous one is written as [] and resolved by the spec (ResAll)",
                         "index mode: entries stored by one StorePack call share the pack; the same pack ID stored by two calls is two packs for the table but one pack number for the oracle",
                         "64-bit platform (bloom filter active)"])
