"""C56 The index hash table behaves as a multimap."""
import json, os
import verif

FILL = 1000000


def classify(r):
    """Words the first difference of a record TLC rejected (python mirror of Fn_IndexMap, for key/detail only)."""
    if r.get("panic"):
        return "indexmap/%s/panic" % r["mode"], "table operation panicked: %s" % r["panic"]
    tags = {k: set() for k in r["keys"]}
    c = 0
    prev = None
    for i, st in enumerate(r["steps"]):
        if st["op"] == "add":
            tags[st["k"]].add(st["t"])
        elif st["op"] == "addmany":
            tags[st["k"]].update(st["ts"])
        elif st["op"] == "burst":
            c = st["to"]
        for o in st["obs"]:
            total = sum(len(v) for v in tags.values()) + c
            where = "step %d (%s k=%s n=%s from=%s to=%s, %d entries)" % (i + 1, st["op"], st["k"], st["n"] or len(st.get("ts", [])), st["from"], st["to"], total)
            exp = [(k, tags[k], o["look"][x]) for x, k in enumerate(r["keys"])]
            exp += [("filler%d" % f, ({FILL + f} if f <= c else set()), o["fill"][y]) for y, f in enumerate(r["fsamp"])]
            exp = [(a, b, dict(zip(("tags", "get", "has", "first"), L))) for a, b, L in exp]
            for name, T, L in exp:
                got = L["tags"]
                what = None
                if set(got) - T:
                    what = "lookup-foreign-or-corrupt-entry"
                elif T - set(got):
                    what = "lookup-misses-entry"
                elif len(got) != len(T):
                    what = "lookup-repeats-entry"
                elif (not T and L["get"] != -2) or (T and L["get"] not in T):
                    what = "single-lookup"
                elif L["has"] != bool(T):
                    what = "has"
                elif (not T and L["first"] != -1) or (T and not (0 <= L["first"] <= total)):
                    what = "first-position-range"
                if what:
                    return "indexmap/%s/%s" % (r["mode"], what), "%s: key %s expected tags %s, got lookup=%s get=%s has=%s first=%s" % (where, name, sorted(T)[:20], got[:20], L["get"], L["has"], L["first"])
            firsts = [L["first"] for _, _, L in exp if L["first"] != -1]
            if len(firsts) != len(set(firsts)):
                return "indexmap/%s/first-position-shared" % r["mode"], "%s: two keys share a first-entry position: %s" % (where, firsts)
            at = set().union(*tags.values()) if tags else set()
            it, fs = o["it"], o["fs"]
            if it[0] != len(at) or it[1] != len(at) or (at and (it[2] not in at or it[3] not in at)) or fs[0] != c or fs[1] != c or fs[2]:
                return "indexmap/%s/iteration" % r["mode"], "%s: iteration met %d tracked entries, %d distinct, tags %d..%d (expected %d), fillers seen=%d distinct=%d (expected %d), foreign/corrupt=%d" % (
                    where, it[0], it[1], it[2], it[3], len(at), fs[0], fs[1], c, fs[2])
            if o["len"] != total:
                return "indexmap/%s/len" % r["mode"], "%s: len=%d" % (where, o["len"])
            if prev is not None:
                pl = prev["look"] + prev["fill"]
                cl = o["look"] + o["fill"]
                for x in range(len(pl)):
                    if pl[x][3] != -1 and cl[x][3] != pl[x][3]:
                        return "indexmap/%s/first-position-changed" % r["mode"], "%s: first-entry position of key #%d changed %d -> %d" % (where, x, pl[x][3], cl[x][3])
            prev = o
    return "indexmap/%s/unclassified" % r["mode"], "TLC rejected the record, python mirror found no difference"


def run(ctx):
    out = ctx.go_test("internal/repository/index", "^TestVerif_C56$", timeout=2400)
    res = ctx.go_results[-1]
    n, bad, lines = ctx.check_records("Fn_IndexMap", os.path.join(out, "recs.ndjson"), shard=ctx.pick(31, 250), timeout=1500)
    seen = {}
    for i in bad:
        r = json.loads(lines[i - 1])
        key, detail = classify(r)
        if key not in seen or len(lines[i - 1]) < seen[key][0]:
            seen[key] = (len(lines[i - 1]), detail, r)
    for key, (_, detail, r) in sorted(seen.items()):
        small = {"mode": r["mode"], "keymode": r["keymode"], "fillmode": r["fillmode"],
                 "steps": [{k: (s[k] if k != "ts" else len(s[k])) for k in ("op", "k", "t", "ts", "from", "to", "n") if k in s} for s in r["steps"]]}
        ctx.violate(key, detail, small)

    def brief(s):
        last = s["steps"][-1]["obs"][-1] if s["steps"] and s["steps"][-1]["obs"] else {}
        return {"mode": s["mode"], "keymode": s["keymode"], "fillmode": s["fillmode"],
                "ops": ["%s %s" % (t["op"], t["k"] or (t["n"] if t["op"] == "prealloc" else "%d..%d" % (t["from"], t["to"]) if t["op"] == "burst" else "")) for t in s["steps"]][:40],
                "final_len": last.get("len"), "final_first_positions": [l[3] for l in last.get("look", [])], "final_entries_per_key": [len(l[0]) for l in last.get("look", [])]}
    cov = {"evaluations": n, "distinct_nontrivial": res["distinct_nontrivial"], "rule": res["rule"],
           "samples": [brief(s) for s in verif.samples_from(lines, 3)],
           "records_checked_by_tlc": n, "records_rejected": len(bad), "violation_classes": sorted(seen),
           "counters": res.get("counters", {}), "exhaustive": False}
    return verif.finish(ctx, "exploration", cov,
                        ["Fn_IndexMap.tla (expected contents as a function of the operation list) is the oracle; TLC evaluates RecOK on every recorded sequence",
                         "bucket collisions cannot be steered (maphash seed is random per table): they come from volume (load factor 4) and from equal keys",
                         "filler entries are judged through per-iteration counts (seen, distinct, corrupt) and a fixed sample of 16 filler keys per sequence, tracked keys entry by entry",
                         "64-bit platform (bloom filter active)"])
