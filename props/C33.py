"""C33 repair index rebuilds an index that describes the stored packs exactly."""
from concurrent.futures import ThreadPoolExecutor
from props import repo_common


def run(ctx):
    # the design-model runs (RepoRepair.tla twins) do not depend on the driver: run them beside it
    with ThreadPoolExecutor(1) as ex:
        fut = ex.submit(repo_common.repair_design_runs, ctx)
        out = ctx.go_test("cmd/restic", "^TestVerif_C33$", timeout=3300)
        design = fut.result()
    # the storage invariants hold relative to the damage baseline; the strict post-condition is RepairIndexExact
    return repo_common.finish_trace(ctx, out, "model_checking", extra_cov={"design_model_runs": design},
                                    assumptions=["one-shot read faults (a Load that fails or delivers garbage once and is served correctly when repeated) leave a pack 'readable'; a pack whose header read fails on every attempt of a run counts as unreadable for that run and is not explored",
                                                 "index.Full is lowered to 3..8 blobs in part of the scenarios (while the repository is built and repaired) so that small repositories have several full index files; Oversized keeps the production rule"])
