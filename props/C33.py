"""C33 repair index rebuilds an index that describes the stored packs exactly."""
from props import repo_common


def run(ctx):
    design = repo_common.repair_design_runs(ctx)
    out = ctx.go_test("cmd/restic", "^TestVerif_C33$", timeout=3300)
    # the storage invariants hold relative to the damage baseline; the strict post-condition is RepairIndexExact
    return repo_common.finish_trace(ctx, out, "model_checking", extra_cov={"design_model_runs": design})
