"""C39 Dry runs and lock-free reads never modify the repository."""
from props import repo_common


def run(ctx):
    out = ctx.go_test("cmd/restic", "^TestVerif_C39$", timeout=3000)
    return repo_common.finish_trace(ctx, out, "model_checking")
