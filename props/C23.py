"""C23 forget never removes a whole group and removes only what it reports."""
from props import repo_common


def run(ctx):
    out = ctx.go_test("cmd/restic", "^TestVerif_C23$", timeout=3000)
    return repo_common.finish_trace(ctx, out, "model_checking")
