"""C32 copy transfers snapshots faithfully and idempotently."""
from props import repo_common, ops_common


def run(ctx):
    p, hs, r = ops_common.gen_histories(ctx, "copy", ctx.pick(8, 200))
    scripted = ops_common.gen_scripted(ctx) + ops_common.gen_scripted(ctx, "copyorig", always=("rewrite:0",))
    import json
    hs = scripted + hs
    json.dump(hs, open(p, "w"))
    out = ctx.go_test("cmd/restic", "^TestVerif_C32$", timeout=3300, env={"VERIF_HISTORIES": p}, tags=["c32", "c39", "common"])
    return repo_common.finish_trace(ctx, out, "model_checking",
                                    extra_cov={"histories_generated_by_tlc": len(hs), "scripted_histories_enumerated_by_tlc": len(scripted), "generator": "RepoOps.tla -simulate, family copy; scripted families copydst (destination maintenance between copies) and copyorig (snapshots sharing an Original) enumerated by BFS"})
