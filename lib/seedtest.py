#!/usr/bin/env python3
"""seedtest.py [<prop>[/<mk>] ...] : apply each confirmed seeded defect under /verif/seeded to /repo, run the
property's quick check (or --tier thorough with -t), expect exit 1 + VIOLATION, and undo the patch.
Results are appended to /verif/seeded/RESULTS.json (which check caught which change)."""
import json, os, subprocess, sys, time, glob
V = "/verif"
args = [a for a in sys.argv[1:] if not a.startswith("-")]
tier = "thorough" if "-t" in sys.argv else "quick"
targets = []
for d in sorted(glob.glob(V + "/seeded/C*/m*")):
    prop, mk = d.split("/")[-2:]
    if args and not any(a == prop or a == prop + "/" + mk for a in args):
        continue
    targets.append((prop, mk, d))
resf = os.environ.get("SEED_RESULTS", V + "/seeded/RESULTS.json")
results = json.load(open(resf)) if os.path.exists(resf) else {}
# work on a private worktree of /repo's HEAD (other agents use /repo concurrently); the registered checks themselves
# always run against /repo - VERIF_REPO only redirects them for this experiment
WT = os.environ.get("SEED_WT", "/tmp/seedwt")
if not os.path.isdir(WT):
    subprocess.run("git -C /repo worktree add --detach %s HEAD" % WT, shell=True, check=True)
head = subprocess.run("git -C /repo rev-parse HEAD", shell=True, capture_output=True, text=True).stdout.strip()
subprocess.run("git -C %s checkout -q --detach %s && git -C %s checkout -- . && git -C %s clean -fdq" % (WT, head, WT, WT), shell=True, check=True)
os.environ["VERIF_REPO"] = WT
for prop, mk, d in targets:
    meta = json.load(open(d + "/meta.json"))
    checks = [prop] + meta.get("also_check", [])
    r = subprocess.run("git -C %s apply %s/patch.diff" % (WT, d), shell=True)
    if r.returncode != 0:
        print("cannot apply", d); continue
    try:
        for c in checks:
            t = time.time()
            p = subprocess.run(["./check", c, "--tier", tier], cwd=V, env=dict(os.environ, VERIF_WORK_SUFFIX=os.environ.get("SEED_SUFFIX", "-seed"), VERIF_EVIDENCE_DIR="/verif/work/seed-evidence", VERIF_REPLAYS_DIR="/verif/work/seed-replays"), capture_output=True, text=True)
            viol = [l for l in p.stdout.splitlines() if l.startswith("VIOLATION")]
            key = "%s/%s" % (prop, mk)
            results.setdefault(key, {})[c + ":" + tier] = {"rc": p.returncode, "caught": p.returncode == 1 and bool(viol), "s": round(time.time() - t, 1),
                                                            "stderr_tail": p.stderr[-600:]}
            print("%s by %s (%s): rc=%d caught=%s %.0fs" % (key, c, tier, p.returncode, p.returncode == 1 and bool(viol), time.time() - t), flush=True)
    finally:
        subprocess.run("git -C %s checkout -- ." % WT, shell=True)
    json.dump(results, open(resf, "w"), indent=1)
