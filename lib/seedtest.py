#!/usr/bin/env python3
"""seedtest.py [<prop>[/<mk>] ...] : apply each confirmed seeded defect under /verif/seeded to /repo, run the
property's quick check (or --tier thorough with -t), expect exit 1 + VIOLATION, and undo the patch.
Results are appended to /verif/seeded/RESULTS.json (which check caught which change)."""
import json, os, subprocess, sys, time, glob
V = "/verif"
args = [a for a in sys.argv[1:] if not a.startswith("-")]
tier = "thorough" if "-t" in sys.argv else "quick"
targets = []
for d in sorted(glob.glob(V + "/seeded/C*/m*")):
    prop, mk = d.split("/")[-2:]
    if args and not any(a == prop or a == prop + "/" + mk for a in args):
        continue
    targets.append((prop, mk, d))
resf = V + "/seeded/RESULTS.json"
results = json.load(open(resf)) if os.path.exists(resf) else {}
assert subprocess.run("git -C /repo status --porcelain", shell=True, capture_output=True, text=True).stdout.strip() == "", "/repo not clean"
for prop, mk, d in targets:
    meta = json.load(open(d + "/meta.json"))
    checks = [prop] + meta.get("also_check", [])
    r = subprocess.run("git -C /repo apply %s/patch.diff" % d, shell=True)
    if r.returncode != 0:
        print("cannot apply", d); continue
    try:
        for c in checks:
            t = time.time()
            p = subprocess.run(["./check", c, "--tier", tier], cwd=V, capture_output=True, text=True)
            viol = [l for l in p.stdout.splitlines() if l.startswith("VIOLATION")]
            key = "%s/%s" % (prop, mk)
            results.setdefault(key, {})[c + ":" + tier] = {"rc": p.returncode, "caught": p.returncode == 1 and bool(viol), "s": round(time.time() - t, 1),
                                                            "stderr_tail": p.stderr[-600:]}
            print("%s by %s (%s): rc=%d caught=%s %.0fs" % (key, c, tier, p.returncode, p.returncode == 1 and bool(viol), time.time() - t), flush=True)
    finally:
        subprocess.run("git -C /repo checkout -- .", shell=True)
    json.dump(results, open(resf, "w"), indent=1)
