#!/usr/bin/env python3
"""Compile (not run) the harness test binaries once so that later checks start fast."""
import os, sys, subprocess
HERE = os.path.dirname(os.path.dirname(os.path.abspath(__file__)))
sys.path.insert(0, os.path.join(HERE, "lib"))
import verif
ctx = verif.Ctx("warm", "quick", 1)
base = os.path.join(verif.HARNESS, "pkg")
pkgs = set()
tags = set(["common"])
for root, _, files in os.walk(base):
    for f in files:
        if f.startswith("zz_verif_") and f.endswith(".go"):
            pkgs.add(os.path.relpath(root, base))
            tags.add(f[len("zz_verif_"):].split("_")[0].split(".")[0])
ov = ctx.overlay(tags)
e = dict(os.environ); e.update(verif.GOENV)
cmd = ["go", "test", "-overlay", ov, "-vet=off", "-count=1", "-run", "^$"] + ["./" + p for p in sorted(pkgs)]
print(" ".join(cmd))
r = subprocess.run(cmd, cwd=verif.REPO, env=e)
sys.exit(0)
