"""Common machinery of the /verif checks: overlay builder, go test runner,
TLC runner, verdict/evidence writer.  Python 3 standard library only."""
import json, os, re, shutil, subprocess, sys, time, glob, hashlib

VERIF = os.path.dirname(os.path.dirname(os.path.abspath(__file__)))
REPO = os.environ.get("VERIF_REPO", "/repo")
SPEC = os.path.join(VERIF, "spec")
HARNESS = os.path.join(VERIF, "harness")
WORK = os.path.join(VERIF, "work")
EVID = os.path.join(VERIF, "evidence")
REPLAYS = os.path.join(VERIF, "replays")
KNOWN = os.path.join(VERIF, "known_findings.json")

GOENV = {"GOFLAGS": "-mod=mod", "GOPROXY": "off"}


class MachineryError(Exception):
    """Something in the machinery (not in restic) went wrong: exit 2."""


def log(*a):
    print(*a, file=sys.stderr, flush=True)


class Ctx:
    def __init__(self, pid, tier="quick", seed=1, replay=None):
        self.pid = pid
        self.tier = tier
        self.seed = seed
        self.replay = replay
        self.t0 = time.time()
        self.work = os.path.join(WORK, "%s-%s" % (pid, tier))
        if os.path.isdir(self.work):
            shutil.rmtree(self.work, ignore_errors=True)
        os.makedirs(self.work, exist_ok=True)
        self.violations = []      # dicts: key, detail, case
        self.tlc_runs = []        # dicts from run_tlc
        self.go_results = []      # result.json dicts
        self.notes = []
        self._n = 0

    def thorough(self):
        return self.tier == "thorough"

    def pick(self, q, t):
        return t if self.thorough() else q

    # ---------------------------------------------------------------- go --
    def overlay(self, tags):
        """Build overlay.json: kit -> internal/verifkit, harness/pkg/<rel>/zz_verif_<tag>*_test.go
        for tag in tags (lower-case property ids, 'common')."""
        repl = {}
        kit = os.path.join(HARNESS, "kit")
        for f in sorted(os.listdir(kit)):
            if f.endswith(".go"):
                repl[os.path.join(REPO, "internal", "verifkit", f)] = os.path.join(kit, f)
        base = os.path.join(HARNESS, "pkg")
        for root, _, files in os.walk(base):
            rel = os.path.relpath(root, base)
            for f in sorted(files):
                if not f.endswith(".go"):
                    continue
                m = re.match(r"zz_verif_([a-z0-9]+)", f)
                if not m:
                    continue
                if m.group(1) in tags:
                    repl[os.path.join(REPO, rel, f)] = os.path.join(root, f)
        p = os.path.join(self.work, "overlay.json")
        with open(p, "w") as fh:
            json.dump({"Replace": repl}, fh, indent=1)
        return p

    def go_test(self, pkg, run, tags=None, out=None, env=None, timeout=1500, args=(), race=False):
        """Run harness tests `run` (regex) of package pkg (path relative to /repo) with the
        overlay.  Returns the output directory.  Build or harness failure -> MachineryError."""
        if tags is None:
            tags = [self.pid.lower(), "common"]
        ov = self.overlay(tags)
        self._n += 1
        outdir = out or os.path.join(self.work, "go%d" % self._n)
        os.makedirs(outdir, exist_ok=True)
        e = dict(os.environ)
        e.update(GOENV)
        e.update({"VERIF_OUT": outdir, "VERIF_SEED": str(self.seed), "VERIF_TIER": self.tier,
                  "RESTIC_TEST_FUSE": "0"})
        if self.replay:
            e["VERIF_REPLAY"] = self.replay
        if env:
            e.update(env)
        cmd = ["go", "test", "-overlay", ov, "-vet=off", "-count=1", "-timeout", "%ds" % timeout,
               "-run", run] + (["-race"] if race else []) + list(args) + ["./" + pkg]
        t = time.time()
        try:
            pr = subprocess.run(cmd, cwd=REPO, env=e, stdout=subprocess.PIPE, stderr=subprocess.STDOUT,
                                timeout=timeout + 120, text=True, errors="replace")
        except subprocess.TimeoutExpired:
            raise MachineryError("go test timed out: %s" % " ".join(cmd))
        with open(os.path.join(outdir, "gotest.log"), "w") as fh:
            fh.write(pr.stdout)
        log("[go test %s -run %s] rc=%d %.1fs" % (pkg, run, pr.returncode, time.time() - t))
        if pr.returncode != 0:
            tail = "\n".join(pr.stdout.splitlines()[-40:])
            raise MachineryError("go test failed (rc=%d) for %s -run %s\n%s" % (pr.returncode, pkg, run, tail))
        if "no tests to run" in pr.stdout:
            raise MachineryError("go test ran no tests for %s -run %s" % (pkg, run))
        rj = os.path.join(outdir, "result.json")
        if os.path.exists(rj):
            with open(rj) as fh:
                r = json.load(fh)
            self.go_results.append(r)
            for v in r.get("violations") or []:
                self.violations.append(v)
            if r.get("problems"):
                raise MachineryError("harness problems: %s" % r["problems"][:5])
        return outdir

    # --------------------------------------------------------------- tlc --
    def tlc(self, module, cfg=None, files=None, workers=None, timeout=900, simulate=None, depth=None,
            extra=(), deadlock=True, name=None, defines=None, allow_violation=False, dfs=False, heap=None):
        """Run TLC on spec/<module>.tla with spec/<cfg> in a private directory.
        files: dict name->path (or bytes/str content) copied next to the spec (trace files).
        defines: dict NAME->TLA+ text, written into module VerifParams (EXTENDed by trace specs).
        Returns dict(states, distinct, ok, out, violated, dir)."""
        self._n += 1
        d = os.path.join(self.work, "tlc%d_%s" % (self._n, name or module))
        os.makedirs(d, exist_ok=True)
        for f in glob.glob(os.path.join(SPEC, "*.tla")) + glob.glob(os.path.join(SPEC, "*.cfg")):
            shutil.copy(f, d)
        for fn, src in (files or {}).items():
            dst = os.path.join(d, fn)
            if isinstance(src, bytes):
                open(dst, "wb").write(src)
            elif isinstance(src, str) and os.path.exists(src):
                shutil.copy(src, dst)
            else:
                open(dst, "w").write(src)
        if defines is not None:
            with open(os.path.join(d, "VerifParams.tla"), "w") as fh:
                fh.write("---- MODULE VerifParams ----\n")
                for k, v in defines.items():
                    fh.write("%s == %s\n" % (k, v))
                fh.write("====\n")
        cfg = cfg or (module + ".cfg")
        if workers is None:
            workers = 1 if simulate is None and dfs else 8
        cmd = ["tlc", "-workers", str(workers), "-metadir", os.path.join(d, "states"),
               "-config", cfg, "-noGenerateSpecTE"]
        if not deadlock:
            cmd.append("-deadlock")
        if simulate:
            cmd += ["-simulate", simulate]
        if depth:
            cmd += ["-depth", str(depth)]
        cmd += list(extra) + [module + ".tla"]
        e = dict(os.environ)
        jto = "-Xss256m"
        if heap:
            jto += " -Xmx%s" % heap
        if dfs:
            jto += " -Dtlc2.tool.queue.IStateQueue=StateDeque"
        e["JAVA_TOOL_OPTIONS"] = (e.get("JAVA_TOOL_OPTIONS", "") + " " + jto).strip()
        t = time.time()
        try:
            pr = subprocess.run(cmd, cwd=d, env=e, stdout=subprocess.PIPE, stderr=subprocess.STDOUT,
                                timeout=timeout, text=True, errors="replace")
        except subprocess.TimeoutExpired:
            subprocess.run(["pkill", "-f", "tlc2.TL[C].*" + re.escape(d)])
            raise MachineryError("TLC timed out after %ds: %s in %s" % (timeout, module, d))
        out = pr.stdout
        open(os.path.join(d, "tlc.out"), "w").write(out)
        shutil.rmtree(os.path.join(d, "states"), ignore_errors=True)
        res = {"module": module, "cfg": cfg, "dir": d, "out": out, "rc": pr.returncode,
               "wall_s": round(time.time() - t, 2), "cmd": " ".join(cmd)}
        m = re.findall(r"(\d+) states generated, (\d+) distinct states found", out)
        if m:
            res["states"] = int(m[-1][1])
            res["transitions"] = int(m[-1][0])
        else:
            res["states"] = res["transitions"] = 0
        m = re.search(r"The depth of the complete state graph search is (\d+)", out)
        res["depth"] = int(m.group(1)) if m else 0
        viol = re.findall(r"Error: Invariant (\S+) is violated", out)
        viol += ["action:" + x for x in re.findall(r"Error: Action property (\S+) is violated", out)]
        if re.search(r"Error: Temporal properties were violated", out):
            viol.append("temporal")
        if re.search(r"Error: Deadlock reached", out):
            viol.append("deadlock")
        if re.search(r"Assumption .* is false", out):
            viol.append("assumption")
        if re.search(r"Error: The postcondition .* is violated|POSTCONDITION.*violated|postcondition.*false", out, re.I):
            viol.append("postcondition")
        res["violated"] = viol
        res["ok"] = (pr.returncode == 0 and not viol)
        log("[tlc %s/%s] rc=%d states=%d distinct=%d %.1fs %s" % (module, cfg, pr.returncode,
            res["transitions"], res["states"], res["wall_s"], "VIOL " + ",".join(viol) if viol else ""))
        self.tlc_runs.append({k: v for k, v in res.items() if k != "out"})
        if not res["ok"] and not allow_violation:
            tail = "\n".join(out.splitlines()[-60:])
            raise MachineryError("TLC run failed unexpectedly (%s/%s), see %s\n%s" % (module, cfg, d, tail))
        if pr.returncode != 0 and not viol:
            tail = "\n".join(out.splitlines()[-60:])
            raise MachineryError("TLC error (%s/%s), see %s\n%s" % (module, cfg, d, tail))
        return res

    def tlc_printed(self, res, tag):
        """Values printed by TLC with PrintT(<<"tag", v>>): returns list of raw strings v."""
        vals = []
        for m in re.finditer(r'<<"%s", (.*)>>\s*$' % re.escape(tag), res["out"], re.M):
            vals.append(m.group(1))
        return vals

    def check_records(self, module, recs_path, name=None, timeout=900, defines=None, shard=None):
        """Functional conformance: TLC evaluates <module>!RecOK on every record of an ndjson file
        (through spec/RecCheck_<module>.tla which EXTENDS the model).  Returns (n_records, bad_indices).
        Large files are split into shards of `shard` records evaluated by parallel TLC runs."""
        lines = open(recs_path).read().splitlines()
        n = len(lines)
        if n == 0:
            raise MachineryError("no records in %s" % recs_path)
        shard = shard or 20000
        bad = []
        import concurrent.futures as cf
        chunks = [(i, lines[i:i + shard]) for i in range(0, n, shard)]

        def one(ch):
            off, ls = ch
            r = self.tlc("RecCheck_" + module, files={"recs.ndjson": "\n".join(ls) + "\n"},
                         name="%s_%d" % (name or module, off), timeout=timeout, workers=1,
                         defines=defines, deadlock=False)
            vals = self.tlc_printed(r, "VERIF_BAD")
            if not vals:
                raise MachineryError("RecCheck_%s printed no VERIF_BAD line, see %s" % (module, r["dir"]))
            idx = [int(x) + off for x in re.findall(r"\d+", vals[-1])]
            cnt = self.tlc_printed(r, "VERIF_N")
            if not cnt or int(cnt[-1]) != len(ls):
                raise MachineryError("RecCheck_%s evaluated %s of %d records" % (module, cnt, len(ls)))
            return idx
        with cf.ThreadPoolExecutor(max_workers=8) as ex:
            for idx in ex.map(one, chunks):
                bad += idx
        return n, sorted(bad), lines

    # ----------------------------------------------------------- verdict --
    def violate(self, key, detail, case=None):
        self.violations.append({"key": key, "detail": detail, "case": case})

    def note(self, s):
        self.notes.append(s)


def load_known():
    if not os.path.exists(KNOWN):
        return {"findings": [], "fixed": []}
    with open(KNOWN) as fh:
        return json.load(fh)


def finish(ctx, level, coverage, assumptions, exhaustive=None):
    """Write evidence, print verdict lines, return exit code."""
    known = load_known()
    kf = [f for f in known.get("findings", []) if f.get("property") == ctx.pid]
    unknown = []
    hit = {}
    for v in ctx.violations:
        matched = None
        for f in kf:
            if re.search(f["key_regex"], v["key"]):
                matched = f
                break
        if matched:
            hit.setdefault(matched["id"], (matched, v))
        else:
            unknown.append(v)
    for fid, (f, v) in sorted(hit.items()):
        print("KNOWN-FINDING: property=%s %s [%s]" % (ctx.pid, f["what"], v["key"]))
    rc = 0
    if unknown:
        os.makedirs(REPLAYS, exist_ok=True)
        rp = os.path.join(REPLAYS, "%s-%s-seed%d.json" % (ctx.pid, ctx.tier, ctx.seed))
        with open(rp, "w") as fh:
            json.dump({"property": ctx.pid, "tier": ctx.tier, "seed": ctx.seed, "violations": unknown[:20]}, fh, indent=1, default=str)
        for v in unknown[:10]:
            log("violation: %s :: %s" % (v["key"], v["detail"]))
        print("VIOLATION property=%s replay=%s" % (ctx.pid, rp))
        rc = 1
    cov = dict(coverage)
    if ctx.tlc_runs:
        cov.setdefault("tlc_runs", [{k: r[k] for k in ("module", "cfg", "states", "transitions", "depth", "wall_s", "violated")} for r in ctx.tlc_runs])
    if exhaustive is not None:
        cov["exhaustive"] = exhaustive
    ev = {"property_id": ctx.pid, "tier": ctx.tier, "seed": ctx.seed, "level": level, "coverage": cov,
          "assumptions": assumptions, "wall_s": round(time.time() - ctx.t0, 2),
          "violations": len(unknown), "known_findings_hit": sorted(hit.keys()), "notes": ctx.notes}
    os.makedirs(EVID, exist_ok=True)
    with open(os.path.join(EVID, ctx.pid + ".json"), "w") as fh:
        json.dump(ev, fh, indent=1, default=str)
    if rc == 0:
        print("OK property=%s tier=%s seed=%d wall=%.1fs" % (ctx.pid, ctx.tier, ctx.seed, time.time() - ctx.t0))
    return rc


def samples_from(lines, k=3):
    out = []
    for i in (0, len(lines) // 2, len(lines) - 1)[:k]:
        if 0 <= i < len(lines):
            try:
                out.append(json.loads(lines[i]))
            except Exception:
                out.append(lines[i][:300])
    return out
