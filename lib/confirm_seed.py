#!/usr/bin/env python3
"""confirm_seed.py <prop> <mk> : verify a seeded defect delivered in /tmp/seeded/<prop>/<mk> inside the scratch
worktree /tmp/wt/<prop>: patch applies; builds; demo FAILS with patch, PASSES without; existing tests of the touched
packages (+cmd/restic when reachable) pass with the patch.  On success copy to /verif/seeded/<prop>/<mk>/ and
record what was run in meta.json (confirmed_by_main)."""
import json, os, shutil, subprocess, sys, time
prop, mk = sys.argv[1], sys.argv[2]
src = "/tmp/seeded/%s/%s" % (prop, mk)
wt = os.environ.get("SEED_WTROOT", "/tmp/wt") + "/%s" % prop
env = dict(os.environ, GOFLAGS="-mod=mod", GOPROXY="off")
log = []

def sh(cmd, cwd=wt, timeout=3000):
    t = time.time()
    p = subprocess.run(cmd, shell=True, cwd=cwd, env=env, stdout=subprocess.PIPE, stderr=subprocess.STDOUT, text=True, timeout=timeout)
    log.append({"cmd": cmd, "rc": p.returncode, "s": round(time.time() - t, 1), "tail": p.stdout[-1500:]})
    return p.returncode, p.stdout

def clean():
    sh("git checkout -- . && git clean -fdq")

meta = json.load(open(os.path.join(src, "meta.json")))
patch = os.path.join(src, "patch.diff")
clean()
# place demo
demo_dir = os.path.join(src, "demo")
demo_files = []
for root, _, files in os.walk(demo_dir):
    for f in files:
        demo_files.append(os.path.join(root, f))
import re
place_raw = meta.get("demo_place", "")
place = place_raw.split()[0] if place_raw.split() else ""
placed = []
def put_demo():
    for f in demo_files:
        rel = os.path.relpath(f, demo_dir)
        m = re.search(r"([\w./-]+/)" + re.escape(os.path.basename(f)), place_raw)
        if m:
            dst = os.path.join(wt, m.group(1), os.path.basename(f))
            os.makedirs(os.path.dirname(dst), exist_ok=True)
            shutil.copy(f, dst); placed.append(dst)
            continue
        if place.endswith(".go") and len(demo_files) == 1:
            dst = os.path.join(wt, place)
        elif os.path.dirname(rel):
            dst = os.path.join(wt, rel)
        else:
            d = place if not place.endswith(".go") else os.path.dirname(place)
            dst = os.path.join(wt, d, os.path.basename(f))
        os.makedirs(os.path.dirname(dst), exist_ok=True)
        shutil.copy(f, dst)
        placed.append(dst)
demo_cmd = re.split(r"\s{2,}\(|\s\(optional|;\s", meta.get("demo_cmd", ""))[0].strip()
ok = True
res = {}
put_demo()
rc, out = sh(demo_cmd)
res["demo_without_patch_passes"] = rc == 0
rc, out = sh("git apply %s" % patch)
res["patch_applies"] = rc == 0
if rc == 0:
    rc, out = sh("go build ./...")
    res["builds"] = rc == 0
    rc, out = sh(demo_cmd)
    res["demo_with_patch_fails"] = rc != 0
    # existing tests of touched packages (remove demo first)
    for p in placed:
        os.remove(p)
    light = bool(os.environ.get("CONFIRM_LIGHT"))
    pk = set()
    for f in meta.get("files_touched", []):
        f = f.strip()
        if f.endswith(".go"):
            pk.add("./" + os.path.dirname(f) + "/...")
    pk.add("./cmd/restic/")
    if light:
        # time-boxed confirmation: the author ran the existing tests of the touched packages and cmd/restic
        # (see meta.json "verified"); only patch / build / demo are re-checked here
        out = ""
        res["existing_tests"] = "not re-run (light confirmation); as reported by the author in meta.json"
    else:
        rc, out = sh("go test -count=1 -timeout 25m %s 2>&1 | grep -E '^(FAIL|ok|---|panic)' | grep -v '^ok' | head -30" % " ".join(sorted(pk)))
    fails = [l for l in out.splitlines() if l.startswith("--- FAIL")]
    # tests known to fail on the unmodified tree in this sandbox (not in BASELINE stable_pass)
    base = json.load(open("/root/.vp/BASELINE.json"))["stable_pass"]
    stable = set(x.split("::")[1] for x in base)
    bad = [l for l in fails if l.split()[2] in stable]
    # timing-sensitive tests flake on this loaded machine: a stable test that failed is re-run alone (3x, still
    # with the patch applied) and only counts when it fails again
    still = []
    for l in bad:
        name = l.split()[2]
        rc2, out2 = sh("go test -count=3 -run '^%s$' %s 2>&1 | tail -5" % (name, " ".join(sorted(pk))))
        if rc2 != 0 or "FAIL" in out2:
            still.append(l)
    res["flaky_rerun_passed"] = [l.split()[2] for l in bad if l not in still]
    bad = still
    res["existing_tests_pass"] = not bad
    res["existing_fail_lines"] = fails[:10]
clean()
allok = all(res.get(k) for k in ("demo_without_patch_passes", "patch_applies", "builds", "demo_with_patch_fails", "existing_tests_pass"))
res["confirmed"] = allok
print(json.dumps(res, indent=1))
if allok:
    dst = "/verif/seeded/%s/%s" % (prop, mk)
    if os.path.isdir(dst):
        shutil.rmtree(dst)
    shutil.copytree(src, dst)
    meta["confirmed_by_main"] = {"result": res, "ran": [{"cmd": l["cmd"], "rc": l["rc"], "s": l["s"]} for l in log]}
    json.dump(meta, open(os.path.join(dst, "meta.json"), "w"), indent=1)
else:
    json.dump({"res": res, "log": log}, open("/tmp/seeded/%s/%s/confirm_failed.json" % (prop, mk), "w"), indent=1)
sys.exit(0 if allok else 1)
