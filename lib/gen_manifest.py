#!/usr/bin/env python3
"""Regenerate /verif/MANIFEST.json from props/registry.py and props/not_applicable.py."""
import json, os, sys
HERE = os.path.dirname(os.path.dirname(os.path.abspath(__file__)))
sys.path.insert(0, HERE)
from props import registry  # noqa

props = [json.loads(l) for l in open(os.path.join(HERE, "properties.jsonl"))]
ids = [p["id"] for p in props]
checks = []
for pid in ids:
    c = registry.CLAIMED.get(pid)
    if not c:
        continue
    checks.append({
        "property_id": pid,
        "quick_cmd": "./check %s --tier quick" % pid,
        "thorough_cmd": "./check %s --tier thorough" % pid,
        "evidence_file": "/verif/evidence/%s.json" % pid,
        "replay_cmd_template": "./check %s --replay {path}" % pid,
        "engine": c.get("engine", "tlc+go-overlay-harness"),
        "level_claimed": {"category": c["category"], "text": c["text"], "design_ref": c.get("design_ref", "")},
        "level_note": c["note"],
        "technique": c["technique"],
    })
na = []
reasons = getattr(registry, "NOT_APPLICABLE", {})
for pid in ids:
    if pid not in registry.CLAIMED:
        na.append({"property_id": pid, "reason": reasons.get(pid, "check not built yet in this round; planned per DESIGN.md §4 (TLA+ model + conformance harness)")})
m = {
    "version": 1,
    "setup_cmd": "./setup.sh",
    "hooks": {
        "guard": "verif",
        "enable": "no source hooks: harness files are injected with `go test -overlay` (see DESIGN.md §2.3); the tag `verif` is reserved and unused",
        "baseline_off_cmd": "cd /repo && GOFLAGS=-mod=mod GOPROXY=off go test -vet=off -count=1 -timeout 25m ./...",
        "source_commits": [],
        "add_only": True,
    },
    "engines": [
        {"name": "tlc+go-overlay-harness", "path": "/verif/check", "serves_properties": [c["property_id"] for c in checks],
         "kind_free_text": "TLA+ specifications (spec/*.tla) checked with TLC; bound to restic by Go harness tests injected with go test -overlay (harness/), traces validated by TLC (RepoTrace/RecCheck) and spec-generated behaviours replayed into the code"},
    ],
    "checks": checks,
    "not_applicable": na,
    "notes": "Every check: ./check <id> --tier quick|thorough; exit 0 ok, 1 VIOLATION, 2 machinery error. known_findings.json lists recorded/fixed genuine defects.",
}
json.dump(m, open(os.path.join(HERE, "MANIFEST.json"), "w"), indent=1)
print("MANIFEST: %d checks, %d not_applicable" % (len(checks), len(na)))
