package repository

// C02 driver.  Part 1 runs real saves (blobs of every size/content class incl. the all-zero minimum-size chunk,
// snapshot/lock/index/key files) on a healthy in-memory store and checks, with crypto/sha256 and the driver's own
// decrypt/decompress, that every stored file and blob sits under the hash of its content.  Part 2 replays the fault
// scripts TLC enumerated from spec/Fn_ContentAddr.tla (VERIF_VECTORS): on the n-th read of the target file the store
// serves good / altered / truncated / extended / empty / foreign (a valid twin file with the same layout) bytes or an
// error, through LoadRaw, LoadUnpacked, LoadBlob and LoadBlobsFromPack, without a cache, with a warm cache and with
// a corrupted cache file.  Every run is one record judged by Fn_ContentAddr!RecOK.

import (
	"bufio"
	"bytes"
	"context"
	"crypto/sha256"
	"encoding/hex"
	"encoding/json"
	"fmt"
	"os"
	"path/filepath"
	"testing"
	"time"

	"github.com/klauspost/compress/zstd"
	"github.com/restic/chunker"
	"github.com/restic/restic/internal/backend"
	"github.com/restic/restic/internal/backend/cache"
	"github.com/restic/restic/internal/repository/crypto"
	"github.com/restic/restic/internal/repository/pack"
	"github.com/restic/restic/internal/restic"
	"github.com/restic/restic/internal/test"
	kit "github.com/restic/restic/internal/verifkit"
)

type c02Env struct {
	t    *testing.T
	res  *kit.Result
	recs *kit.NDJSON
	dec  *zstd.Decoder
	n    map[string]int
	// packs the driver itself wrote with a deliberately wrong blob id (not judged as "stored by restic")
	planted map[string]bool
}

func c02Sha(b []byte) restic.ID { return restic.ID(sha256.Sum256(b)) }

func (e *c02Env) newRepo(store *kit.Store, version uint, mode CompressionMode, noVerify bool) *Repository {
	repo, err := New(store.Backend("writer"), Options{Compression: mode, NoExtraVerify: noVerify})
	if err != nil {
		e.t.Fatalf("New: %v", err)
	}
	pol := testChunkerPol
	if err := repo.Init(context.TODO(), version, test.TestPassword, &pol); err != nil {
		e.t.Fatalf("Init: %v", err)
	}
	repo.packerCount = 1 // one packer: blobs of one upload land in one pack, in the order they were saved
	return repo
}

// tryOpen opens the repository in the store with a fresh Repository object and loads the index.
func (e *c02Env) tryOpen(store *kit.Store, proc string, c *cache.Cache) (repo *Repository, err error) {
	defer func() {
		if p := recover(); p != nil {
			err = fmt.Errorf("panic: %v", p)
		}
	}()
	repo, err = New(store.Backend(proc), Options{})
	if err != nil {
		return nil, err
	}
	if err := repo.SearchKey(context.TODO(), test.TestPassword, 10, ""); err != nil {
		return nil, fmt.Errorf("SearchKey: %w", err)
	}
	if c != nil {
		repo.UseCache(c, func(string, ...any) {})
	}
	if err := repo.LoadIndex(context.TODO(), restic.NoopTerminalCounterFactory); err != nil {
		return nil, fmt.Errorf("LoadIndex: %w", err)
	}
	return repo, nil
}

// open is tryOpen on a store nobody disturbs: a failure is itself an observation (an undisturbed read of the key,
// config or index files failed) and is recorded for Fn_ContentAddr (Healthy => no error); nil is returned then.
func (e *c02Env) open(store *kit.Store, proc string, c *cache.Cache, cfg string) *Repository {
	repo, err := e.tryOpen(store, proc, c)
	if err == nil {
		return repo
	}
	cs := "none"
	if c != nil {
		cs = "good"
	}
	rec := map[string]any{"op": "read", "cfg": cfg, "target": "repository-open", "api": "LoadUnpacked", "script": []string{"good"}, "cache": cs, "stored": "good",
		"results": []c02Result{{Err: true}}, "attempts": 0, "panic": false, "msg": c02Short(err.Error())}
	e.recs.Write(rec)
	e.n["read/open-failed"]++
	e.res.Case("open|"+cfg+"|"+proc, true)
	return nil
}

// saveBlobs saves the blobs in one upload (one flush); returns ids, known flags and the error.
func c02SaveBlobs(repo *Repository, t restic.BlobType, bufs [][]byte, dup bool) (ids []restic.ID, known []bool, err error, panicked string) {
	defer func() {
		if p := recover(); p != nil {
			panicked = fmt.Sprint(p)
			err = fmt.Errorf("panic: %v", p)
		}
	}()
	err = repo.WithBlobUploader(context.TODO(), func(ctx context.Context, up restic.BlobSaverWithAsync) error {
		for _, b := range bufs {
			id, k, _, err := up.SaveBlob(ctx, t, b, restic.ID{}, dup)
			if err != nil {
				return err
			}
			ids = append(ids, id)
			known = append(known, k)
		}
		return nil
	})
	return ids, known, err, ""
}

// plainOf decrypts (and decompresses) one blob of a pack with the driver's own code.
func (e *c02Env) plainOf(key *crypto.Key, packBytes []byte, b pack.Blob) ([]byte, bool) {
	if int(b.Offset+b.Length) > len(packBytes) || b.Length < 32 {
		return nil, false
	}
	raw := packBytes[b.Offset : b.Offset+b.Length]
	plain, err := key.Open(nil, raw[:16], raw[16:], nil)
	if err != nil {
		return nil, false
	}
	if b.UncompressedLength != 0 {
		plain, err = e.dec.DecodeAll(plain, nil)
		if err != nil || len(plain) != int(b.UncompressedLength) {
			return nil, false
		}
	}
	return plain, true
}

var c02TypeNames = map[backend.FileType]string{backend.PackFile: "pack", backend.IndexFile: "index", backend.SnapshotFile: "snapshot", backend.LockFile: "lock", backend.KeyFile: "key", backend.ConfigFile: "config"}

// walk checks every file of the store against its name, and every blob of every pack against its id.
func (e *c02Env) walk(store *kit.Store, key *crypto.Key, cfg string) {
	for h, data := range store.Files() {
		if h.Type == backend.PackFile && e.planted[h.Name] {
			continue
		}
		tn := c02TypeNames[h.Type]
		rec := map[string]any{"op": "stored", "cfg": cfg, "ftype": tn, "name_ok": h.Name == hex.EncodeToString(func() []byte { s := sha256.Sum256(data); return s[:] }()), "size": len(data), "blobs": []any{}}
		if h.Type == backend.PackFile && key != nil {
			blobs := []any{}
			list, _, err := pack.List(key, bytes.NewReader(data), int64(len(data)))
			if err != nil {
				blobs = append(blobs, map[string]any{"ok": false, "readable": false, "why": "pack header: " + err.Error()})
			}
			for _, b := range list {
				plain, ok := e.plainOf(key, data, b)
				blobs = append(blobs, map[string]any{"readable": ok, "ok": ok && c02Sha(plain) == b.ID, "len": len(plain), "type": b.Type.String(), "compressed": b.UncompressedLength != 0})
			}
			rec["blobs"] = blobs
		}
		e.recs.Write(rec)
		e.n["stored/"+tn]++
		e.res.Case(fmt.Sprintf("stored|%s|%s|%s", cfg, tn, h.Name), tn != "config")
	}
}

func c02Short(s string) string {
	if len(s) > 120 {
		return s[:120]
	}
	return s
}

func c02Fill(n int, class string, seed int64) []byte {
	b := make([]byte, n)
	switch class {
	case "zeros":
	case "zeros-last-byte-set":
		if n > 0 {
			b[n-1] = 1
		}
	case "zeros-first-byte-set":
		if n > 0 {
			b[0] = 0x80
		}
	case "zeros-middle-byte-set":
		if n > 0 {
			b[n/2] = 7
		}
	case "ones":
		for i := range b {
			b[i] = 0xff
		}
	default:
		kit.Rand(seed).Read(b)
	}
	return b
}

// ------------------------------------------------------------------------------------------------ part 1

func (e *c02Env) part1(version uint, mode CompressionMode, noVerify bool) {
	cfg := fmt.Sprintf("v%d/%s/noverify=%v", version, mode.String(), noVerify)
	store := kit.NewStore()
	repo := e.newRepo(store, version, mode, noVerify)
	ms := chunker.MinSize
	sizes := []int{0, 1, 31, 4096, ms - 1, ms, ms + 1}
	if kit.Thorough() {
		sizes = append(sizes, 2*ms, ms/2, 100000)
	}
	classes := []string{"zeros", "zeros-last-byte-set", "zeros-first-byte-set", "zeros-middle-byte-set", "ones", "random"}
	seq := int64(0)
	for _, bt := range []restic.BlobType{restic.DataBlob, restic.TreeBlob} {
		for _, sz := range sizes {
			for _, cl := range classes {
				if sz == 0 && cl != "zeros" {
					continue
				}
				if !kit.Thorough() && sz > 100000 && sz != ms && bt == restic.TreeBlob && cl != "zeros" && cl != "zeros-last-byte-set" {
					continue
				}
				seq++
				buf := c02Fill(sz, cl, seq)
				want := c02Sha(buf)
				ids, known, err, pn := c02SaveBlobs(repo, bt, [][]byte{buf}, false)
				rec := map[string]any{"op": "save", "what": "blob", "cfg": cfg, "type": bt.String(), "size": sz, "class": cl, "save_err": err != nil, "id_ok": false, "present": false, "panic": pn != ""}
				if err != nil {
					rec["msg"] = c02Short(err.Error())
				} else if len(ids) == 1 {
					rec["id_ok"] = ids[0] == want
					rec["known"] = known[0]
					rec["present"] = len(repo.LookupBlob(restic.BlobHandle{Type: bt, ID: ids[0]})) > 0
				}
				e.recs.Write(rec)
				e.n["save/blob"]++
				e.res.Case(fmt.Sprintf("save|%s|%s|%d|%s", cfg, bt, sz, cl), true)
				if err != nil {
					// a broken upload leaves the repository object unusable for further uploads: start over
					repo = e.open(store, "writer", nil, cfg)
					if repo == nil {
						e.walk(store, nil, cfg)
						return
					}
					repo.packerCount = 1
					repo.opts.NoExtraVerify = noVerify
					repo.opts.Compression = mode
				}
			}
		}
	}
	// the same all-zero chunk again (known blob), and through the asynchronous saver
	zero := make([]byte, ms)
	ids, _, err, _ := c02SaveBlobs(repo, restic.DataBlob, [][]byte{zero, zero}, false)
	rec := map[string]any{"op": "save", "what": "blob", "cfg": cfg, "type": "data", "size": ms, "class": "zeros-again", "save_err": err != nil, "panic": false,
		"id_ok": err == nil && len(ids) == 2 && ids[0] == c02Sha(zero) && ids[1] == c02Sha(zero), "present": err == nil && len(ids) == 2 && len(repo.LookupBlob(restic.BlobHandle{Type: restic.DataBlob, ID: ids[0]})) > 0}
	e.recs.Write(rec)
	e.n["save/blob"]++
	e.res.Case("save|"+cfg+"|zeros-again", true)

	// unpacked files
	for i, ft := range []restic.FileType{restic.SnapshotFile, restic.LockFile, restic.IndexFile, restic.SnapshotFile} {
		payload := []byte(fmt.Sprintf(`{"time":"2024-01-0%dT00:00:00Z","paths":["/p%d"],"x":"%s"}`, i+1, i, cfg))
		var id restic.ID
		var err error
		if i == 3 {
			id, err = repo.SaveUnpacked(context.TODO(), restic.WriteableSnapshotFile, payload)
		} else {
			id, err = (&internalRepository{repo}).SaveUnpacked(context.TODO(), ft, payload)
		}
		stored, present := store.Get(backend.Handle{Type: backend.FileType(ft), Name: id.String()})
		rec := map[string]any{"op": "save", "what": c02TypeNames[backend.FileType(ft)], "cfg": cfg, "save_err": err != nil, "id_ok": present && c02Sha(stored) == id, "present": present, "panic": false}
		e.recs.Write(rec)
		e.n["save/unpacked"]++
		e.res.Case(fmt.Sprintf("save|%s|unpacked|%d", cfg, i), true)
	}
	e.walk(store, repo.Key(), cfg)
	// everything that was saved can be opened and indexed again by a fresh repository object
	e.open(store, "reopen", nil, cfg)
}

// ------------------------------------------------------------------------------------------------ part 2

type c02Target struct {
	name  string
	h     backend.Handle // the file whose reads are disturbed
	twin  []byte         // a valid file of the same kind and layout ("foreign" / stale bytes)
	apis  []string
	ft    restic.FileType
	id    restic.ID          // file id (LoadRaw / LoadUnpacked)
	doc   []byte             // expected decoded document (LoadUnpacked)
	blobs []restic.BlobHandle // LoadBlob: one; LoadBlobsFromPack: all of the pack
	cache bool               // the cache keeps files of this kind
	// stored state of the target: "good", or "misaddressed" = the pack is bit for bit what was uploaded (name =
	// SHA-256 of its bytes, every MAC valid, header and index agree) but one blob in it sits under an id that is not
	// the hash of its plaintext (damaged before encryption on the machine that wrote it)
	stored string
	one    *restic.BlobHandle // LoadBlob asks for this blob (default blobs[0])
	sound  bool               // driver's own verdict: pack name = hash of bytes and every blob hashes to its id
	size   int64              // pack size
}

type c02Fault struct {
	target   backend.Handle
	script   []string
	twin     []byte
	attempts int
}

func (f *c02Fault) serve(h backend.Handle, length int, off int64, data []byte) ([]byte, error) {
	h.IsMetadata = false
	if h != f.target {
		return data, nil
	}
	f.attempts++
	i := f.attempts
	if i > len(f.script) {
		i = len(f.script)
	}
	switch f.script[i-1] {
	case "good":
		return data, nil
	case "altered":
		out := append([]byte{}, data...)
		for _, p := range []int{len(out) / 6, len(out) / 2, (5 * len(out)) / 6} {
			if p < len(out) {
				out[p] ^= 0x20
			}
		}
		return out, nil
	case "truncated":
		if len(data) == 0 {
			return data, nil
		}
		return append([]byte{}, data[:len(data)-1-len(data)/3]...), nil
	case "extended":
		return append(append([]byte{}, data...), 1, 2, 3, 4, 5), nil
	case "empty":
		return []byte{}, nil
	case "foreign":
		out := make([]byte, len(data))
		if int(off) < len(f.twin) {
			copy(out, f.twin[off:])
		}
		if length == 0 {
			out = append([]byte{}, f.twin...)
		}
		return out, nil
	case "error":
		return nil, kit.ErrInjected
	}
	return data, nil
}

type c02Result struct {
	Err    bool `json:"err"`
	HashOK bool `json:"hash_ok"`
	Data   bool `json:"data"`
}

// run performs one API call and reports what was handed out.
func (e *c02Env) run(rd *Repository, tg *c02Target, api string) (results []c02Result, panicked string) {
	defer func() {
		if p := recover(); p != nil {
			panicked = fmt.Sprint(p)
		}
	}()
	ctx := context.TODO()
	switch api {
	case "LoadRaw":
		buf, err := rd.LoadRaw(ctx, tg.ft, tg.id)
		results = append(results, c02Result{Err: err != nil, HashOK: c02Sha(buf) == tg.id, Data: err != nil && buf != nil})
	case "LoadUnpacked":
		buf, err := rd.LoadUnpacked(ctx, tg.ft, tg.id)
		results = append(results, c02Result{Err: err != nil, HashOK: err == nil && bytes.Equal(buf, tg.doc), Data: err != nil && buf != nil})
	case "LoadBlob":
		bh := tg.blobs[0]
		if tg.one != nil {
			bh = *tg.one
		}
		buf, err := rd.LoadBlob(ctx, bh, nil)
		results = append(results, c02Result{Err: err != nil, HashOK: err == nil && c02Sha(buf) == bh.ID, Data: err != nil && buf != nil})
	case "CheckPack":
		// the read behind `check --read-data`: every blob of the pack is read and verified against its id, the pack
		// against its name.  It hands out a verdict instead of bytes: no error = "everything stored in this pack
		// matches its address"; HashOK is filled in by readCase from what was stored and served.
		packID, _ := restic.ParseID(tg.h.Name)
		var blobs pack.Blobs
		for pbs := range rd.listPacksFromIndex(ctx, restic.NewIDSet(packID)) {
			if pbs.PackID == packID {
				blobs = pbs.Blobs
			}
		}
		err := checkPack(ctx, rd, packID, blobs, tg.size, bufio.NewReaderSize(nil, maxStreamBufferSize), e.dec)
		results = append(results, c02Result{Err: err != nil})
	case "LoadBlobsFromPack":
		packID, _ := restic.ParseID(tg.h.Name)
		seen := 0
		err := rd.LoadBlobsFromPack(ctx, packID, tg.blobs, func(bh restic.BlobHandle, buf []byte, err error) error {
			seen++
			results = append(results, c02Result{Err: err != nil, HashOK: err == nil && c02Sha(buf) == bh.ID, Data: err != nil && buf != nil})
			return nil
		})
		if seen == 0 {
			results = append(results, c02Result{Err: err != nil, HashOK: false})
		}
	}
	return results, ""
}

func (e *c02Env) readCase(store *kit.Store, rd *Repository, cfg string, tg *c02Target, api string, script []string, cacheState string) {
	f := &c02Fault{target: tg.h, script: script, twin: tg.twin}
	f.target.IsMetadata = false
	store.ReadFault = func(_ string, h backend.Handle, length int, off int64, data []byte) ([]byte, error) {
		return f.serve(h, length, off, data)
	}
	results, pn := e.run(rd, tg, api)
	store.ReadFault = nil
	if results == nil {
		results = []c02Result{{Err: true}}
	}
	if api == "CheckPack" {
		// a clean verdict is right iff what was stored is sound and what the last read was served begins with the
		// stored bytes ("extended" = the genuine bytes followed by garbage beyond the requested length)
		last := "good"
		if f.attempts > 0 {
			i := f.attempts
			if i > len(script) {
				i = len(script)
			}
			last = script[i-1]
		} else if cacheState == "bad" {
			last = "altered"
		}
		for i := range results {
			results[i].HashOK = !results[i].Err && tg.sound && (last == "good" || last == "extended")
		}
	}
	stored := tg.stored
	if stored == "" {
		stored = "good"
	}
	rec := map[string]any{"op": "read", "cfg": cfg, "target": tg.name, "api": api, "script": script, "cache": cacheState, "stored": stored, "results": results, "attempts": f.attempts, "panic": pn != ""}
	if pn != "" {
		rec["msg"] = pn
	}
	e.recs.Write(rec)
	e.n["read/"+api]++
	okc := 0
	for _, r := range results {
		if !r.Err {
			okc++
		}
	}
	e.res.Case(fmt.Sprintf("read|%s|%s|%s|%v|%s", cfg, tg.name, api, script, cacheState), true)
	e.res.Count(fmt.Sprintf("read_values_ok"), okc)
	e.res.Count(fmt.Sprintf("read_values_err"), len(results)-okc)
	for _, r := range results {
		if !r.Err && !r.HashOK && api == "CheckPack" {
			e.res.Violate(fmt.Sprintf("address/read/%s/%s/mismatch-passes-verification", api, tg.name), fmt.Sprintf("checkPack (check --read-data) of %s (%s, stored: %s) reported no error although what it read does not match its address; backend script %v, cache %s", tg.name, cfg, stored, script, cacheState), rec)
			break
		}
		if !r.Err && !r.HashOK {
			e.res.Violate(fmt.Sprintf("address/read/%s/%s/wrong-content-handed-out", api, tg.name), fmt.Sprintf("%s of %s (%s) returned content whose hash is not the requested id; backend script %v, cache %s", api, tg.name, cfg, script, cacheState), rec)
			break
		}
	}
	if pn != "" {
		e.res.Violate("address/read/"+api+"/panic", "panic: "+pn, rec)
	}
}

func c02Corrupt(dir, name string) bool {
	found := false
	_ = filepath.Walk(dir, func(p string, fi os.FileInfo, err error) error {
		if err == nil && !fi.IsDir() && fi.Name() == name && fi.Size() > 0 {
			b, err := os.ReadFile(p)
			if err == nil {
				b[len(b)/2] ^= 0x01
				_ = os.Chmod(p, 0o600)
				found = os.WriteFile(p, b, 0o600) == nil
			}
		}
		return nil
	})
	return found
}

type c02SetupFailed struct{}

// setupFail: preparing the read scenarios on an undisturbed store failed (a save, an index lookup or a stored file is
// missing).  That is an observation about the real code, recorded for Fn_ContentAddr (Healthy => no error).
func (e *c02Env) setupFail(cfg, format string, args ...any) {
	rec := map[string]any{"op": "read", "cfg": cfg, "target": "scenario-setup", "api": "LoadBlob", "script": []string{"good"}, "cache": "none", "stored": "good",
		"results": []c02Result{{Err: true}}, "attempts": 0, "panic": false, "msg": c02Short(fmt.Sprintf(format, args...))}
	e.recs.Write(rec)
	e.n["read/setup-failed"]++
	e.res.Case("setup|"+cfg, true)
	panic(c02SetupFailed{})
}

func (e *c02Env) part2(version uint, mode CompressionMode, scripts [][]string, withCache bool) {
	cfg := fmt.Sprintf("v%d/%s", version, mode.String())
	store := kit.NewStore()
	repo := e.newRepo(store, version, mode, false)
	ctx := context.TODO()
	defer func() {
		if p := recover(); p != nil {
			if _, ok := p.(c02SetupFailed); !ok {
				panic(p)
			}
			e.walk(store, repo.Key(), cfg)
		}
	}()
	must := func(ids []restic.ID, _ []bool, err error, _ string) []restic.ID {
		if err != nil {
			e.setupFail(cfg, "setup save: %v", err)
		}
		return ids
	}
	rb := func(n int, seed int64) []byte { return c02Fill(n, "random", seed) }
	packOf := func(bt restic.BlobType, id restic.ID) (restic.ID, []byte) {
		pbs := repo.LookupBlob(restic.BlobHandle{Type: bt, ID: id})
		if len(pbs) == 0 {
			e.setupFail(cfg, "blob not indexed")
		}
		pid := pbs[len(pbs)-1].PackID()
		data, ok := store.Get(backend.Handle{Type: backend.PackFile, Name: pid.String()})
		if !ok {
			e.setupFail(cfg, "pack missing")
		}
		return pid, data
	}
	var targets []*c02Target
	// twin single-blob packs (same size, so same layout) for data and tree blobs
	for _, bt := range []restic.BlobType{restic.DataBlob, restic.TreeBlob} {
		a := must(c02SaveBlobs(repo, bt, [][]byte{rb(1000, 1+int64(bt))}, false))[0]
		b := must(c02SaveBlobs(repo, bt, [][]byte{rb(1000, 11+int64(bt))}, false))[0]
		pa, _ := packOf(bt, a)
		_, twin := packOf(bt, b)
		targets = append(targets, &c02Target{name: bt.String() + "-blob", h: backend.Handle{Type: backend.PackFile, Name: pa.String()}, twin: twin, apis: []string{"LoadBlob", "LoadBlobsFromPack", "CheckPack"},
			blobs: []restic.BlobHandle{{Type: bt, ID: a}}, cache: bt == restic.TreeBlob})
		// three blobs in one pack and a twin pack with the same layout
		x := must(c02SaveBlobs(repo, bt, [][]byte{rb(700, 21+int64(bt)), rb(300, 22+int64(bt)), rb(1500, 23+int64(bt))}, false))
		y := must(c02SaveBlobs(repo, bt, [][]byte{rb(700, 31+int64(bt)), rb(300, 32+int64(bt)), rb(1500, 33+int64(bt))}, false))
		px, _ := packOf(bt, x[0])
		_, twin3 := packOf(bt, y[0])
		hs := []restic.BlobHandle{}
		for _, id := range x {
			hs = append(hs, restic.BlobHandle{Type: bt, ID: id})
			if p, _ := packOf(bt, id); p != px {
				e.res.Problem("blobs of one upload are in different packs")
			}
		}
		targets = append(targets, &c02Target{name: bt.String() + "-pack3", h: backend.Handle{Type: backend.PackFile, Name: px.String()}, twin: twin3, apis: []string{"LoadBlobsFromPack", "LoadBlob", "CheckPack"},
			blobs: hs, cache: bt == restic.TreeBlob})
		// the same layout once more, but the middle blob is stored under an id that is not the hash of its plaintext:
		// written with the extra verification switched off and an id handed in by the caller (what bad memory between
		// hashing and encrypting produces).  Every read of that blob has to report an error.
		{
			// compressible content: with compression on the blob is stored compressed (the other two are not)
			orig := bytes.Repeat([]byte(fmt.Sprintf("{\"name\":\"verif-%d\",\"type\":\"file\",\"mode\":420},", bt)), 8)[:300]
			wrong := restic.BlobHandle{Type: bt, ID: c02Sha(orig)}
			damaged := append([]byte{}, orig...)
			damaged[17] ^= 0x04
			g1, g3 := rb(700, 41+int64(bt)), rb(1500, 43+int64(bt))
			repo.opts.NoExtraVerify = true
			err := repo.WithBlobUploader(ctx, func(ctx context.Context, up restic.BlobSaverWithAsync) error {
				for _, x := range []struct {
					buf []byte
					id  restic.ID
				}{{g1, restic.ID{}}, {damaged, wrong.ID}, {g3, restic.ID{}}} {
					if _, _, _, err := up.SaveBlob(ctx, bt, x.buf, x.id, false); err != nil {
						return err
					}
				}
				return nil
			})
			repo.opts.NoExtraVerify = false
			if err != nil {
				e.setupFail(cfg, "setup save (explicit id): %v", err)
			}
			pm, _ := packOf(bt, wrong.ID)
			e.planted[pm.String()] = true
			mh := []restic.BlobHandle{{Type: bt, ID: c02Sha(g1)}, wrong, {Type: bt, ID: c02Sha(g3)}}
			for _, bh := range mh {
				if p, _ := packOf(bt, bh.ID); p != pm {
					e.res.Problem("blobs of one upload are in different packs")
				}
			}
			targets = append(targets, &c02Target{name: bt.String() + "-misaddressed", h: backend.Handle{Type: backend.PackFile, Name: pm.String()}, twin: twin3,
				apis: []string{"LoadBlob", "LoadBlobsFromPack", "CheckPack"}, blobs: mh, one: &wrong, stored: "misaddressed"})
		}
		if bt == restic.DataBlob {
			// whole pack file through LoadRaw
			targets = append(targets, &c02Target{name: "pack-file", h: backend.Handle{Type: backend.PackFile, Name: pa.String()}, twin: twin, apis: []string{"LoadRaw"}, ft: restic.PackFile, id: pa})
			// a blob stored in two packs; only one of them is disturbed
			d := rb(900, 77)
			d1 := must(c02SaveBlobs(repo, bt, [][]byte{d}, false))[0]
			must(c02SaveBlobs(repo, bt, [][]byte{d}, true))
			pbs := repo.LookupBlob(restic.BlobHandle{Type: bt, ID: d1})
			if len(pbs) < 2 {
				e.res.Problem("duplicate blob was not stored twice")
			} else {
				for i, pb := range pbs[:2] {
					targets = append(targets, &c02Target{name: fmt.Sprintf("dup-blob-pack%d", i+1), h: backend.Handle{Type: backend.PackFile, Name: pb.PackID().String()}, twin: twin, apis: []string{"LoadBlob"},
						blobs: []restic.BlobHandle{{Type: bt, ID: d1}}})
				}
			}
		}
	}
	// unpacked files with a twin of the same kind
	unp := func(ft restic.FileType, n int) (restic.ID, []byte, []byte) {
		doc := []byte(fmt.Sprintf(`{"time":"2024-02-0%dT00:00:00Z","hostname":"h","paths":["/data/%d"],"pad":"%s"}`, n, n, cfg))
		id, err := (&internalRepository{repo}).SaveUnpacked(ctx, ft, doc)
		if err != nil {
			e.setupFail(cfg, "setup SaveUnpacked: %v", err)
		}
		raw, _ := store.Get(backend.Handle{Type: backend.FileType(ft), Name: id.String()})
		return id, doc, raw
	}
	for _, ft := range []restic.FileType{restic.SnapshotFile, restic.LockFile} {
		id1, doc1, _ := unp(ft, 1)
		_, _, raw2 := unp(ft, 2)
		targets = append(targets, &c02Target{name: c02TypeNames[backend.FileType(ft)], h: backend.Handle{Type: backend.FileType(ft), Name: id1.String()}, twin: raw2, apis: []string{"LoadRaw", "LoadUnpacked"},
			ft: ft, id: id1, doc: doc1, cache: ft == restic.SnapshotFile})
	}
	{
		names := store.Names(backend.IndexFile)
		if len(names) < 2 {
			e.setupFail(cfg, "expected several index files")
		}
		id1, _ := restic.ParseID(names[0])
		raw1, _ := store.Get(backend.Handle{Type: backend.IndexFile, Name: names[0]})
		raw2, _ := store.Get(backend.Handle{Type: backend.IndexFile, Name: names[1]})
		doc, err := repo.Key().Open(nil, raw1[:16], raw1[16:], nil)
		if err == nil && version >= 2 && len(doc) > 0 && doc[0] == 2 {
			doc, err = e.dec.DecodeAll(doc[1:], nil)
		}
		if err != nil {
			e.setupFail(cfg, "cannot decode index file independently: %v", err)
		}
		targets = append(targets, &c02Target{name: "index", h: backend.Handle{Type: backend.IndexFile, Name: names[0]}, twin: raw2, apis: []string{"LoadRaw", "LoadUnpacked"}, ft: restic.IndexFile, id: id1, doc: doc, cache: true})
		knames := store.Names(backend.KeyFile)
		kid, _ := restic.ParseID(knames[0])
		targets = append(targets, &c02Target{name: "key", h: backend.Handle{Type: backend.KeyFile, Name: knames[0]}, twin: raw2, apis: []string{"LoadRaw"}, ft: restic.KeyFile, id: kid})
	}

	// the driver's own verdict about every target pack (independent decrypt / decompress / SHA-256)
	for _, tg := range targets {
		if tg.h.Type != backend.PackFile {
			continue
		}
		data, _ := store.Get(tg.h)
		tg.size = int64(len(data))
		tg.sound = hex.EncodeToString(func() []byte { s := sha256.Sum256(data); return s[:] }()) == tg.h.Name
		list, _, err := pack.List(repo.Key(), bytes.NewReader(data), int64(len(data)))
		if err != nil || len(list) == 0 {
			tg.sound = false
		}
		for _, b := range list {
			plain, ok := e.plainOf(repo.Key(), data, b)
			if !ok || c02Sha(plain) != b.ID {
				tg.sound = false
			}
		}
		if tg.sound != (tg.stored != "misaddressed") {
			e.res.Problem("target %s: the stored pack is sound=%v but the scenario wants %q", tg.name, tg.sound, tg.stored)
		}
	}
	// ---- no cache: one reader, every script
	rd := e.open(store, "reader", nil, cfg)
	if rd == nil {
		e.walk(store, repo.Key(), cfg)
		return
	}
	for _, tg := range targets {
		for _, api := range tg.apis {
			for _, sc := range scripts {
				e.readCase(store, rd, cfg, tg, api, sc, "none")
			}
		}
	}
	// ---- with a cache: warm (good) and corrupted (bad) cache file; scripts of length <= 2
	cfgID := repo.Config().ID
	ci := 0
	for _, tg := range targets {
		if !tg.cache || !withCache {
			continue
		}
		for _, api := range tg.apis {
			for si, sc := range scripts {
				if len(sc) > 2 || (!kit.Thorough() && len(sc) == 2 && (si+int(kit.Seed()))%8 != 0) {
					continue // quick: every one-step script, a seed-dependent eighth of the two-step scripts
				}
				for _, cs := range []string{"good", "bad"} {
					ci++
					dir := e.t.TempDir()
					c, err := cache.New(cfgID, dir)
					if err != nil {
						e.res.Problem("cache.New: %v", err)
						return
					}
					crd := e.open(store, "cached-reader", c, cfg)
					if crd == nil {
						return
					}
					// warm the cache with an undisturbed read through the same API (checkPack never fills the cache:
					// an ordinary read of a blob of the pack does)
					warm := api
					if api == "CheckPack" {
						warm = "LoadBlob"
					}
					if res, pn := e.run(crd, tg, warm); pn != "" || len(res) == 0 || res[0].Err || !res[0].HashOK {
						e.res.Problem("undisturbed warm-up read failed for %s %s: %v %s", tg.name, api, res, pn)
						continue
					}
					if cs == "bad" && !c02Corrupt(c.BaseDir(), tg.h.Name) {
						e.res.Count("cache_file_not_found_"+tg.name, 1)
						continue
					}
					e.readCase(store, crd, cfg, tg, api, sc, cs)
				}
			}
		}
	}
}

// TestVerif_C02Build does nothing: props/C02.py runs it while TLC works, so that the packages of the test binary
// are compiled (build cache) by the time the fault scripts exist.
func TestVerif_C02Build(t *testing.T) {}

func TestVerif_C02(t *testing.T) {
	res := kit.NewResult("one case = one object saved on a healthy store (blob size x content class x type x repository configuration; unpacked files), one stored file checked against its name (and every blob in it against its id), or one read (API x target x TLC-enumerated fault script x cache state); distinct by those coordinates; all are non-trivial except the config file")
	recs := kit.NewNDJSON("recs.ndjson")
	defer recs.Close()
	TestUseLowSecurityKDFParameters(t)
	restic.TestDisableCheckPolynomial(t)
	dec, err := zstd.NewReader(nil)
	if err != nil {
		t.Fatal(err)
	}
	e := &c02Env{t: t, res: res, recs: recs, dec: dec, n: map[string]int{}, planted: map[string]bool{}}

	// fault scripts enumerated by TLC
	var scripts [][]string
	vf := os.Getenv("VERIF_VECTORS")
	fh, err := os.Open(vf)
	if err != nil {
		t.Fatalf("VERIF_VECTORS: %v", err)
	}
	sc := bufio.NewScanner(fh)
	for sc.Scan() {
		var v struct {
			Script []string `json:"script"`
		}
		if err := json.Unmarshal(sc.Bytes(), &v); err != nil || len(v.Script) == 0 {
			t.Fatalf("bad vector %q", sc.Text())
		}
		scripts = append(scripts, v.Script)
	}
	_ = fh.Close()
	res.Count("tlc_fault_scripts", len(scripts))

	// part 1: addresses of everything real saves store
	type pc struct {
		v  uint
		m  CompressionMode
		nv bool
	}
	p1 := []pc{{2, CompressionAuto, false}, {2, CompressionAuto, true}, {1, CompressionAuto, true}, {2, CompressionOff, true}}
	if kit.Thorough() {
		p1 = append(p1, pc{1, CompressionAuto, false}, pc{2, CompressionOff, false}, pc{2, CompressionMax, true})
	}
	t0 := time.Now()
	for _, c := range p1 {
		e.part1(c.v, c.m, c.nv)
	}
	res.Count("ms_part1", int(time.Since(t0).Milliseconds()))
	t0 = time.Now()
	// part 2: reads under fault scripts
	e.part2(1, CompressionAuto, scripts, kit.Thorough())
	e.part2(2, CompressionAuto, scripts, true)
	res.Count("ms_part2", int(time.Since(t0).Milliseconds()))
	if kit.Thorough() {
		e.part2(2, CompressionOff, scripts, true)
	}
	for k, v := range e.n {
		res.Count("records_"+k, v)
	}
	res.Sample(map[string]any{"op": "read", "api": "LoadBlob", "target": "data-blob", "script": []string{"foreign", "good"}, "cache": "none"})
	res.Sample(map[string]any{"op": "save", "what": "blob", "size": chunker.MinSize, "class": "zeros"})
	res.Save("")
}
