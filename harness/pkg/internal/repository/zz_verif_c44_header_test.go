package repository

import (
	"context"
	"encoding/binary"
	"testing"

	"github.com/restic/restic/internal/repository/crypto"
	"github.com/restic/restic/internal/repository/pack"
	"github.com/restic/restic/internal/restic"
	kit "github.com/restic/restic/internal/verifkit"
)

// TestVerif_C44Header: very many tiny blobs and a large target pack size, so that the header entry limit and not
// the pack size decides when a pack is full - in SaveBlob (HeaderFull) and in the merge at Flush.
func TestVerif_C44Header(t *testing.T) {
	res := kit.NewResult("one case = one upload session of n tiny blobs (n around 0.6 / 1.2 / 2.1 x pack.MaxHeaderEntries through two packers; n = limit-1, limit, limit+1, limit+7, 2*limit+1 through one packer) through a real packerManager and a target pack size the bytes never reach; every queued pack is finalized; judged by Fn_PackMerge!RecOK (all blobs in exactly one queued pack, no pack above the header limit, Finalize succeeds); distinct by n")
	recs := kit.NewNDJSON("recs_header.ndjson")
	defer recs.Close()
	key := crypto.NewRandomKey()
	limit := int(pack.MaxHeaderEntries)
	type sess struct{ n, packers int }
	// two packers: the merge at flush decides; one packer: HeaderFull in SaveBlob decides (just below, at and
	// above the limit)
	ss := []sess{{limit * 6 / 10, defaultPackerCount}, {limit * 12 / 10, defaultPackerCount}, {limit - 1, 1}, {limit, 1}, {limit + 1, 1}, {limit + 7, 1}}
	if kit.Thorough() {
		ss = append(ss, sess{limit * 21 / 10, defaultPackerCount}, sess{2*limit + 1, 1})
	}
	for _, se := range ss {
		n := se.n
		counts := []int{}
		final := []bool{}
		pm := newPackerManager(key, restic.DataBlob, 1<<30, se.packers, func(ctx context.Context, tpe restic.BlobType, p *packer) error {
			counts = append(counts, p.Count())
			err := p.Finalize()
			final = append(final, err == nil)
			_ = p.tmpfile.Close()
			return nil
		})
		ctx := context.Background()
		buf := make([]byte, 40)
		accepted := 0
		var serr error
		for i := 0; i < n; i++ {
			var id restic.ID
			binary.LittleEndian.PutUint64(id[:], uint64(i)+1)
			binary.LittleEndian.PutUint64(buf, uint64(i))
			if _, err := pm.SaveBlob(ctx, restic.DataBlob, id, buf, 8); err != nil {
				serr = err
				break
			}
			accepted++
		}
		ferr := pm.Flush(ctx)
		recs.Write(map[string]any{"n": accepted, "packers": se.packers, "counts": counts, "final": final, "limit": limit, "save_err": serr != nil, "flush_err": ferr != nil})
		res.Case("header/"+itoa(n)+"/"+itoa(se.packers), true)
		res.Sample(map[string]any{"n": n, "packers": se.packers, "packs": counts})
	}
	res.Save("result_header.json")
}

func itoa(n int) string {
	b := []byte{}
	if n == 0 {
		return "0"
	}
	for n > 0 {
		b = append([]byte{byte('0' + n%10)}, b...)
		n /= 10
	}
	return string(b)
}
