package pack_test

// external test package: internal/verifkit imports internal/repository/pack, an in-package test would be an import cycle

// C06 driver: writes packs with the real Packer, hand-builds packs following doc/design.rst, mutates the
// trailing header, lists everything with the real List and records (abstract file, outcome) for
// spec/Fn_PackFormat.tla.  Nothing here decides the property: TLC evaluates Fn_PackFormat!RecOK.

import (
	"bytes"
	"encoding/binary"
	"fmt"
	"math/rand"
	"testing"

	"github.com/restic/restic/internal/repository/crypto"
	"github.com/restic/restic/internal/repository/pack"
	"github.com/restic/restic/internal/restic"
	kit "github.com/restic/restic/internal/verifkit"
)

type c06Item struct {
	Tb   int `json:"tb"`
	Len  int `json:"len"`
	Ulen int `json:"ulen"`
	ID   int `json:"id"`
	N    int `json:"n"`
}

type c06File struct {
	Size     int       `json:"size"`
	Lenfield int       `json:"lenfield"`
	Auth     bool      `json:"auth"`
	Items    []c06Item `json:"items"`
}

type c06Listed struct {
	T    string `json:"t"`
	Off  int    `json:"off"`
	Len  int    `json:"len"`
	Ulen int    `json:"ulen"`
	ID   int    `json:"id"`
}

type c06Out struct {
	Err     bool        `json:"err"`
	Panic   bool        `json:"panic"`
	Listed  []c06Listed `json:"listed"`
	HdrSize int         `json:"hdr_size"`
	Msg     string      `json:"msg"`
}

type c06Blob struct {
	T    string `json:"t"`
	Len  int    `json:"len"`
	Ulen int    `json:"ulen"`
}

// c06Entry is a concrete header entry of a hand-built header; n is the number of its bytes that are present.
type c06Entry struct {
	tb     byte
	length uint32
	ulen   uint32
	id     restic.ID
	n      int
}

func c06Full(tb byte) int {
	if tb == 2 || tb == 3 {
		return 41
	}
	return 37
}

// c06EncodeEntries is the driver's own encoder of the documented header layout.
func c06EncodeEntries(es []c06Entry) []byte {
	var out []byte
	for _, e := range es {
		b := []byte{e.tb}
		b = binary.LittleEndian.AppendUint32(b, e.length)
		if e.tb == 2 || e.tb == 3 {
			b = binary.LittleEndian.AppendUint32(b, e.ulen)
		}
		b = append(b, e.id[:]...)
		out = append(out, b[:e.n]...)
	}
	return out
}

// c06Decode is the driver's own decoder of the documented header layout (abstract items).
func c06Decode(p []byte, ids map[restic.ID]int) []c06Item {
	items := []c06Item{}
	for len(p) > 0 {
		tb := p[0]
		full := c06Full(tb)
		it := c06Item{Tb: int(tb), N: full}
		if len(p) < full {
			it.N = len(p)
			items = append(items, it)
			break
		}
		it.Len = int(binary.LittleEndian.Uint32(p[1:5]))
		q := p[5:]
		if tb == 2 || tb == 3 {
			it.Ulen = int(binary.LittleEndian.Uint32(q[:4]))
			q = q[4:]
		}
		var id restic.ID
		copy(id[:], q[:32])
		it.ID = ids[id]
		items = append(items, it)
		p = p[full:]
	}
	return items
}

func c06Items(es []c06Entry, ids map[restic.ID]int) []c06Item {
	items := []c06Item{}
	for _, e := range es {
		it := c06Item{Tb: int(e.tb), N: e.n}
		if e.n == c06Full(e.tb) {
			it.Len, it.ID = int(e.length), ids[e.id]
			if e.tb == 2 || e.tb == 3 {
				it.Ulen = int(e.ulen)
			}
		}
		items = append(items, it)
	}
	return items
}

type c06Env struct {
	key  *crypto.Key
	rnd  *rand.Rand
	res  *kit.Result
	recs *kit.NDJSON
	auth map[string][]c06Item // every authentic sealed message (IV||ct||MAC) under key -> its abstract plaintext
	n    map[string]int
}

func (e *c06Env) randID() restic.ID {
	var id restic.ID
	e.rnd.Read(id[:])
	return id
}

func (e *c06Env) randBytes(n int) []byte {
	b := make([]byte, n)
	e.rnd.Read(b)
	return b
}

// seal produces IV||ct||MAC for plain under key k.
func c06Seal(k *crypto.Key, plain []byte) []byte {
	nonce := crypto.NewRandomNonce()
	out := append([]byte{}, nonce...)
	return k.Seal(out, nonce, plain, nil)
}

func c06Clamp(v uint32) int {
	if v > 1<<30 {
		return 1 << 30
	}
	return int(v)
}

// describe computes the abstract file of Fn_PackFormat from bytes: size, value of the length field and
// whether the bytes in front of the length field are exactly one of the authentic sealed messages.
func (e *c06Env) describe(file []byte, auth map[string][]c06Item) c06File {
	f := c06File{Size: len(file), Items: []c06Item{}}
	if len(file) < 4 {
		return f
	}
	lf := binary.LittleEndian.Uint32(file[len(file)-4:])
	f.Lenfield = c06Clamp(lf)
	if lf >= 32 && int64(lf)+4 <= int64(len(file)) {
		region := file[len(file)-4-int(lf) : len(file)-4]
		if items, ok := auth[string(region)]; ok {
			f.Auth = true
			f.Items = items
		}
	}
	return f
}

func c06TypeName(t restic.BlobType) string {
	switch t {
	case restic.DataBlob:
		return "data"
	case restic.TreeBlob:
		return "tree"
	}
	return fmt.Sprintf("type%d", t)
}

// list runs the real List and never lets a panic escape.
func c06List(k *crypto.Key, file []byte, ids map[restic.ID]int) (o c06Out, blobs pack.Blobs) {
	defer func() {
		if p := recover(); p != nil {
			o = c06Out{Err: true, Panic: true, Listed: []c06Listed{}, Msg: fmt.Sprint(p)}
		}
	}()
	entries, hdr, err := pack.List(k, bytes.NewReader(file), int64(len(file)))
	o.Listed = []c06Listed{}
	if err != nil {
		o.Err = true
		o.Msg = err.Error()
		if len(o.Msg) > 80 {
			o.Msg = o.Msg[:80]
		}
		return o, nil
	}
	o.HdrSize = c06Clamp(hdr)
	for _, b := range entries {
		o.Listed = append(o.Listed, c06Listed{T: c06TypeName(b.Type), Off: int(b.Offset), Len: int(b.Length), Ulen: int(b.UncompressedLength), ID: ids[b.ID]})
	}
	return o, entries
}

// emit lists file with key k and writes one record.
func (e *c06Env) emit(kind, fam, desc string, k *crypto.Key, file []byte, ids map[restic.ID]int, extra map[string]any) c06Out {
	auth := e.auth
	if k != e.key {
		auth = nil // nothing is authentic under a foreign key
	}
	f := e.describe(file, auth)
	o, _ := c06List(k, file, ids)
	rec := map[string]any{"kind": kind, "fam": fam, "desc": desc, "f": f, "out": o}
	for k2, v := range extra {
		rec[k2] = v
	}
	e.recs.Write(rec)
	e.n[kind+"/"+fam]++
	cls := "rejected"
	if !o.Err {
		cls = "listed"
	}
	e.res.Case(fmt.Sprintf("%s|%s|%s|%s", kind, fam, desc, cls), true)
	e.res.Count("outcome_"+cls, 1)
	if o.Panic {
		e.res.Violate("pack/list-panics/"+fam, fmt.Sprintf("pack.List panicked (%s) on %s: %s", o.Msg, fam, desc), rec)
	}
	return o
}

type c06Spec struct {
	t    restic.BlobType
	len  int
	ulen int
}

// writePack drives the real Packer; split > 0 adds the blobs from split on through a second packer + Merge.
func (e *c06Env) writePack(specs []c06Spec, split int) (file []byte, ids map[restic.ID]int, rec map[string]any, ok bool) {
	ids = map[restic.ID]int{}
	var buf, buf2 bytes.Buffer
	p := pack.NewPacker(e.key, &buf)
	blobs := []c06Blob{}
	addRet := []int{}
	idl := []restic.ID{}
	var p2 *pack.Packer
	if split > 0 {
		p2 = pack.NewPacker(e.key, &buf2)
	}
	for i, s := range specs {
		id := e.randID()
		ids[id] = i + 1
		idl = append(idl, id)
		blobs = append(blobs, c06Blob{T: c06TypeName(s.t), Len: s.len, Ulen: s.ulen})
		tgt := p
		if p2 != nil && i >= split {
			tgt = p2
		}
		n, err := tgt.Add(s.t, id, e.randBytes(s.len), s.ulen)
		if err != nil {
			e.res.Problem("Packer.Add failed: %v", err)
			return nil, nil, nil, false
		}
		addRet = append(addRet, n)
	}
	if p2 != nil {
		if err := p.Merge(p2, bytes.NewReader(buf2.Bytes())); err != nil {
			e.res.Problem("Packer.Merge failed: %v", err)
			return nil, nil, nil, false
		}
	}
	finErr := p.Finalize()
	file = append([]byte{}, buf.Bytes()...)
	// register the header the packer wrote as authentic iff it sits where the documentation puts it and opens
	hl := 32
	sum := 0
	for _, s := range specs {
		sum += s.len
		if s.ulen != 0 {
			hl += 41
		} else {
			hl += 37
		}
	}
	if finErr == nil && len(file) == sum+hl+4 {
		region := file[sum : sum+hl]
		if plain, err := e.key.Open(nil, region[:16], region[16:], nil); err == nil {
			e.auth[string(region)] = c06Decode(plain, ids)
		}
	}
	pb := p.Blobs()
	rec = map[string]any{"blobs": blobs, "add_ret": addRet, "fin_err": finErr != nil, "psize": int(p.Size()), "split": split}
	if finErr != nil {
		rec["fin_msg"] = finErr.Error()
	}
	// Packer.Blobs() against what was added
	pbOK := len(pb) == len(specs) && p.Count() == len(specs)
	off := 0
	for i := range pb {
		if !pbOK {
			break
		}
		s := specs[i]
		pbOK = pb[i].Type == s.t && pb[i].ID == idl[i] && int(pb[i].Length) == s.len && int(pb[i].UncompressedLength) == s.ulen && int(pb[i].Offset) == off
		off += s.len
	}
	rec["pblobs_ok"] = pbOK
	return file, ids, rec, true
}

func (e *c06Env) roundtrip(fam, desc string, specs []c06Spec, split int) {
	file, ids, rec, ok := e.writePack(specs, split)
	if !ok {
		return
	}
	f := e.describe(file, e.auth)
	o, entries := c06List(e.key, file, ids)
	rec["kind"], rec["fam"], rec["desc"], rec["f"], rec["out"] = "rt", fam, desc, f, o
	calc := 0
	if entries != nil {
		calc = pack.CalculateHeaderSize(entries)
	}
	rec["calc_hdr"] = calc
	e.recs.Write(rec)
	e.n["rt/"+fam]++
	e.res.Case("rt|"+fam+"|"+desc, len(specs) > 0)
	if o.Panic {
		e.res.Violate("pack/list-panics/"+fam, "pack.List panicked on a pack written by Packer: "+o.Msg, rec)
	}
}

// hand builds blobarea || Seal(entries) || len32 with the driver's own encoder.
func (e *c06Env) hand(es []c06Entry, consistent bool) (file []byte, ids map[restic.ID]int) {
	ids = map[restic.ID]int{}
	sum := 0
	for i := range es {
		es[i].id = e.randID()
		ids[es[i].id] = i + 1
		if es[i].n == c06Full(es[i].tb) && es[i].length < 1<<20 {
			sum += int(es[i].length)
		}
	}
	if !consistent {
		sum = 5 + e.rnd.Intn(60)
	}
	plain := c06EncodeEntries(es)
	sealed := c06Seal(e.key, plain)
	e.auth[string(sealed)] = c06Items(es, ids)
	file = append(e.randBytes(sum), sealed...)
	file = binary.LittleEndian.AppendUint32(file, uint32(len(sealed)))
	return file, ids
}

func c06Desc(es []c06Entry) string {
	s := ""
	for _, e := range es {
		s += fmt.Sprintf("[%d:%d/%d n%d]", e.tb, e.length, e.ulen, e.n)
	}
	return s
}

func c06SpecDesc(ss []c06Spec) string {
	s := ""
	for _, x := range ss {
		s += fmt.Sprintf("[%s:%d/%d]", c06TypeName(x.t), x.len, x.ulen)
	}
	return s
}

func (e *c06Env) mutations(base string, file []byte, ids map[restic.ID]int, hdr int, small bool) {
	size := len(file)
	L := uint32(hdr - 4)
	thorough := kit.Thorough()
	// ---- truncation at the end
	ks := map[int]bool{}
	if small || thorough {
		lim := hdr + 60
		if thorough && size < 6000 {
			lim = size
		}
		for k := 1; k <= lim && k <= size; k++ {
			ks[k] = true
		}
	} else {
		for k := 1; k <= 48; k++ {
			ks[k] = true
		}
		for k := hdr - 42; k <= hdr+42; k++ {
			ks[k] = true
		}
		for i := 0; i < 40; i++ {
			ks[1+e.rnd.Intn(size)] = true
		}
	}
	for s := 0; s <= 80 && s <= size; s++ {
		ks[size-s] = true
	}
	for k := range ks {
		if k < 1 || k > size {
			continue
		}
		e.emit("mut", "truncate-end", fmt.Sprintf("%s -%d", base, k), e.key, file[:size-k], ids, nil)
	}
	// ---- truncation at the front (header intact, file shorter)
	for s := 0; s <= 80 && s <= size; s++ {
		e.emit("mut", "keep-tail", fmt.Sprintf("%s tail%d", base, s), e.key, file[size-s:], ids, nil)
	}
	for d := -5; d <= 5; d++ {
		if s := hdr + d; s >= 0 && s <= size {
			e.emit("mut", "keep-tail", fmt.Sprintf("%s tail=hdr%+d", base, d), e.key, file[size-s:], ids, nil)
		}
	}
	// ---- extension
	for _, k := range []int{1, 2, 3, 4, 5, 16, 32, 36, 37, 41, 73, 100, 651, 652} {
		for _, fill := range []string{"zero", "ff", "rand"} {
			ext := make([]byte, k)
			switch fill {
			case "ff":
				for i := range ext {
					ext[i] = 0xff
				}
			case "rand":
				e.rnd.Read(ext)
			}
			e.emit("mut", "extend", fmt.Sprintf("%s +%d %s", base, k, fill), e.key, append(append([]byte{}, file...), ext...), ids, nil)
		}
	}
	lenb := file[size-4:]
	e.emit("mut", "extend", base+" +lenfield-copy", e.key, append(append([]byte{}, file...), lenb...), ids, nil)
	e.emit("mut", "extend", base+" +lenfield+4", e.key, binary.LittleEndian.AppendUint32(append([]byte{}, file...), L+4), ids, nil)
	e.emit("mut", "extend", base+" +32", e.key, binary.LittleEndian.AppendUint32(append([]byte{}, file...), 32), ids, nil)
	// second authentic header appended (a well-formed pack whose blob area is the whole first pack)
	{
		es := []c06Entry{{tb: 0, length: 7, n: 37}, {tb: 3, length: 9, ulen: 20, n: 41}}
		ids2 := map[restic.ID]int{}
		for i := range es {
			es[i].id = e.randID()
			ids2[es[i].id] = i + 1
		}
		sealed := c06Seal(e.key, c06EncodeEntries(es))
		e.auth[string(sealed)] = c06Items(es, ids2)
		f2 := append(append([]byte{}, file...), sealed...)
		f2 = binary.LittleEndian.AppendUint32(f2, uint32(len(sealed)))
		e.emit("mut", "extend", base+" +second-header", e.key, f2, ids2, nil)
		// and one sealed under a foreign key
		other := crypto.NewRandomKey()
		sealed = c06Seal(other, c06EncodeEntries(es))
		f3 := append(append([]byte{}, file...), sealed...)
		f3 = binary.LittleEndian.AppendUint32(f3, uint32(len(sealed)))
		e.emit("mut", "foreign-key", base+" +second-header-foreign-key", e.key, f3, ids2, nil)
		e.emit("mut", "foreign-key", base+" list-with-foreign-key", other, file, ids, nil)
	}
	// ---- length field values
	vals := []uint32{0, 1, 4, 15, 16, 31, 32, 33, 36, 37, 41, 69, 73, L - 41, L - 37, L - 16, L - 4, L - 1, L + 1, L + 4, L + 16, L + 37, L + 41,
		uint32(size) - 5, uint32(size) - 4, uint32(size) - 3, uint32(size), uint32(size) + 1, 646, 647, 648, 651, 655,
		pack.MaxHeaderSize - 5, pack.MaxHeaderSize - 4, pack.MaxHeaderSize - 3, pack.MaxHeaderSize, 1 << 24, 1 << 31, 0xFFFFFFFF, 0xFFFFFFFC, 0xFFFFFFFB,
		L | 1<<31, L + 1<<24, L << 8, L << 16, L << 24, uint32(e.rnd.Int63())}
	for i := 0; i < 8; i++ {
		vals = append(vals, uint32(e.rnd.Intn(size+8)))
	}
	for _, v := range vals {
		if v == L {
			continue
		}
		m := append([]byte{}, file...)
		binary.LittleEndian.PutUint32(m[size-4:], v)
		e.emit("mut", "lenfield", fmt.Sprintf("%s len=%d", base, v), e.key, m, ids, nil)
	}
	// ---- byte / bit mutations of the trailing header (IV, ciphertext, MAC, length field)
	pos := []int{}
	if small || thorough && hdr < 2000 {
		for i := 0; i < hdr; i++ {
			pos = append(pos, size-1-i)
		}
	} else {
		for i := 0; i < 40; i++ {
			pos = append(pos, size-1-i) // length field, MAC, end of ciphertext
		}
		for i := 0; i < 60; i++ {
			pos = append(pos, size-hdr+i) // IV, first entry
		}
		for i := 0; i < 40; i++ {
			pos = append(pos, size-1-e.rnd.Intn(hdr))
		}
	}
	for _, p := range pos {
		if p < 0 {
			continue
		}
		bits := []int{e.rnd.Intn(8)}
		if thorough && small {
			bits = []int{0, 1, 2, 3, 4, 5, 6, 7}
		}
		for _, b := range bits {
			m := append([]byte{}, file...)
			m[p] ^= 1 << b
			e.emit("mut", "bitflip", fmt.Sprintf("%s @-%d bit%d", base, size-p, b), e.key, m, ids, nil)
		}
	}
	// one flip in the blob area must not matter for the listing
	if size-hdr > 0 {
		m := append([]byte{}, file...)
		m[e.rnd.Intn(size-hdr)] ^= 0x10
		e.emit("mut", "blobarea-flip", base, e.key, m, ids, nil)
	}
	// ---- block level damage
	{
		m := append([]byte{}, file...)
		for i := 0; i < 16; i++ {
			m[size-4-16+i] = 0
		}
		e.emit("mut", "zero-mac", base, e.key, m, ids, nil)
		m = append([]byte{}, file...)
		for i := 0; i < 16; i++ {
			m[size-hdr+i] = 0
		}
		e.emit("mut", "zero-iv", base, e.key, m, ids, nil)
		if hdr >= 36+2*37 {
			m = append([]byte{}, file...)
			a, b := size-hdr+16, size-hdr+16+37
			tmp := append([]byte{}, m[a:a+37]...)
			copy(m[a:a+37], m[b:b+37])
			copy(m[b:b+37], tmp)
			e.emit("mut", "swap-entries", base, e.key, m, ids, nil)
		}
		// drop one entry's worth of ciphertext and fix the length field
		for _, cut := range []int{37, 41} {
			if hdr >= 36+cut {
				m = append([]byte{}, file[:size-4-16-cut]...)
				m = append(m, file[size-4-16:size-4]...)
				m = binary.LittleEndian.AppendUint32(m, L-uint32(cut))
				e.emit("mut", "cut-entry", fmt.Sprintf("%s cut%d", base, cut), e.key, m, ids, nil)
			}
		}
	}
}

// bound writes nPlain uncompressed entries followed by nComp compressed ones (zero-length payloads) through the
// real Packer, observing HeaderFull() on the way, and lists the result.
func (e *c06Env) bound(nPlain, nComp int) {
	n := nPlain + nComp
	defer func() {
		if p := recover(); p != nil {
			rec := map[string]any{"kind": "bound", "n_plain": nPlain, "n_comp": nComp, "panic": true, "msg": fmt.Sprint(p)}
			e.res.Violate("pack/boundary-panics", fmt.Sprintf("panic with %d+%d entries: %v", nPlain, nComp, p), rec)
		}
	}()
	var buf bytes.Buffer
	p := pack.NewPacker(e.key, &buf)
	type obs struct {
		K    int  `json:"k"`
		Full bool `json:"full"`
	}
	full := []obs{}
	var id restic.ID
	spec := func(i int) (restic.BlobType, int) {
		t := restic.DataBlob
		if i%3 == 1 {
			t = restic.TreeBlob
		}
		if i >= nPlain {
			return t, 1 + i%7
		}
		return t, 0
	}
	for i := 0; i < n; i++ {
		if i >= n-3 {
			full = append(full, obs{K: i, Full: p.HeaderFull()})
		}
		binary.LittleEndian.PutUint64(id[:], uint64(i)+1)
		t, ulen := spec(i)
		if _, err := p.Add(t, id, nil, ulen); err != nil {
			e.res.Problem("Add: %v", err)
			return
		}
	}
	full = append(full, obs{K: n, Full: p.HeaderFull()})
	finErr := p.Finalize()
	file := buf.Bytes()
	rec := map[string]any{"kind": "bound", "fam": "entry-limit", "n_plain": nPlain, "n_comp": nComp, "panic": false, "fin_err": finErr != nil,
		"full": full, "max_entries": int(pack.MaxHeaderEntries), "size": len(file), "list_err": true, "equal": false, "hdr_size": 0}
	if finErr == nil {
		entries, hdr, err := pack.List(e.key, bytes.NewReader(file), int64(len(file)))
		rec["list_err"] = err != nil
		if err == nil {
			rec["hdr_size"] = int(hdr)
			eq := len(entries) == n
			for i := 0; eq && i < n; i++ {
				binary.LittleEndian.PutUint64(id[:], uint64(i)+1)
				t, ulen := spec(i)
				b := entries[i]
				eq = b.Type == t && b.ID == id && b.Length == 0 && b.Offset == 0 && int(b.UncompressedLength) == ulen
			}
			rec["equal"] = eq
		}
	} else {
		m := finErr.Error()
		if len(m) > 120 {
			m = m[:120]
		}
		rec["fin_msg"] = m
	}
	e.recs.Write(rec)
	e.n["bound/entry-limit"]++
	e.res.Case(fmt.Sprintf("bound|%d|%d", nPlain, nComp), true)
}

func TestVerif_C06(t *testing.T) {
	res := kit.NewResult("one case = one pack file (written by the real Packer, hand-built after doc/design.rst, or a mutation of one: truncation, extension, length-field value, bit flip, malformed plaintext header, foreign key, entry-limit pack) listed by the real pack.List; distinct by (kind, mutation family, concrete description, outcome class); all counted cases are non-trivial except the empty pack")
	recs := kit.NewNDJSON("recs.ndjson")
	defer recs.Close()
	e := &c06Env{key: crypto.NewRandomKey(), rnd: kit.Rand(6), res: res, recs: recs, auth: map[string][]c06Item{}, n: map[string]int{}}
	thorough := kit.Thorough()

	// ---------------- A: exhaustive short sequences through the real Packer
	type opt struct {
		t    restic.BlobType
		len  int
		comp bool
	}
	var opts []opt
	for _, tp := range []restic.BlobType{restic.DataBlob, restic.TreeBlob} {
		for _, c := range []bool{false, true} {
			for _, l := range []int{0, 33, 100} {
				opts = append(opts, opt{tp, l, c})
			}
		}
	}
	mk := func(idx []int) []c06Spec {
		ss := []c06Spec{}
		for _, i := range idx {
			o := opts[i]
			ul := 0
			if o.comp {
				ul = []int{1, o.len, 4096, 1 << 24}[e.rnd.Intn(4)]
				if ul == 0 {
					ul = 5
				}
			}
			ss = append(ss, c06Spec{o.t, o.len, ul})
		}
		return ss
	}
	e.roundtrip("exhaustive", "empty", nil, 0)
	maxN := kit.Pick(3, 4)
	var rec func(idx []int)
	rec = func(idx []int) {
		if len(idx) > 0 {
			ss := mk(idx)
			e.roundtrip("exhaustive", c06SpecDesc(ss), ss, 0)
		}
		if len(idx) == maxN {
			return
		}
		for i := range opts {
			rec(append(append([]int{}, idx...), i))
		}
	}
	rec(nil)
	if !thorough {
		for i := 0; i < 400; i++ {
			idx := []int{e.rnd.Intn(12), e.rnd.Intn(12), e.rnd.Intn(12), e.rnd.Intn(12)}
			if i%2 == 0 {
				idx = append(idx, e.rnd.Intn(12))
			}
			ss := mk(idx)
			e.roundtrip("sampled", c06SpecDesc(ss), ss, 0)
		}
	}
	// ---------------- B: random longer sequences (around the eager-read boundary of 15 entries), with Merge
	lens := []int{0, 1, 31, 32, 33, 100, 4096}
	for i := 0; i < kit.Pick(300, 3000); i++ {
		n := 1 + e.rnd.Intn(45)
		if i%3 == 0 {
			n = 12 + e.rnd.Intn(9)
		}
		mode := e.rnd.Intn(4) // 0 all plain, 1 all compressed, 2/3 mixed
		ss := []c06Spec{}
		for j := 0; j < n; j++ {
			l := lens[e.rnd.Intn(len(lens))]
			if e.rnd.Intn(4) == 0 {
				l = e.rnd.Intn(20000)
			}
			if i%97 == 5 && j == 0 {
				l = 1<<20 + e.rnd.Intn(100)
			}
			ul := 0
			if mode == 1 || mode >= 2 && e.rnd.Intn(2) == 0 {
				ul = 1 + e.rnd.Intn(1<<24)
				if e.rnd.Intn(5) == 0 {
					ul = l + 1
				}
			}
			tp := restic.DataBlob
			if e.rnd.Intn(2) == 0 {
				tp = restic.TreeBlob
			}
			ss = append(ss, c06Spec{tp, l, ul})
		}
		split := 0
		if i%5 == 0 && n > 1 {
			split = 1 + e.rnd.Intn(n-1)
		}
		e.roundtrip("random", fmt.Sprintf("n=%d mode=%d split=%d #%d", n, mode, split, i), ss, split)
	}
	for _, n := range []int{13, 14, 15, 16, 17, 18} {
		for _, c := range []bool{false, true} {
			ss := []c06Spec{}
			for j := 0; j < n; j++ {
				ul := 0
				if c {
					ul = 77
				}
				ss = append(ss, c06Spec{restic.DataBlob, j, ul})
			}
			e.roundtrip("eager-boundary", fmt.Sprintf("n=%d compressed=%v", n, c), ss, 0)
		}
	}

	// ---------------- C: hand-built headers (well-formed and malformed plaintext) after the documentation
	tbs := []byte{0, 1, 2, 3, 4, 255}
	var recH func(es []c06Entry)
	handN := 0
	recH = func(es []c06Entry) {
		if len(es) > 0 {
			last := es[len(es)-1]
			ns := []int{c06Full(last.tb), 1, 5, 36}
			if last.tb == 2 || last.tb == 3 {
				ns = append(ns, 37, 40)
			}
			for _, n := range ns {
				c := append([]c06Entry{}, es...)
				c[len(c)-1].n = n
				file, ids := e.hand(c, true)
				e.emit("hand", "plaintext", c06Desc(c), e.key, file, ids, nil)
				handN++
			}
		}
		if len(es) == 3 {
			return
		}
		for _, tb := range tbs {
			l := uint32([]int{0, 50, 33}[e.rnd.Intn(3)])
			ne := c06Entry{tb: tb, length: l, n: c06Full(tb)}
			if tb == 2 || tb == 3 {
				ne.ulen = uint32([]int{0, 1, 50, 1 << 24}[e.rnd.Intn(4)])
			}
			recH(append(append([]c06Entry{}, es...), ne))
		}
	}
	recH(nil)
	res.Count("hand_exhaustive_headers", handN)
	// no entries at all, blob areas of several sizes
	for _, blob := range []int{0, 1, 36, 37, 38, 41, 100} {
		sealed := c06Seal(e.key, nil)
		e.auth[string(sealed)] = []c06Item{}
		file := append(e.randBytes(blob), sealed...)
		file = binary.LittleEndian.AppendUint32(file, 32)
		e.emit("hand", "no-entries", fmt.Sprintf("blobarea=%d", blob), e.key, file, map[restic.ID]int{}, nil)
	}
	// long hand-built headers around the eager boundary: well-formed, a bad type byte somewhere, a trailing fragment,
	// large length values, inconsistent blob area
	for i := 0; i < kit.Pick(300, 3000); i++ {
		n := 10 + e.rnd.Intn(12)
		if i%4 == 0 {
			n = 1 + e.rnd.Intn(40)
		}
		es := []c06Entry{}
		mode := e.rnd.Intn(4)
		for j := 0; j < n; j++ {
			tb := byte(e.rnd.Intn(4))
			if mode == 0 {
				tb &= 1
			} else if mode == 1 {
				tb |= 2
			}
			l := uint32(e.rnd.Intn(300))
			ne := c06Entry{tb: tb, length: l, n: c06Full(tb)}
			if tb >= 2 {
				ne.ulen = uint32(e.rnd.Intn(1 << 24))
			}
			es = append(es, ne)
		}
		defect := e.rnd.Intn(5)
		consistent := true
		switch defect {
		case 1:
			es[e.rnd.Intn(n)].tb = byte(4 + e.rnd.Intn(252))
		case 2:
			es[n-1].n = 1 + e.rnd.Intn(c06Full(es[n-1].tb)-1)
		case 3:
			es[e.rnd.Intn(n)].length = uint32(1<<20 + e.rnd.Intn(1<<25)) // lengths larger than the file
		case 4:
			consistent = false
		}
		// normalise n of entries whose type byte was changed
		for j := range es {
			if j < n-1 || defect != 2 {
				es[j].n = c06Full(es[j].tb)
			}
		}
		if defect == 1 {
			// a changed type byte changes the layout of that entry only when it was a compressed one; keep ulen 0 there
			for j := range es {
				if es[j].tb > 3 {
					es[j].ulen = 0
				}
			}
		}
		file, ids := e.hand(es, consistent)
		e.emit("hand", fmt.Sprintf("long-defect%d", defect), fmt.Sprintf("n=%d mode=%d #%d", n, mode, i), e.key, file, ids, nil)
	}

	// ---------------- D: mutations of the trailing header of packs written by the real Packer
	type base struct {
		name  string
		specs []c06Spec
		small bool
	}
	rep := func(n int, s ...c06Spec) []c06Spec {
		out := []c06Spec{}
		for i := 0; i < n; i++ {
			out = append(out, s[i%len(s)])
		}
		return out
	}
	bases := []base{
		{"1plain-len0", []c06Spec{{restic.DataBlob, 0, 0}}, true},
		{"1plain", []c06Spec{{restic.DataBlob, 50, 0}}, true},
		{"1comp", []c06Spec{{restic.TreeBlob, 40, 90}}, true},
		{"3mixed", []c06Spec{{restic.DataBlob, 33, 0}, {restic.TreeBlob, 70, 200}, {restic.DataBlob, 0, 0}}, true},
		{"15comp", rep(15, c06Spec{restic.DataBlob, 20, 40}), false},
		{"16comp", rep(16, c06Spec{restic.TreeBlob, 20, 40}), false},
		{"16plain", rep(16, c06Spec{restic.DataBlob, 35, 0}), false},
		{"17plain", rep(17, c06Spec{restic.DataBlob, 35, 0}), false},
		{"40mixed", rep(40, c06Spec{restic.DataBlob, 100, 0}, c06Spec{restic.DataBlob, 60, 500}), false},
	}
	for _, b := range bases {
		file, ids, _, ok := e.writePack(b.specs, 0)
		if !ok {
			continue
		}
		hdr := 36
		for _, s := range b.specs {
			if s.ulen != 0 {
				hdr += 41
			} else {
				hdr += 37
			}
		}
		o := e.emit("mut", "identity", b.name, e.key, file, ids, nil)
		if o.Err {
			continue // the record already fails RecOK; mutations of a broken base say nothing
		}
		e.mutations(b.name, file, ids, hdr, b.small)
	}

	// ---------------- E: packs at the header-entry limit
	me := int(pack.MaxHeaderEntries)
	for _, n := range []int{me - 1, me, me + 1} {
		e.bound(0, n)
	}
	docMax := (16*1024*1024 + 4 - 36) / 41 // limit computed from the documented layout, independent of pack.MaxHeaderEntries
	if docMax != me {
		for _, n := range []int{docMax - 1, docMax, docMax + 1} {
			e.bound(0, n)
		}
	}
	plainMax := (16*1024*1024 + 4 - 36) / 37
	for _, n := range []int{plainMax, plainMax + 1} {
		e.bound(n, 0)
	}
	// 453423 plain + 13 compressed entries: the header is exactly MaxHeaderSize bytes long (36 + 37a + 41b = 16 MiB + 4)
	e.bound(453423, 13)
	e.bound(453424, 13)
	if thorough {
		e.bound(0, docMax-2)
		e.bound(0, docMax+2)
		e.bound(plainMax-1, 0)
		e.bound(400000, 0)
		e.bound(453422, 13)
		e.bound(453423, 14)
		e.bound(200000, 200000)
	}

	for k, v := range e.n {
		res.Count("records_"+k, v)
	}
	res.Count("authentic_messages", len(e.auth))
	res.Sample(map[string]any{"kind": "mut", "fam": "lenfield", "desc": "3mixed len=" + fmt.Sprint(36+37+41+37-4-37)})
	res.Sample(map[string]any{"kind": "bound", "n_plain": 0, "n_comp": me})
	res.Save("")
}
