package repository

import "bytes"

func bytesReaderAt(b []byte) *bytes.Reader { return bytes.NewReader(b) }
