package repository

import (
	"bufio"
	"bytes"
	"context"
	"encoding/json"
	"fmt"
	"math/rand"
	"os"
	"sort"
	"strconv"
	"testing"

	"github.com/restic/restic/internal/backend/mem"
	"github.com/restic/restic/internal/repository/index"
	"github.com/restic/restic/internal/repository/pack"
	"github.com/restic/restic/internal/restic"
	kit "github.com/restic/restic/internal/verifkit"
)

// C08: the loaded index matches exactly the index files in the repository.
// TLC (IndexLoadGen) enumerates every valid history of adding / removing index files and reloading; each history is
// replayed for several file contents (layouts): a writer saves / removes real index files on a mem backend, a
// long-lived Repository reloads incrementally, and at every reload its LookupBlob / LookupBlobSize / ListBlobs are
// recorded next to those of a freshly opened Repository.  Fn_IndexLoad!RecOK (TLC) judges the records.  Codec
// records (Encode -> DecodeIndex, SaveIndex -> LoadIndex) carry entry values up to 2^32-1.

// entry = [blob, pack, offset, length, uncompressed length, plaintext size], numbers as decimal strings
type c08Entry [6]string

type c08Look struct {
	Ents  []c08Entry
	Found bool
	Size  string
}

func (l c08Look) MarshalJSON() ([]byte, error) { return json.Marshal([]any{l.Ents, l.Found, l.Size}) }

type c08Obs struct {
	Inc       []c08Look  `json:"inc"`
	Fresh     []c08Look  `json:"fresh"`
	IncList   []c08Entry `json:"inc_list"`
	FreshList []c08Entry `json:"fresh_list"`
}

type c08Step struct {
	Op  string   `json:"op"`
	F   string   `json:"f"`
	Obs []c08Obs `json:"obs"`
}

type c08Rec struct {
	Kind   string                `json:"kind"`
	Layout string                `json:"layout"`
	Files  map[string][]c08Entry `json:"files"`
	Blobs  []string              `json:"blobs"`
	Steps  []c08Step             `json:"steps"`
	Error  string                `json:"error"`
}

type c08Codec struct {
	Kind  string     `json:"kind"`
	Via   string     `json:"via"`
	In    []c08Entry `json:"in"`
	Out   []c08Entry `json:"out"`
	Error string     `json:"error"`
}

var c08Blobs = []string{"b1", "b2", "b3", "t1"}
var c08Packs = []string{"p1", "p2", "p3"}

func c08Handle(tok string) restic.BlobHandle {
	switch tok {
	case "t1": // tree blob with the ID of b1
		return restic.BlobHandle{ID: restic.Hash([]byte("c08/b1")), Type: restic.TreeBlob}
	}
	return restic.BlobHandle{ID: restic.Hash([]byte("c08/" + tok)), Type: restic.DataBlob}
}

func c08PackID(tok string) restic.ID { return restic.Hash([]byte("c08/pack/" + tok)) }

func c08PSize(length, ulen uint64) uint64 {
	if ulen != 0 {
		return ulen
	}
	return length - 32 // encryption overhead: 16 bytes nonce + 16 bytes MAC
}

func c08E(b, p string, off, length, ulen uint64) c08Entry {
	u := func(x uint64) string { return strconv.FormatUint(x, 10) }
	return c08Entry{b, p, u(off), u(length), u(ulen), u(c08PSize(length, ulen))}
}

const c08Max = uint64(1)<<32 - 1

func c08FixedLayout() map[string][]c08Entry {
	return map[string][]c08Entry{
		"f1": {c08E("b1", "p1", 0, 40, 0), c08E("b2", "p1", 100, 40, 0)},
		"f2": {c08E("b1", "p2", 0, 50, 8), c08E("b2", "p1", 100, 40, 0)},                                                     // b1 also in p2; b2 entry identical to f1's
		"f3": {c08E("b1", "p1", 0, 40, 0), c08E("b1", "p1", 0, 40, 0), c08E("b3", "p3", 0, 40, 0), c08E("t1", "p3", 40, 40, 0)}, // identical entry twice in one file
		"f4": {c08E("b3", "p3", 0, 40, 0), c08E("b1", "p3", c08Max, c08Max, 0), c08E("b2", "p2", 70, 60, c08Max)},            // superseding content, 32-bit limits
	}
}

func c08RandomLayout(r *rand.Rand) map[string][]c08Entry {
	variants := [][2]uint64{{40, 0}, {40, 0}, {50, 8}, {c08Max, 0}, {60, c08Max}, {33, 0}}
	for {
		l := map[string][]c08Entry{}
		for _, f := range []string{"f1", "f2", "f3", "f4"} {
			n := r.Intn(5)
			l[f] = []c08Entry{}
			for i := 0; i < n; i++ {
				v := variants[r.Intn(len(variants))]
				l[f] = append(l[f], c08E(c08Blobs[r.Intn(len(c08Blobs))], c08Packs[r.Intn(len(c08Packs))], uint64(r.Intn(2))*100, v[0], v[1]))
			}
		}
		// files are content addressed: the four files must differ
		seen := map[restic.ID]bool{}
		ok := true
		for _, f := range []string{"f1", "f2", "f3", "f4"} {
			var buf bytes.Buffer
			if err := c08Build(l[f]).Encode(&buf); err != nil {
				panic(err)
			}
			id := restic.Hash(buf.Bytes())
			if seen[id] {
				ok = false
			}
			seen[id] = true
		}
		if ok {
			return l
		}
	}
}

func c08Panics(fn func()) (msg string) {
	defer func() {
		if p := recover(); p != nil {
			msg = fmt.Sprint(p)
		}
	}()
	fn()
	return ""
}

func c08Build(ents []c08Entry) *index.Index {
	idx := index.NewIndex()
	var order []string
	by := map[string]pack.Blobs{}
	for _, e := range ents {
		if _, ok := by[e[1]]; !ok {
			order = append(order, e[1])
		}
		off, _ := strconv.ParseUint(e[2], 10, 64)
		l, _ := strconv.ParseUint(e[3], 10, 64)
		u, _ := strconv.ParseUint(e[4], 10, 64)
		by[e[1]] = append(by[e[1]], pack.Blob{BlobHandle: c08Handle(e[0]), Offset: uint(off), Length: uint(l), UncompressedLength: uint(u)})
	}
	for _, p := range order {
		idx.StorePack(c08PackID(p), by[p])
	}
	return idx
}

type c08Tok struct {
	blob map[restic.BlobHandle]string
	pack map[restic.ID]string
}

func newC08Tok() *c08Tok {
	t := &c08Tok{blob: map[restic.BlobHandle]string{}, pack: map[restic.ID]string{}}
	for _, b := range c08Blobs {
		t.blob[c08Handle(b)] = b
	}
	for _, p := range c08Packs {
		t.pack[c08PackID(p)] = p
	}
	return t
}

func (t *c08Tok) entry(pb restic.PackBlob) c08Entry {
	u := func(x uint) string { return strconv.FormatUint(uint64(x), 10) }
	b, ok := t.blob[pb.Handle()]
	if !ok {
		b = "?" + pb.Handle().String()
	}
	p, ok := t.pack[pb.PackID()]
	if !ok {
		pid := pb.PackID()
		p = "?" + pid.Str()
	}
	e := c08Entry{b, p, "?", u(pb.CiphertextLength()), "?", u(pb.PlaintextLength())}
	if ppb, ok := pb.(*pack.PackedBlob); ok {
		e[2] = u(ppb.Blob.Offset)
		e[4] = u(ppb.Blob.UncompressedLength)
	}
	return e
}

func (t *c08Tok) observe(repo *Repository) ([]c08Look, []c08Entry) {
	looks := []c08Look{}
	for _, b := range c08Blobs {
		l := c08Look{Ents: []c08Entry{}}
		for _, pb := range repo.LookupBlob(c08Handle(b)) {
			l.Ents = append(l.Ents, t.entry(pb))
		}
		size, found := repo.LookupBlobSize(c08Handle(b))
		l.Found = found
		l.Size = strconv.FormatUint(uint64(size), 10)
		looks = append(looks, l)
	}
	list := []c08Entry{}
	_ = repo.ListBlobs(context.Background(), func(pb restic.PackBlob) { list = append(list, t.entry(pb)) })
	return looks, list
}

func c08SortEntries(l []c08Entry) {
	sort.Slice(l, func(i, j int) bool { return fmt.Sprint(l[i]) < fmt.Sprint(l[j]) })
}

type c08Hist struct {
	H []struct {
		Op string `json:"op"`
		F  string `json:"f"`
	} `json:"h"`
}

func TestVerif_C08(t *testing.T) {
	res := kit.NewResult("one case = one history generated by TLC (IndexLoadGen: add an absent index file / remove a present one / reload, ending with a reload) replayed with one layout of file contents (fixed layout with the same blob in several packs, identical entries in two files and twice in one file, 32-bit limit values; random layouts) on a mem backend: at every reload the long-lived and a fresh Repository are observed (LookupBlob, LookupBlobSize, ListBlobs for all blobs); plus codec cases (Encode->DecodeIndex, SaveIndex->LoadIndex); distinct by (history, layout) / codec input; non-trivial when the history contains a reload after a removal or two reloads, codec: non-empty index")
	recs := kit.NewNDJSON("recs.ndjson")
	defer recs.Close()
	ctx := context.Background()
	// pre-flight: every entry value the layouts use (up to the 32-bit limits of the format) can be stored and
	// encoded at all; a panic of the code under test is a verdict, not a harness failure
	for _, ents := range c08FixedLayout() {
		for _, e := range ents {
			if msg := c08Panics(func() {
				var buf bytes.Buffer
				_ = c08Build([]c08Entry{e}).Encode(&buf)
				_, _ = index.DecodeIndex(buf.Bytes(), restic.ID{})
			}); msg != "" {
				res.Violate("index/entry-within-32-bit-limits-panics", fmt.Sprintf("entry %v: %s", e, msg), map[string]any{"entry": e})
				res.Save("")
				return
			}
		}
	}
	base := TestRepository(t)
	enc, dec := base.getZstdEncoder(), base.getZstdDecoder()
	open := func(be *mem.MemoryBackend) *Repository {
		r, err := New(be, Options{})
		if err != nil {
			t.Fatal(err)
		}
		r.key, r.keyID, r.cfg = base.key, base.keyID, base.cfg
		// share the (concurrency-safe, expensive to create) zstd coder of the base repository
		r.allocEnc.Do(func() { r.enc = enc })
		r.allocDec.Do(func() { r.dec = dec })
		return r
	}
	tok := newC08Tok()

	// ---- histories
	var hists []c08Hist
	vf := os.Getenv("VERIF_VECTORS")
	fh, err := os.Open(vf)
	if err != nil {
		t.Fatalf("VERIF_VECTORS: %v", err)
	}
	sc := bufio.NewScanner(fh)
	sc.Buffer(make([]byte, 1<<20), 1<<24)
	for sc.Scan() {
		var h c08Hist
		if err := json.Unmarshal(sc.Bytes(), &h); err != nil {
			t.Fatal(err)
		}
		hists = append(hists, h)
	}
	_ = fh.Close()
	sort.Slice(hists, func(i, j int) bool { return fmt.Sprint(hists[i]) < fmt.Sprint(hists[j]) })
	res.Count("histories_from_tlc", len(hists))
	r := kit.Rand(8)
	nrand := kit.Pick(2, 3)
	layouts := []map[string][]c08Entry{c08FixedLayout()}
	names := []string{"fixed"}
	for i := 0; i < nrand; i++ {
		layouts = append(layouts, c08RandomLayout(r))
		names = append(names, fmt.Sprintf("random%d", i))
	}
	budget := kit.Pick(900, 1<<30) // replays in the quick tier
	stride := 1
	if len(hists)*len(layouts) > budget {
		stride = (len(hists)*len(layouts) + budget - 1) / budget
	}
	n := 0
	for hi, h := range hists {
		for li, layout := range layouts {
			if kit.Thorough() && li != 0 && li != 1+hi%nrand {
				continue // thorough: every history with the fixed layout and one random layout (rotating)
			}
			n++
			if (n+int(kit.Seed()))%stride != 0 {
				continue
			}
			rec := c08Rec{Kind: "hist", Layout: names[li], Files: layout, Blobs: c08Blobs, Steps: []c08Step{}}
			be := mem.New()
			writer, reader := open(be), open(be)
			ids := map[string]restic.ID{}
			removedBefore, reloads, nontrivial := false, 0, false
			for _, s := range h.H {
				st := c08Step{Op: s.Op, F: s.F, Obs: []c08Obs{}}
				switch s.Op {
				case "add":
					idx := c08Build(layout[s.F])
					idx.Finalize()
					id, err := idx.SaveIndex(ctx, &internalRepository{writer})
					if err != nil {
						res.Problem("SaveIndex: %v", err)
					}
					ids[s.F] = id
				case "remove":
					if err := writer.removeUnpacked(ctx, restic.IndexFile, ids[s.F]); err != nil {
						res.Problem("remove: %v", err)
					}
					removedBefore = true
				case "reload":
					reloads++
					if removedBefore || reloads > 1 {
						nontrivial = true
					}
					fresh := open(be)
					err1 := reader.LoadIndex(ctx, restic.NoopTerminalCounterFactory)
					err2 := fresh.LoadIndex(ctx, restic.NoopTerminalCounterFactory)
					if err1 != nil || err2 != nil {
						rec.Error = fmt.Sprintf("LoadIndex: incremental %v, fresh %v", err1, err2)
						break
					}
					var o c08Obs
					o.Inc, o.IncList = tok.observe(reader)
					o.Fresh, o.FreshList = tok.observe(fresh)
					st.Obs = append(st.Obs, o)
				}
				rec.Steps = append(rec.Steps, st)
				if rec.Error != "" {
					break
				}
			}
			res.Case(fmt.Sprintf("%v|%s", h, names[li]), nontrivial)
			res.Count("reloads", reloads)
			recs.Write(rec)
		}
	}

	// ---- codec
	vals := []uint64{0, 1, 2, 33, 40, 1<<31 - 1, 1 << 31, c08Max - 1, c08Max}
	ncodec := kit.Pick(150, 3000)
	for i := 0; i < ncodec; i++ {
		var in []c08Entry
		np := 1 + r.Intn(4)
		for p := 0; p < np; p++ {
			pk := c08Packs[r.Intn(len(c08Packs))]
			for k := r.Intn(6); k > 0; k-- {
				pick := func() uint64 {
					if r.Intn(4) == 0 {
						return uint64(r.Int63n(int64(c08Max) + 1))
					}
					return vals[r.Intn(len(vals))]
				}
				length := pick()
				if length < 32 {
					length += 32
				}
				e := c08E(c08Blobs[r.Intn(len(c08Blobs))], pk, pick(), length, pick())
				in = append(in, e)
				if r.Intn(8) == 0 {
					in = append(in, e) // identical entry twice
				}
			}
		}
		if in == nil {
			in = []c08Entry{}
		}
		idx := c08Build(in)
		// (a) Encode -> DecodeIndex
		ca := c08Codec{Kind: "codec", Via: "encode-decode", In: in, Out: []c08Entry{}}
		var buf bytes.Buffer
		if err := idx.Encode(&buf); err != nil {
			ca.Error = err.Error()
		} else if dec, err := index.DecodeIndex(buf.Bytes(), restic.Hash(buf.Bytes())); err != nil {
			ca.Error = err.Error()
		} else {
			for pb := range dec.Values() {
				ca.Out = append(ca.Out, tok.entry(pb))
			}
		}
		res.Case("codec|"+fmt.Sprint(in), len(in) > 0)
		recs.Write(ca)
		// (b) SaveIndex -> LoadIndex on a fresh repository
		cb := c08Codec{Kind: "codec", Via: "save-load", In: in, Out: []c08Entry{}}
		be := mem.New()
		w := open(be)
		idx.Finalize()
		if _, err := idx.SaveIndex(ctx, &internalRepository{w}); err != nil {
			cb.Error = err.Error()
		} else {
			rd := open(be)
			if err := rd.LoadIndex(ctx, restic.NoopTerminalCounterFactory); err != nil {
				cb.Error = err.Error()
			} else {
				// loading merges the file into the master index, which drops exact duplicates: the statement's
				// "preserves every entry" is judged on distinct entries here
				_, cb.Out = tok.observe(rd)
				seen := map[c08Entry]bool{}
				dedup := []c08Entry{}
				for _, e := range in {
					if !seen[e] {
						seen[e] = true
						dedup = append(dedup, e)
					}
				}
				cb.In = dedup
			}
		}
		res.Case("codec-load|"+fmt.Sprint(in), len(in) > 0)
		recs.Write(cb)
	}
	res.Count("codec_cases", 2*ncodec)
	res.Save("")
}
